import MJ.Proofs.Undef
/-!
# C12 — stricter undefined modes only add errors; the documented matrix holds

Property theorems only (helper lemmas: `MJ/Proofs/Undef.lean`).

* the helper methods of `UndefinedBehavior` are interpreted from rows regenerated from
  `utils.rs` on every run (`MJ.Gen.undef…`), so `helpers_matrix` / `helper_mono` are re-proved
  against what the source says now;
* `mono` lifts monotonicity of single steps to runs of an abstract mode-indexed machine whose
  next step is chosen by the state alone (straight-line code, jumps and loops);
* `step_mono` shows that every instruction of the hand model of `eval_impl` (`MJ.Undef.step`)
  is such a step, `mono_vm` instantiates `mono`;
* `site_matrix` is the documented per-site table for the modelled VM sites.

Builtin filters/tests other than the few modelled in `filterGuard`/`testGuard` are **not** covered
by these theorems: for them monotonicity is validated by the differential stream only.
-/
namespace MJ.C12
open MJ.Undef

/-! ## statements -/

/-- fails (with `UndefinedError`) exactly on `bad`, succeeds otherwise -/
abbrev failsIff (r : Except Err Unit) (bad : Prop) [Decidable bad] : Prop :=
  r = if bad then .error .undefinedError else .ok ()

/-- The documented matrix of the helpers (utils.rs), on the rows extracted from the source:
  * `handle_undefined(parent_was_undefined)` fails iff the parent was undefined and the mode is
    not Chainable;
  * `is_true` fails iff Strict and the value is a (non-silent) undefined;
  * `assert_iterable`, `try_iter`, `assert_value_not_undefined`, the `Emit` test and
    `Environment::format` fail iff Strict/SemiStrict and the value is a (non-silent) undefined;
    in every other case `Environment::format` hands the value to the formatter (`ok true`) —
    also an undefined under the lenient modes and a silent undefined under every mode;
  * the `Slice` test fails iff Strict and the value is undefined (silent or not). -/
def HelpersMatrix : Prop :=
  (∀ m p, failsIff (handleUndefined m p) (p = true ∧ m ≠ .chainable)) ∧
  (∀ m k, failsIff (isTrueChk m k) (m = .strict ∧ k = .undef)) ∧
  (∀ m k, failsIff (assertIterable m k) ((m = .strict ∨ m = .semiStrict) ∧ k = .undef)) ∧
  (∀ m k, failsIff (tryIterChk m k) ((m = .strict ∨ m = .semiStrict) ∧ k = .undef)) ∧
  (∀ m k, failsIff (assertNotUndef m k) ((m = .strict ∨ m = .semiStrict) ∧ k = .undef)) ∧
  (∀ m k, failsIff (emitChk m k) ((m = .strict ∨ m = .semiStrict) ∧ k = .undef)) ∧
  (∀ m k, envFormat m k = if (m = .strict ∨ m = .semiStrict) ∧ k = .undef then .error .undefinedError else .ok true) ∧
  (∀ m k, failsIff (sliceChk m k) (m = .strict ∧ k ≠ .defined))

def isErr {α : Type} (r : Except Err α) : Prop := r = .error .undefinedError

/-- **site_matrix**.  For an undefined operand `u` (a missing variable), any state, any mode:
  1. printing fails under Strict and SemiStrict only (default or custom formatter), and otherwise
     the undefined is written by `write_escaped` resp. handed to the custom formatter (`emitVia`);
  2. iterating fails under Strict and SemiStrict only, and otherwise is an empty loop;
  3. truth tests (`if`, `not`, `and`, `or`, ternary) fail under Strict only and otherwise see false;
  4. attribute and item access on an undefined (also a silent one) fail everywhere except
     Chainable, where they give undefined; on a defined value a missing attribute gives undefined
     in every mode (so `a.b.c` with a missing `b` fails at `.c`, except under Chainable);
  5. `is defined`, `is undefined` and `default` never fail, with a mode-independent result;
  6. a *silent* undefined (`x if false`) prints (it reaches the formatter in every mode), iterates
     and truth-tests without error in every mode. -/
def SiteMatrix : Prop :=
  (∀ m (s : St) r, s.stack = .undef :: r →
      (isErr (step m .emit s) ↔ (m = .strict ∨ m = .semiStrict)) ∧
      (¬ (m = .strict ∨ m = .semiStrict) → step m .emit s = .ok (s.emitVia r .undef))) ∧
  (∀ m (s : St) r, s.stack = .undef :: r →
      (isErr (step m .pushLoop s) ↔ (m = .strict ∨ m = .semiStrict)) ∧
      (¬ (m = .strict ∨ m = .semiStrict) →
        step m .pushLoop s = .ok { s with stack := r, frames := { loop := some ([], 0) } :: s.frames }.next)) ∧
  (∀ m (s : St) r t, s.stack = .undef :: r →
      (isErr (step m (.jumpIfFalse t) s) ↔ m = .strict) ∧
      (isErr (step m .not s) ↔ m = .strict) ∧
      (isErr (step m (.jumpIfFalseOrPop t) s) ↔ m = .strict) ∧
      (isErr (step m (.jumpIfTrueOrPop t) s) ↔ m = .strict) ∧
      (m ≠ .strict → step m (.jumpIfFalse t) s = .ok { s with stack := r, pc := t } ∧
                     step m .not s = .ok { s with stack := .bool true :: r }.next)) ∧
  (∀ m (s : St) r u n, s.stack = u :: r → u.isUndefined = true →
      (isErr (step m (.getAttr n) s) ↔ m ≠ .chainable) ∧
      (m = .chainable → step m (.getAttr n) s = .ok { s with stack := .undef :: r }.next)) ∧
  (∀ m (s : St) r u k, s.stack = k :: u :: r → u.isUndefined = true →
      (isErr (step m .getItem s) ↔ m ≠ .chainable) ∧
      (m = .chainable → step m .getItem s = .ok { s with stack := .undef :: r }.next)) ∧
  (∀ m (s : St) r kvs n, s.stack = .map kvs :: r → V.mapGet kvs n = none →
      step m (.getAttr n) s = .ok { s with stack := .undef :: r }.next) ∧
  (∀ m (s : St) r v, s.stack = v :: r →
      step m (.performTest "defined" 1) s = .ok { s with stack := .bool (!v.isUndefined) :: r }.next ∧
      step m (.performTest "undefined" 1) s = .ok { s with stack := .bool v.isUndefined :: r }.next ∧
      step m (.applyFilter "default" 1) s = .ok { s with stack := (if v.isUndefined then .str "" else v) :: r }.next) ∧
  (∀ m (s : St) r v o, s.stack = o :: v :: r →
      step m (.applyFilter "default" 2) s = .ok { s with stack := (if v.isUndefined then o else v) :: r }.next) ∧
  (∀ m (s : St) r t, s.stack = .silent :: r →
      step m .emit s = .ok (s.emitVia r .silent) ∧
      step m .pushLoop s = .ok { s with stack := r, frames := { loop := some ([], 0) } :: s.frames }.next ∧
      step m (.jumpIfFalse t) s = .ok { s with stack := r, pc := t })

/-- **C12 on the model** (full strength): (1) any run of the VM model — any instruction sequence,
    any state, any number of steps — that succeeds under a mode ends in the identical final
    state, hence with the identical output, under every weaker mode; (2) the helpers are the
    documented table; (3) the per-site matrix. -/
def C12_full : Prop :=
  (∀ (code : Array Instr) (m m' : Mode), m' ≤ m → ∀ (fuel : Nat) (s r : St),
      runVm code m fuel s = .ok r → runVm code m' fuel s = .ok r) ∧
  HelpersMatrix ∧ SiteMatrix

/-! ## the helpers are the documented table -/

theorem helpers_matrix : HelpersMatrix := by
  refine ⟨?_, ?_, ?_, ?_, ?_, ?_, ?_, ?_⟩
  · intro m p; cases m <;> cases p <;> decide
  all_goals (intro m k; cases m <;> cases k <;> decide)

example : handleUndefined .lenient true = .error .undefinedError ∧ handleUndefined .chainable true = .ok () := by
  decide

/-- `helper_mono`: for `m' ≤ m` in `Chainable ≤ Lenient ≤ SemiStrict ≤ Strict`, whatever a helper
    accepts under `m` it accepts under `m'` (with the same, mode-independent, `Ok` payload):
    `ChkMono f` is `∀ m m', m' ≤ m → f m = .ok () → f m' = .ok ()`. -/
theorem helper_mono :
    (∀ p, ChkMono (handleUndefined · p)) ∧ (∀ k, ChkMono (isTrueChk · k)) ∧
    (∀ k, ChkMono (assertIterable · k)) ∧ (∀ k, ChkMono (tryIterChk · k)) ∧
    (∀ k, ChkMono (assertNotUndef · k)) ∧ (∀ k, ChkMono (emitChk · k)) ∧
    (∀ k m m' b, m' ≤ m → envFormat m k = .ok b → envFormat m' k = .ok b) ∧ (∀ k, ChkMono (sliceChk · k)) := helperMono

example : (Mode.lenient ≤ Mode.strict) ∧ assertIterable .strict .silent = .ok () ∧
    assertIterable .strict .undef ≠ .ok () ∧ assertIterable .lenient .undef = .ok () := by decide

/-! ## lifting: a run that succeeds under `m` is the same run under every weaker `m'` -/

/-- **mono** (abstract machine): if every step the program can select is `StepMono`, then a run
    that succeeds under `m` yields the identical final state under every `m' ≤ m`. -/
theorem mono {σ ε : Type} (M : Machine σ ε)
    (hstep : ∀ s f, M.next s = some f → StepMono f)
    (m m' : Mode) (h : m' ≤ m) (n : Nat) (s r : σ) :
    M.run m n s = .ok r → M.run m' n s = .ok r := by
  induction n generalizing s with
  | zero =>
    intro hr
    unfold Machine.run at hr ⊢
    cases hn : M.next s with
    | none => simpa [hn] using hr
    | some f => simp [hn] at hr
  | succ n ih =>
    intro hr
    unfold Machine.run at hr ⊢
    cases hn : M.next s with
    | none => simpa [hn] using hr
    | some f =>
      simp only [hn] at hr ⊢
      cases hf : f m s with
      | error e => simp [hf] at hr
      | ok s' =>
        simp only [hf] at hr
        rw [hstep s f hn m m' s s' h hf]
        exact ih s' hr

/-- the hypothesis of `mono` is satisfiable by a machine that really consults the mode: a
    one-instruction program printing an undefined succeeds under Lenient and fails under Strict -/
example : runVm #[.emit] .lenient 5 { stack := [.undef] } = .ok { pc := 1, stack := [], outs := [[""]] } ∧
    runVm #[.emit] .strict 5 { stack := [.undef] } = .error .undefinedError ∧
    -- through a custom formatter that shows undefined as `U`: the silent undefined reaches it under Strict too
    runVm #[.emit] .strict 5 { stack := [.silent], formatter := 2 } = .ok { pc := 1, stack := [], outs := [["U"]], formatter := 2, fmtCalls := 1 } := by
  refine ⟨?_, ?_, ?_⟩ <;> rfl

/-- **step_mono**: every modelled VM instruction satisfies `StepMono` -/
theorem step_mono (i : Instr) : StepMono (fun m s => step m i s) := by
  intro m m' s s' h hs
  simp only [step] at hs ⊢
  split at hs
  · exact stepEmit_mono m m' s s' h hs
  · cases hg : modeGuard m i s with
    | error e => simp [hg] at hs
    | ok u =>
      cases u
      have hg' : modeGuard m' i s = .ok () := modeGuard_mono i s m m' h hg
      rw [hg']
      simpa [hg] using hs

example : step .strict .not { stack := [.undef] } = .error .undefinedError ∧
    step .semiStrict .not { stack := [.undef] } = .ok { pc := 1, stack := [.bool true] } := by
  constructor <;> rfl

/-- **mono_vm**: a run of the VM model on *any* instruction sequence and state that succeeds
    under `m` ends in the identical state (same output chunks, stack, frames) under every weaker
    `m'`.  In particular the rendered output is identical. -/
theorem mono_vm (code : Array Instr) (m m' : Mode) (h : m' ≤ m) (fuel : Nat) (s r : St) :
    runVm code m fuel s = .ok r → runVm code m' fuel s = .ok r := by
  apply mono (vm code) _ m m' h
  intro s f hf
  simp only [vm] at hf
  split at hf
  · cases hf; exact step_mono _
  · cases hf

theorem mono_vm_output (code : Array Instr) (m m' : Mode) (h : m' ≤ m) (fuel : Nat) (s r : St)
    (hr : runVm code m fuel s = .ok r) :
    (runVm code m' fuel s).map St.output = .ok r.output := by
  rw [mono_vm code m m' h fuel s r hr]; rfl

/-- `{{ u }}{% if u %}x{% endif %}` as compiled: fine under Lenient, an error under SemiStrict -/
example :
    let code : Array Instr := #[.lookup "u", .emit, .lookup "u", .jumpIfFalse 5, .emitRaw "x"]
    (runVm code .lenient 10 {}).map St.output = .ok "" ∧
    (runVm code .semiStrict 10 {}).map St.output = .error .undefinedError := by
  constructor <;> decide

/-! ## the documented site matrix on the modelled VM sites -/

theorem site_matrix : SiteMatrix := by
  refine ⟨?_, ?_, ?_, ?_, ?_, ?_, ?_, ?_, ?_⟩
  · intro m s r hs
    by_cases hc : s.formatter = 0 <;> cases m <;>
      simp [step, stepEmit, hs, hc, isErr, emitChk, envFormat, V.kind, lookupRow, Mode.code,
        UK.code, MJ.Gen.undefVmEmitFails, MJ.Gen.undefEnvFormat]
  · intro m s r hs
    cases m <;> simp [step, modeGuard, exec, hs, isErr, tryIterChk, assertIterable, check, V.kind, V.iterItems, lookupRow,
      Mode.code, UK.code, MJ.Gen.undefAssertIterable, MJ.Gen.undefTryIterViaAssertIterable]
  · intro m s r t hs
    cases m <;> simp [step, modeGuard, exec, hs, isErr, isTrueChk, check, V.kind, V.isTrue, lookupRow,
      Mode.code, UK.code, MJ.Gen.undefIsTrue, St.next]
  · intro m s r u n hs hu
    cases u <;> simp [V.isUndefined, V.kind, UK.isUndefined] at hu <;>
    cases m <;> simp [step, modeGuard, exec, hs, isErr, handleUndefined, check, V.getAttr, V.isUndefined, V.kind,
      UK.isUndefined, lookupRow, Mode.code, MJ.Gen.undefHandleUndefined]
  · intro m s r u k hs hu
    cases u <;> simp [V.isUndefined, V.kind, UK.isUndefined] at hu <;>
    cases m <;> simp [step, modeGuard, exec, hs, isErr, handleUndefined, check, V.getItem, V.isUndefined, V.kind,
      UK.isUndefined, lookupRow, Mode.code, MJ.Gen.undefHandleUndefined]
  · intro m s r kvs n hs hn
    cases m <;> simp [step, modeGuard, exec, hs, hn, handleUndefined, check, V.getAttr, V.isUndefined, V.kind,
      UK.isUndefined, lookupRow, Mode.code, MJ.Gen.undefHandleUndefined]
  · intro m s r v hs
    simp [step, modeGuard, exec, hs, callArgs, filterGuard, testGuard, filterExec, testExec]
  · intro m s r v o hs
    simp [step, modeGuard, exec, hs, callArgs, filterGuard, filterExec]
  · intro m s r t hs
    by_cases hc : s.formatter = 0 <;> cases m <;>
      simp [step, stepEmit, modeGuard, exec, hs, hc, emitChk, envFormat, tryIterChk, assertIterable, isTrueChk, check, V.kind,
        V.iterItems, V.isTrue, lookupRow, Mode.code, UK.code, MJ.Gen.undefVmEmitFails,
        MJ.Gen.undefAssertIterable, MJ.Gen.undefIsTrue, MJ.Gen.undefTryIterViaAssertIterable, MJ.Gen.undefEnvFormat]

/-- the nested chain `{{ a.b.c }}` with a defined `a` and a missing `b`, as compiled -/
example :
    let code : Array Instr := #[.lookup "a", .getAttr "b", .getAttr "c", .emit]
    let s : St := { ctx := [("a", .map [("x", .int 1)])] }
    (runVm code .chainable 10 s).map St.output = .ok "" ∧
    (runVm code .lenient 10 s).map St.output = .error .undefinedError ∧
    (runVm code .strict 10 s).map St.output = .error .undefinedError := by
  refine ⟨?_, ?_, ?_⟩ <;> decide

/-! ## tie of the hand model to the call sites of `eval_impl` -/

/-- The helper calls of each instruction arm of `eval_impl` (extracted from vm/mod.rs on every
    run, macros expanded, every call of the file accounted for) are the ones `modeGuard` models, in
    that order, and there are exactly the three inline mode tests that `emitChk`/`sliceChk` model
    (`strict_undefined` = Strict | SemiStrict, and Strict in `Slice`). -/
theorem vm_sites_as_modelled :
    MJ.Gen.undefVmSites = [
      ("GetAttr", [("handle_undefined", "a.is_undefined()")]),
      ("GetItem", [("handle_undefined", "b.is_undefined()")]),
      ("Eq", [("assert_value_not_undefined", "a"), ("assert_value_not_undefined", "b")]),
      ("Ne", [("assert_value_not_undefined", "a"), ("assert_value_not_undefined", "b")]),
      ("Gt", [("assert_value_not_undefined", "a"), ("assert_value_not_undefined", "b")]),
      ("Gte", [("assert_value_not_undefined", "a"), ("assert_value_not_undefined", "b")]),
      ("Lt", [("assert_value_not_undefined", "a"), ("assert_value_not_undefined", "b")]),
      ("Lte", [("assert_value_not_undefined", "a"), ("assert_value_not_undefined", "b")]),
      ("Not", [("is_true", "a")]),
      ("StringConcat", [("assert_value_not_undefined", "b"), ("assert_value_not_undefined", "a")]),
      ("In", [("assert_iterable", "a"), ("assert_value_not_undefined", "b")]),
      ("CompareAndPreserve.Eq", [("assert_value_not_undefined", "a"), ("assert_value_not_undefined", "b")]),
      ("CompareAndPreserve.Ne", [("assert_value_not_undefined", "a"), ("assert_value_not_undefined", "b")]),
      ("CompareAndPreserve.Lt", [("assert_value_not_undefined", "a"), ("assert_value_not_undefined", "b")]),
      ("CompareAndPreserve.Lte", [("assert_value_not_undefined", "a"), ("assert_value_not_undefined", "b")]),
      ("CompareAndPreserve.Gt", [("assert_value_not_undefined", "a"), ("assert_value_not_undefined", "b")]),
      ("CompareAndPreserve.Gte", [("assert_value_not_undefined", "a"), ("assert_value_not_undefined", "b")]),
      ("CompareAndPreserve.In", [("assert_iterable", "b"), ("assert_value_not_undefined", "a")]),
      ("CompareAndPreserve.NotIn", [("assert_iterable", "b"), ("assert_value_not_undefined", "a")]),
      ("JumpIfFalse", [("is_true", "a")]),
      ("JumpIfFalseOrPop", [("is_true", "stack.peek()")]),
      ("JumpIfTrueOrPop", [("is_true", "stack.peek()")]),
      ("fn:push_loop", [("try_iter", "iterable")]),
      ("fn:merge_kwargs", [("assert_iterable", "value")])] ∧
    MJ.Gen.undefVmInlineModeTests = 3 ∧ MJ.Gen.undefModeCount = 4 ∧
    MJ.Gen.undefDefaultMode = Mode.lenient.code := ⟨rfl, rfl, rfl, rfl⟩

/-! ## full statement -/

theorem C12_holds : C12_full := ⟨mono_vm, helpers_matrix, site_matrix⟩

/-- the full statement is not vacuous: a strict run that succeeds (and consults the mode at every
    step: a defined value is printed, tested, iterated) and the same run under Chainable -/
example :
    let code : Array Instr := #[.lookup "a", .getAttr "x", .emit, .lookup "a", .jumpIfFalse 6, .emitRaw "t",
                                .lookup "a", .pushLoop, .iterate 12, .storeLocal "k", .emitRaw "i", .jump 8, .popLoopFrame]
    let s : St := { ctx := [("a", .map [("x", .int 1)])] }
    (runVm code .strict 50 s).map St.output = .ok "1ti" ∧ (runVm code .chainable 50 s).map St.output = .ok "1ti" := by
  constructor <;> decide

end MJ.C12
