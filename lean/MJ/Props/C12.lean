import MJ.Proofs.Undef
import MJ.Proofs.UndefTwins
/-!
# C12 — stricter undefined modes only add errors; the documented matrix holds

Property theorems only (helper lemmas: `MJ/Proofs/Undef.lean`).

* the helper methods of `UndefinedBehavior` are interpreted from rows regenerated from
  `utils.rs` on every run (`MJ.Gen.undef…`), so `helpers_matrix` / `helper_mono` are re-proved
  against what the source says now;
* `comp_mono` / `comp_agree` / `comp_only_adds_undefined_errors`: any computation that consults
  the mode only by asking the helpers is monotone, mode-independent in its result, and a stricter
  mode can only add `UndefinedError`s;
* `mono` lifts monotonicity of single steps to runs of an abstract mode-indexed machine whose
  next step is chosen by the state alone (straight-line code, jumps, loops, nested calls);
* `step_mono`, `mono_vm`, `mono_programs`: the VM model (`MJ.Undef.stepC`) is such a machine, for
  every choice of the mode-independent operations `Ops` it leaves abstract;
* `arg_conversion_mono`, `arg_conversion_table`, `builtin_mono_of_sig`,
  `pure_builtin_independent_after_conversion`: the argument conversion layer and every builtin
  called through its extracted signature;
* `site_matrix` is the documented per-site table for the modelled VM sites.
-/
namespace MJ.C12
open MJ.Undef

/-! ## statements -/

/-- fails (with `UndefinedError`) exactly on `bad`, succeeds otherwise -/
abbrev failsIff (r : Except Err Unit) (bad : Prop) [Decidable bad] : Prop :=
  r = if bad then .error .undefinedError else .ok ()

/-- The documented matrix of the helpers (utils.rs), on the rows extracted from the source:
  * `handle_undefined(parent_was_undefined)` fails iff the parent was undefined and the mode is
    not Chainable;
  * `is_true` fails iff Strict and the value is a (non-silent) undefined;
  * `assert_iterable`, `try_iter`, `assert_value_not_undefined`, the `Emit` test and
    `Environment::format` fail iff Strict/SemiStrict and the value is a (non-silent) undefined;
    in every other case `Environment::format` hands the value to the formatter (`ok true`) —
    also an undefined under the lenient modes and a silent undefined under every mode;
  * the `Slice` test fails iff Strict and the value is undefined (silent or not). -/
def HelpersMatrix : Prop :=
  (∀ m p, failsIff (handleUndefined m p) (p = true ∧ m ≠ .chainable)) ∧
  (∀ m k, failsIff (isTrueChk m k) (m = .strict ∧ k = .undef)) ∧
  (∀ m k, failsIff (assertIterable m k) ((m = .strict ∨ m = .semiStrict) ∧ k = .undef)) ∧
  (∀ m k, failsIff (tryIterChk m k) ((m = .strict ∨ m = .semiStrict) ∧ k = .undef)) ∧
  (∀ m k, failsIff (assertNotUndef m k) ((m = .strict ∨ m = .semiStrict) ∧ k = .undef)) ∧
  (∀ m k, failsIff (emitChk m k) ((m = .strict ∨ m = .semiStrict) ∧ k = .undef)) ∧
  (∀ m k, envFormat m k = if (m = .strict ∨ m = .semiStrict) ∧ k = .undef then .error .undefinedError else .ok true) ∧
  (∀ m k, failsIff (sliceChk m k) (m = .strict ∧ k ≠ .defined))

def isErr {α : Type} (r : Except Err α) : Prop := r = .error .undefinedError

/-- **site_matrix**.  For an undefined operand `u` (a missing variable), any state — in particular any
    output routing `s.outs`: live, capturing (block, macro, call block, set block, filter block, `import .. as`),
    discarding (top level of a child template after `{% extends %}`, module of `{% from .. import %}`) or the
    null output of `Expression::eval`; see also `emit_check_independent_of_output` —, any mode, any
    program and any choice of the abstract operations:
  1. printing fails under Strict and SemiStrict only (default or custom formatter), and otherwise
     the undefined is written by `write_escaped` resp. handed to the custom formatter (`emitVia`);
  2. iterating fails under Strict and SemiStrict only, and otherwise is an empty loop;
  3. truth tests (`if`, `not`, `and`, `or`, ternary) fail under Strict only and otherwise see false;
  4. attribute and item access on an undefined (also a silent one) fail everywhere except
     Chainable, where they give undefined; on a defined value a missing attribute gives undefined
     in every mode (so `a.b.c` with a missing `b` fails at `.c`, except under Chainable);
  5. `is defined`, `is undefined` and `default` never fail, with a mode-independent result;
  6. a *silent* undefined (`x if false`) prints (it reaches the formatter in every mode), iterates
     and truth-tests without error in every mode;
  7. spreading an undefined over the arguments of a call (`f(*u)`, `UnpackLists`) is an iteration: it fails
     under Strict and SemiStrict only, and otherwise contributes no arguments. -/
def SiteMatrix : Prop :=
  ∀ (ops : Ops) (P : Prog),
  (∀ m (s : St) r, s.stack = .undef :: r →
      (isErr (step ops P m .emit s) ↔ (m = .strict ∨ m = .semiStrict)) ∧
      (¬ (m = .strict ∨ m = .semiStrict) → step ops P m .emit s = .ok (s.emitVia r .undef))) ∧
  (∀ m (s : St) r, s.stack = .undef :: r →
      (isErr (step ops P m (.pushLoop 1) s) ↔ (m = .strict ∨ m = .semiStrict)) ∧
      (¬ (m = .strict ∨ m = .semiStrict) →
        step ops P m (.pushLoop 1) s = .ok { s with stack := r, frames := { loop := some { items := [] } } :: s.frames }.next)) ∧
  (∀ m (s : St) r t, s.stack = .undef :: r →
      (isErr (step ops P m (.jumpIfFalse t) s) ↔ m = .strict) ∧
      (isErr (step ops P m .not s) ↔ m = .strict) ∧
      (isErr (step ops P m (.jumpIfFalseOrPop t) s) ↔ m = .strict) ∧
      (isErr (step ops P m (.jumpIfTrueOrPop t) s) ↔ m = .strict) ∧
      (m ≠ .strict → step ops P m (.jumpIfFalse t) s = .ok { s with stack := r, pc := t } ∧
                     step ops P m .not s = .ok { s with stack := .bool true :: r }.next)) ∧
  (∀ m (s : St) r u n, s.stack = u :: r → u.isUndefined = true →
      (isErr (step ops P m (.getAttr n) s) ↔ m ≠ .chainable) ∧
      (m = .chainable → step ops P m (.getAttr n) s = .ok { s with stack := .undef :: r }.next)) ∧
  (∀ m (s : St) r u k, s.stack = k :: u :: r → u.isUndefined = true → k.isOpaque = false →
      (isErr (step ops P m .getItem s) ↔ m ≠ .chainable) ∧
      (m = .chainable → step ops P m .getItem s = .ok { s with stack := .undef :: r }.next)) ∧
  (∀ m (s : St) r kvs n, s.stack = .map kvs :: r → V.mapGet kvs n = none →
      step ops P m (.getAttr n) s = .ok { s with stack := .undef :: r }.next) ∧
  (∀ m (s : St) r v, s.stack = v :: r → v.isOpaque = false →
      step ops P m (.performTest "defined" 1) s = .ok { s with stack := .bool (!v.isUndefined) :: r }.next ∧
      step ops P m (.performTest "undefined" 1) s = .ok { s with stack := .bool v.isUndefined :: r }.next ∧
      step ops P m (.applyFilter "default" 1) s = .ok { s with stack := (if v.isUndefined then .str "" else v) :: r }.next) ∧
  (∀ m (s : St) r v o, s.stack = o :: v :: r → v.isOpaque = false → o.isOpaque = false →
      step ops P m (.applyFilter "default" 2) s = .ok { s with stack := (if v.isUndefined then o else v) :: r }.next) ∧
  (∀ m (s : St) r t, s.stack = .silent :: r →
      step ops P m .emit s = .ok (s.emitVia r .silent) ∧
      step ops P m (.pushLoop 1) s = .ok { s with stack := r, frames := { loop := some { items := [] } } :: s.frames }.next ∧
      step ops P m (.jumpIfFalse t) s = .ok { s with stack := r, pc := t }) ∧
  (∀ m (s : St) r, s.stack = .undef :: r →
      (isErr (step ops P m (.unpackLists 1) s) ↔ (m = .strict ∨ m = .semiStrict)) ∧
      (¬ (m = .strict ∨ m = .semiStrict) → step ops P m (.unpackLists 1) s = .ok { s with stack := .int 0 :: r }.next))

/-- **C12 on the model** (full strength): (1) any run of the VM model — any instruction lists, any
    state, any number of steps, any choice of the abstract mode-independent operations — that
    succeeds under a mode ends in the identical final state, hence with the identical output,
    under every weaker mode; (2) the helpers are the documented table; (3) the per-site matrix. -/
def C12_full : Prop :=
  (∀ (ops : Ops) (P : Prog) (m m' : Mode), m' ≤ m → ∀ (fuel : Nat) (s r : St),
      runVm ops P m fuel s = .ok r → runVm ops P m' fuel s = .ok r) ∧
  HelpersMatrix ∧ SiteMatrix

/-! ## the helpers are the documented table -/

theorem helpers_matrix : HelpersMatrix := by
  refine ⟨?_, ?_, ?_, ?_, ?_, ?_, ?_, ?_⟩
  · intro m p; cases m <;> cases p <;> decide
  all_goals (intro m k; cases m <;> cases k <;> decide)

example : handleUndefined .lenient true = .error .undefinedError ∧ handleUndefined .chainable true = .ok () := by
  decide

/-- `helper_mono`: for `m' ≤ m` in `Chainable ≤ Lenient ≤ SemiStrict ≤ Strict`, whatever a helper
    accepts under `m` it accepts under `m'` (with the same, mode-independent, `Ok` payload):
    `ChkMono f` is `∀ m m', m' ≤ m → f m = .ok () → f m' = .ok ()`. -/
theorem helper_mono :
    (∀ p, ChkMono (handleUndefined · p)) ∧ (∀ k, ChkMono (isTrueChk · k)) ∧
    (∀ k, ChkMono (assertIterable · k)) ∧ (∀ k, ChkMono (tryIterChk · k)) ∧
    (∀ k, ChkMono (assertNotUndef · k)) ∧ (∀ k, ChkMono (emitChk · k)) ∧
    (∀ k m m' b, m' ≤ m → envFormat m k = .ok b → envFormat m' k = .ok b) ∧ (∀ k, ChkMono (sliceChk · k)) := helperMono

example : (Mode.lenient ≤ Mode.strict) ∧ assertIterable .strict .silent = .ok () ∧
    assertIterable .strict .undef ≠ .ok () ∧ assertIterable .lenient .undef = .ok () := by decide

/-! ## computations that consult the mode only by asking -/

/-- **comp_mono**: a computation whose only access to the mode is asking the helpers succeeds,
    with the same result, under every mode weaker than one under which it succeeds. -/
theorem comp_mono {α : Type} (c : Comp α) (m m' : Mode) (h : m' ≤ m) (a : α) :
    c.run m = .ok a → c.run m' = .ok a := Comp.run_mono c m m' h a

/-- **comp_agree**: whatever two modes it succeeds under, the result is the same. -/
theorem comp_agree {α : Type} (c : Comp α) (m m' : Mode) (a a' : α) :
    c.run m = .ok a → c.run m' = .ok a' → a = a' := Comp.run_agree c m m' a a'

/-- **comp_only_adds_undefined_errors**: if it fails under one mode and succeeds under another,
    the failure is the `UndefinedError` of one of its questions as that question reports it
    (`AskErr`: a helper's `UndefinedError`, possibly rewritten by a `.map_err(..)` around the helper
    call or wrapped as `BadInclude`); it is exactly `UndefinedError` when no question rewrites. -/
theorem comp_only_adds_undefined_errors {α : Type} (c : Comp α) (m m' : Mode) (e : Err) (a : α) :
    c.run m = .error e → c.run m' = .ok a → c.AskErr e ∧ (c.PlainAsks → e = .undefinedError) := fun h h' =>
  ⟨Comp.run_err_of_ok c m m' e a h h', fun hp => Comp.askErr_of_plain c hp e (Comp.run_err_of_ok c m m' e a h h')⟩

/-- a computation that really depends on the mode: truth-testing an undefined -/
example : (Comp.chk (.isTrue .undef)).run .strict = .error .undefinedError ∧
    (Comp.chk (.isTrue .undef)).run .semiStrict = .ok () := by decide

/-! ## the argument conversion layer and the builtins -/

/-- **arg_conversion_mono**: converting the arguments of a call (`FunctionArgs::from_values`,
    interpreted from the extracted `ArgType` table) only adds errors with strictness, for every
    signature, every argument list and every choice of the mode-independent conversions. -/
theorem arg_conversion_mono (ops : Ops) (sig : List ArgTy) (args : List V) (m m' : Mode) (h : m' ≤ m) :
    (convCall ops sig args).run m = .ok () → (convCall ops sig args).run m' = .ok () :=
  Comp.run_mono _ m m' h ()

/-- **arg_conversion_table**: what the extracted table says, argument type by argument type:
    `String`, `Cow<str>` and `StringInput` ask `assert_value_not_undefined`; `Value`, `&Value`,
    `&str`, the integers, `bool`, `Kwargs` never consult the mode; `Option<T>` drops the state
    (so `Option<String>` never asks); `Rest<T>` forwards it to every element; the elements of a
    `Vec<T>` are converted with the owned conversion, which checks for `String` only. -/
theorem arg_conversion_table (v : V) :
    (∀ t ∈ ["String", "Cow<str>", "StringInput"], (ArgTy.base t).asks v = [.assertNotUndef v.kind]) ∧
    (∀ t ∈ ["Value", "&Value", "&str", "i64", "usize", "isize", "u32", "bool", "f64", "Kwargs", "ValueOrKwargs"],
        (ArgTy.base t).asks v = []) ∧
    (∀ t, (ArgTy.opt t).asks v = []) ∧
    (ArgTy.rest (.base "String")).asks v = [.assertNotUndef v.kind] ∧
    (ArgTy.rest (.base "Value")).asks v = [] ∧
    (∀ xs, (ArgTy.vec (.base "String")).asks (.seq xs) = xs.flatMap (fun x => [.assertNotUndef x.kind])) ∧
    (∀ xs, (ArgTy.vec (.base "Cow<str>")).asks (.seq xs) = xs.flatMap (fun _ => [])) := by
  have hc1 : ∀ t ∈ ["String", "Cow<str>", "StringInput"], ((argTypeCode t).getD (0, 0)).1 = 1 := by decide
  have hc0 : ∀ t ∈ ["Value", "&Value", "&str", "i64", "usize", "isize", "u32", "bool", "f64", "Kwargs", "ValueOrKwargs"],
      ((argTypeCode t).getD (0, 0)).1 = 0 := by decide
  have hw : wrapperForwards "Option<T>" = false ∧ wrapperForwards "Rest<T>" = true ∧ wrapperForwards "Vec<T>" = true := by decide
  have ho : ((argTypeCode "String").getD (0, 0)).2 = 1 ∧ ((argTypeCode "Cow<str>").getD (0, 0)).2 = 0 := by decide
  refine ⟨?_, ?_, ?_, ?_, ?_, ?_, ?_⟩
  · intro t ht; simp [ArgTy.asks, hc1 t ht]
  · intro t ht; simp [ArgTy.asks, hc0 t ht]
  · intro t; simp [ArgTy.asks, hw.1]
  · simp [ArgTy.asks, hw.2.1, hc1 "String" (by simp)]
  · simp [ArgTy.asks, hw.2.1, hc0 "Value" (by simp)]
  · intro xs
    have hf : (ArgTy.base "String").asksOwned = fun x => [HQ.assertNotUndef x.kind] := by
      funext x; simp [ArgTy.asksOwned, ho.1]
    simp [ArgTy.asks, hw.2.2, hf]
  · intro xs
    have hf : (ArgTy.base "Cow<str>").asksOwned = fun _ => [] := by
      funext x; simp [ArgTy.asksOwned, ho.2]
    simp [ArgTy.asks, hw.2.2, hf]

/-- **conversion_consults_mode_only_by_assert_not_undef**: whatever the signature and the arguments,
    the only question the conversion layer of a call puts to the undefined behaviour is
    `assert_value_not_undefined` (about an argument, or about the items of a list converted to `Vec<T>`). -/
theorem conversion_consults_mode_only_by_assert_not_undef (ops : Ops) (sig : List ArgTy) (args : List V) :
    (convCall ops sig args).AllAsks isAssertNotUndef := convCall_assert ops sig args

/-- **conversion_mode_classes**: hence the conversion layer of *any* call (of a builtin, of a filter added by
    minijinja-contrib or by the application) has exactly two behaviours: the one of Strict = SemiStrict and the
    one of Lenient = Chainable, and under the latter two it never fails at a question. -/
theorem conversion_mode_classes (ops : Ops) (sig : List ArgTy) (args : List V) :
    (convCall ops sig args).run .strict = (convCall ops sig args).run .semiStrict ∧
    (convCall ops sig args).run .lenient = (convCall ops sig args).run .chainable ∧
    (convCall ops sig args).failsAtAsk .lenient = false ∧ (convCall ops sig args).failsAtAsk .chainable = false := by
  have h := convCall_assert ops sig args
  have hq : ∀ (m m' : Mode) (q : HQ), ((m = .strict ∧ m' = .semiStrict) ∨ (m = .lenient ∧ m' = .chainable)) →
      isAssertNotUndef q → q.run m = q.run m' := by
    intro m m' q hm hq
    cases q <;> simp [isAssertNotUndef] at hq
    rename_i k
    rcases hm with ⟨rfl, rfl⟩ | ⟨rfl, rfl⟩ <;> cases k <;> decide
  have hl : ∀ (m : Mode) (q : HQ), (m = .lenient ∨ m = .chainable) → isAssertNotUndef q → ∃ b, q.run m = .ok b := by
    intro m q hm hq
    cases q <;> simp [isAssertNotUndef] at hq
    rename_i k
    rcases hm with rfl | rfl <;> cases k <;> exact ⟨true, by decide⟩
  exact ⟨(Comp.run_congr _ _ _ (Comp.allAsks_mono _ _ (hq _ _ · (Or.inl ⟨rfl, rfl⟩)) _ h)).1,
         (Comp.run_congr _ _ _ (Comp.allAsks_mono _ _ (hq _ _ · (Or.inr ⟨rfl, rfl⟩)) _ h)).1,
         Comp.not_failsAtAsk _ _ (Comp.allAsks_mono _ _ (hl _ · (Or.inl rfl)) _ h),
         Comp.not_failsAtAsk _ _ (Comp.allAsks_mono _ _ (hl _ · (Or.inr rfl)) _ h)⟩

/-- the two classes really differ: `{{ u|upper }}` -/
example : (convCall Ops.convOnly [.base "StringInput"] [.undef]).run .semiStrict ≠
    (convCall Ops.convOnly [.base "StringInput"] [.undef]).run .lenient := by decide

/-- **param_consults_iff**: a parameter type for which `ArgTy.consults` is false asks nothing whatever the
    argument; one for which it is true asks for some (defined) argument — so `consultingParams` lists exactly
    the parameters of a signature whose conversion can depend on the mode. -/
theorem param_consults_iff (t : ArgTy) :
    (t.consults = false → ∀ v, t.asks v = []) ∧ (t.consults = true → ∃ v : V, v.kind = .defined ∧ v ≠ .none ∧ t.asks v ≠ []) :=
  ⟨asks_nil_of_not_consults t, consults_witness t⟩

example : (ArgTy.opt (.base "StringInput")).consults = false ∧ (ArgTy.vec (.base "String")).consults = true ∧
    (ArgTy.vec (.base "Cow<str>")).consults = false ∧ (ArgTy.rest (.base "String")).consults = true := by decide

/-- **builtin_params_consulting_mode** — the table of parameter types of all registered builtins (regenerated
    from filters.rs / tests.rs / functions.rs on every run) and of everything minijinja-contrib registers
    (its filters / globals): every parameter type is a known `ArgType` impl, and the parameters whose
    conversion can consult the mode are exactly the listed positions (`String`, `Cow<str>`, `StringInput`
    receivers and arguments; an `Option<..>` drops the state).  A builtin that starts to take its argument
    through a checking conversion, or stops doing so, changes this table.  The sources of the contrib filters
    and globals never reach the mode; pycompat's method callback does so through `StringInput::new` only. -/
theorem builtin_params_consulting_mode :
    consultingTable MJ.Gen.undefBuiltinSigs = [
      ("filter", "safe", [0]), ("filter", "lower", [0]), ("filter", "upper", [0]), ("filter", "title", [0]),
      ("filter", "capitalize", [0]), ("filter", "replace", [0, 1, 2]), ("filter", "trim", [0]), ("filter", "indent", [0]),
      ("filter", "selectattr", [1]), ("filter", "rejectattr", [1]),
      ("test", "startingwith", [0, 1]), ("test", "endingwith", [0, 1])] ∧
    consultingTable MJ.Gen.undefContribSigs = [("filter", "striptags", [0])] ∧
    MJ.Gen.undefBuiltinSigs.all (fun r => sigKnown r.1 r.2.1) = true ∧
    MJ.Gen.undefContribSigs.all (fun r => match contribSigOf r.1 r.2.1 with
      | some (sig, reach) => sig.all ArgTy.known && reach.isEmpty && r.2.2.2.2.isEmpty
      | none => false) = true ∧
    MJ.Gen.undefContribSigs.map (fun r => r.2.1) = ["pluralize", "filesizeformat", "truncate", "striptags", "wordcount",
      "wordwrap", "datetimeformat", "timeformat", "dateformat", "now", "random", "lipsum", "randrange", "cycler", "joiner"] ∧
    MJ.Gen.undefPycompatReach = (["StringInput::new"], []) := by decide

/-- **builtin_mono_of_sig**: a call of a registered builtin — conversion layer from its extracted
    signature, then its body (a hand model of its helper questions, nested calls included, or a
    mode-independent function when its source never reaches the mode) — only adds
    errors with strictness; and two modes under which it succeeds return the same value. -/
theorem builtin_mono_of_sig (ops : Ops) (kind name : String) (args : List V) (c : Comp V)
    (hc : callBuiltin ops kind name args = some c) (m m' : Mode) :
    (m' ≤ m → ∀ y, c.run m = .ok y → c.run m' = .ok y) ∧
    (∀ y y', c.run m = .ok y → c.run m' = .ok y' → y = y') ∧
    (∀ e y, c.run m = .error e → c.run m' = .ok y → c.AskErr e) := by
  have _ := hc
  exact ⟨fun h y => Comp.run_mono c m m' h y, fun y y' => Comp.run_agree c m m' y y',
         fun e y => Comp.run_err_of_ok c m m' e y⟩

/-- **builtin_failing_modes_upward_closed**: the modes in which a call of a registered builtin
    fails at a helper question — in its argument conversion, in the hand-modelled questions of its
    body, or in a nested filter / test call — form an upward closed set, and in each of them the call
    is an error (this is what the check compares with the engine for every call of the `call` /
    `sweep` streams). -/
theorem builtin_failing_modes_upward_closed (ops : Ops) (kind name : String) (args : List V) (c : Comp V)
    (_hc : callBuiltin ops kind name args = some c) (m m' : Mode) (h : m' ≤ m) :
    (c.failsAtAsk m' = true → c.failsAtAsk m = true) ∧ (c.failsAtAsk m = true → ∃ e, c.run m = .error e) :=
  ⟨Comp.failsAtAsk_mono c m m' h, Comp.run_of_failsAtAsk c m⟩

/-- `[1, u]|map('upper')`: the nested `upper` asks for its undefined item — fails at a question under
    SemiStrict and Strict, not under Lenient; `u|sort` asks `try_iter` -/
example :
    (match callBuiltin Ops.convOnly "filter" "map" [.seq [.int 1, .undef], .str "upper"] with
      | some c => Mode.all.map c.failsAtAsk | none => []) = [false, false, true, true] ∧
    (match callBuiltin Ops.convOnly "filter" "sort" [.undef] with
      | some c => Mode.all.map c.failsAtAsk | none => []) = [false, false, true, true] ∧
    (match callBuiltin Ops.convOnly "filter" "select" [.seq [.int 1], .str "in", .undef] with
      | some c => Mode.all.map c.failsAtAsk | none => []) = [false, false, true, true] := by decide

/-- **pure_builtin_independent_after_conversion**: for a builtin whose source never reaches the
    mode (its body is a function of the arguments), all modes under which the argument conversion
    passes give the same outcome — the same value or the same error. -/
theorem pure_builtin_independent_after_conversion (ops : Ops) (sig : List ArgTy) (args : List V)
    (body : List V → Except Err V) (m m' : Mode)
    (hm : (convCall ops sig args).run m = .ok ()) (hm' : (convCall ops sig args).run m' = .ok ()) :
    (Comp.bind (convCall ops sig args) (fun _ => Comp.ofExcept (body args))).run m =
    (Comp.bind (convCall ops sig args) (fun _ => Comp.ofExcept (body args))).run m' := by
  rw [Comp.run_bind, Comp.run_bind, hm, hm']
  simp [Comp.run_ofExcept]

/-- `{{ u|upper }}`: the `StringInput` conversion of the extracted signature fails under Strict and
    SemiStrict, passes under Lenient and Chainable; `{{ l|join(u) }}` (`Option<StringInput>`) never asks -/
example :
    (convCall Ops.convOnly [.base "StringInput"] [.undef]).run .semiStrict = .error .undefinedError ∧
    (convCall Ops.convOnly [.base "StringInput"] [.undef]).run .lenient = .ok () ∧
    (convCall Ops.convOnly [.base "&Value", .opt (.base "StringInput")] [.seq [], .undef]).run .strict = .ok () := by decide

/-! ## lifting: a run that succeeds under `m` is the same run under every weaker `m'` -/

/-- **mono** (abstract machine): if every step the program can select is `StepMono`, then a run
    that succeeds under `m` yields the identical final state under every `m' ≤ m`. -/
theorem mono {σ ε : Type} (M : Machine σ ε)
    (hstep : ∀ s f, M.next s = some f → StepMono f)
    (m m' : Mode) (h : m' ≤ m) (n : Nat) (s r : σ) :
    M.run m n s = .ok r → M.run m' n s = .ok r := by
  induction n generalizing s with
  | zero =>
    intro hr
    unfold Machine.run at hr ⊢
    cases hn : M.next s with
    | none => simpa [hn] using hr
    | some f => simp [hn] at hr
  | succ n ih =>
    intro hr
    unfold Machine.run at hr ⊢
    cases hn : M.next s with
    | none => simpa [hn] using hr
    | some f =>
      simp only [hn] at hr ⊢
      cases hf : f m s with
      | error e => simp [hf] at hr
      | ok s' =>
        simp only [hf] at hr
        rw [hstep s f hn m m' s s' h hf]
        exact ih s' hr

/-- **strict_failure_is_a_step_failure** (abstract machine, all steps `StepMono`): if the run fails
    under `m` but succeeds under a weaker `m'`, then both runs are in the same state `s` when the
    `m`-run fails, and the step taken there fails under `m` and succeeds under `m'` — the stricter
    mode added exactly that error, nothing before it differs. -/
theorem strict_failure_is_a_step_failure {σ ε : Type} (M : Machine σ ε)
    (hstep : ∀ s f, M.next s = some f → StepMono f)
    (m m' : Mode) (h : m' ≤ m) (n : Nat) (s r : σ) (e : ε) :
    M.run m n s = .error e → M.run m' n s = .ok r →
    ∃ s₀ f s₁, M.next s₀ = some f ∧ f m s₀ = .error e ∧ f m' s₀ = .ok s₁ := by
  induction n generalizing s with
  | zero =>
    intro hm hm'
    unfold Machine.run at hm hm'
    cases hn : M.next s with
    | none => simp [hn] at hm
    | some f => simp [hn] at hm'
  | succ n ih =>
    intro hm hm'
    unfold Machine.run at hm hm'
    cases hn : M.next s with
    | none => simp [hn] at hm
    | some f =>
      simp only [hn] at hm hm'
      cases hf' : f m' s with
      | error e' => simp [hf'] at hm'
      | ok s₁ =>
        cases hf : f m s with
        | error e' =>
          simp only [hf] at hm
          cases hm
          exact ⟨s, f, s₁, hn, hf, hf'⟩
        | ok s₂ =>
          have := hstep s f hn m m' s s₂ h hf
          rw [hf'] at this
          cases this
          simp only [hf] at hm
          simp only [hf'] at hm'
          exact ih s₁ hm hm'

/-- **vm_strict_failure**: in the VM model, an error that a stricter mode adds to a render that
    succeeds under a weaker mode is the `UndefinedError` of one of the helper questions of the
    failing instruction, as that question reports it (`AskErr`: plain, rewritten by a `.map_err`
    around the helper call, or wrapped as `BadInclude` inside an included template). -/
theorem vm_strict_failure (ops : Ops) (P : Prog) (m m' : Mode) (h : m' ≤ m) (fuel : Nat) (s r : St) (e : Err) :
    runVm ops P m fuel s = .error e → runVm ops P m' fuel s = .ok r →
    ∃ s₀ c, nextC ops P s₀ = some c ∧ c.AskErr e := by
  intro hm hm'
  have hstep : ∀ s f, (vm ops P).next s = some f → StepMono f := by
    intro s f hf
    simp only [vm] at hf
    cases hn : nextC ops P s with
    | none => simp [hn] at hf
    | some c =>
      simp only [hn, Option.map_some, Option.some.injEq] at hf
      subst hf
      intro m m' _ s' h hs
      exact Comp.run_mono c m m' h s' hs
  obtain ⟨s₀, f, s₁, hn, hf, hf'⟩ := strict_failure_is_a_step_failure (vm ops P) hstep m m' h fuel s r e hm hm'
  simp only [vm] at hn
  cases hc : nextC ops P s₀ with
  | none => simp [hc] at hn
  | some c =>
    simp only [hc, Option.map_some, Option.some.injEq] at hn
    subst hn
    exact ⟨s₀, c, hc, Comp.run_err_of_ok c m m' e s₁ hf hf'⟩

/-- **step_mono**: every instruction of the VM model satisfies `StepMono`, whatever the abstract
    operations and the program -/
theorem step_mono (ops : Ops) (P : Prog) (i : Instr) : StepMono (fun m s => step ops P m i s) := by
  intro m m' s s' h hs
  exact Comp.run_mono _ m m' h s' hs

example : (step Ops.exec (Prog.single #[]) .strict .not { stack := [.undef] }).map (·.stack.length) = .error .undefinedError ∧
    (step Ops.exec (Prog.single #[]) .semiStrict .not { stack := [.undef] }).map (·.stack.length) = .ok 1 := by
  decide

/-- **mono_vm**: a run of the VM model on *any* instruction lists and state that succeeds under
    `m` ends in the identical state (same output chunks, stack, frames, closures, pending calls)
    under every weaker `m'`.  In particular the rendered output is identical. -/
theorem mono_vm (ops : Ops) (P : Prog) (m m' : Mode) (h : m' ≤ m) (fuel : Nat) (s r : St) :
    runVm ops P m fuel s = .ok r → runVm ops P m' fuel s = .ok r := by
  apply mono (vm ops P) _ m m' h
  intro s f hf
  simp only [vm] at hf
  cases hn : nextC ops P s with
  | none => simp [hn] at hf
  | some c =>
    simp only [hn, Option.map_some, Option.some.injEq] at hf
    subst hf
    intro m m' _ s' h hs
    exact Comp.run_mono c m m' h s' hs

theorem mono_vm_output (ops : Ops) (P : Prog) (m m' : Mode) (h : m' ≤ m) (fuel : Nat) (s r : St)
    (hr : runVm ops P m fuel s = .ok r) :
    (runVm ops P m' fuel s).map St.observed = .ok r.observed := by
  rw [mono_vm ops P m m' h fuel s r hr]; rfl

/-- `{{ u }}{% if u %}x{% endif %}` as compiled: fine under Lenient, an error under SemiStrict -/
example :
    let code : Array Instr := #[.lookup "u", .emit, .lookup "u", .jumpIfFalse 5, .emitRaw "x"]
    (runVm Ops.exec (Prog.single code) .lenient 10 {}).map St.output = .ok "" ∧
    (runVm Ops.exec (Prog.single code) .semiStrict 10 {}).map St.output = .error .undefinedError := by
  constructor <;> decide

/-- every instruction of an in-fragment program has a semantics in the model: none is one of the
    instructions the serialiser marks as outside the model, loops are not recursive, and every
    filter / test is a registered builtin with a signature over known argument types (so
    `callBuiltin` is defined for it) -/
theorem inFragment_modelled (P : Prog) (hP : P.inFragment = true) (c : Array Instr) (hc : c ∈ P.codes)
    (i : Instr) (hi : i ∈ c) :
    (∀ n, i ≠ .unsupported n) ∧
    (∀ n k, i = .applyFilter n k → sigKnown "filter" n = true) ∧
    (∀ n k, i = .performTest n k → sigKnown "test" n = true) := by
  have h2 : i.inFragment = true := by
    have h1 := (List.all_eq_true.mp hP) c (by simpa using hc)
    exact (List.all_eq_true.mp h1) i (by simpa using hi)
  refine ⟨?_, ?_, ?_⟩
  · intro n hn; subst hn; simp [Instr.inFragment] at h2
  · intro n k hn; subst hn; simpa [Instr.inFragment] using h2
  · intro n k hn; subst hn; simpa [Instr.inFragment] using h2

/-- **mono_programs**: for every real compiled program (the instruction lists of the template and
    of the templates it includes) that the decidable check `Prog.inFragment` accepts — every
    instruction has a semantics in the model — and for every choice of the mode-independent
    operations the model leaves abstract: a render that succeeds under `m` gives the identical
    observed output (text, and number of formatter invocations) under every weaker `m'`; two
    modes under which it succeeds agree. -/
theorem mono_programs (ops : Ops) (P : Prog) (_hP : P.inFragment = true) (m m' : Mode) (h : m' ≤ m)
    (fuel : Nat) (s r : St) (hr : runVm ops P m fuel s = .ok r) :
    runVm ops P m' fuel s = .ok r ∧ (runVm ops P m' fuel s).map St.observed = .ok r.observed :=
  ⟨mono_vm ops P m m' h fuel s r hr, mono_vm_output ops P m m' h fuel s r hr⟩

/-- an in-fragment program with a macro called with a keyword argument and a builtin filter:
    `{% macro m(a) %}[{{ a }}]{% endmacro %}{{ m(a=u) }}{{ u|default(1) }}` as compiled; the macro body runs
    inside the machine, so printing its undefined parameter fails under SemiStrict -/
example :
    let code : Array Instr := #[.jump 7, .storeLocal "a", .emitRaw "[", .lookup "a", .emit, .emitRaw "]", .ret,
      .getClosure, .loadConst (.seq [.str "a"]), .buildMacro "m" 1 0, .storeLocal "m",
      .loadConst (.str "a"), .lookup "u", .buildKwargs 1, .callFunction "m" 1, .emit,
      .lookup "u", .loadConst (.int 1), .applyFilter "default" 2, .emit]
    (Prog.single code).inFragment = true ∧
    (runVm Ops.exec (Prog.single code) .lenient 50 {}).map St.output = .ok "[]1" ∧
    (runVm Ops.exec (Prog.single code) .semiStrict 50 {}).map St.output = .error .undefinedError := by
  refine ⟨?_, ?_, ?_⟩ <;> decide

/-- template inheritance inside the machine: `{% extends 'base' %}{% block blk %}<{{ super() }}>{% endblock %}` with
    `base` = `B{% block blk %}[{{ u }}]{% endblock %}E`: the parent block prints an undefined, so the child renders
    under Lenient and fails under Strict -/
example :
    let P : Prog := {
      codes := #[#[.loadConst (.str "base"), .loadBlocks, .callBlock "blk"],
                 #[.emitRaw "<", .fastSuper, .emitRaw ">"],
                 #[.emitRaw "B", .callBlock "blk", .emitRaw "E"],
                 #[.emitRaw "[", .lookup "u", .emit, .emitRaw "]"]],
      templates := [("base", 2)], blocks := [("blk", 1)], parentBlocks := [("base", [("blk", 3)])] }
    P.inFragment = true ∧
    (runVm Ops.exec P .lenient 50 {}).map St.output = .ok "B<[]>E" ∧
    (runVm Ops.exec P .strict 50 {}).map St.output = .error (.other "BadInclude or EvalBlock") := by
  refine ⟨?_, ?_, ?_⟩ <;> decide

/-! ## the Emit arm: the undefined check does not depend on where the output goes -/

/-- **emit_arm_check_dominates** — source tie of the shape of the `Instruction::Emit` arm (its control-flow
    tree is extracted from vm/mod.rs on every run): on every path through the arm the undefined check — the
    inline `strict_undefined && Undefined(Default)` test followed by `bail!`, or `Environment::format`, whose
    rows contain it — comes before the value is written and before the arm is left; there is no early exit,
    no statement the classifier does not know, and the only condition in front of the check is the choice of
    the formatter (a condition on the output, e.g. `out.is_discarding()`, is rejected). -/
theorem emit_arm_check_dominates : emitArmOk MJ.Gen.undefVmEmitShape = true := by decide

/-- not vacuous: the arm with the check skipped for a discarding output, the arm that writes before it
    checks, and the arm with an early exit in the default-formatter branch are all rejected -/
example :
    emitArmOk (.act "pop" (.ite "default_formatter" (.ite "not_out_discarding" (.ite "strict_undefined_default"
      (.act "bail_undefined" .done) .done (.act "write_escaped" .done)) .done .done) (.act "env_format" .done) .done)) = false ∧
    emitArmOk (.act "pop" (.ite "default_formatter" (.act "write_escaped" (.ite "strict_undefined_default"
      (.act "bail_undefined" .done) .done .done)) (.act "env_format" .done) .done)) = false ∧
    emitArmOk (.act "pop" (.ite "default_formatter" (.act "exit" .done) (.act "env_format" .done) .done)) = false := by decide

/-- **emit_arm_is_model**: the hand model of `Emit` (`emitC`, the step the VM model takes) *is* the
    interpretation of the arm as the source has it now — statement by statement: pop, the formatter split,
    the inline test as the question `emit`, `write_escaped`, `Environment::format` as the question
    `envFormat` followed by the formatter call. -/
theorem emit_arm_is_model (s : St) : emitShapeC MJ.Gen.undefVmEmitShape s = emitC s := by
  unfold emitShapeC emitC MJ.Gen.undefVmEmitShape
  cases hs : s.stack with
  | nil => simp [armC, hs]
  | cons v r =>
    by_cases hf : s.formatter = 0
    · simp [armC, armCond, hs, hf, St.emitVia]
    · simp [armC, armCond, hs, hf, St.emitVia]
      funext called
      cases called <;> rfl

/-- the interpretation is not the identity on shapes: the arm that skips the check for a discarding output
    prints an undefined under Strict when the output is discarding (`outs = [none, ..]`), and only then -/
example :
    let sh : MJ.Gen.ArmShape := .act "pop" (.ite "default_formatter" (.ite "not_out_discarding" (.ite "strict_undefined_default"
      (.act "bail_undefined" .done) .done (.act "write_escaped" .done)) .done .done) (.act "env_format" .done) .done)
    ((emitShapeC sh { stack := [.undef], outs := [Option.none, some []] }).run .strict).map St.output = .ok "" ∧
    ((emitShapeC sh { stack := [.undef], outs := [some []] }).run .strict).map St.output = .error .undefinedError ∧
    ((emitC { stack := [.undef], outs := [Option.none, some []] }).run .strict).map St.output = .error .undefinedError := by
  refine ⟨?_, ?_, ?_⟩ <;> decide

/-- the same state with the output routed elsewhere: other buffers, more or fewer open captures, a
    discarding level on top, the null output of `Expression::eval` (`[none]`) -/
abbrev reroute (s : St) (outs : List OutBuf) : St := { s with outs := outs }

/-- **emit_check_independent_of_output**: whether `Emit` fails, with which error, and at which question to
    the undefined behaviour, does not depend on the output routing — live, capturing, discarding (top level
    of a child template after `{% extends %}`, module of `{% from .. import %}`) or null; and when it
    succeeds, the successor states differ in the output buffers only.  "The output goes nowhere" does not
    switch the check off. -/
theorem emit_check_independent_of_output (ops : Ops) (P : Prog) (m : Mode) (s : St) (outs' : List OutBuf) :
    (∀ e, step ops P m .emit s = .error e ↔ step ops P m .emit (reroute s outs') = .error e) ∧
    ((stepC ops P .emit s).failsAtAsk m = (stepC ops P .emit (reroute s outs')).failsAtAsk m) ∧
    (∀ r, step ops P m .emit s = .ok r → ∃ r', step ops P m .emit (reroute s outs') = .ok r' ∧ r' = reroute r r'.outs) := by
  cases hs : s.stack with
  | nil => simp [step, stepC, stepC1, emitC, inspects, hs, Comp.run, Comp.failsAtAsk, reroute]
  | cons v r =>
    by_cases ho : v.isOpaque = true
    · simp [step, stepC, stepC1, inspects, hs, ho, Comp.run, Comp.failsAtAsk, reroute]
    · by_cases hf : s.formatter = 0
      · simp only [step, stepC, stepC1, emitC, inspects, hs, hf, reroute]
        cases hq : (HQ.emit v.kind).run m with
        | error e => simp [ho, Comp.run, Comp.failsAtAsk, hq]
        | ok b => simp [ho, Comp.run, Comp.failsAtAsk, hq, St.emitVia, hf, St.next]
      · simp only [step, stepC, stepC1, emitC, inspects, hs, hf, reroute]
        cases hq : (HQ.envFormat v.kind).run m with
        | error e => simp [ho, Comp.run, Comp.failsAtAsk, hq]
        | ok b => cases b <;> simp [ho, Comp.run, Comp.failsAtAsk, hq, St.emitVia, hf, St.next]

/-- printing an undefined with a live, a capturing, a discarding and the null output: Strict fails in all
    four, Lenient succeeds in all four -/
example :
    [[some []], [some [], some []], [Option.none, some []], [Option.none]].map (fun outs =>
      ((step Ops.exec (Prog.single #[]) .strict .emit { stack := [.undef], outs := outs }).map St.output,
       (step Ops.exec (Prog.single #[]) .lenient .emit { stack := [.undef], outs := outs }).map St.output)) =
    [(.error .undefinedError, .ok ""), (.error .undefinedError, .ok ""), (.error .undefinedError, .ok ""),
     (.error .undefinedError, .ok "")] := by decide

/-- the top level of a child template (`{% extends 'base' %}{{ u }}`) and of a module loaded with
    `{% from 'mod' import hello %}` (`mod` = `{{ u }}{% macro hello() %}hello{% endmacro %}`), as compiled: the print
    runs with a discarding output and still fails under SemiStrict; under Lenient the parent / the importing
    template render -/
example :
    let child : Prog := {
      codes := #[#[.loadConst (.str "base"), .loadBlocks, .lookup "u", .emit],
                 #[.emitRaw "<", .callBlock "body", .emitRaw ">"],
                 #[.emitRaw "base"]],
      templates := [("base", 1)], parentBlocks := [("base", [("body", 2)])] }
    let importer : Prog := {
      codes := #[#[.beginCapture true, .pushWith, .loadConst (.str "mod"), .include_ false, .endCapture, .exportLocals, .popFrame,
                   .dupTop, .getAttr "hello", .storeLocal "hello", .discardTop,
                   .emitRaw "[", .callFunction "hello" 0, .emit, .emitRaw "]"],
                 #[.lookup "u", .emit, .jump 5, .emitRaw "hello", .ret, .getClosure, .loadConst (.seq []),
                   .buildMacro "hello" 3 0, .storeLocal "hello"]],
      templates := [("mod", 1)] }
    child.inFragment = true ∧ importer.inFragment = true ∧
    (runVm Ops.exec child .lenient 50 {}).map St.output = .ok "<base>" ∧
    (runVm Ops.exec child .semiStrict 50 {}).map St.output = .error .undefinedError ∧
    (runVm Ops.exec importer .lenient 50 {}).map St.output = .ok "[hello]" ∧
    (runVm Ops.exec importer .semiStrict 50 {}).map St.output = .error (.other "BadInclude or EvalBlock") := by
  refine ⟨?_, ?_, ?_, ?_, ?_, ?_⟩ <;> decide

/-! ## auto-escaping: `join_safe` -> `State::format`; `*args` -/

/-- **join_safe_consults_mode_only_by_env_format**: the one builtin whose body depends on `state.auto_escape()`.
    While HTML auto-escaping is on, `join` formats every item that is not a safe string with `State::format`,
    i.e. `Environment::format`; these are its only questions to the undefined behaviour (so an undefined item
    fails under Strict and SemiStrict exactly when auto-escaping is on and the joiner or an item is safe), and
    `UnpackLists` asks `try_iter` about each `*args` batch and nothing else. -/
theorem join_safe_consults_mode_only_by_env_format (formatter : Nat) (v : V) (joiner : Option V) (batches : List V) :
    (joinAeC formatter v joiner).AllAsks isEnvFormat ∧ (unpackListsC batches).AllAsks (fun q => ∃ k, q = .tryIter k) :=
  ⟨joinAeC_asks formatter v joiner, unpackListsC_asks batches⟩

/-- `{% autoescape 'html' %}{{ [hs, u]|join(',') }}{% endautoescape %}` with a safe `hs` = `<i>`, as compiled: the
    undefined item goes through `State::format`, which fails under SemiStrict; without the autoescape block
    `join_plain` never asks, so the same join renders under Strict.  The plain joiner is escaped. -/
example :
    let code : Array Instr := #[.loadConst (.str "html"), .pushAutoEscape, .lookup "hs", .lookup "u", .buildList 2,
      .loadConst (.str "<"), .applyFilter "join" 2, .emit, .popAutoEscape]
    let plain : Array Instr := #[.lookup "hs", .lookup "u", .buildList 2, .loadConst (.str "<"), .applyFilter "join" 2, .emit]
    let s : St := { ctx := [("hs", .safe "<i>")] }
    (Prog.single code).inFragment = true ∧
    (runVm Ops.exec (Prog.single code) .lenient 20 s).map St.output = .ok "<i>&lt;" ∧
    (runVm Ops.exec (Prog.single code) .semiStrict 20 s).map St.output = .error .undefinedError ∧
    (runVm Ops.exec (Prog.single plain) .strict 20 s).map St.output = .ok "<i><" := by
  refine ⟨?_, ?_, ?_, ?_⟩ <;> decide

/-- `{% macro sp(p=1) %}{{ p }}{% endmacro %}[{{ sp(*u) }}]` as compiled: the splat is an iteration site -/
example :
    let code : Array Instr := #[.jump 10, .storeLocal "p", .lookup "p", .isUndefined, .jumpIfFalse 7, .loadConst (.int 1), .storeLocal "p",
      .lookup "p", .emit, .ret, .getClosure, .loadConst (.seq [.str "p"]), .buildMacro "sp" 1 0, .storeLocal "sp",
      .emitRaw "[", .lookup "u", .unpackLists 1, .callDyn (.callFunction "sp" 0), .emit, .emitRaw "]"]
    (runVm Ops.exec (Prog.single code) .lenient 60 {}).map St.output = .ok "[1]" ∧
    (runVm Ops.exec (Prog.single code) .semiStrict 60 {}).map St.output = .error .undefinedError := by
  constructor <;> decide

/-! ## the documented site matrix on the modelled VM sites -/

theorem site_matrix : SiteMatrix := by
  intro ops P
  have hd : sigOf "test" "defined" = some ([.base "&Value"], []) := by decide
  have hu : sigOf "test" "undefined" = some ([.base "&Value"], []) := by decide
  have hf : sigOf "filter" "default" = some ([.base "&Value", .rest (.base "Value")], ["undefined_behavior"]) := by decide
  have hp1 : namedSig [.base "&Value"] = [("&Value", .base "&Value")] := by decide
  have hp2 : namedSig [.base "&Value", .rest (.base "Value")] = [("&Value", .base "&Value"), ("Rest<Value>", .rest (.base "Value"))] := by decide
  have hc : ((argTypeCode "&Value").getD (0, 0)).1 = 0 ∧ ((argTypeCode "Value").getD (0, 0)).1 = 0 := by decide
  have hk : ∀ v : V, v.isOpaque = false → isKwargsVal v = false := by
    intro v hv; cases v <;> simp [V.isOpaque, isKwargsVal] at hv ⊢
  refine ⟨?_, ?_, ?_, ?_, ?_, ?_, ?_, ?_, ?_, ?_⟩
  · intro m s r hs
    by_cases hc : s.formatter = 0 <;> cases m <;>
      simp [step, stepC, stepC1, inspects, V.isOpaque, emitC, Comp.run, HQ.run, unitOk, hs, hc, isErr, emitChk, envFormat, V.kind,
        lookupRow, Mode.code, UK.code, MJ.Gen.undefVmEmitFails, MJ.Gen.undefEnvFormat]
  · intro m s r hs
    cases m <;> simp [step, stepC, stepC1, inspects, V.isOpaque, guardQs, exec, Comp.run, Comp.bind, Comp.chks, Comp.ofExcept,
      HQ.run, unitOk, hs, isErr, tryIterChk, assertIterable, check, V.kind, V.iterItems, lookupRow,
      Mode.code, UK.code, MJ.Gen.undefAssertIterable, MJ.Gen.undefTryIterViaAssertIterable]
  · intro m s r t hs
    cases m <;> simp [step, stepC, stepC1, inspects, V.isOpaque, guardQs, exec, Comp.run, Comp.bind, Comp.chks, Comp.ofExcept,
      HQ.run, unitOk, hs, isErr, isTrueChk, check, V.kind, V.isTrue, lookupRow,
      Mode.code, UK.code, MJ.Gen.undefIsTrue, St.next]
  · intro m s r u n hs hu
    cases u <;> simp [V.isUndefined, V.kind, UK.isUndefined] at hu <;>
    cases m <;> simp [step, stepC, stepC1, inspects, guardQs, exec, Comp.run, Comp.bind, Comp.chks, Comp.ofExcept,
      HQ.run, unitOk, hs, isErr, handleUndefined, check, V.getAttr, V.isUndefined, V.kind,
      UK.isUndefined, lookupRow, Mode.code, MJ.Gen.undefHandleUndefined]
  · intro m s r u k hs hu hko
    have ho1 : V.isOpaque V.undef = false := rfl
    have ho2 : V.isOpaque V.silent = false := rfl
    cases u <;> simp [V.isUndefined, V.kind, UK.isUndefined] at hu <;>
    cases m <;> simp [step, stepC, stepC1, inspects, ho1, ho2, hko, guardQs, exec, Comp.run, Comp.bind, Comp.chks, Comp.ofExcept,
      HQ.run, unitOk, hs, isErr, handleUndefined, check, V.getItem_undef, V.getItem_silent, V.isUndefined, V.kind,
      UK.isUndefined, lookupRow, Mode.code, MJ.Gen.undefHandleUndefined]
  · intro m s r kvs n hs hn
    cases m <;> simp [step, stepC, stepC1, inspects, guardQs, exec, Comp.run, Comp.bind, Comp.chks, Comp.ofExcept,
      HQ.run, unitOk, hs, hn, handleUndefined, check, V.getAttr, V.isUndefined, V.kind,
      UK.isUndefined, lookupRow, Mode.code, MJ.Gen.undefHandleUndefined]
  · intro m s r v hs hv
    have hkv := hk v hv
    have hm : v.isObject = false := by
      cases v <;> simp [V.isOpaque, V.isObject] at hv ⊢
    simp [step, stepC, stepC1, inspects, builtinStep, callArgs, callBuiltin, callBuiltinN, hd, hu, hf, convCall, hp1, hp2, splitKwargs, isKwargsTy,
      convArgs, convRest, convertOne, ArgTy.asks, hc.1, hc.2, hkv, handBody, testBody, filterBody, defaultBody, hm, hs,
      Comp.run, Comp.bind, Comp.chks, Comp.ofExcept, V.isTrue]
  · intro m s r v o hs hv ho
    have hkv := hk v hv
    have hko := hk o ho
    have hw : wrapperForwards "Rest<T>" = true := by decide
    have hmv : v.isObject = false := by
      cases v <;> simp [V.isOpaque, V.isObject] at hv ⊢
    have hmo : o.isObject = false := by
      cases o <;> simp [V.isOpaque, V.isObject] at ho ⊢
    simp [step, stepC, stepC1, inspects, builtinStep, callArgs, callBuiltin, callBuiltinN, hf, convCall, hp2, splitKwargs, isKwargsTy,
      convArgs, convRest, convertOne, ArgTy.asks, hw, hc.1, hc.2, hkv, hko, handBody, filterBody, defaultBody, hmv, hmo, hs,
      Comp.run, Comp.bind, Comp.chks, Comp.ofExcept]
  · intro m s r t hs
    by_cases hc : s.formatter = 0 <;> cases m <;>
      simp [step, stepC, stepC1, inspects, V.isOpaque, emitC, guardQs, exec, Comp.run, Comp.bind, Comp.chks, Comp.ofExcept,
        HQ.run, unitOk, hs, hc, emitChk, envFormat, tryIterChk, assertIterable, isTrueChk, check, V.kind,
        V.iterItems, V.isTrue, lookupRow, Mode.code, UK.code, MJ.Gen.undefVmEmitFails,
        MJ.Gen.undefAssertIterable, MJ.Gen.undefIsTrue, MJ.Gen.undefTryIterViaAssertIterable, MJ.Gen.undefEnvFormat]
  · intro m s r hs
    have hp : popN 1 (V.undef :: r) = some ([V.undef], r) := by simp [popN, callArgs]
    cases m <;> simp [step, stepC, stepC1, inspects, hs, hp, unpackListsC, V.isOpaque, Comp.run, Comp.bind, HQ.run, unitOk, isErr,
      tryIterChk, assertIterable, check, V.kind, V.iterItems, lookupRow, Mode.code, UK.code,
      MJ.Gen.undefAssertIterable, MJ.Gen.undefTryIterViaAssertIterable]

/-- the nested chain `{{ a.b.c }}` with a defined `a` and a missing `b`, as compiled -/
example :
    let code : Array Instr := #[.lookup "a", .getAttr "b", .getAttr "c", .emit]
    let s : St := { ctx := [("a", .map [("x", .int 1)])] }
    (runVm Ops.exec (Prog.single code) .chainable 10 s).map St.output = .ok "" ∧
    (runVm Ops.exec (Prog.single code) .lenient 10 s).map St.output = .error .undefinedError ∧
    (runVm Ops.exec (Prog.single code) .strict 10 s).map St.output = .error .undefinedError := by
  refine ⟨?_, ?_, ?_⟩ <;> decide

/-! ## tie of the hand model to the call sites of `eval_impl` -/

/-- The helper calls of each instruction arm of `eval_impl` (extracted from vm/mod.rs on every
    run, macros expanded, every call of the file accounted for) are the ones `guardQs` / `mergeKwargsC` model, in
    that order, and there are exactly the three inline mode tests that `emitChk`/`sliceChk` model
    (`strict_undefined` = Strict | SemiStrict, and Strict in `Slice`). -/
theorem vm_sites_as_modelled :
    MJ.Gen.undefVmSites = [
      ("GetAttr", [("handle_undefined", "a.is_undefined()")]),
      ("GetItem", [("handle_undefined", "b.is_undefined()")]),
      ("UnpackLists", [("try_iter", "list")]),
      ("Eq", [("assert_value_not_undefined", "a"), ("assert_value_not_undefined", "b")]),
      ("Ne", [("assert_value_not_undefined", "a"), ("assert_value_not_undefined", "b")]),
      ("Gt", [("assert_value_not_undefined", "a"), ("assert_value_not_undefined", "b")]),
      ("Gte", [("assert_value_not_undefined", "a"), ("assert_value_not_undefined", "b")]),
      ("Lt", [("assert_value_not_undefined", "a"), ("assert_value_not_undefined", "b")]),
      ("Lte", [("assert_value_not_undefined", "a"), ("assert_value_not_undefined", "b")]),
      ("Not", [("is_true", "a")]),
      ("StringConcat", [("assert_value_not_undefined", "b"), ("assert_value_not_undefined", "a")]),
      ("In", [("assert_iterable", "a"), ("assert_value_not_undefined", "b")]),
      ("CompareAndPreserve.Eq", [("assert_value_not_undefined", "a"), ("assert_value_not_undefined", "b")]),
      ("CompareAndPreserve.Ne", [("assert_value_not_undefined", "a"), ("assert_value_not_undefined", "b")]),
      ("CompareAndPreserve.Lt", [("assert_value_not_undefined", "a"), ("assert_value_not_undefined", "b")]),
      ("CompareAndPreserve.Lte", [("assert_value_not_undefined", "a"), ("assert_value_not_undefined", "b")]),
      ("CompareAndPreserve.Gt", [("assert_value_not_undefined", "a"), ("assert_value_not_undefined", "b")]),
      ("CompareAndPreserve.Gte", [("assert_value_not_undefined", "a"), ("assert_value_not_undefined", "b")]),
      ("CompareAndPreserve.In", [("assert_iterable", "b"), ("assert_value_not_undefined", "a")]),
      ("CompareAndPreserve.NotIn", [("assert_iterable", "b"), ("assert_value_not_undefined", "a")]),
      ("JumpIfFalse", [("is_true", "a")]),
      ("JumpIfFalseOrPop", [("is_true", "stack.peek()")]),
      ("JumpIfTrueOrPop", [("is_true", "stack.peek()")]),
      ("fn:push_loop", [("try_iter", "iterable")]),
      ("fn:merge_kwargs", [("assert_iterable", "value")])] ∧
    MJ.Gen.undefVmInlineModeTests = 3 ∧ MJ.Gen.undefModeCount = 4 ∧
    MJ.Gen.undefDefaultMode = Mode.lenient.code := ⟨rfl, rfl, rfl, rfl⟩

/-- The registered builtins whose source can reach the mode — directly through helpers
    (`undefined_behavior()`, with the helper calls in order), through the formatter
    (`.format(state)`) or by calling another filter / test (`.call(state, ..)`), transitively over
    the local functions they call — extracted from filters.rs / tests.rs / functions.rs on every
    run.  Every other registered builtin is mode-independent after its argument conversion
    (`pure_builtin_independent_after_conversion`; validated on the `call` / `sweep` streams).  The
    hand models in `filterBody` / `testBody` ask exactly the listed helpers. -/
theorem builtin_sites_as_modelled :
    (MJ.Gen.undefBuiltinSigs.filter (fun r => !r.2.2.2.1.isEmpty)).map (fun r => (r.1, r.2.1, r.2.2.2.1, r.2.2.2.2)) = [
      ("filter", "escape", ["format"], []),
      ("filter", "e", ["format"], []),
      ("filter", "replace", ["format"], []),
      ("filter", "join", ["format"], []),
      ("filter", "default", ["undefined_behavior"], ["is_true"]),
      ("filter", "d", ["undefined_behavior"], ["is_true"]),
      ("filter", "int", ["undefined_behavior"], ["assert_value_not_undefined"]),
      ("filter", "float", ["undefined_behavior"], ["assert_value_not_undefined"]),
      ("filter", "attr", ["undefined_behavior"], ["handle_undefined"]),
      ("filter", "min", ["undefined_behavior"], ["try_iter"]),
      ("filter", "max", ["undefined_behavior"], ["try_iter"]),
      ("filter", "sort", ["undefined_behavior"], ["try_iter"]),
      ("filter", "list", ["undefined_behavior"], ["try_iter"]),
      ("filter", "string", ["undefined_behavior"], ["assert_value_not_undefined"]),
      ("filter", "bool", ["undefined_behavior"], ["is_true"]),
      ("filter", "batch", ["undefined_behavior"], ["try_iter"]),
      ("filter", "slice", ["undefined_behavior"], ["try_iter"]),
      ("filter", "sum", ["undefined_behavior"], ["try_iter", "handle_undefined"]),
      ("filter", "select", ["call", "undefined_behavior"], ["try_iter"]),
      ("filter", "reject", ["call", "undefined_behavior"], ["try_iter"]),
      ("filter", "selectattr", ["call", "undefined_behavior"], ["try_iter"]),
      ("filter", "rejectattr", ["call", "undefined_behavior"], ["try_iter"]),
      ("filter", "map", ["call", "undefined_behavior"], ["try_iter", "try_iter"]),
      ("filter", "unique", ["undefined_behavior"], ["try_iter"]),
      ("filter", "format", ["format"], []),
      ("test", "in", ["undefined_behavior"], ["assert_iterable"])] ∧
    MJ.Gen.undefBuiltinSigs.length = 95 := by decide

/-- **helper_rows_are_whole_bodies**: the five functions whose `match` rows the model interprets
    (`handle_undefined`, `is_true`, `assert_iterable`, `assert_value_not_undefined`, `Environment::format`) consist of
    that match and nothing else — no statement in front of it (an early return, e.g. for a discarding output,
    would bypass the rows), nothing after it. -/
theorem helper_rows_are_whole_bodies :
    MJ.Gen.undefRowFnsWholeBody = [("utils.rs::handle_undefined", true), ("utils.rs::is_true", true),
      ("utils.rs::assert_iterable", true), ("utils.rs::assert_value_not_undefined", true),
      ("environment.rs::format", true)] := by decide

/-- the modes that take an error branch form an upward closed set in
    `Chainable(0) ≤ Lenient(1) ≤ SemiStrict(2) ≤ Strict(3)` -/
def upClosed (E : List Nat) : Bool :=
  [0, 1, 2, 3].all (fun m => !E.contains m || [0, 1, 2, 3].all (fun m' => !(decide (m ≤ m')) || E.contains m'))

/-- **all_mode_sites_monotone** — the source tie over the whole crate.  Every mention of the
    undefined behaviour in `minijinja/src` and `minijinja-contrib/src` (extracted on every run) is
    * plumbing (field, setter, getter, default, type), the local alias of `eval_impl`,
    * a call of one of the five helpers (monotone: `helper_mono`),
    * the match rows of the helpers / of `Environment::format` (`helpers_matrix`), or
    * a comparison of the mode with variants whose guarded branch is an error and whose set of
      erroring modes is upward closed in strictness (so `!= Lenient`, `== Lenient`-only or
      `Chainable | Strict` patterns are rejected);
    nothing is unclassified, and the comparisons are exactly the two inline tests of `eval_impl` that
    `emitChk` (`Strict | SemiStrict`) and `sliceChk` (`Strict`) model. -/
theorem all_mode_sites_monotone :
    (∀ t ∈ MJ.Gen.undefModeTests, t.2.2.2 = 0 ∧ upClosed t.2.2.1 = true) ∧
    (∀ r ∈ MJ.Gen.undefModeMentions, r.2.2.1 ∈ ["plumbing", "alias", "rows", "test", "helper:handle_undefined",
        "helper:is_true", "helper:try_iter", "helper:assert_iterable", "helper:assert_value_not_undefined"]) ∧
    MJ.Gen.undefModeTests = [("minijinja/src/vm/mod.rs", "eval_impl", [2, 3], 0), ("minijinja/src/vm/mod.rs", "eval_impl", [3], 0)] ∧
    (MJ.Gen.undefModeMentions.filter (fun r => r.2.2.1 == "rows" || r.2.2.1 == "alias" || r.2.2.1 == "test")).map (fun r => (r.1, r.2.1)) =
      [("minijinja/src/environment.rs", "format"), ("minijinja/src/utils.rs", "handle_undefined"),
       ("minijinja/src/utils.rs", "is_true"), ("minijinja/src/utils.rs", "assert_iterable"),
       ("minijinja/src/utils.rs", "assert_value_not_undefined"), ("minijinja/src/vm/mod.rs", "eval_impl"),
       ("minijinja/src/vm/mod.rs", "eval_impl")] := by decide

/-- the classification is not vacuous: `!= Lenient` (errors under Chainable, SemiStrict, Strict) is
    rejected, `Strict | SemiStrict` accepted -/
example : upClosed [0, 2, 3] = false ∧ upClosed [2, 3] = true ∧ upClosed [3] = true ∧ upClosed [1] = false := by decide

/-- every call of a mode-blind twin of the helpers (`Value::try_iter`, `Value::is_true`, `get_attr` / `get_item(_opt)` /
    `get_attr_fast` / `get_item_by_index` without `handle_undefined`, `is_undefined()` guards) in minijinja/src and
    minijinja-contrib/src outside the value layer -- regenerated per (file, fn, twin) with its count on every run -- is
    justified: the helper's own body, a function that asks the helper about the same operand (backed by a helper call
    found in that function), the `defined` / `undefined` / `default` row, a boolean or value the engine built itself, a
    compile-time constant (the constant folder has no look-up twin, so no constant is undefined), an object-only
    iteration, the modelled conversion layer, or the body of a builtin (only in the builtin files, never in the VM or
    the compiler).  One more blind call anywhere -- the recursion arm of push_loop in seeded C12-6, the look-up arms of
    as_const in C12-7 -- breaks it. -/
theorem blind_twin_sites_justified :
    (MJ.Gen.undefBlindTwins.filter (fun r => !valueLayer r.1)) = twinJustification.map (fun j => (j.1, j.2.1, j.2.2.1, j.2.2.2.1)) ∧
    (∀ j ∈ twinJustification, j.2.2.2.2 = TwinWhy.asksHelper → asksAHelper j.1 j.2.1 = true) ∧
    (∀ j ∈ twinJustification, j.2.2.2.2 = TwinWhy.builtinBody → builtinFile j.1 = true) ∧
    (∀ j ∈ twinJustification, j.2.2.2.2 = TwinWhy.helperBody → j.1 = "minijinja/src/utils.rs" ∧ j.2.1 = j.2.2.1) ∧
    (∀ r ∈ MJ.Gen.undefBlindTwins, r.1 = "minijinja/src/compiler/ast.rs" → r.2.2.1 = "is_true") :=
  MJ.Undef.blind_twin_sites_justified

/-- not vacuous: a VM row justified by a helper call; the table with the blind call of seeded C12-6 added is rejected -/
example : ("minijinja/src/vm/mod.rs", "eval_impl", "get_item_opt", 1, TwinWhy.asksHelper) ∈ twinJustification ∧
    asksAHelper "minijinja/src/vm/mod.rs" "eval_impl" = true ∧
    (("minijinja/src/vm/mod.rs", "push_loop", "try_iter", 1) :: MJ.Gen.undefBlindTwins).filter (fun r => !valueLayer r.1)
      ≠ twinJustification.map (fun j => (j.1, j.2.1, j.2.2.1, j.2.2.2.1)) := by decide

/-! ## full statement -/

theorem C12_holds : C12_full := ⟨mono_vm, helpers_matrix, site_matrix⟩

/-- the full statement is not vacuous: a strict run that succeeds (and consults the mode at every
    step: a defined value is printed, tested, iterated) and the same run under Chainable -/
example :
    let code : Array Instr := #[.lookup "a", .getAttr "x", .emit, .lookup "a", .jumpIfFalse 6, .emitRaw "t",
                                .lookup "a", .pushLoop 1, .iterate 12, .storeLocal "k", .emitRaw "i", .jump 8, .popLoopFrame]
    let s : St := { ctx := [("a", .map [("x", .int 1)])] }
    (runVm Ops.exec (Prog.single code) .strict 50 s).map St.output = .ok "1ti" ∧
    (runVm Ops.exec (Prog.single code) .chainable 50 s).map St.output = .ok "1ti" := by
  constructor <;> decide

end MJ.C12
