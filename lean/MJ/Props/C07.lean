import MJ.Proofs.CmpNumFloatEq
import MJ.Proofs.CmpMap
import MJ.Proofs.CmpLookup
import MJ.Proofs.CollV
import MJ.Proofs.CmpLen
import MJ.Proofs.CmpF64Order
import MJ.Proofs.CollGroup
import MJ.Proofs.CollRuns
import MJ.Proofs.CollX
import MJ.Proofs.CollD
import MJ.Model.CmpStr
/-!
# C07 — Value order / equality / hash laws and the algebra of the collection filters

Property theorems only (helper lemmas live in `MJ/Proofs/Cmp*.lean`, `MJ/Proofs/Coll*.lean`).

* `Cmp.cmpV`, `Cmp.eqV`, `Cmp.hkey` are the models of `impl Ord / PartialEq / Hash for Value`;
* `CmpKey.key : V → List Tok` is an explicit key into a linearly ordered type (token lists under
  the lexicographic order `cmpK`; a token is four plain fields compared lexicographically);
* `Coll.*` are the models of the collection filters over an arbitrary item type and comparison.
-/
namespace MJ.C07
open MJ MJ.Val MJ.Cmp MJ.F64 MJ.CmpKey MJ.CmpNum MJ.CmpEq MJ.Coll MJ.CollV MJ.CollX Std

/-! ## the order -/

/-- every number inside the value is within the range of its Rust representation
    (`u64`/`i64`/`u128`/`i128`; a float is any 64-bit pattern, NaNs and infinities included) -/
abbrev InRange (v : V) : Prop := AllNum N.WF v

/-- `Value::cmp` is `compare` on the explicit, linearly ordered key — for all values: integers of
    every width, floats (compared exactly against integers, also beyond 2^53), strings, bytes,
    sequences, tuples, iterables, maps, plain objects and nestings thereof -/
theorem cmp_refines_key (a b : V) (ha : InRange a) (hb : InRange b) :
    cmpV a b = cmpK (key a) (key b) :=
  cmpV_eq_cmpK numSpec_wf a b ha hb

/-- the hypothesis is satisfiable by a non-trivial value: a list with `-1`, a map whose value is
    `u128::MAX`, `true`, the float `2^63` and a NaN -/
example : InRange (.seq [.num (.i64 (-1)), .map [(.str [97], .num (.u128 340282366920938463463374607431768211455))],
    .bool true, .num (.f64 0x43e0000000000000), .num (.f64 0x7ff8000000000000)]) := by
  simp [AllNum, AllNumL, AllNumPL, N.WF, i64Min, i64Max, u128Max, P64]

theorem cmp_refl (a : V) (ha : InRange a) : cmpV a a = .eq := by
  rw [cmp_refines_key a a ha ha]; exact ReflCmp.compare_self

theorem cmp_antisymm (a b : V) (ha : InRange a) (hb : InRange b) :
    cmpV b a = (cmpV a b).swap := by
  rw [cmp_refines_key a b ha hb, cmp_refines_key b a hb ha]
  exact OrientedCmp.eq_swap

theorem cmp_trans (a b c : V) (ha : InRange a) (hb : InRange b) (hc : InRange c)
    (h1 : cmpV a b ≠ .gt) (h2 : cmpV b c ≠ .gt) : cmpV a c ≠ .gt := by
  rw [cmp_refines_key _ _ ha hb] at h1
  rw [cmp_refines_key _ _ hb hc] at h2
  rw [cmp_refines_key _ _ ha hc]
  exact Ordering.ne_gt_iff_isLE.mpr
    (TransCmp.isLE_trans (Ordering.ne_gt_iff_isLE.mp h1) (Ordering.ne_gt_iff_isLE.mp h2))

/-- any two values are comparable: `a ≤ b` or `b ≤ a` -/
theorem cmp_total (a b : V) (ha : InRange a) (hb : InRange b) : cmpV a b ≠ .gt ∨ cmpV b a ≠ .gt := by
  rw [cmp_antisymm a b ha hb]
  cases cmpV a b <;> simp

/-- equal-by-order is a congruence for the order: `a ≡ b → cmp a c = cmp b c` -/
theorem cmp_congr (a b c : V) (ha : InRange a) (hb : InRange b) (hc : InRange c)
    (h : cmpV a b = .eq) : cmpV a c = cmpV b c := by
  rw [cmp_refines_key _ _ ha hb] at h
  rw [cmp_refines_key _ _ ha hc, cmp_refines_key _ _ hb hc]
  exact TransCmp.congr_left h

/-- the comparison is defined for every pair: whenever two values land in the same kind slot they
    are of the same class, so none of the `unreachable!()` / `unwrap()` arms of `Ord::cmp` is
    reachable (the slots come from the regenerated declaration order of `ValueKind`) -/
theorem cmp_no_unreachable (a b : V) (h : a.rank = b.rank) : cls a = cls b :=
  cls_eq_of_rank_eq h

/-- the numeric part is exact: numbers of all five representations are ordered by their exact
    values (`numKey` = value · 2^1074; ±0 identified, NaNs beyond the infinities in `total_cmp`
    order), in particular `cmp_f64_i128` / `cmp_f64_u128` never lose precision -/
theorem cmp_num_exact (x y : N) (hx : x.WF) (hy : y.WF) : cmpN x y = compare (numKey x) (numKey y) :=
  numSpec_wf x y hx hy

example : cmpN (.i64 9007199254740993) (.f64 0x4340000000000000) = .gt := by decide +kernel

/-! ## `==`, the order and the hash agree -/

/-- every number inside is within the range of its representation and no float is a NaN -/
abbrev NoNaN (v : V) : Prop := AllNum NumOK v
/-- every map inside holds its keys in strictly increasing order (a `BTreeMap`'s iteration order) -/
abbrev SortedMaps (v : V) : Prop := allV mapSorted v = true

theorem numSpec_ok : NumSpec NumOK := fun x y hx hy => numSpec_wf x y hx.1 hy.1

/-- Full-strength statement: `==` holds exactly when the order says `Equal` (NaN aside), and `==`
    values feed the hasher the same items. -/
def C07_full : Prop :=
  ∀ a b : V, NoNaN a → NoNaN b → SortedMaps a → SortedMaps b →
    (eqV .btree a b = true ↔ cmpV a b = .eq) ∧ (eqV .btree a b = true → hkey a = hkey b)

/-- The full statement is false on the current code: `true == 1`, yet `cmp(true, 1) = Less` and the
    two feed the hasher different items (a known finding: both behaviours are pinned by the
    existing test suite). -/
theorem C07_counterexample : ¬ C07_full := by
  intro h
  have h1 := h (.bool true) (.num (.i64 1))
    (by simp [AllNum]) (by simp [AllNum, NumOK, N.WF, i64Min, i64Max])
    (by decide) (by decide)
  have he : eqV .btree (.bool true) (.num (.i64 1)) = true := by
    rw [eqV]; decide
  have hc : cmpV (.bool true) (.num (.i64 1)) = .lt := by decide
  rw [h1.1.mp he] at hc
  cases hc

/-- … and true outside the excluded region (`noClash`: no bool inside one value facing a number
    inside the other) -/
theorem C07_partial (a b : V) (ha : NoNaN a) (hb : NoNaN b) (sa : SortedMaps a) (sb : SortedMaps b)
    (hc : noClash a b = true) :
    (eqV .btree a b = true ↔ cmpV a b = .eq) ∧ (eqV .btree a b = true → hkey a = hkey b) :=
  eq_main numSpec_ok eqSpec_ok hashSpec_ok _ a b rfl ⟨ha, hb, sa, sb, hc⟩

/-- `a == b` exactly when `a.cmp(b) == Equal` (NaN aside) -/
theorem eq_iff_cmp_eq (a b : V) (ha : NoNaN a) (hb : NoNaN b) (sa : SortedMaps a)
    (sb : SortedMaps b) (hc : noClash a b = true) : eqV .btree a b = true ↔ cmpV a b = .eq :=
  (C07_partial a b ha hb sa sb hc).1

/-- equal values hash identically: the same items are fed to the hasher -/
theorem eq_hash (a b : V) (ha : NoNaN a) (hb : NoNaN b) (sa : SortedMaps a)
    (sb : SortedMaps b) (hc : noClash a b = true) (he : eqV .btree a b = true) : hkey a = hkey b :=
  (C07_partial a b ha hb sa sb hc).2 he

/-- the hypotheses are satisfiable by a non-trivial pair: a list holding a map with two keys, a
    `u64` facing a float, `2^64` as `u128` facing the float `2^64`, and a nested tuple -/
example :
    let a : V := .seq [.map [(.str [97], .num (.u64 1)), (.str [98], .tuple [.none])],
      .num (.u128 18446744073709551616)]
    let b : V := .iter [.map [(.str [97], .num (.f64 0x3ff0000000000000)), (.str [98], .tuple [.none])],
      .num (.f64 0x43f0000000000000)]
    NoNaN a ∧ NoNaN b ∧ SortedMaps a ∧ SortedMaps b ∧ noClash a b = true ∧ cmpV a b = .eq := by
  refine ⟨?_, ?_, by decide +kernel, by decide +kernel, by decide +kernel, by decide +kernel⟩ <;>
    simp [AllNum, AllNumL, AllNumPL, NumOK, N.WF, u64Max, u128Max, P64] <;> decide

/-- the `SortedMaps` hypothesis is what insertion into a `BTreeMap` establishes: a map built from
    any list of pairs (keys within range) holds its keys in strictly increasing order -/
theorem map_from_pairs_sorted (ps : List (V × V)) (h : ∀ p ∈ ps, InRange p.1) :
    ∃ qs, mkMap .btree ps = .map qs ∧ (qs.map (·.1)).Pairwise (fun a b => cmpV a b = .lt) :=
  mkMap_btree_sorted ps h

/-! ## reported lengths -/

/-- `Enumerator::query_len` (the default of `Object::enumerator_len`, regenerated arm by arm from the
    source): it answers `Some n` only for a stored count or an exact size hint `(n, Some(n))` — so,
    the enumerator honouring the `size_hint` contract, `n` is the number of items it yields -/
theorem query_len_exact_or_none (s : EnumShape) (count n : Nat) (hy : s.Yields count)
    (h : queryLen s = some n) : n = count :=
  queryLen_is_count s count n hy h

/-- a `.filter(..)`-style hint `(0, Some(2))` over two items honours the contract and gives no length -/
example : (EnumShape.hinted "KeyValueIter" 0 (some 2)).Yields 2 ∧ queryLen (.hinted "KeyValueIter" 0 (some 2)) = none ∧
    queryLen (.hinted "KeyValueIter" 2 (some 2)) = some 2 := by
  refine ⟨⟨by decide, by decide, by intro b h; cases h; decide⟩, by decide, by decide⟩

/-- the Map/Map arm of `==` trusts the reported lengths (unequal → not equal; equal → only `a ⊆ b`
    is checked).  With lengths that are exact or absent — which `query_len_exact_or_none` provides —
    that is the map equality of the model, and therefore agrees with `cmp` and the hash
    (`C07_partial`) -/
theorem eq_map_agrees_with_cmp (la lb : Option Nat) (ps qs : List (V × V))
    (ha : ∀ n, la = some n → n = ps.length) (hb : ∀ n, lb = some n → n = qs.length)
    (na : NoNaN (.map ps)) (nb : NoNaN (.map qs)) (sa : SortedMaps (.map ps)) (sb : SortedMaps (.map qs))
    (hc : noClash (.map ps) (.map qs) = true) :
    (eqMapWithLen .btree la lb ps qs = true ↔ cmpV (.map ps) (.map qs) = .eq) ∧
    (eqMapWithLen .btree la lb ps qs = true → hkey (.map ps) = hkey (.map qs)) := by
  rw [eqMapWithLen_exact .btree la lb ps qs ha hb]
  exact C07_partial _ _ na nb sa sb hc

/-- without exactness the arm is wrong: a record reporting length 0 for two entries is not `==` to the
    map with the same entries -/
example : eqMapWithLen .btree (some 0) (some 2) [(.str [97], .none), (.str [98], .none)] [(.str [97], .none), (.str [98], .none)] = false := by
  decide

/-! ## dictionary lookup: all entry points agree -/

/-- The string-specialised lookup `get_value_by_str(s)` (behind `m.name`, `Value::get_attr`, context
    variable resolution and every `attribute=` filter) returns what the general lookup
    `get_value(&Value::from(s))` (behind `m["name"]`, `Value::get_item`, `"name" in m`) returns — on
    both sides of the 12-entry fast-path threshold, for `BTreeMap` and `IndexMap`, for every map. -/
theorem lookup_by_str_eq_lookup (m : Mode) (ps : List (V × V)) (s : List Nat) :
    getByStr m ps s = getV m ps (.str s) :=
  getByStr_eq_getV m ps s

/-- … and that lookup finds an entry exactly when some key of the map is `==` the string -/
theorem lookup_str_iff_some_key_eq (ps : List (V × V)) (s : List Nat) :
    (getByStr .btree ps s).isSome = true ↔ ∃ p ∈ ps, eqV .btree p.1 (.str s) = true := by
  rw [lookup_by_str_eq_lookup]; exact getB_str_isSome s ps

/-- in particular a bytes key never answers a string lookup -/
example : (getByStr .btree [(.bytes [97, 98, 99], .num (.i64 777))] [97, 98, 99]).isSome = false := by decide
example : (getByStr .btree [(.str [97, 98, 99], .num (.i64 777))] [97, 98, 99]).isSome = true := by decide

/-! ## the collection filters, for every input list and every total preorder `cmp` -/

section filters
variable {α κ : Type} (cmp : κ → κ → Ordering) [TransCmp cmp] (key : α → κ)

theorem sort_perm (rev : Bool) (xs : List α) : (Coll.sort cmp key rev xs).Perm xs :=
  sort_perm' cmp key rev xs

/-- ascending: no item is greater than a later one -/
theorem sort_sorted (xs : List α) :
    (Coll.sort cmp key false xs).Pairwise (fun a b => cmp (key a) (key b) ≠ .gt) := by
  have h := sort_sorted' cmp key false xs
  simpa [revCmp] using h

/-- `reverse=true`: descending -/
theorem sort_reverse_sorted (xs : List α) :
    (Coll.sort cmp key true xs).Pairwise (fun a b => cmp (key a) (key b) ≠ .lt) := by
  have h := sort_sorted' cmp key true xs
  refine h.imp ?_
  intro a b hab
  simp only [revCmp, if_true] at hab
  intro hc; rw [hc] at hab; exact hab rfl

/-- stable: every sub-sequence of the input that is in order is a sub-sequence of the output -/
theorem sort_stable (xs ys : List α) (hs : ys.Sublist xs)
    (ho : ys.Pairwise (fun a b => cmp (key a) (key b) ≠ .gt)) :
    ys.Sublist (Coll.sort cmp key false xs) :=
  sort_stable' cmp key false xs ys hs (by simpa [revCmp] using ho)

/-- still stable with `reverse=true`: items with equal keys keep their input order -/
theorem sort_reverse_stable (xs : List α) (a b : α) (hs : [a, b].Sublist xs)
    (he : cmp (key a) (key b) = .eq) : [a, b].Sublist (Coll.sort cmp key true xs) :=
  sort_equal_keys_keep_order cmp key true xs a b hs he

/-- the hypotheses are satisfiable: `compare` on `Nat` is such a total preorder, and pairs keyed by
    their first component have distinct items with `Equal` keys -/
example : TransCmp (compare : Nat → Nat → Ordering) := inferInstance
example : [((1 : Nat), (0 : Nat)), (1, 2)].Sublist [(1, 0), (2, 1), (1, 2)] ∧
    compare ((1, 0) : Nat × Nat).1 ((1, 2) : Nat × Nat).1 = .eq := by decide

/-- `unique`: an order-preserving sub-sequence without two `Equal` keys that represents every input
    key and keeps the first item of every key class -/
theorem unique_subseq_nodup_first (xs : List α) :
    (Coll.unique cmp key xs).Sublist xs ∧
    (Coll.unique cmp key xs).Pairwise (fun a b => cmp (key a) (key b) ≠ .eq) ∧
    (∀ x ∈ xs, ∃ y ∈ Coll.unique cmp key xs, cmp (key y) (key x) = .eq) ∧
    (∀ pre x post, xs = pre ++ x :: post → (∀ p ∈ pre, cmp (key p) (key x) ≠ .eq) →
      x ∈ Coll.unique cmp key xs) := by
  refine ⟨uniqueLoop_sublist cmp key xs [], (uniqueLoop_nodup cmp key xs []).2, ?_, ?_⟩
  · intro x hx
    rcases uniqueLoop_covers cmp key xs [] x hx with ⟨s, hs, _⟩ | h
    · simp at hs
    · exact h
  · intro pre x post hxs hpre
    subst hxs
    exact uniqueLoop_keeps_first cmp key pre post x [] (by simp) hpre

/-- `groupby`: the groups concatenate to the input sorted by key (so they partition the input), no
    group is empty, every member's key is `Equal` to its group's grouper, and the groupers are
    strictly increasing (one group per key class) -/
theorem groupby_partition (xs : List α) :
    ((Coll.groupby cmp key xs).flatMap (·.2) = Coll.sort cmp key false xs) ∧
    ((Coll.groupby cmp key xs).flatMap (·.2)).Perm xs ∧
    (∀ p ∈ Coll.groupby cmp key xs, p.2 ≠ [] ∧ ∀ y ∈ p.2, cmp p.1 (key y) = .eq) ∧
    (Coll.groupby cmp key xs).Pairwise (fun p q => cmp p.1 q.1 = .lt) := by
  have hf := groupLoop_flatten cmp key (Coll.sort cmp key false xs) none [] (by simp)
  simp only [List.nil_append] at hf
  refine ⟨hf, ?_, ?_, ?_⟩
  · show ((groupLoop cmp key (Coll.sort cmp key false xs) none []).flatMap (·.2)).Perm xs
    rw [hf]; exact sort_perm cmp key false xs
  · exact groupLoop_members cmp key _ none [] ⟨by simp, by simp⟩
  · exact (groupLoop_keys_increasing cmp key _ none [] (sort_sorted cmp key xs) (by simp)).2

theorem min_le_all (cmpa : α → α → Ordering) [TransCmp cmpa] (xs : List α) (m : α)
    (h : Coll.minBy cmpa xs = some m) : ∀ x ∈ xs, cmpa m x ≠ .gt := by
  cases xs with
  | nil => simp [minBy] at h
  | cons y ys =>
    simp only [minBy, Option.some.injEq] at h
    obtain ⟨h1, h2, _⟩ := foldl_min_le ys cmpa y
    intro x hx
    rw [← h]
    rcases List.mem_cons.mp hx with rfl | hx
    · exact Ordering.ne_gt_iff_isLE.mpr h1
    · exact Ordering.ne_gt_iff_isLE.mpr (h2 x hx)

theorem min_mem (cmpa : α → α → Ordering) [TransCmp cmpa] (xs : List α) (m : α)
    (h : Coll.minBy cmpa xs = some m) : m ∈ xs := by
  cases xs with
  | nil => simp [minBy] at h
  | cons y ys =>
    simp only [minBy, Option.some.injEq] at h
    obtain ⟨_, _, h3⟩ := foldl_min_le ys cmpa y
    rw [← h]
    rcases h3 with h3 | h3
    · rw [h3]; exact List.mem_cons_self
    · exact List.mem_cons_of_mem _ h3

theorem max_ge_all (cmpa : α → α → Ordering) [TransCmp cmpa] (xs : List α) (m : α)
    (h : Coll.maxBy cmpa xs = some m) : (∀ x ∈ xs, cmpa m x ≠ .lt) ∧ m ∈ xs := by
  cases xs with
  | nil => simp [maxBy] at h
  | cons y ys =>
    simp only [maxBy, Option.some.injEq] at h
    obtain ⟨h1, h2, h3⟩ := foldl_max_ge ys cmpa y
    rw [← h]
    refine ⟨?_, ?_⟩
    · intro x hx
      rcases List.mem_cons.mp hx with rfl | hx
      · intro hc; rw [hc] at h1; exact absurd h1 (by decide)
      · intro hc; have := h2 x hx; rw [hc] at this; exact absurd this (by decide)
    · rcases h3 with h3 | h3
      · rw [h3]; exact List.mem_cons_self
      · exact List.mem_cons_of_mem _ h3

theorem min_max_empty (cmpa : α → α → Ordering) :
    Coll.minBy cmpa ([] : List α) = none ∧ Coll.maxBy cmpa ([] : List α) = none := ⟨rfl, rfl⟩

end filters

/-- `reverse` is an involution on every enumerator shape (index-based for `Enumerator::Seq`,
    collect-and-reverse for iterators), and both shapes give the reversed item list -/
theorem reverse_involutive {α : Type} (d : α) (xs : List α) :
    reverseSeq d xs = xs.reverse ∧ reverseIter xs = xs.reverse ∧
    reverseSeq d (reverseSeq d xs) = xs ∧ reverseIter (reverseIter xs) = xs ∧
    reverseIter (reverseSeq d xs) = xs ∧ reverseSeq d (reverseIter xs) = xs := by
  simp [reverseSeq_eq, reverseIter]

/-- `first` / `last` -/
theorem first_last {α : Type} (xs : List α) :
    Coll.first xs = xs.head? ∧ Coll.last xs = xs.getLast? := by
  simp [Coll.first, Coll.last, List.head?_reverse]

/-! ### batch -/

/-- without a fill value the runs concatenate to the input -/
theorem batch_concat {α : Type} (xs : List α) (n : Nat) (hn : 0 < n) :
    ∃ rs, batch xs n none = .ok rs ∧ rs.flatten = xs := by
  obtain ⟨rs, h1, h2, _⟩ := batch_nofill xs n hn
  exact ⟨rs, h1, h2⟩

/-- every run but the last has exactly `count` items, the last between 1 and `count`; with a fill
    value every run has `count` items and the concatenation is the input plus fewer than `count`
    fillers (or an `Err` when the padded run cannot be allocated); `count = 0` is an `Err`; no panic -/
theorem batch_lengths {α : Type} (xs : List α) (n : Nat) :
    (n = 0 → ∀ fill, batch xs n fill = .error) ∧
    (0 < n → ∃ rs, batch xs n none = .ok rs ∧ (∀ r ∈ rs.dropLast, r.length = n) ∧
      (∀ r, rs.getLast? = some r → 0 < r.length ∧ r.length ≤ n)) ∧
    (0 < n → ∀ f, batch xs n (some f) = .error ∨
      ∃ rs k, batch xs n (some f) = .ok rs ∧ k < n ∧ rs.flatten = xs ++ List.replicate k f ∧
        ∀ r ∈ rs, r.length = n) := by
  refine ⟨fun h fill => by subst h; exact batch_zero xs fill, ?_, fun hn f => batch_fill xs n hn f⟩
  intro hn
  obtain ⟨rs, h1, _, h3, h4⟩ := batch_nofill xs n hn
  exact ⟨rs, h1, h3, h4⟩

example : batch [1, 2, 3, 4, 5] 2 (some 0) = .ok [[1, 2], [3, 4], [5, 0]] := by decide
example : batch [1, 2, 3] 9223372036854775807 (none : Option Nat) = .ok [[1, 2, 3]] := by decide
example : batch [1, 2, 3] 9223372036854775807 (some 0) = .error := by decide

/-! ### slice -/

/-- `slice` returns exactly `count` runs that concatenate to the input (no fill value); `count = 0`
    and a `count` that cannot be reserved are an `Err`; it never panics (lists shorter than 2^64) -/
theorem slicef_concat {α : Type} (xs : List α) (count : Nat) (hlen : xs.length < 18446744073709551616) :
    (count = 0 ∨ reservable count = false → ∀ fill, slicef xs count fill = .error) ∧
    (0 < count → reservable count = true →
      ∃ rs, slicef xs count none = .ok rs ∧ rs.length = count ∧ rs.flatten = xs) := by
  refine ⟨fun h fill => slicef_error xs count fill h, ?_⟩
  intro hc hr
  refine ⟨_, slicef_ok xs count none hc hr hlen, by simp, ?_⟩
  have h := pieces_flatten xs (xs.length / count) (xs.length % count) count
    (by rw [pos_count _ _ hc]; exact Nat.le_refl _)
  rw [pos_count _ _ hc, List.take_length] at h
  exact h

/-- run `i` has `len / count` items, one more for the first `len % count` runs — so the lengths are
    non-increasing and differ by at most one; with a fill value all runs have `len / count + 1` items -/
theorem slicef_lengths_differ_le_one {α : Type} (xs : List α) (count : Nat) (hc : 0 < count)
    (hr : reservable count = true) (hlen : xs.length < 18446744073709551616) :
    (∃ rs, slicef xs count none = .ok rs ∧ rs.length = count ∧
      (∀ i (h : i < rs.length), rs[i].length = xs.length / count + (if i < xs.length % count then 1 else 0)) ∧
      (∀ i j (hi : i < rs.length) (hj : j < rs.length), i ≤ j →
        rs[j].length ≤ rs[i].length ∧ rs[i].length ≤ rs[j].length + 1)) ∧
    (∀ f, ∃ rs, slicef xs count (some f) = .ok rs ∧ rs.length = count ∧
      ∀ r ∈ rs, r.length = xs.length / count + 1) := by
  have hpos : ∀ i, i < count → pos (xs.length / count) (xs.length % count) (i + 1) ≤ xs.length := by
    intro i hi
    have := pos_mono (xs.length / count) (xs.length % count) (i + 1) count (by omega)
    rw [pos_count _ _ hc] at this; exact this
  have hlen_i : ∀ i (h : i < ((List.range count).map (runOf xs (xs.length / count) (xs.length % count) none)).length),
      (((List.range count).map (runOf xs (xs.length / count) (xs.length % count) none))[i]).length =
        xs.length / count + (if i < xs.length % count then 1 else 0) := by
    intro i h
    simp only [List.length_map, List.length_range] at h
    simp only [List.getElem_map, List.getElem_range]
    exact runOf_length_nofill xs _ _ i (hpos i h)
  refine ⟨⟨_, slicef_ok xs count none hc hr hlen, by simp, hlen_i, ?_⟩, ?_⟩
  · intro i j hi hj hij
    rw [hlen_i i hi, hlen_i j hj]
    by_cases h1 : i < xs.length % count <;> by_cases h2 : j < xs.length % count <;>
      simp [h1, h2] <;> omega
  · intro f
    refine ⟨_, slicef_ok xs count (some f) hc hr hlen, by simp, ?_⟩
    intro r hr'
    simp only [List.mem_map, List.mem_range] at hr'
    obtain ⟨i, hi, rfl⟩ := hr'
    exact runOf_length_fill xs _ _ i f (hpos i hi)

example : slicef [1, 2, 3, 4, 5, 6, 7] 3 (none : Option Nat) = .ok [[1, 2, 3], [4, 5], [6, 7]] := by decide
example : slicef [1, 2, 3, 4, 5, 6, 7] 3 (some 0) = .ok [[1, 2, 3], [4, 5, 0], [6, 7, 0]] := by decide
example : slicef [1, 2] 9223372036854775807 (none : Option Nat) = .error := by decide
example : reservable 3 = true ∧ (0 : Nat) < 3 := by decide

/-! ## the filters on values, as `filters.rs` writes them -/

/-- `cmp_helper` (case folding only when both operands are strings, `reverse` flips) is `Value::cmp`
    on the case-folded operands — so it is a total preorder on values within range -/
theorem cmp_helper_is_cmp_on_folded (cs rev : Bool) (a b : V) :
    cmpHelper cs rev a b = revCmp (fun x y => cmpV (foldCase cs x) (foldCase cs y)) rev a b :=
  cmpHelper_eq cs rev a b

example : cmpHelper false false (.str [65]) (.str [97]) = .eq ∧ cmpHelper true false (.str [65]) (.str [97]) = .lt ∧
    cmpHelper false true (.num (.i64 1)) (.str [97]) = .gt := by decide

/-- `sort(case_sensitive, reverse, attribute)` on values: a permutation, ordered by `cmp_helper` on
    the keys, items with `Equal` keys in input order (also with `reverse=true`) -/
theorem sort_values_spec (m : Mode) (cs rev : Bool) (attr : Option (List Nat)) (xs : List V)
    (h : ∀ x ∈ xs, MJ.C07.InRange (keyOf m attr x)) :
    (sortV m cs rev attr xs).Perm xs ∧
    (sortV m cs rev attr xs).Pairwise (fun a b => cmpHelper cs rev (keyOf m attr a) (keyOf m attr b) ≠ .gt) ∧
    (∀ a b, [a, b].Sublist xs → cmpHelper cs rev (keyOf m attr a) (keyOf m attr b) = .eq →
      [a, b].Sublist (sortV m cs rev attr xs)) :=
  sortV_spec m cs rev attr xs h

/-- the hypothesis is satisfiable: two maps with attribute `k` holding `"a"` and `"A"` (equal keys
    when case-insensitive) and a NaN -/
example : ∀ x ∈ [V.map [(.str [107], .str [97])], .map [(.str [107], .str [65])], .map [(.str [107], .num (.f64 0x7ff8000000000000))]],
    MJ.C07.InRange (keyOf .btree (some [107]) x) := by
  intro x hx
  simp only [List.mem_cons, List.not_mem_nil, or_false] at hx
  rcases hx with rfl | rfl | rfl <;> simp [keyOf, attrOr, getByStr, scanStr, MJ.Gen.valueMapStrScanMax, AllNum, N.WF, P64, i64Min, i64Max, u64Max]

/-- `sort(attribute="a, b")` (several attributes): the same laws, keyed by the list of the attribute
    values (compared as a list: no case folding inside) -/
theorem sort_multi_attribute_spec (m : Mode) (cs rev : Bool) (names : List (List Nat)) (xs : List V)
    (h : ∀ x ∈ xs, MJ.C07.InRange (keyMulti m names x)) :
    (sortMultiV m cs rev names xs).Perm xs ∧
    (sortMultiV m cs rev names xs).Pairwise (fun a b => cmpHelper cs rev (keyMulti m names a) (keyMulti m names b) ≠ .gt) ∧
    (∀ a b, [a, b].Sublist xs → cmpHelper cs rev (keyMulti m names a) (keyMulti m names b) = .eq →
      [a, b].Sublist (sortMultiV m cs rev names xs)) :=
  sortMultiV_spec m cs rev names xs h

example : MJ.C07.InRange (keyMulti .btree [[103], [107]] (.map [(.str [103], .num (.u64 1)), (.str [107], .str [65])])) := by
  simp [keyMulti, attrOr, getByStr, scanStr, MJ.Gen.valueMapStrScanMax, AllNum, AllNumL, N.WF, u64Max]

/-- `dictsort(case_sensitive, reverse, by)`: a stable sort of the `(key, value)` pairs by the key or
    the value projection -/
theorem dictsort_spec (cs rev byValue : Bool) (ps : List (V × V))
    (h : ∀ p ∈ ps, MJ.C07.InRange (if byValue then p.2 else p.1)) :
    (dictsortV cs rev byValue ps).Perm ps ∧
    (dictsortV cs rev byValue ps).Pairwise (fun a b =>
      cmpHelper cs rev (if byValue then a.2 else a.1) (if byValue then b.2 else b.1) ≠ .gt) ∧
    (∀ a b, [a, b].Sublist ps →
      cmpHelper cs rev (if byValue then a.2 else a.1) (if byValue then b.2 else b.1) = .eq →
      [a, b].Sublist (dictsortV cs rev byValue ps)) :=
  dictsortV_spec cs rev byValue ps h

example : ∀ p ∈ [((V.str [98]), V.num (.i64 2)), (.str [66], .num (.f64 0))], MJ.C07.InRange (if true then p.2 else p.1) := by
  intro p hp
  simp only [List.mem_cons, List.not_mem_nil, or_false] at hp
  rcases hp with rfl | rfl <;> simp [keyOf, attrOr, getByStr, scanStr, MJ.Gen.valueMapStrScanMax, AllNum, N.WF, P64, i64Min, i64Max, u64Max]

/-- `unique(case_sensitive, attribute)`: an order-preserving sub-sequence without two `Equal`
    memorised keys that represents every input key and keeps first occurrences — whatever the
    lower-casing function (`str::to_lowercase`) does -/
theorem unique_values_spec (m : Mode) (lower : List Nat → List Nat) (cs : Bool) (attr : Option (List Nat)) (xs : List V)
    (h : ∀ x ∈ xs, MJ.C07.InRange (keyOf m attr x)) :
    (uniqueV m lower cs attr xs).Sublist xs ∧
    (uniqueV m lower cs attr xs).Pairwise
      (fun a b => cmpV (uniqKey m lower cs attr a) (uniqKey m lower cs attr b) ≠ .eq) ∧
    (∀ x ∈ xs, ∃ y ∈ uniqueV m lower cs attr xs,
      cmpV (uniqKey m lower cs attr y) (uniqKey m lower cs attr x) = .eq) ∧
    (∀ pre x post, xs = pre ++ x :: post →
      (∀ p ∈ pre, cmpV (uniqKey m lower cs attr p) (uniqKey m lower cs attr x) ≠ .eq) →
      x ∈ uniqueV m lower cs attr xs) :=
  uniqueV_spec m lower cs attr xs h

/-- `groupby(attribute, default, case_sensitive)`: the groups concatenate to the input stably sorted
    by the attribute (hence partition it), no group is empty, every member's attribute is `Equal`
    to the grouper, groupers strictly increasing -/
theorem groupby_values_spec (m : Mode) (cs : Bool) (name : List Nat) (dflt : V) (xs : List V)
    (h : ∀ x ∈ xs, MJ.C07.InRange (attrOr m name dflt x)) :
    let G := groupbyV m cs name dflt xs
    let S := xs.mergeSort (fun a b => cmpHelper cs false (attrOr m name dflt a) (attrOr m name dflt b) != .gt)
    G.flatMap (·.2) = S ∧ S.Perm xs ∧
    (∀ p ∈ G, p.2 ≠ [] ∧ ∀ y ∈ p.2, cmpHelper cs false p.1 (attrOr m name dflt y) = .eq) ∧
    G.Pairwise (fun p q => cmpHelper cs false p.1 q.1 = .lt) :=
  groupbyV_spec m cs name dflt xs h

example : ∀ x ∈ [V.map [(.str [107], .num (.u64 1))], .none], MJ.C07.InRange (attrOr .btree [107] (.num (.i64 0)) x) := by
  intro x hx
  simp only [List.mem_cons, List.not_mem_nil, or_false] at hx
  rcases hx with rfl | rfl <;> simp [keyOf, attrOr, getByStr, scanStr, MJ.Gen.valueMapStrScanMax, AllNum, N.WF, P64, i64Min, i64Max, u64Max]

/-- `min` / `max` on values within range -/
theorem min_max_values (xs : List V) (h : ∀ x ∈ xs, MJ.C07.InRange x) (r : V) :
    (Coll.minBy cmpV xs = some r → r ∈ xs ∧ ∀ x ∈ xs, cmpV r x ≠ .gt) ∧
    (Coll.maxBy cmpV xs = some r → r ∈ xs ∧ ∀ x ∈ xs, cmpV r x ≠ .lt) :=
  minmaxV_spec xs h r

/-- `x in xs` (lists, tuples, iterables; also the `in` test): some item is `==` to `x` -/
theorem in_seq_iff (m : Mode) (xs : List V) (x : V) :
    (containsV m (.seq xs) x = some true ↔ ∃ y ∈ xs, eqV m y x = true) ∧
    (containsV m (.tuple xs) x = some true ↔ ∃ y ∈ xs, eqV m y x = true) ∧
    (containsV m (.iter xs) x = some true ↔ ∃ y ∈ xs, eqV m y x = true) :=
  contains_seq_iff m xs x

/-- `x in m` for a map: some key compares `Equal` to `x`; outside the excluded regions (NaN, a bool
    facing a number) that is "some key is `==` to `x`" -/
theorem in_map_iff (ps : List (V × V)) (x : V) :
    (containsV .btree (.map ps) x = some true ↔ ∃ p ∈ ps, cmpV x p.1 = .eq) ∧
    (NoNaN x → (∀ p ∈ ps, NoNaN p.1) → SortedMaps x → (∀ p ∈ ps, SortedMaps p.1) →
      (∀ p ∈ ps, noClash x p.1 = true) →
      (containsV .btree (.map ps) x = some true ↔ ∃ p ∈ ps, eqV .btree p.1 x = true)) :=
  ⟨contains_map_iff_cmp ps x, fun hx hps sx sps hc => contains_map_iff_eq ps x hx hps sx sps hc⟩

example : containsV .btree (.map [(.num (.i64 1), .none)]) (.num (.f64 0x3ff0000000000000)) = some true := by decide +kernel

/-- `select` / `reject` (and `selectattr` / `rejectattr`) with a test: the filter by the test and its
    complement, in input order; `eq` is `==`, `lt`…`ge` are `Value::cmp`, `in` is containment -/
theorem select_reject_spec (m : Mode) (attr : Option (List Nat)) (t : Test) (arg : V) (xs : List V) :
    selectV m false attr t arg xs = xs.filter (fun x => testV m t (keyOf m attr x) arg) ∧
    selectV m true attr t arg xs = xs.filter (fun x => !testV m t (keyOf m attr x) arg) ∧
    (selectV m false attr t arg xs ++ selectV m true attr t arg xs).Perm xs ∧
    (selectV m false attr t arg xs).Sublist xs ∧ (selectV m true attr t arg xs).Sublist xs :=
  select_reject m attr t arg xs

theorem select_tests_spec (m : Mode) (a b : V) :
    testV m .eq a b = eqV m a b ∧ testV m .ne a b = !eqV m a b ∧
    (testV m .lt a b = true ↔ cmpV a b = .lt) ∧ (testV m .le a b = true ↔ cmpV a b ≠ .gt) ∧
    (testV m .gt a b = true ↔ cmpV a b = .gt) ∧ (testV m .ge a b = true ↔ cmpV a b ≠ .lt) ∧
    (testV m .isIn a b = true ↔ containsV m b a = some true) :=
  select_tests m a b

/-- a map literal `{…, k: v, …}` (`BTreeMap::insert` pair by pair): looking `k` up gives the value
    inserted last, and the keys stay strictly increasing (an `Equal` key is never entered twice) -/
theorem map_literal_last_wins (k v : V) (hk : MJ.C07.InRange k) (ps : List (V × V))
    (hr : ∀ p ∈ ps, MJ.C07.InRange p.1) (hs : KeysSorted ps) :
    getB k (insertLit k v ps) = some v ∧ KeysSorted (insertLit k v ps) :=
  ⟨insertLit_lookup k v (cmp_refl k hk) ps, insertLit_sorted k v hk ps hr hs⟩

example : (insertLit (.num (.f64 0x3ff0000000000000)) (.str [98]) [(.num (.i64 1), .str [97])]).length = 1 ∧
    (getB (.num (.i64 1)) (insertLit (.num (.f64 0x3ff0000000000000)) (.str [98]) [(.num (.i64 1), .str [97])])).isSome = true := by
  decide +kernel

/-- what the code guarantees about NaN: the *order* treats a NaN as equal to itself (so sorting and
    `BTreeMap` lookups stay well-defined — `cmp_refines_key` holds with NaNs), while `==` does not -/
theorem nan_eq_irreflexive (b : Nat) (h : isNaN b = true) :
    eqN (.f64 b) (.f64 b) = false ∧ cmpN (.f64 b) (.f64 b) = .eq := by
  refine ⟨?_, ?_⟩
  · simp [eqN, coerceN, feq, h]
  · simp only [cmpN, coerceN]
    rw [cmpF64_eq]; exact Int.compare_eq_eq.mpr rfl

example : isNaN 0x7ff8000000000000 = true := by decide

/-- the regenerated source facts the model reads: which kinds share an ordering slot, the size of
    the small-map fast path, which variants `Hash` feeds as a zero byte -/
theorem source_tables_tie :
    MJ.Gen.cmpKindAlias = [("Iterable", "Seq")] ∧ MJ.Gen.hashSharedZeroKinds = ["None", "Undefined"] ∧
    hkey .none = hkey .undef ∧ 0 < MJ.Gen.valueMapStrScanMax := by
  refine ⟨rfl, rfl, rfl, by decide⟩

/-! ## attribute paths and composite keys -/

/-- `sort(attribute="a.b.0")` (a dotted path with names and indexes) is the sort by the key function
    `get_path_or_default(path, undefined)`: the same laws as for a single attribute -/
theorem sort_path_spec (m : Mode) (cs rev : Bool) (path : List PathPart) (xs : List V)
    (h : ∀ x ∈ xs, MJ.C07.InRange (pathOr m path .undef x)) :
    (sortPathV m cs rev path xs).Perm xs ∧
    (sortPathV m cs rev path xs).Pairwise (fun a b => cmpHelper cs rev (pathOr m path .undef a) (pathOr m path .undef b) ≠ .gt) ∧
    (∀ a b, [a, b].Sublist xs → cmpHelper cs rev (pathOr m path .undef a) (pathOr m path .undef b) = .eq →
      [a, b].Sublist (sortPathV m cs rev path xs)) :=
  sortKV_spec cs rev (pathOr m path .undef) xs h

/-- a path of one name is the single attribute of `sort_values_spec`; an item on which the path fails
    (no such attribute, an attribute of a non-map, an attribute of undefined) sorts as undefined -/
theorem path_single_name_is_attr (m : Mode) (s : List Nat) (d x : V) :
    pathOr m [.name s] d x = attrOr m s d x := pathOr_single_name m s d x

example : pathOr .btree [.name [97], .name [98]] .undef (.map [(.str [97], .map [(.str [98], .num (.i64 7))])]) = .num (.i64 7) ∧
    pathOr .btree [.name [97], .name [98]] .undef (.map [(.str [97], .num (.i64 7))]) = .undef ∧
    pathOr .btree [.name [97], .name [98]] .undef (.map []) = .undef ∧
    pathOr .btree [.idx 1] .undef (.seq [.none, .str [120]]) = .str [120] := by
  refine ⟨?_, ?_, ?_, ?_⟩ <;> simp [pathOr, getPath, getAttr, getIdx, getByStr, scanStr, MJ.Gen.valueMapStrScanMax]

/-- several attributes (`attribute="p, q, …"`): the composite key orders lexicographically — the first
    path decides, `Equal` first values hand over to the rest — and case folding never reaches inside -/
theorem multi_key_is_lexicographic (m : Mode) (cs : Bool) (p : List PathPart) (ps : List (List PathPart)) (a b : V) :
    cmpHelper cs false (keyMultiP m (p :: ps) a) (keyMultiP m (p :: ps) b) =
      (cmpV (pathOr m p .undef a) (pathOr m p .undef b)).then
        (cmpHelper cs false (keyMultiP m ps a) (keyMultiP m ps b)) ∧
    cmpHelper cs false (keyMultiP m [] a) (keyMultiP m [] b) = .eq := by
  simp only [cmpHelper, keyMultiP, List.map_cons, List.map_nil, cmpCore_seq, Bool.false_eq_true, if_false]
  exact ⟨cmpV_seq_cons _ _ _ _, cmpV_seq_nil⟩

theorem sort_multi_path_spec (m : Mode) (cs rev : Bool) (paths : List (List PathPart)) (xs : List V)
    (h : ∀ x ∈ xs, MJ.C07.InRange (keyMultiP m paths x)) :
    (sortMultiPathV m cs rev paths xs).Perm xs ∧
    (sortMultiPathV m cs rev paths xs).Pairwise (fun a b => cmpHelper cs rev (keyMultiP m paths a) (keyMultiP m paths b) ≠ .gt) ∧
    (∀ a b, [a, b].Sublist xs → cmpHelper cs rev (keyMultiP m paths a) (keyMultiP m paths b) = .eq →
      [a, b].Sublist (sortMultiPathV m cs rev paths xs)) :=
  sortKV_spec cs rev (keyMultiP m paths) xs h

example : MJ.C07.InRange (keyMultiP .btree [[.name [103]], [.name [112], .name [107]]]
    (.map [(.str [103], .num (.u64 1)), (.str [112], .map [(.str [107], .str [65])])])) := by
  simp [keyMultiP, pathOr, getPath, getAttr, getByStr, scanStr, MJ.Gen.valueMapStrScanMax, AllNum, AllNumL, N.WF, u64Max]

/-- `unique(attribute=path)` and `groupby(path, default)` obey the laws of `unique_values_spec` /
    `groupby_values_spec` with the path value as key -/
theorem unique_path_spec (m : Mode) (lower : List Nat → List Nat) (cs : Bool) (path : List PathPart) (xs : List V)
    (h : ∀ x ∈ xs, MJ.C07.InRange (pathOr m path .undef x)) :
    let key := memoKey lower cs (pathOr m path .undef)
    (uniquePathV m lower cs path xs).Sublist xs ∧
    (uniquePathV m lower cs path xs).Pairwise (fun a b => cmpV (key a) (key b) ≠ .eq) ∧
    (∀ x ∈ xs, ∃ y ∈ uniquePathV m lower cs path xs, cmpV (key y) (key x) = .eq) ∧
    (∀ pre x post, xs = pre ++ x :: post → (∀ p ∈ pre, cmpV (key p) (key x) ≠ .eq) →
      x ∈ uniquePathV m lower cs path xs) :=
  uniqueKV_spec lower cs (pathOr m path .undef) xs h

theorem groupby_path_spec (m : Mode) (cs : Bool) (path : List PathPart) (dflt : V) (xs : List V)
    (h : ∀ x ∈ xs, MJ.C07.InRange (pathOr m path dflt x)) :
    let G := groupbyPathV m cs path dflt xs
    let S := xs.mergeSort (fun a b => cmpHelper cs false (pathOr m path dflt a) (pathOr m path dflt b) != .gt)
    G.flatMap (·.2) = S ∧ S.Perm xs ∧
    (∀ p ∈ G, p.2 ≠ [] ∧ ∀ y ∈ p.2, cmpHelper cs false p.1 (pathOr m path dflt y) = .eq) ∧
    G.Pairwise (fun p q => cmpHelper cs false p.1 q.1 = .lt) :=
  groupbyKV_spec cs (pathOr m path dflt) xs h

example : ∀ x ∈ [V.map [(.str [112], .map [(.str [107], .num (.u64 1))])], .map [(.str [112], .num (.i64 7))], .none],
    MJ.C07.InRange (pathOr .btree [.name [112], .name [107]] (.num (.i64 0)) x) := by
  intro x hx
  simp only [List.mem_cons, List.not_mem_nil, or_false] at hx
  rcases hx with rfl | rfl | rfl <;>
    simp [pathOr, getPath, getAttr, getByStr, scanStr, MJ.Gen.valueMapStrScanMax, AllNum, N.WF, i64Min, i64Max, u64Max]

/-! ## sum / zip / chain / items / list -/

/-- `sum` is the fold of the C08 integer addition from `0` over the integer items (undefined items are
    skipped; anything else that is not a number is an `Err`) — so by C08's `sum_exact` its result is the
    exact sum, and it does not depend on the order or the representation widths of the items -/
theorem sum_is_fold_of_add (xs : List V) (h : SumOK xs) :
    sumV xs = some (match MJ.Num.sumFilter (intItems xs) with
      | .ok r => .ok r
      | .err => .error) :=
  sumFrom_eq (.i64 0) xs h

example : SumOK [.num (.i64 1), .undef, .num (.u128 18446744073709551616)] ∧
    sumV [.num (.i64 1), .undef, .num (.u128 18446744073709551616)] = some (.ok (.i128 18446744073709551617)) ∧
    sumV [.num (.i64 1), .str [97]] = some .error := by
  refine ⟨by simp [SumOK, toRepr], by rfl, by rfl⟩

/-- `zip`: as many tuples as the shortest operand has items, tuple `i` holds item `i` of every operand
    in operand order (so every tuple has one entry per operand) -/
theorem zip_spec (xss : List (List V)) :
    (zipV xss).length = zipRounds xss ∧ (∀ xs ∈ xss, (zipV xss).length ≤ xs.length) ∧
    (∀ i (h : i < (zipV xss).length), (zipV xss)[i] = xss.map (fun xs => xs.getD i .undef)) ∧
    (∀ t ∈ zipV xss, t.length = xss.length) := by
  refine ⟨zipV_length xss, ?_, zipV_getElem xss, ?_⟩
  · intro xs hx; rw [zipV_length]; exact zipRounds_le xss xs hx
  · intro t ht
    simp only [zipV, List.mem_map, List.mem_range] at ht
    obtain ⟨i, _, rfl⟩ := ht
    simp

theorem zip_two (xs ys : List V) : (zipV [xs, ys]).length = min xs.length ys.length := by
  rw [zipV_length, zipRounds_two]

example : zipV [[.num (.i64 1), .num (.i64 2), .num (.i64 3)], [.str [97], .str [98]]] =
    [[.num (.i64 1), .str [97]], [.num (.i64 2), .str [98]]] := by rfl

/-- `chain` of sequences / iterables: the items of the operands one after the other; associative; the
    reported length is the sum of the known lengths; `[i]` is item `i` of the concatenation -/
theorem chain_spec (a b c : List V) (xss : List (List V)) (i : Nat) :
    chainSeq [chainSeq [a, b], c] = chainSeq [a, chainSeq [b, c]] ∧
    chainSeq [chainSeq [a, b], c] = chainSeq [a, b, c] ∧
    chainSeq [a, b] = a ++ b ∧
    chainLen (xss.map (fun xs => some xs.length)) = some (chainSeq xss).length ∧
    chainIdx xss i = (chainSeq xss)[i]? := by
  refine ⟨by simp [chainSeq], by simp [chainSeq], by simp [chainSeq], chainLen_known xss, chainIdx_eq xss i⟩

example : chainLen [some 2, Option.none, some 1] = Option.none ∧ chainLen [some 2, some 1] = some 3 := by decide

/-- `items` ↔ dict round trip: the tuples of `items` are the map's pairs in iteration order, one per entry -/
theorem items_roundtrip (ps : List (V × V)) :
    pairsOf (itemsV ps) = ps ∧ (itemsV ps).length = ps.length ∧
    listV (.map ps) = some (ps.map Prod.fst) := by
  refine ⟨pairsOf_itemsV ps, by simp [itemsV], rfl⟩

/-- … and building a `BTreeMap` from those pairs gives the map back (keys in strictly increasing order) -/
theorem items_rebuild (ps : List (V × V)) (h : ∀ p ∈ ps, MJ.C07.InRange p.1) (hs : KeysSorted ps) :
    mkMap .btree (pairsOf (itemsV ps)) = .map ps := by
  rw [pairsOf_itemsV]
  exact mkMap_btree_of_sorted ps h hs

example : (∀ p ∈ [((V.str [97]), V.num (.i64 1)), (.str [98], .none)], MJ.C07.InRange p.1) ∧
    KeysSorted [((V.str [97]), V.num (.i64 1)), (.str [98], .none)] := by
  refine ⟨by intro p hp; simp only [List.mem_cons, List.not_mem_nil, or_false] at hp; rcases hp with rfl | rfl <;> simp [AllNum], ?_⟩
  simp only [KeysSorted, List.map_cons, List.map_nil, List.pairwise_cons, List.mem_cons, List.not_mem_nil, or_false,
    forall_eq, false_imp_iff, implies_true, List.Pairwise.nil, and_true]
  decide +kernel

/-- `list`: the items of a sequence / tuple / iterable, the keys of a map, the characters of a string,
    nothing for undefined and none; idempotent -/
theorem list_spec (xs : List V) (v : V) (ys : List V) (_h : listV v = some ys) :
    listV (.seq xs) = some xs ∧ listV (.tuple xs) = some xs ∧ listV (.iter xs) = some xs ∧
    listV .undef = some [] ∧ listV .none = some [] ∧ listV (.seq ys) = some ys := by
  simp [listV]

example : listV (.str [97, 195, 169]) = some [.str [97], .str [195, 169]] ∧ listV (.num (.i64 1)) = Option.none := by
  refine ⟨by rfl, by rfl⟩

/-- the pycompat dict methods: `get` is the map lookup (so it finds a key exactly when `in` does),
    `keys` / `values` / `items` walk the pairs in iteration order and line up -/
theorem pycompat_dict_spec (m : Mode) (ps : List (V × V)) (k : V) (d : Option V) :
    (dictGet m ps k d = match getV m ps k with | some v => v | Option.none => d.getD .none) ∧
    ((getV m ps k).isSome = true ↔ containsV m (.map ps) k = some true) ∧
    (dictKeys ps).zip (dictValues ps) = ps ∧ pairsOf (dictItems ps) = ps ∧
    listV (.map ps) = some (dictKeys ps) := by
  refine ⟨rfl, by simp [containsV], ?_, pairsOf_itemsV ps, rfl⟩
  simp [dictKeys, dictValues, List.zip_map_left, List.zip_map_right]
  induction ps with
  | nil => rfl
  | cons p ps ih => simp [ih]

/-- `xs.count(x)` counts the items that are `==` to `x`: positive exactly when `x in xs` -/
theorem count_pos_iff_in (m : Mode) (xs : List V) (x : V) :
    0 < countV m xs x ↔ containsV m (.seq xs) x = some true := by
  simp [countV, containsV, List.length_pos_iff_exists_mem]

/-! ## the `sameas` test -/

/-- `sameas` refines `==` on values that are not objects (same kind, both integers or both not, and
    `==`), and is object identity on objects -/
theorem sameas_spec (m : Mode) (sameObj : Bool) (a b : V) :
    (isObj a = false → isObj b = false → sameasV m sameObj a b = true → eqV m a b = true) ∧
    (isObj a = true → isObj b = true → sameasV m sameObj a b = sameObj) ∧
    (isObj a ≠ isObj b → sameasV m sameObj a b = false) := by
  refine ⟨?_, ?_, ?_⟩
  · intro ha hb h
    simp only [sameasV, ha, hb, Bool.and_self, Bool.false_eq_true, if_false, Bool.or_self, Bool.and_eq_true] at h
    exact h.2
  · intro ha hb; simp [sameasV, ha, hb]
  · intro h
    cases ha : isObj a <;> cases hb : isObj b <;> simp [ha, hb] at h <;> simp [sameasV, ha, hb]

/-- `1 is sameas 1.0` is false although `1 == 1.0`; `true is sameas 1` is false although `true == 1` -/
example : sameasV .btree false (.num (.i64 1)) (.num (.f64 0x3ff0000000000000)) = false ∧
    eqV .btree (.num (.i64 1)) (.num (.f64 0x3ff0000000000000)) = true ∧
    sameasV .btree false (.bool true) (.num (.i64 1)) = false ∧
    sameasV .btree false (.num (.u64 1)) (.num (.i64 1)) = true := by
  refine ⟨by decide +kernel, by decide +kernel, by decide +kernel, by decide +kernel⟩

/-! ## `reverse` / `last` on every enumerator shape -/

/-- Full-strength statement: `Value::reverse` yields the items backwards whatever the variant of the
    object's enumerator (anything that can be enumerated). -/
def reverse_full : Prop :=
  ∀ (v : EnumVar) (xs : List Nat), v ≠ .nonEnumerable → reverseEnum v xs = some xs.reverse

/-- False on the current code: the `Enumerator::RevIter` arm hands the iterator on without `.rev()`
    (regenerated arm table), so `BTreeSet`, `LinkedList` and user objects enumerating through
    `mapped_rev_enumerator` come back in forward order — pinned by the existing test `test_reverse`
    (a known finding). -/
theorem reverse_counterexample : ¬ reverse_full := by
  intro h
  have := h .revIter [1, 2] (by decide)
  revert this
  decide

/-- what the code does, exactly: every arm but `RevIter` reverses (`Empty` has nothing to reverse), `RevIter`
    is the identity, `NonEnumerable` an error; `last` is the head of that -/
theorem reverse_partial {α : Type} (v : EnumVar) (xs : List α) :
    (v ≠ .revIter → v ≠ .nonEnumerable → v ≠ .empty → reverseEnum v xs = some xs.reverse ∧
      (reverseEnum v xs).bind (reverseEnum .values) = some xs ∧ lastEnum v xs = some xs.getLast?) ∧
    (reverseEnum .revIter xs = some xs ∧ lastEnum .revIter xs = some xs.head?) ∧
    reverseEnum .empty ([] : List α) = some [] ∧
    reverseEnum .nonEnumerable xs = Option.none := by
  refine ⟨?_, ⟨by rfl, by rfl⟩, by rfl, by rfl⟩
  intro h1 h2 h3
  have hv : reverseEnum v xs = some xs.reverse := by
    cases v <;> first | (exact absurd rfl h1) | (exact absurd rfl h2) | (exact absurd rfl h3) | rfl
  refine ⟨hv, ?_, ?_⟩
  · rw [hv]
    show reverseEnum .values xs.reverse = some xs
    have : reverseEnum .values xs.reverse = some xs.reverse.reverse := by rfl
    rw [this, List.reverse_reverse]
  · simp [lastEnum, hv, List.head?_reverse]

/-- the variants are the ones of the source, arm for arm -/
theorem reverse_arms_tie : MJ.Gen.reverseArms.map Prod.fst = ["NonEnumerable", "Empty", "Seq", "Iter", "KeyValueIter",
    "RevIter", "RevKeyValueIter", "Str", "Values"] ∧
    allEnumVars.all (fun v => (MJ.Gen.reverseArms.lookup v.name).isSome) = true := by
  refine ⟨by rfl, by decide⟩

/-! ## invalid values, object identity, `custom_cmp` -/

/-- two invalid values (`Value::from(Error)`): ordered by (kind, detail) — a total order that agrees
    with `==`, and `==` values feed the hasher the same items -/
theorem invalid_values_order (a b c : Inv) :
    cmpInv a a = .eq ∧ cmpInv b a = (cmpInv a b).swap ∧
    (cmpInv a b ≠ .gt → cmpInv b c ≠ .gt → cmpInv a c ≠ .gt) ∧
    (eqInv a b = true ↔ cmpInv a b = .eq) ∧ (eqInv a b = true → hkeyInv a = hkeyInv b) :=
  inv_order a b c

example : cmpInv ⟨2, some [98, 111]⟩ ⟨2, some [98, 97]⟩ = .gt ∧ cmpInv ⟨2, Option.none⟩ ⟨2, some []⟩ = .lt ∧
    eqInv ⟨2, some [98]⟩ ⟨2, some [98]⟩ = true := by decide

/-- the identity short-cut (`is_same_object` → `Equal` / `true`) returns what the structural comparison
    of a value with itself returns: `Equal` always, `true` for NaN-free values -/
theorem identity_shortcut_sound (a : V) (ha : NoNaN a) (sa : SortedMaps a) (hc : noClash a a = true) :
    cmpV a a = .eq ∧ eqV .btree a a = true := by
  have hr : cmpV a a = .eq := by
    rw [cmpV_eq_cmpK numSpec_ok a a ha ha]; exact ReflCmp.compare_self
  exact ⟨hr, (eq_iff_cmp_eq a a ha ha sa sa hc).mpr hr⟩

example : NoNaN (.seq [.num (.f64 0x3ff0000000000000), .map [(.str [97], .tuple [.none])]]) ∧
    SortedMaps (.seq [.num (.f64 0x3ff0000000000000), .map [(.str [97], .tuple [.none])]]) ∧
    noClash (.seq [.num (.f64 0x3ff0000000000000), .map [(.str [97], .tuple [.none])]])
      (.seq [.num (.f64 0x3ff0000000000000), .map [(.str [97], .tuple [.none])]]) = true := by
  refine ⟨?_, by decide +kernel, by decide +kernel⟩
  simp [AllNum, AllNumL, AllNumPL, NumOK, N.WF, P64] <;> decide

/-- … which is why NaN is excluded: a list holding a NaN is `==` to itself as the same object, but not
    to an equal list built separately -/
example : eqV .btree (.seq [.num (.f64 0x7ff8000000000000)]) (.seq [.num (.f64 0x7ff8000000000000)]) = false := by
  decide +kernel

/-- plain objects with object identity and a user `custom_cmp`: `==` holds exactly when `cmp` says
    `Equal` (ids identify objects); among objects of one type that all define `custom_cmp` the order is
    the order of their custom keys — total, reflexive, antisymmetric, transitive -/
theorem custom_cmp_spec (a b c : PObj) (hid : IdsCoherent [a, b, c]) :
    (eqPObj a b = true ↔ cmpPObj a b = .eq) ∧
    (a.ty = b.ty → b.ty = c.ty → a.ckey.isSome → b.ckey.isSome → c.ckey.isSome →
      cmpPObj a a = .eq ∧ cmpPObj b a = (cmpPObj a b).swap ∧
      (cmpPObj a b ≠ .gt → cmpPObj b c ≠ .gt → cmpPObj a c ≠ .gt)) :=
  pobj_spec a b c hid

example : IdsCoherent [⟨1, 1, some 2, [97]⟩, ⟨2, 1, some 1, [98]⟩, ⟨3, 1, some 1, [99]⟩] := by
  unfold IdsCoherent; decide

/-- across types the engine falls back to the renderings, which a `custom_cmp` need not respect: three
    objects on which `cmp` is not transitive (a contract on user code, outside the property) -/
theorem custom_cmp_mixed_types_counterexample :
    ∃ a b c : PObj, cmpPObj a b = .lt ∧ cmpPObj b c = .lt ∧ cmpPObj a c = .gt :=
  ⟨⟨1, 1, some 2, [97]⟩, ⟨2, 2, Option.none, [98]⟩, ⟨3, 1, some 1, [99]⟩, by decide, by decide, by decide⟩

/-- which comparison every collection filter is built on, read off the source: `sort` (all three
    call sites), `dictsort` pass `case_sensitive` and `reverse` to `cmp_helper`, `groupby` passes
    `case_sensitive` and never reverses (twice: sorting and cutting), `unique` memorises case-folded string
    keys in a `BTreeSet`, `min` / `max` are `Iterator::min` / `max` on `Value::cmp`, `cmp_helper` folds only
    string values and reverses last, every sort ends in the stable `sort_by` -/
theorem filter_comparisons_tie : MJ.Gen.filterCmpCalls = [
    ("dictsort", "cmp_helper", "case_sensitive", "reverse"),
    ("sort", "cmp_helper", "case_sensitive", "reverse"), ("sort", "cmp_helper", "case_sensitive", "reverse"),
    ("sort", "cmp_helper", "case_sensitive", "reverse"),
    ("groupby", "cmp_helper", "case_sensitive", "false"), ("groupby", "cmp_helper", "case_sensitive", "false"),
    ("unique", "BTreeSet", "as_key_str", "to_lowercase"),
    ("min", "Iterator::min", "", ""), ("max", "Iterator::max", "", ""),
    ("cmp_helper", "Value::cmp", "as_key_str", "ordering.reverse()"),
    ("safe_sort", "sort_by", "", "")] := by rfl

/-! ## derived dictionaries: merged dictionaries (`chain`, layered contexts) and the copy `dict(m)` -/

open MJ.CollD in
/-- what a merged dictionary (`a|chain(b)`, `context! { ..a, ..b }`, `merge_maps`) FINDS is what it LISTS:
    `merged[k]` / `k in merged` succeed exactly for the probes `Equal` to a listed key, whatever values the
    entries hold (undefined ones included: fix 276e6ac) -/
theorem merged_dict_lookup_iff_listed (maps : List (List (V × V))) (k : V) (hk : InRange k)
    (h : ∀ ps ∈ maps, ∀ p ∈ ps, InRange p.1) :
    (mergeGetV maps k).isSome = true ↔ ∃ k' ∈ mergeKeysV maps, cmpV k k' = .eq :=
  merge_lookup_iff_listed cmpV (fun a => InRange a) (fun a ha => cmp_refl a ha)
    (fun a b c ha hb hc h1 h2 => by rw [cmp_congr a b c ha hb hc h1]; exact h2)
    isUndefV .undef maps k h hk

open MJ.CollD in
/-- the hypotheses are satisfiable, by the very input that failed before the fix: the only entry of the key
    holds an undefined value, the key is listed and found -/
example : (mergeGetV [[(.str [97], .undef)], []] (.str [97])).isSome = true ∧
    (mergeKeysV [[(.str [97], .undef)], []]).length = 1 := by decide

open MJ.CollD in
/-- the listing of a merged dictionary holds the keys of its operands and nothing else: every operand key has an
    `Equal` representative, every listed key comes from an operand -/
theorem merged_dict_lists_operand_keys (maps : List (List (V × V))) (h : ∀ ps ∈ maps, ∀ p ∈ ps, InRange p.1) :
    (∀ ps ∈ maps, ∀ p ∈ ps, ∃ k' ∈ mergeKeysV maps, cmpV p.1 k' = .eq) ∧
    (∀ k' ∈ mergeKeysV maps, ∃ ps ∈ maps, ∃ p ∈ ps, p.1 = k') :=
  ⟨fun ps hps p hp => mergeKeys_has cmpV maps ps hps p hp (cmp_refl _ (h ps hps p hp)),
   fun k' hk' => mergeKeys_sub cmpV maps k' hk'⟩

theorem cmp_lt_trans (a b c : V) (ha : InRange a) (hb : InRange b) (hc : InRange c)
    (h1 : cmpV a b = .lt) (h2 : cmpV b c = .lt) : cmpV a c = .lt := by
  rw [cmp_refines_key _ _ ha hb] at h1
  rw [cmp_refines_key _ _ hb hc] at h2
  rw [cmp_refines_key _ _ ha hc]
  exact TransCmp.lt_trans h1 h2

theorem cmp_lt_of_gt (a b : V) (ha : InRange a) (hb : InRange b) (h : cmpV a b = .gt) : cmpV b a = .lt := by
  rw [cmp_refines_key _ _ ha hb] at h
  rw [cmp_refines_key _ _ hb ha]
  exact OrientedCmp.lt_of_gt h

open MJ.CollD in
/-- a merged dictionary lists its keys in strictly increasing order, so every key ONCE (no two listed keys are
    `Equal`; the law behind fix 2b20d7e), and `dict(m)` iterates in strictly increasing key order -/
theorem merged_dict_lists_key_once (maps : List (List (V × V))) (h : ∀ ps ∈ maps, ∀ p ∈ ps, InRange p.1) :
    (mergeKeysV maps).Pairwise (fun a b => cmpV a b = .lt) :=
  mergeKeys_sorted cmpV (fun a => InRange a) cmp_lt_trans cmp_lt_of_gt maps h

open MJ.CollD in
theorem dict_copy_sorted (ps : List (V × V)) (h : ∀ p ∈ ps, InRange p.1) :
    ((dictCopyV ps).map (·.1)).Pairwise (fun a b => cmpV a b = .lt) :=
  dictCopy_sorted cmpV (fun a => InRange a) cmp_lt_trans cmp_lt_of_gt ps h

open MJ.CollD in
/-- non-vacuous: two operands sharing a key and holding `1` next to `true` list three keys -/
example : (mergeKeysV [[(.bool true, .undef), (.str [97], .none)], [(.num (.i64 1), .none), (.str [97], .undef)]]).length = 3 := by
  decide

open MJ.CollD in
/-- the lookup as it was before fix 276e6ac violates the law (for any comparison: here `compare` on `Nat`
    with `Option`'s `none` as the undefined value): the key is listed but not found -/
theorem merged_dict_old_lookup_counterexample :
    ¬ (∀ (maps : List (List (Nat × Option Nat))) (k : Nat),
      (mergeGetOld compare Option.isNone maps k).isSome = true ↔ ∃ k' ∈ mergeKeys compare maps, compare k k' = .eq) := by
  intro h
  have := (h [[(1, none)]] 1).mpr ⟨1, by decide, by decide⟩
  revert this
  decide

open MJ.CollD in
/-- `dict(m)` holds exactly the entries of `m` when the keys of `m` are pairwise not `Equal` (which an ordered
    map guarantees for its own keys) — keys that are `==` without being `Equal`, like `true` and `1`, stay apart
    (fix 79eda21) -/
theorem dict_copy_preserves_entries (ps : List (V × V))
    (hpw : ps.Pairwise (fun p q => cmpV q.1 p.1 ≠ .eq)) : (dictCopyV ps).Perm ps :=
  dictCopy_perm cmpV ps hpw

open MJ.CollD in
/-- non-vacuous on the input that lost an entry before the fix -/
example : [((V.bool true), V.num (.i64 10)), (.num (.i64 1), .num (.i64 20))].Pairwise
    (fun p q => cmpV q.1 p.1 ≠ .eq) := by decide

open MJ.CollD in
/-- collecting into the map instead (what `dict(m)` did before the fix: sort, then one entry per run of adjacent
    `==` keys) loses an entry as soon as `==` identifies keys the order keeps apart — shown for a comparison on
    (kind, payload) pairs with an `==` that looks at the payload only, the shape of `true == 1` -/
theorem dict_collect_loses_entry :
    let cmp := fun (a b : Nat × Nat) => (compare a.1 b.1).then (compare a.2 b.2)
    let eq := fun (a b : Nat × Nat) => a.2 == b.2
    let m : List ((Nat × Nat) × Nat) := [((0, 1), 10), ((1, 1), 20)]
    m.Pairwise (fun p q => cmp q.1 p.1 ≠ .eq) ∧ (dictCollect cmp eq m).length = 1 ∧ (dictCopy cmp m).length = 2 := by
  decide

open MJ.CollD in
theorem ins_eq_insertB (k v : V) : ∀ ps : List (V × V), ins cmpV k v ps = insertB k v ps
  | [] => by simp [ins, insertB]
  | (k', v') :: ps => by
    unfold ins insertB
    cases h : cmpV k k' <;> simp [ins_eq_insertB k v ps]

open MJ.CollD in
/-- `dict(m)` builds the very map `Value::from_pairs` / a map literal builds from the entries of `m`, so every
    theorem about `mkMap .btree` (sortedness, lookups, `==`) speaks about the copy -/
theorem dict_copy_is_from_pairs (ps : List (V × V)) : V.map (dictCopyV ps) = mkMap .btree ps := by
  unfold dictCopyV dictCopy mkMap
  simp only
  congr 1
  have : (fun (acc : List (V × V)) (p : V × V) => ins cmpV p.1 p.2 acc) = (fun acc p => insertB p.1 p.2 acc) := by
    funext acc p; exact ins_eq_insertB p.1 p.2 acc
  rw [this]

open MJ.CollD in
/-- `dict(m, k=v)`: the keyword entry is inserted into the copy, so `k` looks up to `v` -/
theorem dict_update_last_wins (k v : V) (hk : InRange k) (ps : List (V × V)) :
    getB k (insertLit k v (dictCopyV ps)) = some v :=
  insertLit_lookup k v (cmp_refl k hk) _

open MJ.CollD in
/-- `namespace(m)` holds exactly the string-keyed entries of `m` (fix 903639e: a bytes key is not one) -/
theorem namespace_keeps_string_entries (ps : List (V × V))
    (hpw : ps.Pairwise (fun p q => cmpV q.1 p.1 ≠ .eq)) :
    (nsCopyV ps).Perm (ps.filter (fun p => isStrKey p.1)) :=
  dictCopy_perm cmpV _ (hpw.filter _)

open MJ.CollD in
/-- an attribute lookup on the namespace finds exactly the string keys of `m`; a bytes probe finds nothing,
    whatever text it holds -/
theorem namespace_lookup_iff (ps : List (V × V)) (hpw : ps.Pairwise (fun p q => cmpV q.1 p.1 ≠ .eq)) :
    (∀ s : List Nat, (nsGetV ps (.str s)).isSome = true ↔ ∃ p ∈ ps, p.1 = .str s) ∧
    (∀ b : List Nat, nsGetV ps (.bytes b) = Option.none) := by
  refine ⟨?_, fun b => rfl⟩
  intro s
  have hperm := namespace_keeps_string_entries ps hpw
  simp only [nsGetV, isStrKey, if_true]
  rw [get_isSome_iff]
  constructor
  · rintro ⟨p, hp, hc⟩
    have hp' := (hperm.mem_iff).mp hp
    exact ⟨p, (List.mem_filter.mp hp').1, (cmpV_str_eq s p.1).mp hc⟩
  · rintro ⟨p, hp, he⟩
    refine ⟨p, (hperm.mem_iff).mpr (List.mem_filter.mpr ⟨hp, by rw [he]; rfl⟩), ?_⟩
    rw [he]; exact (cmpV_str_eq s (.str s)).mpr rfl

open MJ.CollD in
/-- non-vacuous: the string key is found, the bytes key with the same text is not an attribute -/
example : (nsGetV [(.str [97], .num (.i64 1)), (.bytes [97], .num (.i64 2))] (.str [97])).isSome = true ∧
    (nsCopyV [(.str [97], .num (.i64 1)), (.bytes [97], .num (.i64 2))]).length = 1 := by decide

/-! ## `preserve_order`: the IndexMap build has theorems of its own -/

/-- inserting into the IndexMap never moves a key — a key that is already there (same hash items and `==`) keeps
    its place and its spelling, a new key goes to the end: iteration order is insertion order -/
theorem indexmap_insert_keeps_insertion_order (k v : V) (ps : List (V × V)) :
    (insertI k v ps).map Prod.fst =
      if ps.any (fun p => hkey k == hkey p.1 && eqV .index k p.1) then ps.map Prod.fst else ps.map Prod.fst ++ [k] := by
  unfold insertI
  split
  · rw [List.map_map]
    apply List.map_congr_left
    intro p _
    simp only [Function.comp]
    split <;> rfl
  · simp

theorem getI_append_new (k v : V) (hrefl : eqV .index k k = true) : ∀ (ps : List (V × V)),
    ps.any (fun p => hkey k == hkey p.1 && eqV .index k p.1) = false →
    getI false k (ps ++ [(k, v)]) = some v
  | [], _ => by simp [getI, hrefl]
  | p :: ps, hnew => by
    simp only [List.any_cons, Bool.or_eq_false_iff] at hnew
    simp only [List.cons_append, getI, Bool.false_or, hnew.1, Bool.false_eq_true, if_false]
    exact getI_append_new k v hrefl ps hnew.2

/-- `m[k]` finds the entry just inserted under a new key whenever the key is `==` itself (every NaN-free value),
    in maps of any size (a one-entry map skips the hash) -/
theorem indexmap_get_after_insert_new (k v : V) (ps : List (V × V))
    (hnew : ps.any (fun p => hkey k == hkey p.1 && eqV .index k p.1) = false)
    (hrefl : eqV .index k k = true) : getV .index (insertI k v ps) k = some v := by
  unfold insertI getV
  simp only [hnew, Bool.false_eq_true, if_false]
  cases ps with
  | nil => simp [getI, hrefl]
  | cons p ps =>
    have : decide (((p :: ps) ++ [(k, v)]).length = 1) = false := by simp
    rw [this]
    exact getI_append_new k v hrefl (p :: ps) hnew

/-- whatever `m[k]` finds in an IndexMap is the value of an entry whose key is `==` to the probe and — in a map
    of more than one entry — feeds the hasher the same items (lookup by hash + `==`) -/
theorem indexmap_lookup_sound (single : Bool) (k : V) : ∀ (ps : List (V × V)) (v : V), getI single k ps = some v →
    ∃ p ∈ ps, eqV .index k p.1 = true ∧ (single = true ∨ (hkey k == hkey p.1) = true) ∧ p.2 = v
  | [], v, h => by simp [getI] at h
  | p :: ps, v, h => by
    unfold getI at h
    split at h
    · rename_i hc
      simp only [Bool.and_eq_true, Bool.or_eq_true] at hc
      exact ⟨p, List.mem_cons_self, hc.2, hc.1, Option.some.inj h⟩
    · obtain ⟨q, hq, h1, h2, h3⟩ := indexmap_lookup_sound single k ps v h
      exact ⟨q, List.mem_cons_of_mem _ hq, h1, h2, h3⟩

/-- … and complete: an entry whose key is `==` to the probe with the same hash items is found -/
theorem indexmap_lookup_complete (single : Bool) (k : V) : ∀ (ps : List (V × V)),
    (∃ p ∈ ps, eqV .index k p.1 = true ∧ (hkey k == hkey p.1) = true) → (getI single k ps).isSome = true
  | [], h => by simp at h
  | p :: ps, h => by
    unfold getI
    split
    · rfl
    · rename_i hc
      obtain ⟨q, hq, h1, h2⟩ := h
      rcases List.mem_cons.mp hq with rfl | hq
      · simp [h1, h2] at hc
      · exact indexmap_lookup_complete single k ps ⟨q, hq, h1, h2⟩

/-- non-vacuous, and the reason the `==` / hash theorems need `noClash`: `true` and `1` are `==` but feed the hasher
    different items, so a two-entry IndexMap keeps both and finds each under its own spelling only -/
example : (insertI (.num (.i64 1)) (.str [98]) (insertI (.bool true) (.str [97]) [])).length = 2 := by decide

/-- how the source builds and queries the derived dictionaries, read off `functions.rs`, `value/merge_object.rs`
    and `value/ops.rs`: `dict(m)` and `MergeDict::enumerate` insert one by one (`MJ.CollD.dictCopy`, `mergeKeys`;
    collecting would de-duplicate by `==`: `dict_collect_loses_entry`), `MergeDict::get_value` finds a key whose
    entries hold undefined values (`mergeGet`; not doing so: `merged_dict_old_lookup_counterexample`),
    `namespace(m)` takes string keys only, `k in m` asks the object whether it has the key -/
theorem derived_maps_tie : MJ.Gen.derivedMaps = [
    ("dict", "insert-loop"), ("MergeDict::enumerate", "insert-loop"),
    ("MergeDict::get_value", "last-defined-wins,undefined-entries-found"),
    ("namespace", "as_key_str"), ("contains-map", "obj.get_value(value).is_some()")] := by rfl

/-! ## strings: the order is on the text, whatever holds it -/

open MJ.CmpStr in
theorem cmpV_str (s t : List Nat) : cmpV (.str s) (.str t) = cmpBytes s t := by
  have hr : ¬ ((V.str s).rank ≠ (V.str t).rank) := fun h => h rfl
  rw [cmpV, if_neg hr]

open MJ.CmpStr in
theorem cmpBytes_eq_lex : ∀ s t : List Nat, cmpBytes s t = lexBytes s t
  | [], [] => by simp [cmpBytes, lexBytes, List.compareLex]
  | [], _ :: _ => by simp [cmpBytes, lexBytes, List.compareLex]
  | _ :: _, [] => by simp [cmpBytes, lexBytes, List.compareLex]
  | a :: as, b :: bs => by
    have ih := cmpBytes_eq_lex as bs
    unfold cmpBytes at ih ⊢
    simp only [List.compareLex, lexBytes]
    rw [← ih]
    cases compare a b <;> simp [Ordering.then]

open MJ.CmpStr in
/-- the order of two strings is the byte-wise lexicographic order of their texts -/
theorem string_order_is_lexicographic (s t : List Nat) : cmpV (.str s) (.str t) = lexBytes s t := by
  rw [cmpV_str, cmpBytes_eq_lex]

open MJ.CmpStr in
/-- a proper prefix is strictly smaller, never `Equal` — whatever byte follows, a NUL included -/
theorem string_prefix_is_smaller : ∀ (s t : List Nat), t ≠ [] → cmpV (.str s) (.str (s ++ t)) = .lt
  | [], t, ht => by
    rw [string_order_is_lexicographic]
    cases t with
    | nil => exact absurd rfl ht
    | cons c cs => rfl
  | a :: s, t, ht => by
    have ih := string_prefix_is_smaller s t ht
    rw [string_order_is_lexicographic] at ih ⊢
    simp only [List.cons_append, lexBytes]
    have : compare a a = .eq := by simp
    rw [this, ih]; rfl

open MJ.CmpStr in
/-- the order, `==` of strings depend on the TEXT only, not on what holds it: every pair of representations
    (inline/inline, heap/heap, mixed; normal or safe) compares like the model's `.str` values of the two texts -/
theorem string_cmp_independent_of_repr (a b : StrRepr) :
    cmpStrRepr a b = cmpV (.str a.bytes) (.str b.bytes) ∧
    eqStrRepr a b = eqV .btree (.str a.bytes) (.str b.bytes) := by
  refine ⟨?_, ?_⟩
  · rw [cmpV_str]; cases a <;> cases b <;> rfl
  · cases a <;> cases b <;> simp [eqStrRepr, StrRepr.bytes, eqV]

open MJ.CmpStr in
/-- an inline string holds its text -/
theorem inline_holds_text (s : List Nat) (r : StrRepr) (h : mkInline s = some r) : r.bytes = s := by
  unfold mkInline at h
  split at h
  · cases h; simp [StrRepr.bytes]
  · cases h

open MJ.CmpStr in
/-- comparing the zero-padded inline buffers without slicing them is NOT this order: `"a"` and `"a\0"` would be
    `Equal` although they are different texts (the shape of seeded change C07-9) -/
theorem padded_buffer_order_counterexample :
    ∃ a b : StrRepr, mkInline [97] = some a ∧ mkInline [97, 0] = some b ∧
      cmpPadded a b = .eq ∧ cmpStrRepr a b = .lt ∧ eqStrRepr a b = false := by
  refine ⟨_, _, rfl, rfl, ?_, ?_, ?_⟩ <;> decide


/-- the string arms of `impl Ord` / `impl PartialEq` / `impl Hash` and `SmallStr::as_str`, read off value/mod.rs:
    inline strings are compared, tested for equality and hashed through `as_str()` (the buffer sliced to its
    length), heap strings directly; the inline capacity is 22 bytes -/
theorem string_arms_tie : MJ.Gen.strArms = [
    ("Ord", "SmallStr", "a.as_str().cmp(b.as_str())"), ("Ord", "String", "a.cmp(b)"),
    ("PartialEq", "SmallStr", "a.as_str()==b.as_str()"), ("PartialEq", "String", "a==b"),
    ("Hash", "SmallStr", "s.as_str().hash(state)"), ("Hash", "String", "s.hash(state)"),
    ("SmallStr::as_str", "slice", "&self.buf[..self.lenasusize]")] ∧ MJ.Gen.smallStrCap = 22 := by
  constructor <;> rfl

/-! ## the property, assembled -/

/-- What is proved of the property as stated, with the gap to `C07_full` explicit:
    * the order of template values is reflexive, antisymmetric (`cmp b a` is the mirror of `cmp a b`),
      transitive and defined for every pair (numbers within the range of their representation);
    * `==` holds exactly when the order says `Equal`, and `==` values hash alike — under the NAMED exclusions
      `NoNaN` (the statement's own `NaN aside`), `SortedMaps` (BTreeMap build; under `preserve_order` the
      recorded insertion-order findings apply) and `noClash` (a Bool facing a number: `C07_counterexample`
      shows the statement false there, recorded finding);
    * the collection filters obey their algebra for every input list and every total preorder;
    * `reverse` is an involution on every enumerator arm but `RevIter` (`reverse_counterexample`: recorded finding);
    * derived dictionaries list what they find and copies keep their entries. -/
theorem C07_main :
    (∀ a b c : V, InRange a → InRange b → InRange c →
      cmpV a a = .eq ∧ cmpV b a = (cmpV a b).swap ∧ (cmpV a b ≠ .gt ∨ cmpV b a ≠ .gt) ∧
      (cmpV a b ≠ .gt → cmpV b c ≠ .gt → cmpV a c ≠ .gt)) ∧
    (∀ a b : V, NoNaN a → NoNaN b → SortedMaps a → SortedMaps b → noClash a b = true →
      (eqV .btree a b = true ↔ cmpV a b = .eq) ∧ (eqV .btree a b = true → hkey a = hkey b)) ∧
    ¬ C07_full ∧
    (∀ {α κ : Type} (cmp : κ → κ → Ordering) [TransCmp cmp] (key : α → κ) (xs : List α),
      (∀ rev, (Coll.sort cmp key rev xs).Perm xs) ∧
      (Coll.sort cmp key false xs).Pairwise (fun a b => cmp (key a) (key b) ≠ .gt) ∧
      (Coll.sort cmp key true xs).Pairwise (fun a b => cmp (key a) (key b) ≠ .lt) ∧
      (∀ a b, [a, b].Sublist xs → cmp (key a) (key b) = .eq → [a, b].Sublist (Coll.sort cmp key true xs)) ∧
      (Coll.unique cmp key xs).Sublist xs ∧
      (Coll.unique cmp key xs).Pairwise (fun a b => cmp (key a) (key b) ≠ .eq) ∧
      ((Coll.groupby cmp key xs).flatMap (·.2)).Perm xs) ∧
    (∀ {α : Type} (xs : List α) (n : Nat), 0 < n → ∃ rs, batch xs n none = .ok rs ∧ rs.flatten = xs) ∧
    (∀ {α : Type} (xs : List α) (count : Nat), xs.length < 18446744073709551616 → 0 < count →
      reservable count = true → ∃ rs, slicef xs count none = .ok rs ∧ rs.length = count ∧ rs.flatten = xs) ∧
    (∀ {α : Type} (v : EnumVar) (xs : List α), v ≠ .revIter → v ≠ .nonEnumerable → v ≠ .empty →
      (reverseEnum v xs).bind (reverseEnum .values) = some xs) ∧
    ¬ reverse_full ∧
    (∀ {α : Type} (cmpa : α → α → Ordering) [TransCmp cmpa] (xs : List α) (m : α),
      (Coll.minBy cmpa xs = some m → m ∈ xs ∧ ∀ x ∈ xs, cmpa m x ≠ .gt) ∧
      (Coll.maxBy cmpa xs = some m → m ∈ xs ∧ ∀ x ∈ xs, cmpa m x ≠ .lt)) ∧
    (∀ (maps : List (List (V × V))) (k : V), InRange k → (∀ ps ∈ maps, ∀ p ∈ ps, InRange p.1) →
      ((MJ.CollD.mergeGetV maps k).isSome = true ↔ ∃ k' ∈ MJ.CollD.mergeKeysV maps, cmpV k k' = .eq)) ∧
    (∀ ps : List (V × V), ps.Pairwise (fun p q => cmpV q.1 p.1 ≠ .eq) → (MJ.CollD.dictCopyV ps).Perm ps) := by
  refine ⟨?_, ?_, C07_counterexample, ?_, ?_, ?_, ?_, reverse_counterexample, ?_, ?_, ?_⟩
  · intro a b c ha hb hc
    exact ⟨cmp_refl a ha, cmp_antisymm a b ha hb, cmp_total a b ha hb, cmp_trans a b c ha hb hc⟩
  · intro a b ha hb sa sb hc
    exact C07_partial a b ha hb sa sb hc
  · intro α κ cmp _ key xs
    obtain ⟨u1, u2, _, _⟩ := unique_subseq_nodup_first cmp key xs
    exact ⟨fun rev => sort_perm cmp key rev xs, sort_sorted cmp key xs, sort_reverse_sorted cmp key xs,
      fun a b hs he => sort_reverse_stable cmp key xs a b hs he, u1, u2, (groupby_partition cmp key xs).2.1⟩
  · intro α xs n hn
    exact batch_concat xs n hn
  · intro α xs count hlen hc hr
    exact (slicef_concat xs count hlen).2 hc hr
  · intro α v xs h1 h2 h3
    exact ((reverse_partial v xs).1 h1 h2 h3).2.1
  · intro α cmpa _ xs m
    exact ⟨fun h => ⟨min_mem cmpa xs m h, min_le_all cmpa xs m h⟩,
      fun h => ⟨(max_ge_all cmpa xs m h).2, (max_ge_all cmpa xs m h).1⟩⟩
  · intro maps k hk h
    exact merged_dict_lookup_iff_listed maps k hk h
  · intro ps hpw
    exact dict_copy_preserves_entries ps hpw

end MJ.C07
