import MJ.Model.Cmp
import MJ.Model.Coll
namespace MJ.C07
open MJ MJ.Val MJ.Cmp MJ.Coll

theorem reverse_involutive {α : Type} (xs : List α) : reverseIter (reverseIter xs) = xs := by
  simp [reverseIter]

end MJ.C07
