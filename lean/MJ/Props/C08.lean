import MJ.Proofs.Num
import MJ.Proofs.NumLex
import MJ.Proofs.NumF
import MJ.Proofs.NumX
import MJ.Proofs.NumRound
import MJ.Proofs.NumOvf
import MJ.Gen.Tables
/-!
# C08 — numeric operators are exact or fail; they never wrap or lose the sign

Property theorems only (helper lemmas: `MJ/Proofs/Num.lean`; model: `MJ/Model/Num.lean`).

`NumRepr` ranges over the four integer representations of a template value (`U64`, `I64`, `U128`,
`I128`), `NumRepr.val` is the mathematical value, `NumRepr.WF` says the payload is in the range of
its Rust type.  Together the well-formed representations cover exactly the integers of the
property's quantifier, `[-2^127, 2^128)`.  `binop`/`neg` are the models of `ops::add`, `sub`, `mul`,
`int_div`, `rem`, `pow` and `neg`; `Res.err` is the `InvalidOperation` error.
-/
namespace MJ.C08
open MJ.Num

/-- every integer of the quantifier `[-2^127, 2^128)` has a well-formed representation, and a
    well-formed representation denotes such an integer -/
theorem repr_covers (x : Int) :
    (-170141183460469231731687303715884105728 ≤ x ∧ x < 340282366920938463463374607431768211456) ↔
      ∃ r : NumRepr, r.WF ∧ r.val = x := by
  constructor
  · intro h
    by_cases hx : 0 ≤ x
    · refine ⟨.u128 x.toNat, ?_, ?_⟩
      · show x.toNat < 340282366920938463463374607431768211456
        omega
      · show (x.toNat : Int) = x
        omega
    · exact ⟨.i128 x, ⟨h.1, by omega⟩, rfl⟩
  · rintro ⟨r, hr, rfl⟩
    cases r <;> simp only [NumRepr.WF, NumRepr.val] at * <;> omega

/-- **Full statement.**  For all well-formed operands in any representation:
    1. a successful binary operator returns the exact integer (well-formed, so it prints as such);
    2. so does unary minus;
    3. the operator succeeds whenever operands and exact result fit the signed 128-bit range and
       the operation is defined (non-zero divisor; non-negative exponent);
    4. same for unary minus;
    5. the outcome depends only on the mathematical operands, not on the stored widths;
    6. same for unary minus;
    7. `//` and `%` obey the Euclidean law `q*b + r = a`, `0 ≤ r < |b|`. -/
def C08_full : Prop :=
  (∀ (op : Op) (a b r : NumRepr), a.WF → b.WF → binop op a b = .ok r →
      r.WF ∧ r.val = op.denote a.val b.val) ∧
  (∀ (a r : NumRepr), a.WF → neg a = .ok r → r.WF ∧ r.val = -a.val) ∧
  (∀ (op : Op) (a b : NumRepr), a.WF → b.WF → InI128 a.val → InI128 b.val →
      op.Defined a.val b.val → InI128 (op.denote a.val b.val) → ∃ r, binop op a b = .ok r) ∧
  (∀ (a : NumRepr), a.WF → InI128 a.val → InI128 (-a.val) → ∃ r, neg a = .ok r) ∧
  (∀ (op : Op) (a a' b b' : NumRepr), a.WF → a'.WF → b.WF → b'.WF →
      a.val = a'.val → b.val = b'.val → binop op a b = binop op a' b') ∧
  (∀ (a a' : NumRepr), a.WF → a'.WF → a.val = a'.val → neg a = neg a') ∧
  (∀ (a b q r : NumRepr), a.WF → b.WF → binop .floordiv a b = .ok q → binop .rem a b = .ok r →
      q.val * b.val + r.val = a.val ∧ 0 ≤ r.val ∧ r.val < b.val.natAbs)

/-- **What holds for the current code.**  `C08_full` with one operand excluded from clause 2:
    unary minus applied to `2^127` (representable only as `u128`; the literal
    `-170141183460469231731687303715884105728` is spelled that way).  There `ops::neg` returns
    `+2^127` (see `C08_counterexample`).  All other clauses hold unchanged — clause 4 never meets
    the excluded operand (`2^127` is not an `i128`) and clause 6 holds there too, because no other
    representation can store `2^127`. -/
def C08_partial : Prop :=
  (∀ (op : Op) (a b r : NumRepr), a.WF → b.WF → binop op a b = .ok r →
      r.WF ∧ r.val = op.denote a.val b.val) ∧
  (∀ (a r : NumRepr), a.WF → a.val ≠ 170141183460469231731687303715884105728 → neg a = .ok r →
      r.WF ∧ r.val = -a.val) ∧
  (∀ (op : Op) (a b : NumRepr), a.WF → b.WF → InI128 a.val → InI128 b.val →
      op.Defined a.val b.val → InI128 (op.denote a.val b.val) → ∃ r, binop op a b = .ok r) ∧
  (∀ (a : NumRepr), a.WF → InI128 a.val → InI128 (-a.val) → ∃ r, neg a = .ok r) ∧
  (∀ (op : Op) (a a' b b' : NumRepr), a.WF → a'.WF → b.WF → b'.WF →
      a.val = a'.val → b.val = b'.val → binop op a b = binop op a' b') ∧
  (∀ (a a' : NumRepr), a.WF → a'.WF → a.val = a'.val → neg a = neg a') ∧
  (∀ (a b q r : NumRepr), a.WF → b.WF → binop .floordiv a b = .ok q → binop .rem a b = .ok r →
      q.val * b.val + r.val = a.val ∧ 0 ≤ r.val ∧ r.val < b.val.natAbs)

/-- the shape of every binary operator: an error unless both numbers are `i128`s, and then a
    function of the two numbers only -/
theorem binop_eq (op : Op) {a b : NumRepr} (ha : a.WF) (hb : b.WF) :
    binop op a b =
      if InI128 a.val ∧ InI128 b.val then
        (match op with
          | .add => finish (checkedAdd a.val b.val)
          | .sub => finish (checkedSub a.val b.val)
          | .mul => finish (checkedMul a.val b.val)
          | .floordiv => if b.val ≠ 0 then finish (checkedDivEuclid a.val b.val) else .err
          | .rem => finish (if b.val = -1 then some 0 else checkedRemEuclid a.val b.val)
          | .pow =>
            match powChecked a.val b.val with
            | some v => .ok (intAsValue v)
            | none =>
              if 0 < b.val ∧ -1 ≤ a.val ∧ a.val ≤ 1 then
                .ok (intAsValue (if b.val % 2 = 0 then a.val * a.val else a.val))
              else .err)
      else .err := by
  by_cases h : InI128 a.val ∧ InI128 b.val
  · rw [if_pos h]
    have hc := coerce_some ha hb h.1 h.2
    cases op <;> simp only [binop, add, sub, mul, intDiv, rem, pow, hc]
    cases powChecked a.val b.val <;> rfl
  · rw [if_neg h]
    have hc := coerce_none ha hb h
    cases op <;> simp only [binop, add, sub, mul, intDiv, rem, pow, hc]

/-- 1. exactness of the binary operators -/
theorem int_op_exact (op : Op) (a b r : NumRepr) (ha : a.WF) (hb : b.WF)
    (h : binop op a b = .ok r) : r.WF ∧ r.val = op.denote a.val b.val := by
  rw [binop_eq op ha hb] at h
  split at h
  · rename_i hin
    have fin : ∀ {o : Option Int} {x : Int}, finish o = .ok r → (∀ v, o = some v → v = x ∧ InI128 v) →
        r.WF ∧ r.val = x := by
      intro o x hf hv
      obtain ⟨v, ho, hr⟩ := finish_ok hf
      obtain ⟨hvx, hvin⟩ := hv v ho
      subst hr
      exact ⟨intAsValue_wf hvin, by rw [intAsValue_val, hvx]⟩
    have chkc : ∀ {x v : Int}, chk x = some v → v = x ∧ InI128 v := by
      intro x v hv
      obtain ⟨h1, h2⟩ := chk_some hv
      exact ⟨h1, h1 ▸ h2⟩
    cases op with
    | add => exact fin h (fun v hv => chkc hv)
    | sub => exact fin h (fun v hv => chkc hv)
    | mul => exact fin h (fun v hv => chkc hv)
    | floordiv =>
      simp only [] at h
      split at h
      · rename_i hb0
        refine fin h (fun v hv => ?_)
        unfold checkedDivEuclid at hv
        split at hv
        · cases hv
        · rename_i hno
          injection hv with hv
          subst hv
          refine ⟨rfl, ?_⟩
          have ha1 := hin.1
          have hb1 := hin.2
          unfold InI128 minI128 at *
          generalize a.val = x at *
          generalize b.val = y at *
          have hq : x / y * y + x % y = x := Int.ediv_mul_add_emod x y
          have hr0 : 0 ≤ x % y := Int.emod_nonneg x hb0
          have hr1 : x % y < y.natAbs := Int.emod_lt x hb0
          have hle : (x / y).natAbs ≤ x.natAbs := Int.natAbs_ediv_le_natAbs x y
          have hmul : x / y * y = y * (x / y) := Int.mul_comm _ _
          -- |x / y| ≤ |x| ≤ 2^127, and x / y = 2^127 only for x = MIN, y = -1
          by_cases hc : x / y = 170141183460469231731687303715884105728
          · exfalso
            have hx : x = -170141183460469231731687303715884105728 := by omega
            rw [hc] at hq
            have hy : y = -1 := by omega
            exact hno (Or.inr ⟨hx, hy⟩)
          · omega
      · cases h
    | rem =>
      refine fin h (fun v hv => ?_)
      simp only [Op.denote]
      split at hv
      · rename_i hb1
        injection hv with hv
        subst hv
        rw [hb1]
        have h1 : a.val % (-1) = 0 := by rw [Int.emod_neg, Int.emod_one]
        refine ⟨h1.symm, ?_⟩
        unfold InI128; omega
      · unfold checkedRemEuclid at hv
        split at hv
        · cases hv
        · rename_i hno
          injection hv with hv
          subst hv
          refine ⟨rfl, ?_⟩
          have hb0 : b.val ≠ 0 := fun h0 => hno (Or.inl h0)
          have hb1 := hin.2
          have hr0 : 0 ≤ a.val % b.val := Int.emod_nonneg _ hb0
          have hr1 : a.val % b.val < b.val.natAbs := Int.emod_lt _ hb0
          unfold InI128 at *
          omega
    | pow =>
      simp only [] at h
      split at h
      · rename_i v hv
        injection h with h
        subst h
        unfold powChecked at hv
        split at hv
        · rw [checkedPow_eq_chk] at hv
          obtain ⟨h1, h2⟩ := chkc hv
          exact ⟨intAsValue_wf h2, by rw [intAsValue_val, h1]; rfl⟩
        · cases hv
      · split at h
        · rename_i hu
          injection h with h
          subst h
          have hp := MJ.NumX.unit_pow a.val ⟨hu.2.1, hu.2.2⟩ b.val.toNat (by omega)
          have hpar : (b.val.toNat % 2 = 0) ↔ (b.val % 2 = 0) := by omega
          have hval : (if b.val % 2 = 0 then a.val * a.val else a.val) = a.val ^ b.val.toNat := by
            rw [hp]
            by_cases he : b.val % 2 = 0
            · rw [if_pos he, if_pos (hpar.2 he)]
            · rw [if_neg he, if_neg (fun h => he (hpar.1 h))]
          rw [hval]
          exact ⟨intAsValue_wf (MJ.NumX.unit_pow_in a.val ⟨hu.2.1, hu.2.2⟩ _), by rw [intAsValue_val]; rfl⟩
        · cases h
  · cases h

/-- 2. exactness of unary minus, for every operand except `2^127` -/
theorem neg_exact_partial (a r : NumRepr) (ha : a.WF)
    (hne : a.val ≠ 170141183460469231731687303715884105728) (h : neg a = .ok r) :
    r.WF ∧ r.val = -a.val := by
  have general : ∀ (a : NumRepr), a.WF →
      (match toI128 a with
        | some x => finish (checkedMul x (-1))
        | none => Res.err) = .ok r → r.WF ∧ r.val = -a.val := by
    intro a ha h
    by_cases hin : InI128 a.val
    · rw [toI128_some ha hin] at h
      obtain ⟨v, ho, hr⟩ := finish_ok h
      obtain ⟨h1, h2⟩ := chk_some ho
      subst hr
      refine ⟨intAsValue_wf (h1 ▸ h2), ?_⟩
      rw [intAsValue_val, h1]; omega
    · rw [toI128_none ha hin] at h
      cases h
  cases a with
  | u128 n =>
    unfold neg at h
    simp only [] at h
    split at h
    · rename_i hn
      exfalso
      apply hne
      show (n : Int) = 170141183460469231731687303715884105728
      omega
    · exact general _ ha h
  | u64 n => exact general _ ha h
  | i64 i => exact general _ ha h
  | i128 i => exact general _ ha h

/-- the excluded operand really violates clause 2: `-(2^127 as u128)` is `+2^127` -/
theorem neg_counterexample :
    (NumRepr.u128 170141183460469231731687303715884105728).WF ∧
    neg (.u128 170141183460469231731687303715884105728) = .ok (.u128 170141183460469231731687303715884105728) ∧
    (NumRepr.u128 170141183460469231731687303715884105728).val ≠
      -(NumRepr.u128 170141183460469231731687303715884105728).val := by
  decide

/-- **the full statement is false on the current code** (clause 2, witness `2^127` stored as
    `u128`) -/
theorem C08_counterexample : ¬ C08_full := by
  intro h
  obtain ⟨hwf, hneg, hval⟩ := neg_counterexample
  exact hval (h.2.1 _ _ hwf hneg).2

/-- 3. totality on the signed 128-bit range -/
theorem int_op_total_in_range (op : Op) (a b : NumRepr) (ha : a.WF) (hb : b.WF)
    (hina : InI128 a.val) (hinb : InI128 b.val) (hdef : op.Defined a.val b.val)
    (hres : InI128 (op.denote a.val b.val)) : ∃ r, binop op a b = .ok r := by
  rw [binop_eq op ha hb, if_pos ⟨hina, hinb⟩]
  cases op with
  | add =>
    have hres' : InI128 (a.val + b.val) := hres
    simp only [checkedAdd]
    rw [chk_of_in hres']
    exact ⟨_, rfl⟩
  | sub =>
    have hres' : InI128 (a.val - b.val) := hres
    simp only [checkedSub]
    rw [chk_of_in hres']
    exact ⟨_, rfl⟩
  | mul =>
    have hres' : InI128 (a.val * b.val) := hres
    simp only [checkedMul]
    rw [chk_of_in hres']
    exact ⟨_, rfl⟩
  | floordiv =>
    have hb0 : b.val ≠ 0 := hdef
    have hno : ¬ (b.val = 0 ∨ (a.val = minI128 ∧ b.val = -1)) := by
      rintro (h0 | ⟨h1, h2⟩)
      · exact hb0 h0
      · simp only [Op.denote, h1, h2] at hres
        revert hres; decide
    simp only []
    rw [if_pos hb0]
    unfold checkedDivEuclid
    rw [if_neg hno]
    exact ⟨_, rfl⟩
  | rem =>
    have hb0 : b.val ≠ 0 := hdef
    simp only []
    by_cases hb1 : b.val = -1
    · rw [if_pos hb1]; exact ⟨_, rfl⟩
    · rw [if_neg hb1]
      unfold checkedRemEuclid
      have hno : ¬ (b.val = 0 ∨ (a.val = minI128 ∧ b.val = -1)) := by
        rintro (h0 | ⟨_, h2⟩)
        · exact hb0 h0
        · exact hb1 h2
      rw [if_neg hno]
      exact ⟨_, rfl⟩
  | pow =>
    have hb0 : 0 ≤ b.val := hdef
    simp only []
    have hres' : InI128 (a.val ^ b.val.toNat) := hres
    by_cases hsmall : b.val < 4294967296
    · have : powChecked a.val b.val = some (a.val ^ b.val.toNat) := by
        unfold powChecked
        rw [if_pos ⟨hb0, hsmall⟩, checkedPow_eq_chk, chk_of_in hres']
      rw [this]
      exact ⟨_, rfl⟩
    · -- an exponent beyond u32: the power only fits for the bases 0, 1, -1
      have hnone : powChecked a.val b.val = none := by
        unfold powChecked
        rw [if_neg (fun h => hsmall h.2)]
      rw [hnone]
      have hunit : -1 ≤ a.val ∧ a.val ≤ 1 := by
        by_cases hu : -1 ≤ a.val ∧ a.val ≤ 1
        · exact hu
        · exfalso
          exact pow_big_not_in (a := a.val) (e := b.val.toNat) (by omega) (by omega) hres'
      simp only []
      rw [if_pos ⟨by omega, hunit.1, hunit.2⟩]
      exact ⟨_, rfl⟩

/-- 4. totality of unary minus on the signed 128-bit range -/
theorem neg_total_in_range (a : NumRepr) (ha : a.WF) (hin : InI128 a.val) (hres : InI128 (-a.val)) :
    ∃ r, neg a = .ok r := by
  have general : ∃ r, (match toI128 a with
        | some x => finish (checkedMul x (-1))
        | none => Res.err) = .ok r := by
    rw [toI128_some ha hin]
    have : a.val * -1 = -a.val := by omega
    simp only [checkedMul, this, chk_of_in hres, finish]
    exact ⟨_, rfl⟩
  cases a with
  | u128 n =>
    unfold neg
    simp only []
    split
    · exact ⟨_, rfl⟩
    · exact general
  | u64 n => exact general
  | i64 i => exact general
  | i128 i => exact general

/-- 5. the outcome (result representation included) does not depend on the widths the operands
    are stored in -/
theorem width_independent (op : Op) (a a' b b' : NumRepr) (ha : a.WF) (ha' : a'.WF) (hb : b.WF)
    (hb' : b'.WF) (hva : a.val = a'.val) (hvb : b.val = b'.val) :
    binop op a b = binop op a' b' := by
  rw [binop_eq op ha hb, binop_eq op ha' hb', hva, hvb]

/-- unary minus as a function of the number only -/
theorem neg_eq {a : NumRepr} (ha : a.WF) :
    neg a =
      if a.val = 170141183460469231731687303715884105728 then
        .ok (.u128 170141183460469231731687303715884105728)
      else if InI128 a.val then finish (checkedMul a.val (-1)) else .err := by
  have general : a.val ≠ 170141183460469231731687303715884105728 →
      (match toI128 a with
        | some x => finish (checkedMul x (-1))
        | none => Res.err) =
      if a.val = 170141183460469231731687303715884105728 then
        .ok (.u128 170141183460469231731687303715884105728)
      else if InI128 a.val then finish (checkedMul a.val (-1)) else .err := by
    intro hne
    rw [if_neg hne]
    by_cases hin : InI128 a.val
    · rw [toI128_some ha hin, if_pos hin]
    · rw [toI128_none ha hin, if_neg hin]
  cases a with
  | u128 n =>
    unfold neg
    simp only []
    by_cases hn : n = 170141183460469231731687303715884105728
    · rw [if_pos hn]
      have : (NumRepr.u128 n).val = 170141183460469231731687303715884105728 := by
        show (n : Int) = 170141183460469231731687303715884105728
        omega
      rw [if_pos this]
    · rw [if_neg hn]
      apply general
      show (n : Int) ≠ 170141183460469231731687303715884105728
      omega
  | u64 n =>
    apply general
    have : n < 18446744073709551616 := ha
    show (n : Int) ≠ 170141183460469231731687303715884105728
    omega
  | i64 i =>
    apply general
    have : -9223372036854775808 ≤ i ∧ i < 9223372036854775808 := ha
    show i ≠ 170141183460469231731687303715884105728
    omega
  | i128 i =>
    apply general
    have : InI128 i := ha
    unfold InI128 at this
    show i ≠ 170141183460469231731687303715884105728
    omega

/-- 6. width independence of unary minus -/
theorem neg_width_independent (a a' : NumRepr) (ha : a.WF) (ha' : a'.WF) (hv : a.val = a'.val) :
    neg a = neg a' := by
  rw [neg_eq ha, neg_eq ha', hv]

/-- 7. the Euclidean law connecting `//` and `%` -/
theorem euclid (a b q r : NumRepr) (ha : a.WF) (hb : b.WF)
    (hq : binop .floordiv a b = .ok q) (hr : binop .rem a b = .ok r) :
    q.val * b.val + r.val = a.val ∧ 0 ≤ r.val ∧ r.val < b.val.natAbs := by
  have eq := (int_op_exact .floordiv a b q ha hb hq).2
  have er := (int_op_exact .rem a b r ha hb hr).2
  simp only [Op.denote] at eq er
  have hb0 : b.val ≠ 0 := by
    intro h0
    rw [binop_eq .floordiv ha hb] at hq
    split at hq
    · simp only [] at hq
      rw [if_neg (fun h => h h0)] at hq
      cases hq
    · cases hq
  rw [eq, er]
  exact ⟨Int.ediv_mul_add_emod _ _, Int.emod_nonneg _ hb0, Int.emod_lt _ hb0⟩

/-- **C08 (integer part) holds for the model everywhere except unary minus of `2^127`.** -/
theorem C08_holds_partial : C08_partial :=
  ⟨int_op_exact, neg_exact_partial, int_op_total_in_range, neg_total_in_range, width_independent,
   neg_width_independent, euclid⟩

/-- the exclusion is not vacuous the other way round either: every other operand of the
    quantifier is covered, e.g. `2^127 - 1`, `2^127 + 1` (an error) and `i128::MIN` (an error) -/
example : neg (.u128 170141183460469231731687303715884105727) =
      .ok (.i128 (-170141183460469231731687303715884105727)) ∧
    neg (.u128 170141183460469231731687303715884105729) = .err ∧
    neg (.i128 (-170141183460469231731687303715884105728)) = .err := by decide

/-! ### Non-vacuity: the hypotheses are satisfiable by non-trivial states -/

/-- exactness at the edge: `(2^127 - 1) + (-1)` across `u128` and `i64` gives `2^127 - 2` -/
example : binop .add (.u128 170141183460469231731687303715884105727) (.i64 (-1)) =
    .ok (.i128 170141183460469231731687303715884105726) := by decide
/-- errors instead of wrapping: `(2^128 - 1) + (2^128 - 1)` (was `-2` before the fix) -/
example : binop .add (.u128 340282366920938463463374607431768211455)
    (.u128 340282366920938463463374607431768211455) = .err := by decide
example : binop .mul (.i128 (-170141183460469231731687303715884105728)) (.i64 (-1)) = .err := by decide
/-- Euclidean convention: `-7 // 2 = -4`, `-7 % 2 = 1`, `7 // -2 = -3`, `7 % -2 = 1` -/
example : binop .floordiv (.i64 (-7)) (.u64 2) = .ok (.i64 (-4)) ∧
    binop .rem (.i64 (-7)) (.u64 2) = .ok (.i64 1) ∧
    binop .floordiv (.u64 7) (.i64 (-2)) = .ok (.i64 (-3)) ∧
    binop .rem (.u64 7) (.i64 (-2)) = .ok (.i64 1) := by decide
/-- `i128::MIN % -1 = 0` (an error before the fix), `i128::MIN // -1` is an error -/
example : binop .rem (.i128 (-170141183460469231731687303715884105728)) (.i64 (-1)) = .ok (.i64 0) ∧
    binop .floordiv (.i128 (-170141183460469231731687303715884105728)) (.i64 (-1)) = .err := by decide
/-- `**`: `(-2) ** 127 = i128::MIN` is exact, `2 ** 127` overflows, `1 ** 2^32 = 1` and
    `(-1) ** (2^64 + 1) = -1` (errors before fix 3a8d5c6), `2 ** 2^32` overflows -/
example : binop .pow (.i64 (-2)) (.u64 127) = .ok (.i128 (-170141183460469231731687303715884105728)) ∧
    binop .pow (.u64 2) (.u64 127) = .err ∧
    binop .pow (.u64 1) (.u64 4294967296) = .ok (.i64 1) ∧
    binop .pow (.i64 (-1)) (.u128 18446744073709551617) = .ok (.i64 (-1)) ∧
    binop .pow (.u64 2) (.u64 4294967296) = .err ∧ binop .pow (.u64 1) (.i64 (-1)) = .err := by decide
/-- width independence instance: `2^64` as `u128` and as `i128` -/
example : binop .mul (.u128 18446744073709551616) (.i64 (-3)) =
    binop .mul (.i128 18446744073709551616) (.i128 (-3)) := by decide

/-! ### Floats: the algorithm of `%` and `//` on exact values

`fRemEuclid`/`fDivEuclid` are `f64::rem_euclid` and `ops::f64_div_euclid` on two finite floats
scaled to integers (both are multiples of `2^-1074`), i.e. without the final rounding of the one
addition / division.  On exact values they are the Euclidean remainder and quotient. -/

theorem float_rem_euclid_exact (a b : Int) (hb : b ≠ 0) :
    fRemEuclid a b = a % b ∧ 0 ≤ fRemEuclid a b ∧ fRemEuclid a b < b.natAbs := by
  have key : fRemEuclid a b = a % b := by
    unfold fRemEuclid
    simp only []
    rw [Int.tmod_eq_emod]
    have h0 := Int.emod_nonneg a hb
    have h1 := Int.emod_lt a hb
    split <;> split <;> omega
  rw [key]
  exact ⟨rfl, Int.emod_nonneg a hb, Int.emod_lt a hb⟩

theorem float_div_euclid_exact (a b : Int) (hb : b ≠ 0) :
    fDivEuclid a b = a / b ∧ fDivEuclid a b * b + fRemEuclid a b = a := by
  have hr := (float_rem_euclid_exact a b hb).1
  have key : fDivEuclid a b = a / b := by
    unfold fDivEuclid
    rw [hr]
    have : a - a % b = b * (a / b) := by
      have := Int.emod_def a b
      omega
    rw [this, Int.mul_ediv_cancel_left _ hb]
  rw [key, hr]
  exact ⟨rfl, Int.ediv_mul_add_emod a b⟩

example : fRemEuclid (-7) 2 = 1 ∧ fDivEuclid (-7) 2 = -4 ∧ fRemEuclid 7 (-2) = 1 ∧ fDivEuclid 7 (-2) = -3 := by
  decide

/-! ### Filters that do integer arithmetic: `abs`, `int`, `round`, `sum` -/

/-- `x|abs`: exact (`|x|`), and it only fails on `i128::MIN`, whose absolute value is no `i128` -/
theorem abs_exact (a r : NumRepr) (ha : a.WF) (h : absFilter a = .ok r) :
    r.WF ∧ r.val = (a.val.natAbs : Int) := by
  cases a with
  | u64 n => simp only [absFilter, Res.ok.injEq] at h; subst h; exact ⟨ha, by simp [NumRepr.val]⟩
  | u128 n => simp only [absFilter, Res.ok.injEq] at h; subst h; exact ⟨ha, by simp [NumRepr.val]⟩
  | i64 x =>
    have hx : -9223372036854775808 ≤ x ∧ x < 9223372036854775808 := ha
    simp only [absFilter] at h
    split at h
    · rename_i hmin
      injection h with h; subst h; subst hmin
      exact ⟨by decide, by decide⟩
    · injection h with h; subst h
      refine ⟨?_, ?_⟩
      · show -9223372036854775808 ≤ (if x < 0 then -x else x) ∧ (if x < 0 then -x else x) < 9223372036854775808
        split <;> omega
      · show (if x < 0 then -x else x) = (x.natAbs : Int)
        split <;> omega
  | i128 x =>
    have hx : InI128 x := ha
    unfold InI128 at hx
    simp only [absFilter] at h
    by_cases hmin : x = minI128
    · rw [if_pos hmin] at h; cases h
    · rw [if_neg hmin] at h
      unfold minI128 at hmin
      injection h with h; subst h
      refine ⟨?_, ?_⟩
      · show InI128 (if x < 0 then -x else x)
        unfold InI128; split <;> omega
      · show (if x < 0 then -x else x) = (x.natAbs : Int)
        split <;> omega

theorem abs_total_in_range (a : NumRepr) (_ha : a.WF) (hres : InI128 (a.val.natAbs : Int)) :
    ∃ r, absFilter a = .ok r := by
  cases a with
  | u64 n => exact ⟨_, rfl⟩
  | u128 n => exact ⟨_, rfl⟩
  | i64 x => simp only [absFilter]; split <;> exact ⟨_, rfl⟩
  | i128 x =>
    simp only [absFilter]
    by_cases hmin : x = minI128
    · subst hmin
      exact absurd hres (by decide)
    · rw [if_neg hmin]; exact ⟨_, rfl⟩

/-- `x|int` and `x|round` return an integer unchanged -/
theorem int_filter_identity (a : NumRepr) : intFilter a = .ok a := rfl

/-- `xs|sum`: a successful sum of integers is the exact sum (and a well-formed value) -/
theorem sumFrom_exact (xs : List NumRepr) (acc r : NumRepr) (hacc : acc.WF) (hxs : ∀ x ∈ xs, x.WF)
    (h : sumFrom acc xs = .ok r) : r.WF ∧ r.val = acc.val + (xs.map NumRepr.val).sum := by
  induction xs generalizing acc with
  | nil =>
    simp only [sumFrom, Res.ok.injEq] at h
    subst h
    simp [hacc]
  | cons x xs ih =>
    simp only [sumFrom] at h
    cases hadd : add acc x with
    | err => rw [hadd] at h; cases h
    | ok s =>
      rw [hadd] at h
      have hx := hxs x (List.mem_cons_self ..)
      obtain ⟨hswf, hsval⟩ := int_op_exact .add acc x s hacc hx hadd
      obtain ⟨hr, hv⟩ := ih s hswf (fun y hy => hxs y (List.mem_cons_of_mem _ hy)) h
      refine ⟨hr, ?_⟩
      rw [hv, hsval]
      simp only [Op.denote, List.map_cons, List.sum_cons]
      omega

theorem sum_exact (xs : List NumRepr) (r : NumRepr) (hxs : ∀ x ∈ xs, x.WF) (h : sumFilter xs = .ok r) :
    r.WF ∧ r.val = (xs.map NumRepr.val).sum := by
  have := sumFrom_exact xs (.i64 0) r (by decide) hxs h
  simpa [NumRepr.val] using this

/-- `[a, b]|sum` succeeds whenever `a`, `b` and `a + b` fit the signed 128-bit range, and it is
    `a + b` -/
theorem sum_pair_total (a b : NumRepr) (ha : a.WF) (hb : b.WF) (hia : InI128 a.val) (hib : InI128 b.val)
    (hres : InI128 (a.val + b.val)) : ∃ r, sumFilter [a, b] = .ok r ∧ r.val = a.val + b.val := by
  have h0 : (NumRepr.i64 0).WF := by decide
  have hi0 : InI128 (NumRepr.i64 0).val := by decide
  obtain ⟨s, hs⟩ := int_op_total_in_range .add (.i64 0) a h0 ha hi0 hia trivial
    (by show InI128 ((0 : Int) + a.val); rw [Int.zero_add]; exact hia)
  obtain ⟨hswf, hsval0⟩ := int_op_exact .add _ _ _ h0 ha hs
  have hsval : s.val = a.val := by
    rw [hsval0]
    show (0 : Int) + a.val = a.val
    omega
  obtain ⟨t, ht⟩ := int_op_total_in_range .add s b hswf hb (by rw [hsval]; exact hia) hib trivial
    (by show InI128 (s.val + b.val); rw [hsval]; exact hres)
  obtain ⟨_, htval⟩ := int_op_exact .add _ _ _ hswf hb ht
  refine ⟨t, ?_, ?_⟩
  · show sumFrom (.i64 0) [a, b] = .ok t
    have hs' : add (.i64 0) a = .ok s := hs
    have ht' : add s b = .ok t := ht
    simp only [sumFrom, hs', ht']
  · rw [htval]
    show s.val + b.val = a.val + b.val
    rw [hsval]

example : absFilter (.i64 (-9223372036854775808)) = .ok (.i128 9223372036854775808) ∧
    absFilter (.i128 (-170141183460469231731687303715884105728)) = .err ∧
    sumFilter [.u64 18446744073709551615, .i64 1] = .ok (.i128 18446744073709551616) ∧
    sumFilter [.i128 170141183460469231731687303715884105727, .i64 1] = .err := by decide

/-! ### Floats

A finite double is its bit pattern `b`; `F64.key b` is its exact value times `2^1074`
(`CmpKey.numKey` extends this to integers: `n · 2^1074`).  All statements are about those exact
values.  The rounding `encodeRat` (round to nearest, ties to even) is a total function; whenever a
result it has to produce is itself a double (`Representable`), it is produced exactly. -/
open MJ.F64 MJ.Val MJ.Cmp MJ.NumF MJ.CmpKey MJ.CmpNum

/-- comparing the exact values -/
def exactCmp : CmpOp → Int → Int → Bool
  | .lt, a, b => decide (a < b)
  | .le, a, b => decide (a ≤ b)
  | .gt, a, b => decide (b < a)
  | .ge, a, b => decide (b ≤ a)
  | .eq, a, b => decide (a = b)
  | .ne, a, b => decide (a ≠ b)

/-- **comparison between integers and floats is exact**: for numbers of all five representations
    (any `i64/u64/i128/u128`, any non-NaN double, infinities included) each of `< <= > >= == !=`
    compares the true values -/
theorem cmp_ops_exact (op : CmpOp) (x y : N) (hx : NumOK x) (hy : NumOK y) :
    cmpOp op x y = exactCmp op (numKey x) (numKey y) := by
  have hc := numSpec_wf x y hx.wf hy.wf
  have he := eqN_iff_key x y hx hy
  generalize numKey x = kx at *
  generalize numKey y = ky at *
  have hval : cmpN x y = if kx < ky then .lt else if ky < kx then .gt else .eq := by
    rw [hc]
    by_cases h1 : kx < ky
    · rw [if_pos h1]; exact compare_lt_of h1
    · rw [if_neg h1]
      by_cases h2 : ky < kx
      · rw [if_pos h2]; exact compare_gt_of h2
      · rw [if_neg h2]
        have : kx = ky := by omega
        subst this
        exact Int.compare_eq_eq.2 rfl
  have heq : eqN x y = decide (kx = ky) := by
    cases h : eqN x y with
    | true => exact (decide_eq_true (he.1 h)).symm
    | false =>
      have : ¬ kx = ky := fun hk => by rw [he.2 hk] at h; cases h
      exact (decide_eq_false this).symm
  by_cases h1 : kx < ky
  · rw [if_pos h1] at hval
    cases op <;> simp only [cmpOp, exactCmp, hval, heq] <;>
      first
        | rfl
        | (rw [decide_eq_true (by omega)]; rfl)
        | (rw [decide_eq_false (by omega)]; rfl)
        | simp
  · rw [if_neg h1] at hval
    by_cases h2 : ky < kx
    · rw [if_pos h2] at hval
      cases op <;> simp only [cmpOp, exactCmp, hval, heq] <;>
      first
        | rfl
        | (rw [decide_eq_true (by omega)]; rfl)
        | (rw [decide_eq_false (by omega)]; rfl)
        | simp
    · rw [if_neg h2] at hval
      cases op <;> simp only [cmpOp, exactCmp, hval, heq] <;>
      first
        | rfl
        | (rw [decide_eq_true (by omega)]; rfl)
        | (rw [decide_eq_false (by omega)]; rfl)
        | simp

/-! #### the other implementations of the comparison operators, chained comparisons -/

/-- **every implementation applies the right operator**: in each of the five places the source
    spells a comparison out (plain instructions, `CompareAndPreserve`, `eval_compare`,
    `eval_binop`, the tests `is_*`) the arm for `op` applies exactly `op` — checked against the
    table regenerated from the source -/
theorem impl_arms_agree (op : CmpOp) :
    implOp "vm:instruction" op = some op ∧ implOp "vm:compare_and_preserve" op = some op ∧
    implOp "ast:eval_compare" op = some op ∧ implOp "ast:eval_binop" op = some op ∧
    implOp "tests:is" op = some op := by
  cases op <;> decide

/-- `CompareAndPreserve(op)` computes what `Instruction::<op>` computes, which is `a OP b` -/
theorem preserve_arm_agrees_with_binop (op : CmpOp) (a b : N) :
    implCmp "vm:compare_and_preserve" op a b = implCmp "vm:instruction" op a b ∧
    implCmp "vm:instruction" op a b = cmpOp op a b := by
  unfold implCmp
  rw [(impl_arms_agree op).1, (impl_arms_agree op).2.1]
  exact ⟨rfl, rfl⟩

theorem implCmp_eq (impl : String) (op : CmpOp) (h : implOp impl op = some op) (a b : N) :
    implCmp impl op a b = cmpOp op a b := by
  unfold implCmp; rw [h]

/-- **a chained comparison is the conjunction of its links** (run-time path) -/
theorem chain_eq_conjunction (a : N) (links : List (CmpOp × N)) : chain a links = conj a links := by
  induction links generalizing a with
  | nil => rfl
  | cons l rest ih =>
    obtain ⟨op, b⟩ := l
    cases rest with
    | nil =>
      simp only [chain, conj, Bool.and_true]
      exact (preserve_arm_agrees_with_binop op a b).2
    | cons l2 rest2 =>
      have e : chain a ((op, b) :: l2 :: rest2) =
          if implCmp "vm:compare_and_preserve" op a b then chain b (l2 :: rest2) else false := rfl
      have e2 : conj a ((op, b) :: l2 :: rest2) = (cmpOp op a b && conj b (l2 :: rest2)) := rfl
      rw [e, e2, (preserve_arm_agrees_with_binop op a b).1, (preserve_arm_agrees_with_binop op a b).2, ih b]
      cases cmpOp op a b <;> rfl

/-- … and so is the constant-folded chain: folding and execution agree -/
theorem chain_folded_eq_conjunction (a : N) (links : List (CmpOp × N)) :
    chainFolded a links = conj a links := by
  induction links generalizing a with
  | nil => rfl
  | cons l rest ih =>
    obtain ⟨op, b⟩ := l
    simp only [chainFolded, conj]
    rw [implCmp_eq _ op (impl_arms_agree op).2.2.1, ih b]
    cases cmpOp op a b <;> rfl

theorem chain_folded_eq_chain (a : N) (links : List (CmpOp × N)) : chainFolded a links = chain a links := by
  rw [chain_folded_eq_conjunction, chain_eq_conjunction]

/-- the exact meaning of a chain -/
def exactConj (k : Int) : List (CmpOp × Int) → Bool
  | [] => true
  | (op, kb) :: rest => exactCmp op k kb && exactConj kb rest

/-- a chain over numbers of any representation is the conjunction of the exact comparisons -/
theorem chain_exact (a : N) (links : List (CmpOp × N)) (ha : NumOK a) (hl : ∀ l ∈ links, NumOK l.2) :
    chain a links = exactConj (numKey a) (links.map (fun l => (l.1, numKey l.2))) := by
  rw [chain_eq_conjunction]
  induction links generalizing a with
  | nil => rfl
  | cons l rest ih =>
    obtain ⟨op, b⟩ := l
    have hb : NumOK b := hl (op, b) (List.mem_cons_self ..)
    simp only [conj, List.map_cons, exactConj]
    rw [cmp_ops_exact op a b ha hb, ih b hb (fun l hl' => hl l (List.mem_cons_of_mem _ hl'))]

/-- the names under which the tests are registered (`x is ge(y)`, `select('>=', y)`, …) -/
theorem tie_test_names : MJ.Gen.compareTestNames =
    [("eq", "eq"), ("equalto", "eq"), ("==", "eq"), ("ne", "ne"), ("!=", "ne"), ("lt", "lt"),
     ("lessthan", "lt"), ("<", "lt"), ("le", "le"), ("<=", "le"), ("gt", "gt"), ("greaterthan", "gt"),
     (">", "gt"), ("ge", "ge"), (">=", "ge")] := by decide

-- `2 >= 2.0 > 1` (the seeded case: equality decides the first link), `1 < 2 < 2` is false
set_option exponentiation.threshold 3000 in
set_option maxRecDepth 100000 in
example : chain (.u64 2) [(.ge, .f64 0x4000000000000000), (.gt, .i64 1)] = true ∧
    chain (.u64 1) [(.lt, .u64 2), (.lt, .i128 2)] = false ∧
    chainFolded (.u64 2) [(.ge, .f64 0x4000000000000000), (.gt, .i64 1)] = true := by decide

/-- `<int> as f64` is exact below `2^53` … -/
theorem int_to_float_exact (x : Int) (hx : x.natAbs < P53) :
    key (ofInt x) = x * (scale : Int) ∧ isFinite (ofInt x) = true := by
  have hlog : x.natAbs.log2 < 1000 := by
    by_cases h0 : x.natAbs = 0
    · rw [h0]; decide
    · have : x.natAbs.log2 < 53 :=
        (Nat.log2_lt h0).2 (by rw [show (2 : Nat) ^ 53 = P53 by decide]; exact hx)
      omega
  obtain ⟨_, hf, hk⟩ := ofInt_spec x hlog
  refine ⟨?_, hf⟩
  rw [hk]
  congr 1
  unfold rndI
  rw [rnd_small _ hx]
  split <;> omega

/-- … and everywhere on the 128-bit ranges the result is the finite double `rndI x`, the rounding
    of `x` (`rnd_half_ulp`: within half a unit in the last place; `rnd_tie_even`: ties to even;
    C07's `rnd_above`/`rnd_below`: no double strictly between `x` and it) -/
theorem int_to_float_rounded (x : Int) (hx : x.natAbs < 2 ^ 129) :
    key (ofInt x) = rndI x * (scale : Int) ∧ isFinite (ofInt x) = true := by
  obtain ⟨_, hf, hk⟩ := ofInt_spec x (log2_small _ hx)
  exact ⟨hk, hf⟩

/-- unary minus and `abs` on floats are exact -/
theorem float_neg_exact (b : Nat) : key (fneg b) = -key b := key_fneg b
theorem float_abs_exact (b : Nat) : key (fabs b) = ((key b).natAbs : Int) := key_fabs b

/-- `x|int` of a float: the exact truncation, or an error — never a saturated neighbour -/
theorem int_of_float_exact (b : Nat) (r : NumRepr) (h : intOfFloat b = .ok r) :
    r.WF ∧ r.val = truncInt b ∧ isFinite b = true := by
  unfold intOfFloat at h
  split at h
  · rename_i hc
    injection h with h; subst h
    exact ⟨hc.2, rfl, hc.1⟩
  · cases h

theorem int_of_float_total (b : Nat) (hf : isFinite b = true) (hr : InI128 (truncInt b)) :
    ∃ r, intOfFloat b = .ok r := by
  unfold intOfFloat
  rw [if_pos ⟨hf, hr⟩]
  exact ⟨_, rfl⟩

/-- rounding is the identity on doubles -/
theorem round_representable (m : Nat) (hm : m < infMag) : encodeRat (scaledOfMag m) 1 = m :=
  encodeRat_exact m hm

/-- **float `%`**: when the remainder it has to produce is a double, `a % b` is the Euclidean
    remainder of the exact values, `0 ≤ r < |b|` -/
theorem float_rem_exact (a b : Nat) (hb : key b ≠ 0)
    (h1 : Representable (scaled a % scaled b)) (h2 : Representable (key a % key b).natAbs) :
    key (fremEuclid a b) = key a % key b ∧ 0 ≤ key (fremEuclid a b) ∧
      key (fremEuclid a b) < ((key b).natAbs : Int) ∧ isFinite (fremEuclid a b) = true := by
  have hR := fRemEuclid_eq_emod (key a) (key b) hb
  obtain ⟨hr, hf⟩ := key_fremEuclid a b h1 (by rw [hR]; exact h2)
  rw [hR] at hr
  rw [hr]
  exact ⟨rfl, Int.emod_nonneg _ hb, Int.emod_lt _ hb, hf⟩

/-- **float `//`**: when remainder, `a - r` and the quotient (`|q| < 2^53`) are doubles, `a // b`
    is the Euclidean quotient of the exact values, and the law `(a // b) * b + a % b = a` holds
    exactly -/
theorem float_div_exact (a b : Nat) (hb : key b ≠ 0)
    (h1 : Representable (scaled a % scaled b)) (h2 : Representable (key a % key b).natAbs)
    (h3 : Representable (key a - key a % key b).natAbs) (h4 : (key a / key b).natAbs < P53) :
    ∃ q : Int, key (fdivEuclid a b) = q * (scale : Int) ∧
      q * key b + key (fremEuclid a b) = key a ∧ isFinite (fdivEuclid a b) = true := by
  obtain ⟨hq, hf⟩ := key_fdivEuclid a b hb h1 h2 h3 h4
  obtain ⟨hr, _⟩ := float_rem_exact a b hb h1 h2
  exact ⟨key a / key b, hq, by rw [hr]; exact Int.ediv_mul_add_emod _ _, hf⟩

-- non-vacuity on concrete doubles: `-7.0 % 2.0 = 1.0`, `-7.0 // 2.0 = -4.0`, `1.0 // 0.1 = 9.0`,
-- `2^53 + 1` converts to `2^53` (tie to even), `2^63 - 1` compares below the double `2^63`
set_option exponentiation.threshold 3000 in
set_option maxRecDepth 100000 in
example : fremEuclid 0xc01c000000000000 0x4000000000000000 = 0x3ff0000000000000 ∧
    fdivEuclid 0xc01c000000000000 0x4000000000000000 = 0xc010000000000000 ∧
    fdivEuclid 0x3ff0000000000000 0x3fb999999999999a = 0x4022000000000000 ∧
    ofInt 9007199254740993 = 0x4340000000000000 ∧
    cmpOp .lt (.i64 9223372036854775807) (.f64 0x43e0000000000000) = true ∧
    cmpOp .eq (.u64 18446744073709551615) (.f64 0x43f0000000000000) = false := by decide

-- the hypotheses of `float_rem_exact` / `float_div_exact` are satisfiable: `-7.0` and `2.0`
-- (remainder `1.0`, `a - r = -8.0`, quotient `-4`)
set_option exponentiation.threshold 3000 in
set_option maxRecDepth 100000 in
example : ∃ q : Int, key (fdivEuclid 0xc01c000000000000 0x4000000000000000) = q * (scale : Int) ∧
    q * key 0x4000000000000000 + key (fremEuclid 0xc01c000000000000 0x4000000000000000) =
      key 0xc01c000000000000 ∧
    isFinite (fdivEuclid 0xc01c000000000000 0x4000000000000000) = true :=
  float_div_exact 0xc01c000000000000 0x4000000000000000 (by decide)
    ⟨0x3ff0000000000000, by decide, by decide⟩ ⟨0x3ff0000000000000, by decide, by decide⟩
    ⟨0x4020000000000000, by decide, by decide⟩ (by decide)

example : cmpOp .lt (.i128 (-9007199254740993)) (.f64 0xc340000000000000) =
    exactCmp .lt (numKey (.i128 (-9007199254740993))) (numKey (.f64 0xc340000000000000)) :=
  cmp_ops_exact .lt _ _ ⟨by simp only [N.WF, i128Min, i128Max]; decide, trivial⟩
    ⟨by simp only [N.WF, P64]; decide, by decide⟩

/-! ### Integer literals: every spelling denotes its value

`eatNumber` is the model of `Tokenizer::eat_number`.  A literal is an optional radix prefix
(`0b 0B 0o 0O 0x 0X`), then *items*: characters that continue a number of that radix (decimal
digits, `a-f A-F` under `0x`, the separator `_`), not ending in `_`; after it the input ends or
continues with a terminator (anything that is not a digit, a letter, `_` or `.`). -/
open MJ.NumLex

def radixPrefix : Nat → Bool → List Char
  | 2, false => ['0', 'b']
  | 2, true => ['0', 'B']
  | 8, false => ['0', 'o']
  | 8, true => ['0', 'O']
  | 16, false => ['0', 'x']
  | 16, true => ['0', 'X']
  | _, _ => []

/-- prefixed literals: the scanner takes exactly the literal, strips the separators and hands the
    digits to `from_str_radix` with the radix of the prefix (u64 first, then u128) -/
theorem lit_scan_radix (radix : Nat) (upper : Bool) (hr : radix = 2 ∨ radix = 8 ∨ radix = 16)
    (items rest : List Char) (hitems : ∀ c ∈ items, cont radix c = true)
    (hlast : items.getLast? ≠ some '_') (hrest : Ends rest) :
    eatNumber (radixPrefix radix upper ++ (items ++ rest)) =
      (intToken radix (stripUnderscores items), rest) := by
  have hs := fun (h : radix ≠ 10) =>
    scan_items (radix := radix) (st := .radixInteger) (Or.inr rfl) items rest hitems hrest
  rcases hr with rfl | rfl | rfl <;> cases upper <;>
    simp [eatNumber, radixPrefix, detectRadix, hs, hlast]

/-- decimal literals (first character a digit) -/
theorem lit_scan_dec (d : Char) (ds rest : List Char) (hd : isDigit d = true)
    (hitems : ∀ c ∈ ds, cont 10 c = true) (hlast : (d :: ds).getLast? ≠ some '_') (hrest : Ends rest) :
    eatNumber ((d :: ds) ++ rest) = (intToken 10 (stripUnderscores (d :: ds)), rest) := by
  have hall : ∀ c ∈ d :: ds, cont 10 c = true := by
    intro c hc
    rcases List.mem_cons.1 hc with rfl | h
    · simp [cont, hd]
    · exact hitems c h
  have hs := scan_items (radix := 10) (st := .integer) (Or.inl ⟨rfl, rfl⟩) (d :: ds) rest hall hrest
  -- no radix prefix is detected: after a leading `0` comes a digit, `_`, a terminator or nothing
  have hdet : detectRadix ((d :: ds) ++ rest) = (10, (d :: ds) ++ rest) := by
    by_cases h0 : d = '0'
    · subst h0
      cases hds : ds ++ rest with
      | nil => simp [hds, detectRadix]
      | cons p tl =>
        have hp : cont 10 p = true ∨ isTerm p = true := by
          cases ds with
          | nil =>
            simp only [List.nil_append] at hds
            rcases hrest with rfl | ⟨c, cs, rfl, hc⟩
            · cases hds
            · injection hds with h1 _; subst h1; exact Or.inr hc
          | cons x xs =>
            simp only [List.cons_append] at hds
            injection hds with h1 _; subst h1
            exact Or.inl (hitems _ (List.mem_cons_self ..))
        have hnot : ¬ (p = 'b' ∨ p = 'B') ∧ ¬ (p = 'o' ∨ p = 'O') ∧ ¬ (p = 'x' ∨ p = 'X') := by
          rcases hp with hp | hp
          · simp only [cont, Bool.or_eq_true, Bool.and_eq_true, beq_iff_eq] at hp
            rcases hp with (hp | ⟨h16, _⟩) | hp
            · rcases isDigit_cases hp with h | h | h | h | h | h | h | h | h | h <;> subst h <;> decide
            · omega
            · subst hp; decide
          · simp only [isTerm, Bool.not_eq_true', Bool.or_eq_false_iff] at hp
            have ha := hp.1.1.2
            refine ⟨?_, ?_, ?_⟩ <;> rintro (rfl | rfl) <;> exact absurd ha (by decide)
        simp only [List.cons_append, hds, detectRadix, hnot.1, hnot.2.1, hnot.2.2, if_false]
    · have : ∀ tl, detectRadix (d :: tl) = (10, d :: tl) := by
        intro tl
        unfold detectRadix
        split
        · rename_i heq; injection heq with h1 _; exact absurd h1 h0
        · rfl
      exact this _
  simp only [List.cons_append] at hdet hs
  simp [eatNumber, hdet, hs, hlast]

/-- **lit_value**: a prefixed literal whose digits (separators removed) are any number of leading
    zeros followed by the canonical digits of `v` lexes to the token for `v` -/
theorem lit_value (radix : Nat) (upper : Bool) (hr : radix = 2 ∨ radix = 8 ∨ radix = 16)
    (items rest : List Char) (k v : Nat) (hitems : ∀ c ∈ items, cont radix c = true)
    (hlast : items.getLast? ≠ some '_') (hrest : Ends rest)
    (hdigits : stripUnderscores items = List.replicate k '0' ++ Nat.toDigits radix v) :
    eatNumber (radixPrefix radix upper ++ (items ++ rest)) = (classify v, rest) := by
  rw [lit_scan_radix radix upper hr items rest hitems hlast hrest, hdigits]
  have h2 : 2 ≤ radix ∧ radix ≤ 16 := by omega
  simp only [intToken, fromStrRadix_spelling h2.1 h2.2]

/-- the same for decimal literals -/
theorem lit_value_dec (d : Char) (ds rest : List Char) (k v : Nat) (hd : isDigit d = true)
    (hitems : ∀ c ∈ ds, cont 10 c = true) (hlast : (d :: ds).getLast? ≠ some '_') (hrest : Ends rest)
    (hdigits : stripUnderscores (d :: ds) = List.replicate k '0' ++ Nat.toDigits 10 v) :
    eatNumber ((d :: ds) ++ rest) = (classify v, rest) := by
  rw [lit_scan_dec d ds rest hd hitems hlast hrest, hdigits]
  simp only [intToken, fromStrRadix_spelling (by omega : 2 ≤ 10) (by omega : 10 ≤ 16)]

/-- and the token for `v` is stored as the well-formed representation of `v`: every value below
    `2^128` is accepted, in the narrowest unsigned width -/
theorem lit_repr (v : Nat) (hv : v < 340282366920938463463374607431768211456) :
    tokRepr (classify v) = some (reprOf v) ∧ (reprOf v).WF ∧ (reprOf v).val = v := by
  unfold classify reprOf
  by_cases h : v < 18446744073709551616
  · rw [if_pos h, if_pos h]; exact ⟨rfl, h, rfl⟩
  · rw [if_neg h, if_pos hv, if_neg h]; exact ⟨rfl, hv, rfl⟩

/-- literals of `2^128` and above are rejected, never truncated -/
theorem lit_too_large (v : Nat) (hv : 340282366920938463463374607431768211456 ≤ v) :
    classify v = .err := by
  unfold classify
  rw [if_neg (by omega), if_neg (by omega)]

/-- non-vacuity: the spellings of `2^64` the seeded lexer bug misread, an upper-case / separated /
    zero-padded one, a float and the error cases -/
example : eatNumber "0x10000000000000000 + 1".toList = (.int128 18446744073709551616, " + 1".toList) ∧
    eatNumber "0X_00ff_FF)".toList = (.int 65535, [')']) ∧
    eatNumber "0o2000000000000000000000".toList = (.int128 18446744073709551616, []) ∧
    eatNumber "0b1_0000".toList = (.int 16, []) ∧
    eatNumber "1_000.5e-3|x".toList = (.float "1000.5e-3".toList, "|x".toList) ∧
    eatNumber "1.foo".toList = (.int 1, ".foo".toList) ∧
    (eatNumber "0b12".toList).1 = .err ∧ (eatNumber "1_".toList).1 = .err ∧
    (eatNumber "340282366920938463463374607431768211456".toList).1 = .err := by decide

/-! ## Round 5: `**` completely, `Bool` operands, tests and filters, strings, float arithmetic -/
section Round5
open MJ.NumX MJ.Cmp MJ.CmpKey MJ.CmpNum

/-! ### `**` completely -/

/-- **`**` is exact**: whatever the widths of base and exponent, a successful power is the
    mathematical power, base and exponent are `i128`s and the exponent is not negative -/
theorem pow_exact (a b r : NumRepr) (ha : a.WF) (hb : b.WF) (h : binop .pow a b = .ok r) :
    r.WF ∧ r.val = a.val ^ b.val.toNat ∧ 0 ≤ b.val ∧ InI128 a.val ∧ InI128 b.val := by
  obtain ⟨hwf, hval⟩ := int_op_exact .pow a b r ha hb h
  refine ⟨hwf, hval, ?_⟩
  rw [binop_eq .pow ha hb] at h
  split at h
  · rename_i hin
    refine ⟨?_, hin.1, hin.2⟩
    simp only [] at h
    split at h
    · rename_i v hv
      unfold powChecked at hv
      split at hv
      · rename_i hr; exact hr.1
      · cases hv
    · split at h
      · rename_i hu; omega
      · cases h
  · cases h

/-- **`**` succeeds whenever the power fits**, for every non-negative exponent of the signed
    128-bit range — the exponent is never narrowed -/
theorem pow_total_in_range (a b : NumRepr) (ha : a.WF) (hb : b.WF) (hia : InI128 a.val)
    (hib : InI128 b.val) (h0 : 0 ≤ b.val) (hres : InI128 (a.val ^ b.val.toNat)) :
    ∃ r, binop .pow a b = .ok r ∧ r.val = a.val ^ b.val.toNat := by
  obtain ⟨r, hr⟩ := int_op_total_in_range .pow a b ha hb hia hib h0 hres
  exact ⟨r, hr, (int_op_exact .pow a b r ha hb hr).2⟩

/-- an exponent of 128 or more with a base of magnitude 2 or more is an error — whatever its low
    32 bits are (the exact power has more than 127 bits) -/
theorem pow_large_exponent_error (a b : NumRepr) (ha : a.WF) (hb : b.WF) (h2 : 2 ≤ a.val.natAbs)
    (he : 128 ≤ b.val) : binop .pow a b = .err := by
  rw [binop_eq .pow ha hb]
  split
  · simp only []
    have hnone : powChecked a.val b.val = none := by
      unfold powChecked
      split
      · unfold checkedPow
        rw [if_pos ⟨h2, by omega⟩]
      · rfl
    rw [hnone]
    simp only []
    rw [if_neg (by omega)]
  · rfl

/-- a negative exponent is an error, never a wrong integer -/
theorem pow_negative_exponent_error (a b : NumRepr) (ha : a.WF) (hb : b.WF) (h : b.val < 0) :
    binop .pow a b = .err := by
  rw [binop_eq .pow ha hb]
  split
  · simp only []
    have hnone : powChecked a.val b.val = none := by
      unfold powChecked
      rw [if_neg (by omega)]
    rw [hnone]
    simp only []
    rw [if_neg (by omega)]
  · rfl

example : ∃ r, binop .pow (.i128 (-1)) (.u128 170141183460469231731687303715884105727) = .ok r ∧ r.val = -1 :=
  ⟨.i64 (-1), by decide, rfl⟩
example : binop .pow (.u64 3) (.u128 4294967297) = .err ∧ binop .pow (.i64 (-2)) (.u64 128) = .err ∧
    binop .pow (.u64 2) (.u64 126) = .ok (.i128 85070591730234615865843651857942052864) := by decide

/-! ### float `+ - *`: exact whenever the exact result is a double -/

theorem float_add_exact (a b : Nat) (h : Representable (key a + key b).natAbs) :
    key (fadd a b) = key a + key b ∧ isFinite (fadd a b) = true := key_fadd a b h

theorem float_sub_exact (a b : Nat) (h : Representable (key a - key b).natAbs) :
    key (fsub a b) = key a - key b ∧ isFinite (fsub a b) = true := by
  unfold fsub
  have := key_fadd a (fneg b) (by rw [key_fneg]; rwa [Int.sub_eq_add_neg] at h)
  rwa [key_fneg, ← Int.sub_eq_add_neg] at this

/-- the product: `key` is in units of `2^-1074`, so the exact product of the values is
    `key a · key b / 2^1074` -/
theorem float_mul_exact (a b m : Nat) (hm : m < infMag)
    (h : scaledOfMag m * scale = scaled a * scaled b) :
    key (fmul a b) * (scale : Int) = key a * key b ∧ isFinite (fmul a b) = true := by
  unfold fmul
  rw [← h, encodeRat_mul _ _ scale_pos', encodeRat_exact m hm]
  obtain ⟨hk, hf, _, _⟩ := key_signedBits (sign a != sign b) m hm
  refine ⟨?_, hf⟩
  rw [hk, key_eq a, key_eq b]
  have h' : ((scaledOfMag m : Nat) : Int) * (scale : Int) = (scaled a : Int) * (scaled b : Int) := by
    exact_mod_cast h
  cases sign a <;> cases sign b <;> simp only [bne_self_eq_false, Bool.false_eq_true, if_false, if_true,
    Bool.true_bne, Bool.false_bne, Bool.not_false, Int.neg_mul, Int.mul_neg, Int.neg_neg] <;> omega

-- 0.1 + 0.2 is the double 0.30000000000000004; 1.5 * 2.5 = 3.75 exactly; 1e308 * 10 overflows to +inf;
-- 2^-1074 * 0.5 is a tie between 0 and the smallest subnormal and rounds to (even) 0
set_option exponentiation.threshold 3000 in
set_option maxRecDepth 100000 in
example : fadd 0x3fb999999999999a 0x3fc999999999999a = 0x3fd3333333333334 ∧
    fmul 0x3ff8000000000000 0x4004000000000000 = 0x400e000000000000 ∧
    fmul 0x7fe1ccf385ebc8a0 0x4024000000000000 = 0x7ff0000000000000 ∧
    fmul 0x0000000000000001 0x3fe0000000000000 = 0 ∧
    fsub 0x3ff0000000000000 0x3ff0000000000000 = 0 ∧
    fadd 0x8000000000000000 0x8000000000000000 = 0x8000000000000000 := by decide


/-! ### `Bool` operands -/

/-- **a `Bool` operand is the integer 0 / 1**: in each of `+ - * // % **` a `Bool` on either side
    gives exactly what the `u64` 0 or 1 gives (`true + 1 = 2`, `true * true = 1`, `true // 2 = 0`) -/
theorem bool_operand_as_u64 (op : Op) (a b : IOpnd) (ha : a.WF) (hb : b.WF) :
    binopX op a b = binop op (embed a) (embed b) := by
  unfold binopX
  rw [coerceX_embed ha hb, binop_eq_opOn]

/-- exactness with `Bool` operands -/
theorem bool_arith_exact (op : Op) (a b : IOpnd) (r : NumRepr) (ha : a.WF) (hb : b.WF)
    (h : binopX op a b = .ok r) : r.WF ∧ r.val = op.denote a.val b.val := by
  rw [bool_operand_as_u64 op a b ha hb] at h
  have := int_op_exact op _ _ r (embed_wf ha) (embed_wf hb) h
  rwa [embed_val, embed_val] at this

/-- totality with `Bool` operands -/
theorem bool_arith_total (op : Op) (a b : IOpnd) (ha : a.WF) (hb : b.WF) (hia : InI128 a.val)
    (hib : InI128 b.val) (hdef : op.Defined a.val b.val) (hres : InI128 (op.denote a.val b.val)) :
    ∃ r, binopX op a b = .ok r := by
  rw [bool_operand_as_u64 op a b ha hb]
  apply int_op_total_in_range op _ _ (embed_wf ha) (embed_wf hb) <;> rw [embed_val] <;>
    first | assumption | (rw [embed_val]; assumption)

/-- the outcome depends only on the numbers the operands stand for: a `Bool` against any width of
    the other operand, or against another `Bool` -/
theorem bool_width_independent (op : Op) (a a' b b' : IOpnd) (ha : a.WF) (ha' : a'.WF) (hb : b.WF)
    (hb' : b'.WF) (hva : a.val = a'.val) (hvb : b.val = b'.val) :
    binopX op a b = binopX op a' b' := by
  rw [bool_operand_as_u64 op a b ha hb, bool_operand_as_u64 op a' b' ha' hb']
  apply width_independent op _ _ _ _ (embed_wf ha) (embed_wf ha') (embed_wf hb) (embed_wf hb') <;>
    rw [embed_val, embed_val] <;> assumption

/-- unary minus rejects a `Bool` (`-true` is an error, not `-1`) -/
theorem neg_bool_error (b : Bool) : negX (.bool b) = .err := rfl

/-- `true == 1`, `false == 0` and nothing else: `==` between a `Bool` and a number compares the
    number with 0 / 1 exactly, in every representation -/
theorem bool_eq_number_exact (m : Mode) (p : Bool) (n : N) (hn : NumOK n) :
    eqV m (.bool p) (.num n) = decide (numKey (boolN p) = numKey n) := by
  have hb : NumOK (boolN p) := by
    cases p <;> exact ⟨by simp only [boolN, N.WF, i64Min, i64Max]; decide, trivial⟩
  have he := eqN_iff_key (boolN p) n hb hn
  simp only [eqV]
  cases h : eqN (boolN p) n with
  | true => exact (decide_eq_true (he.1 h)).symm
  | false =>
    have : ¬ numKey (boolN p) = numKey n := fun hk => by rw [he.2 hk] at h; cases h
    exact (decide_eq_false this).symm

/-- the ordering operators do not look at the value of a `Bool`: every `Bool` sorts before every
    number (`true < 0` is true), because `Ord` compares the kinds first -/
theorem bool_before_every_number (p : Bool) (n : N) : cmpV (.bool p) (.num n) = .lt := by
  have hr : (V.bool p).rank ≠ (V.num n).rank := by
    rw [rank_cls, rank_cls]; show Cls.bool.rank ≠ Cls.num.rank; decide
  have hc : compare (V.bool p).rank (V.num n).rank = .lt := by
    rw [rank_cls, rank_cls]; show compare Cls.bool.rank Cls.num.rank = .lt; decide
  simp only [cmpV, hr, ne_eq, not_false_eq_true, if_true, hc]

example : binopX .add (.bool true) (.int (.u64 1)) = .ok (.i64 2) ∧
    binopX .mul (.bool true) (.bool true) = .ok (.i64 1) ∧
    binopX .floordiv (.bool true) (.int (.i128 2)) = .ok (.i64 0) ∧
    binopX .sub (.bool false) (.int (.u128 170141183460469231731687303715884105728)) = .err ∧
    binopX .pow (.int (.i64 2)) (.bool true) = .ok (.i64 2) := by decide


/-! ### the tests `odd`, `even`, `divisibleby` on integers of every representation -/

/-- `x is odd` ⟺ `x` is an `i128` and `x % 2 = 1` (Euclidean `%`, as the operator: negative odd
    numbers are odd); beyond `i128` (`u128` from `2^127`) the test is false -/
theorem odd_exact (r : NumRepr) (h : r.WF) :
    isOdd (.int r) = (decide (InI128 r.val) && decide (r.val % 2 = 1)) := by
  unfold isOdd tryI128
  show (match (ofRepr r).toI128 with | some v => decide (Int.tmod v 2 ≠ 0) | none => false) = _
  rw [tryInt_ofRepr h]
  by_cases hin : InI128 r.val
  · simp only [hin, if_true, decide_true, Bool.true_and]
    exact decide_eq_decide.2 (tmod_two_ne_zero_iff _)
  · simp only [hin, if_false, decide_false, Bool.false_and]

theorem even_exact (r : NumRepr) (h : r.WF) :
    isEven (.int r) = (decide (InI128 r.val) && decide (r.val % 2 = 0)) := by
  unfold isEven tryI128
  show (match (ofRepr r).toI128 with | some v => decide (Int.tmod v 2 = 0) | none => false) = _
  rw [tryInt_ofRepr h]
  by_cases hin : InI128 r.val
  · simp only [hin, if_true, decide_true, Bool.true_and]
    exact decide_eq_decide.2 (tmod_two_eq_zero_iff _)
  · simp only [hin, if_false, decide_false, Bool.false_and]

/-- on the signed 128-bit range exactly one of `odd` / `even` holds, whatever the stored width -/
theorem odd_xor_even (r : NumRepr) (h : r.WF) (hin : InI128 r.val) : isOdd (.int r) = !isEven (.int r) := by
  rw [odd_exact r h, even_exact r h]
  simp only [hin, decide_true, Bool.true_and]
  by_cases h2 : r.val % 2 = 0
  · have : ¬ r.val % 2 = 1 := by omega
    simp [h2]
  · have : r.val % 2 = 1 := by omega
    simp [this]

/-- `a is divisibleby(b)` ⟺ both are `i128`s, `b ≠ 0` and `a % b = 0` — the same `%` as the
    operator (`i128::MIN is divisibleby(-1)` is true, no overflow) -/
theorem divisibleby_exact (a b : NumRepr) (ha : a.WF) (hb : b.WF) :
    isDivisibleBy (.int a) (.int b) =
      (decide (InI128 a.val ∧ InI128 b.val) && decide (b.val ≠ 0) && decide (a.val % b.val = 0)) := by
  unfold isDivisibleBy
  show (match coerceN (ofRepr a) (ofRepr b) with
    | some (.i x y) => decide (y ≠ 0) && decide (wrappingRem x y = 0)
    | some (.f x y) => fmodIsZero x y
    | none => false) = _
  rw [coerceN_ofRepr ha hb]
  by_cases hin : InI128 a.val ∧ InI128 b.val
  · simp only [hin, and_self, if_true, decide_true, Bool.true_and]
    congr 1
    exact decide_eq_decide.2 (wrappingRem_eq_zero_iff _ _)
  · simp only [hin, if_false, decide_false, Bool.false_and]

/-- the three tests depend on the numbers only, not on the stored widths -/
theorem tests_width_independent (a a' b b' : NumRepr) (ha : a.WF) (ha' : a'.WF) (hb : b.WF) (hb' : b'.WF)
    (hva : a.val = a'.val) (hvb : b.val = b'.val) :
    isOdd (.int a) = isOdd (.int a') ∧ isEven (.int a) = isEven (.int a') ∧
    isDivisibleBy (.int a) (.int b) = isDivisibleBy (.int a') (.int b') := by
  rw [odd_exact a ha, odd_exact a' ha', even_exact a ha, even_exact a' ha',
    divisibleby_exact a b ha hb, divisibleby_exact a' b' ha' hb', hva, hvb]
  exact ⟨rfl, rfl, rfl⟩

example : isOdd (.int (.i64 (-3))) = true ∧ isEven (.int (.i128 (-170141183460469231731687303715884105728))) = true ∧
    isOdd (.int (.u128 170141183460469231731687303715884105729)) = false ∧
    isEven (.int (.u128 170141183460469231731687303715884105729)) = false ∧
    isDivisibleBy (.int (.i128 (-170141183460469231731687303715884105728))) (.int (.i64 (-1))) = true ∧
    isDivisibleBy (.int (.u64 7)) (.int (.i64 0)) = false ∧
    isDivisibleBy (.int (.i64 (-9))) (.int (.u128 3)) = true ∧ isOdd (.bool true) = true := by decide

/-! ### the filters `min` / `max`, `round`, `int` / `float` on `Bool` -/

/-- `[a, b]|min` and `[a, b]|max` return one of the two values, the one whose exact value is the
    smaller / larger — integers of any width and floats mixed -/
theorem min_max_exact (a b : N) (ha : NumOK a) (hb : NumOK b) :
    (minOf a b = a ∨ minOf a b = b) ∧ (maxOf a b = a ∨ maxOf a b = b) ∧
    numKey (minOf a b) ≤ numKey a ∧ numKey (minOf a b) ≤ numKey b ∧
    numKey a ≤ numKey (maxOf a b) ∧ numKey b ≤ numKey (maxOf a b) := by
  have hc := numSpec_wf a b ha.wf hb.wf
  unfold minOf maxOf
  rw [hc]
  by_cases hgt : numKey b < numKey a
  · have : compare (numKey a) (numKey b) = .gt := compare_gt_of hgt
    simp only [this, beq_self_eq_true, if_true]
    refine ⟨Or.inr trivial, Or.inl trivial, ?_, ?_, ?_, ?_⟩ <;> omega
  · have : (compare (numKey a) (numKey b) == Ordering.gt) = false := by
      by_cases hlt : numKey a < numKey b
      · rw [compare_lt_of hlt]; rfl
      · have : numKey a = numKey b := by omega
        rw [this, Int.compare_eq_eq.2 rfl]; rfl
    simp only [this, Bool.false_eq_true, if_false]
    refine ⟨Or.inl trivial, Or.inr trivial, ?_, ?_, ?_, ?_⟩ <;> omega

/-- `x|round(p)` leaves an integer alone whatever the precision; `true|int` is 1 (a `u64`) -/
theorem round_int_identity (a : NumRepr) (p : Option Int) : roundInt a p = .ok a := rfl
theorem int_of_bool_exact (b : Bool) : (intOfBool b).WF ∧ (intOfBool b).val = boolVal b := by
  cases b <;> decide

/-! ### strings parsed by the `int` filter -/

/-- **an integer text is read exactly**: optional `+`, a `-` for negatives, any number of leading
    zeros, the decimal digits of `v` — the `int` filter returns `v` when it fits the signed 128-bit
    range … -/
theorem int_text_exact (plus : Bool) (k : Nat) (v : Int) (hv : InI128 v) :
    intOfStr (intText plus k v) = .ok (.i128 v) := by
  unfold intOfStr
  rw [parseI128_intText, if_pos hv]

/-- … **and fails when it does not** — it never wraps, saturates or comes back as the neighbouring
    integer that the float approximation of the text truncates to -/
theorem int_text_overflow_is_error (plus : Bool) (k : Nat) (v : Int) (hv : ¬ InI128 v) :
    intOfStr (intText plus k v) = .err := by
  unfold intOfStr
  rw [parseI128_intText, if_neg hv]
  simp only [isIntText_intText, if_true]

example : intOfStr "-170141183460469231731687303715884105728".toList =
      .ok (.i128 (-170141183460469231731687303715884105728)) ∧
    intOfStr "-170141183460469231731687303715884105729".toList = .err ∧
    intOfStr "+0042".toList = .ok (.i128 42) ∧ intOfStr "4_2".toList = .err ∧
    intOfStr " 42".toList = .err ∧ intOfStr "0x10".toList = .err ∧ intOfStr "+".toList = .err ∧
    intOfStr "".toList = .err ∧ intOfStr "--1".toList = .err := by decide


/-! ### float `**`: the IEEE 754-2008 §9.2.1 special cases as a table

Rows: base, exponent, result — written down from the standard (`pow(x, ±0) = 1` even for NaN,
`pow(+1, y) = 1` even for NaN, `pow(±0, y)`, `pow(-1, ±∞) = 1`, `pow(x, ±∞)`, `pow(±∞, y)`, a negative
finite base with a non-integral exponent is invalid), on representatives of every class of base
(NaN, ±∞, ±0, ±1, magnitudes below and above 1) and exponent (NaN, ±∞, ±0, odd / even / fractional
of both signs, beyond `2^53`). -/

def fNaN : Nat := 0x7ff8000000000000
def powTable : List (Nat × Nat × PowRes) := [
  -- pow(x, ±0) = 1
  (fNaN, 0, .bits one), (fNaN, 0x8000000000000000, .bits one), (negInf, 0, .bits one), (0, 0, .bits one),
  (0xc000000000000000, 0x8000000000000000, .bits one),
  -- pow(+1, y) = 1
  (one, fNaN, .bits one), (one, posInf, .bits one), (one, negInf, .bits one), (one, 0xc008000000000000, .bits one),
  -- NaN otherwise propagates
  (fNaN, one, .nan), (0x4000000000000000, fNaN, .nan), (0xbff0000000000000, fNaN, .nan), (posInf, fNaN, .nan),
  -- pow(±0, y), y < 0: odd integer -> ±inf, else +inf
  (0, 0xbff0000000000000, .bits posInf), (0x8000000000000000, 0xbff0000000000000, .bits negInf),
  (0x8000000000000000, 0xc008000000000000, .bits negInf), (0x8000000000000000, 0xc000000000000000, .bits posInf),
  (0x8000000000000000, 0xbfe0000000000000, .bits posInf), (0, negInf, .bits posInf), (0x8000000000000000, negInf, .bits posInf),
  -- pow(±0, y), y > 0: odd integer -> ±0, else +0
  (0, 0x3ff0000000000000, .bits 0), (0x8000000000000000, 0x3ff0000000000000, .bits 0x8000000000000000),
  (0x8000000000000000, 0x4008000000000000, .bits 0x8000000000000000), (0x8000000000000000, 0x4000000000000000, .bits 0),
  (0x8000000000000000, 0x3fe0000000000000, .bits 0), (0x8000000000000000, posInf, .bits 0),
  -- an odd integer needs its lowest bit: 2^53 + 2 and beyond are even, 2^53 - 1 is odd
  (0x8000000000000000, 0x433fffffffffffff, .bits 0x8000000000000000), (0x8000000000000000, 0x4340000000000001, .bits 0),
  -- pow(-1, ±inf) = 1
  (0xbff0000000000000, posInf, .bits one), (0xbff0000000000000, negInf, .bits one),
  -- pow(x, -inf): |x| < 1 -> +inf, |x| > 1 -> +0;  pow(x, +inf): |x| < 1 -> +0, |x| > 1 -> +inf
  (0x3fe0000000000000, negInf, .bits posInf), (0xbfe0000000000000, negInf, .bits posInf),
  (0x4000000000000000, negInf, .bits 0), (0xc000000000000000, negInf, .bits 0), (posInf, negInf, .bits 0), (negInf, negInf, .bits 0),
  (0x3fe0000000000000, posInf, .bits 0), (0xbfefffffffffffff, posInf, .bits 0),
  (0x3ff0000000000001, posInf, .bits posInf), (0xc000000000000000, posInf, .bits posInf), (negInf, posInf, .bits posInf),
  -- pow(-inf, y): y < 0 odd -> -0, y < 0 else +0, y > 0 odd -> -inf, y > 0 else +inf
  (negInf, 0xbff0000000000000, .bits 0x8000000000000000), (negInf, 0xc000000000000000, .bits 0), (negInf, 0xbfe0000000000000, .bits 0),
  (negInf, 0x3ff0000000000000, .bits negInf), (negInf, 0x4008000000000000, .bits negInf), (negInf, 0x4000000000000000, .bits posInf),
  (negInf, 0x3fe0000000000000, .bits posInf),
  -- pow(+inf, y): y < 0 -> +0, y > 0 -> +inf
  (posInf, 0xbff0000000000000, .bits 0), (posInf, 0xbfe0000000000000, .bits 0), (posInf, 0x3fe0000000000000, .bits posInf),
  (posInf, 0x4008000000000000, .bits posInf),
  -- a negative finite base with a non-integral exponent is invalid; with an integral one it is not
  (0xc000000000000000, 0x3fe0000000000000, .nan), (0xbfe0000000000000, 0xc004000000000000, .nan),
  (0x8000000000000001, 0x3ff8000000000000, .nan),
  (0xc000000000000000, 0x4008000000000000, .general), (0xc000000000000000, 0xc000000000000000, .general),
  -- everything else is computed
  (0x4000000000000000, 0x3fe0000000000000, .general), (0x4024000000000000, 0xc008000000000000, .general),
  (0x3fe0000000000000, 0x4340000000000000, .general)]

set_option exponentiation.threshold 3000 in
set_option maxRecDepth 100000 in
/-- the model's `powSpecial` gives the standard's result on every row -/
theorem float_pow_special_table : ∀ row ∈ powTable, powSpecial row.1 row.2.1 = row.2.2 := by decide

/-- the two laws that hold for every operand, NaN included -/
theorem float_pow_zero_exponent (x y : Nat) (hy : mag y = 0) : powSpecial x y = .bits one := by
  unfold powSpecial; rw [if_pos hy]
theorem float_pow_one_base (y : Nat) : powSpecial one y = .bits one := by
  unfold powSpecial
  by_cases hy : mag y = 0
  · rw [if_pos hy]
  · rw [if_neg hy, if_pos (by decide)]

-- small integral powers that are doubles are exact: `2.0 ** 10 = 1024.0`, `(-2.0) ** 3 = -8.0`,
-- `2.0 ** -2 = 0.25`, `10.0 ** 22 = 1e22`; `10.0 ** 23` is not a double (left to libm)
set_option exponentiation.threshold 100000 in
set_option maxRecDepth 100000 in
example : powF (.f64 0x4000000000000000) (.f64 0x4024000000000000) = .bits 0x4090000000000000 ∧
    powF (.f64 0xc000000000000000) (.i64 3) = .bits 0xc020000000000000 ∧
    powF (.u64 2) (.f64 0xc000000000000000) = .bits 0x3fd0000000000000 ∧
    powF (.f64 0x4024000000000000) (.u64 22) = .bits 0x4480f0cf064dd592 ∧
    powF (.f64 0x4024000000000000) (.u64 23) = .unknown := by decide

/-! ### source facts behind the round-5 models -/

/-- `is_odd` / `is_even` test `x % 2 != 0` / `x % 2 == 0` of `i128::try_from(v)`; `is_divisibleby`
    coerces without loss and uses `wrapping_rem`; the `int` filter parses a string as `i128`, then
    rejects an integer literal, then parses it as `f64`; `f64_to_int` keeps `[-2^127, 2^127)`; a
    `Bool` converts to an integer as `val as usize` -/
theorem tie_filter_facts :
    MJ.Gen.oddEvenTests = [("odd", "!=", 0), ("even", "==", 0)] ∧
    MJ.Gen.divisiblebyLossy = false ∧ MJ.Gen.divisiblebyIntMethod = "wrapping_rem" ∧
    MJ.Gen.f64ToIntLimit = 170141183460469231731687303715884105728 ∧
    MJ.Gen.f64ToIntRange = (">=", "<") ∧
    MJ.Gen.intFilterStringSteps = ["i128", "is_integer_literal", "f64"] ∧
    MJ.Gen.boolAsInteger = "val as usize" := by decide


/-! ### float `+ - *` are exactly rounded (IEEE-754 round to nearest, ties to even)

`key` is the exact value in units of `2^-1074`.  For finite operands whose result is finite:
no double is closer to the exact sum / difference / product than the result, and if another double
is equally close the result is the one with the even significand (its bit pattern is even).  With
`float_add_exact` … (exact when representable) this pins the result bit for bit. -/

theorem float_add_rounded (a b : Nat) (hfin : isFinite (fadd a b) = true) (m : Nat) :
    (key a + key b - key (fadd a b)).natAbs ≤ (key a + key b - key m).natAbs ∧
    ((key a + key b - key (fadd a b)).natAbs = (key a + key b - key m).natAbs →
      key m ≠ key (fadd a b) → fadd a b % 2 = 0) :=
  ⟨fadd_nearest a b hfin m, fadd_tie_even a b hfin m⟩

theorem float_sub_rounded (a b : Nat) (hfin : isFinite (fsub a b) = true) (m : Nat) :
    (key a - key b - key (fsub a b)).natAbs ≤ (key a - key b - key m).natAbs ∧
    ((key a - key b - key (fsub a b)).natAbs = (key a - key b - key m).natAbs →
      key m ≠ key (fsub a b) → fsub a b % 2 = 0) := by
  have h := float_add_rounded a (fneg b) hfin m
  rw [key_fneg, ← Int.sub_eq_add_neg] at h
  exact h

theorem float_mul_rounded (a b : Nat) (hfin : isFinite (fmul a b) = true) (m : Nat) :
    (key a * key b - key (fmul a b) * (scale : Int)).natAbs ≤
      (key a * key b - key m * (scale : Int)).natAbs ∧
    ((key a * key b - key (fmul a b) * (scale : Int)).natAbs =
        (key a * key b - key m * (scale : Int)).natAbs →
      key m ≠ key (fmul a b) → fmul a b % 2 = 0) :=
  ⟨fmul_nearest a b hfin m, fmul_tie_even a b hfin m⟩

/-- the rounding function itself: `encodeRat p q` is a double nearest to `p / q`, the even one on
    a tie — against every bit pattern `m` -/
theorem round_to_nearest_even (p q : Nat) (hq : 0 < q) (hfin : encodeRat p q < infMag) (m : Nat) :
    dist p (scaledOfMag (encodeRat p q) * q) ≤ dist p (scaledOfMag m * q) ∧
    (dist p (scaledOfMag (encodeRat p q) * q) = dist p (scaledOfMag m * q) →
      scaledOfMag m ≠ scaledOfMag (encodeRat p q) → encodeRat p q % 2 = 0) :=
  encodeRat_nearest p q hq hfin m

-- non-vacuity: 1 + 2^-53 is a tie between 1 and the next double; it goes to the even one (1.0), and
-- the competitor 1 + 2^-52 is exactly as far away
set_option exponentiation.threshold 3000 in
set_option maxRecDepth 100000 in
example : fadd 0x3ff0000000000000 0x3ca0000000000000 = 0x3ff0000000000000 ∧
    isFinite (fadd 0x3ff0000000000000 0x3ca0000000000000) = true ∧
    (key 0x3ff0000000000000 + key 0x3ca0000000000000 - key 0x3ff0000000000000).natAbs =
      (key 0x3ff0000000000000 + key 0x3ca0000000000000 - key 0x3ff0000000000001).natAbs ∧
    fmul 0x3ff0000000000001 0x3ff0000000000001 = 0x3ff0000000000002 := by decide


/-! ### strings parsed by the `float` filter: the decimal value, correctly rounded -/

/-- a decimal text `mant · 10^e` with `0 ≤ e ≤ 400` is read as a double nearest to that value (ties to
    even), against every bit pattern `m` -/
theorem float_text_rounded_pos (neg : Bool) (M : Nat) (e : Nat) (hM : M ≠ 0) (he : e ≤ 400)
    (hfin : encodeRat (M * 10 ^ e * scale) 1 < infMag) (m : Nat) :
    decToBits ⟨neg, M, (e : Int)⟩ = signedBits neg (encodeRat (M * 10 ^ e * scale) 1) ∧
    dist (M * 10 ^ e * scale) (scaledOfMag (encodeRat (M * 10 ^ e * scale) 1)) ≤
      dist (M * 10 ^ e * scale) (scaledOfMag m) := by
  constructor
  · unfold decToBits
    simp only [hM, if_false]
    rw [if_neg (by omega), if_neg (by omega), if_pos (by omega)]
    simp
  · have := (encodeRat_nearest (M * 10 ^ e * scale) 1 (by omega) hfin m).1
    simpa using this

/-- … and with a negative decimal exponent (`mant / 10^e`, `e ≤ 400 + digits`) likewise -/
theorem float_text_rounded_neg (neg : Bool) (M : Nat) (e : Nat) (hM : M ≠ 0) (he0 : 0 < e)
    (he : (e : Int) ≤ 400 + decLen M) (hfin : encodeRat (M * scale) (10 ^ e) < infMag) (m : Nat) :
    decToBits ⟨neg, M, -(e : Int)⟩ = signedBits neg (encodeRat (M * scale) (10 ^ e)) ∧
    dist (M * scale) (scaledOfMag (encodeRat (M * scale) (10 ^ e)) * 10 ^ e) ≤
      dist (M * scale) (scaledOfMag m * 10 ^ e) := by
  constructor
  · unfold decToBits
    simp only [hM, if_false]
    rw [if_neg (by omega), if_neg (by omega), if_neg (by omega)]
    simp
  · exact (encodeRat_nearest (M * scale) (10 ^ e) (Nat.pow_pos (by omega)) hfin m).1

-- "0.1", "1e23", "9007199254740993" (ties to even: 2^53), "1.7976931348623159e308" (overflows to inf),
-- "2.4703282292062327e-324" (rounds down to 0, one digit more rounds up to the smallest subnormal)
set_option exponentiation.threshold 100000 in
set_option maxRecDepth 100000 in
example : parseF64 "0.1".toList = some 0x3fb999999999999a ∧ parseF64 "1e23".toList = some 0x44b52d02c7e14af6 ∧
    parseF64 "9007199254740993".toList = some 0x4340000000000000 ∧
    parseF64 "1.7976931348623159e308".toList = some 0x7ff0000000000000 ∧
    parseF64 "2.4703282292062327e-324".toList = some 0 ∧
    parseF64 "2.4703282292062328e-324".toList = some 1 ∧
    parseF64 "-Infinity".toList = some 0xfff0000000000000 ∧ parseF64 "+.5".toList = some 0x3fe0000000000000 ∧
    parseF64 "1e".toList = none ∧ parseF64 " 1".toList = none ∧ parseF64 "1_0".toList = none ∧
    parseF64 "0x10".toList = none ∧ parseF64 ".".toList = none := by decide


/-- **what `str::parse::<i128>` accepts**: an optional single sign followed by at least one ASCII
    digit and nothing else — no blanks, no `_`, no radix prefix, no exponent — and the value is the
    signed decimal value of the digits, inside the `i128` range -/
theorem int_text_sound (s : List Char) (v : Int) (h : parseI128 s = some v) :
    InI128 v ∧ ∃ (neg : Bool) (digits : List Char) (n : Nat), digits ≠ [] ∧
      (∀ c ∈ digits, isDigit c = true) ∧ parseDigits 10 0 digits = some n ∧
      v = (if neg then -(n : Int) else (n : Int)) ∧
      (s = digits ∨ s = '+' :: digits ∨ s = '-' :: digits) := by
  cases s with
  | nil => simp [parseI128] at h
  | cons c rest =>
    by_cases hm : c = '-'
    · subst hm
      have hunf : parseI128 ('-' :: rest) =
          if rest = [] then none else
            match parseDigits 10 0 rest with
            | none => none
            | some n => if (n : Int) ≤ 170141183460469231731687303715884105728 then some (-(n : Int)) else none := by
        simp [parseI128]
        split
        · rfl
        · cases parseDigits 10 0 rest <;> rfl
      rw [hunf] at h
      by_cases hne : rest = []
      · rw [if_pos hne] at h; cases h
      · rw [if_neg hne] at h
        cases hn : parseDigits 10 0 rest with
        | none => rw [hn] at h; cases h
        | some n =>
          rw [hn] at h
          simp only [] at h
          by_cases hle : (n : Int) ≤ 170141183460469231731687303715884105728
          · rw [if_pos hle] at h
            injection h with h
            subst h
            exact ⟨by unfold InI128; omega, true, rest, n, hne, parseDigits_all_digits hn, hn, by simp,
              Or.inr (Or.inr rfl)⟩
          · rw [if_neg hle] at h; cases h
    · by_cases hp : c = '+'
      · subst hp
        have hunf : parseI128 ('+' :: rest) =
            if rest = [] then none else
              match parseDigits 10 0 rest with
              | none => none
              | some n => if (n : Int) < 170141183460469231731687303715884105728 then some (n : Int) else none := by
          simp [parseI128]
          split
          · rfl
          · cases parseDigits 10 0 rest <;> rfl
        rw [hunf] at h
        by_cases hne : rest = []
        · rw [if_pos hne] at h; cases h
        · rw [if_neg hne] at h
          cases hn : parseDigits 10 0 rest with
          | none => rw [hn] at h; cases h
          | some n =>
            rw [hn] at h
            simp only [] at h
            by_cases hlt : (n : Int) < 170141183460469231731687303715884105728
            · rw [if_pos hlt] at h
              injection h with h
              subst h
              exact ⟨by unfold InI128; omega, false, rest, n, hne, parseDigits_all_digits hn, hn, by simp,
                Or.inr (Or.inl rfl)⟩
            · rw [if_neg hlt] at h; cases h
      · have hunf : parseI128 (c :: rest) =
            match parseDigits 10 0 (c :: rest) with
            | none => none
            | some n => if (n : Int) < 170141183460469231731687303715884105728 then some (n : Int) else none := by
          simp [parseI128, hm, hp]
          cases parseDigits 10 0 (c :: rest) <;> rfl
        rw [hunf] at h
        cases hn : parseDigits 10 0 (c :: rest) with
        | none => rw [hn] at h; cases h
        | some n =>
          rw [hn] at h
          simp only [] at h
          by_cases hlt : (n : Int) < 170141183460469231731687303715884105728
          · rw [if_pos hlt] at h
            injection h with h
            subst h
            exact ⟨by unfold InI128; omega, false, c :: rest, n, by simp, parseDigits_all_digits hn, hn, by simp,
              Or.inl rfl⟩
          · rw [if_neg hlt] at h; cases h

/-- **the only ways a string becomes an integer**: it is an integer text inside the range (then
    exactly that integer), or it is no integer text at all, `str::parse::<f64>` accepts it, and the
    result is the exact truncation of that float, inside the range -/
theorem int_filter_string_sound (s : List Char) (r : NumRepr) (h : intOfStr s = .ok r) :
    (∃ v, parseI128 s = some v ∧ r = .i128 v ∧ InI128 v) ∨
    (parseI128 s = none ∧ isIntText s = false ∧
      ∃ b, parseF64 s = some b ∧ isFinite b = true ∧ r.val = truncInt b ∧ r.WF) := by
  unfold intOfStr at h
  split at h
  · rename_i i hi
    injection h with h
    exact Or.inl ⟨i, hi, h.symm, (int_text_sound s i hi).1⟩
  · rename_i hnone
    split at h
    · cases h
    · rename_i hlit
      split at h
      · rename_i b hb
        obtain ⟨hwf, hval, hfin⟩ := int_of_float_exact b r h
        exact Or.inr ⟨hnone, by simpa using hlit, b, hb, hfin, hval, hwf⟩
      · cases h

set_option exponentiation.threshold 100000 in
set_option maxRecDepth 100000 in
example : parseI128 "+00017".toList = some 17 ∧ parseI128 "-0".toList = some 0 ∧
    parseI128 "1 ".toList = none ∧ parseI128 "1_0".toList = none ∧ parseI128 "0b1".toList = none ∧
    parseI128 "1e3".toList = none ∧ parseI128 "٣".toList = none ∧
    intOfStr "1e3".toList = .ok (.i128 1000) ∧ intOfStr "-1.9".toList = .ok (.i128 (-1)) ∧
    intOfStr "1e40".toList = .err ∧ intOfStr "nan".toList = .err := by decide


-- `true / 2 = 0.5`, `1 / 3` is the correctly rounded quotient, `7 / 0.5 = 14.0`
set_option exponentiation.threshold 3000 in
set_option maxRecDepth 100000 in
example : arithF .div (boolN true) (.u64 2) = some 0x3fe0000000000000 ∧
    arithF .div (.i64 1) (.u128 3) = some 0x3fd5555555555555 ∧
    arithF .div (.u64 7) (.f64 0x3fe0000000000000) = some 0x402c000000000000 ∧
    arithF .add (boolN true) (.f64 0x3ff8000000000000) = some 0x4004000000000000 := by decide

/-- **float `/` is exactly rounded** (the true division `/`, also of two integers after their
    conversion, and the division inside `//`): the sign is the product of the signs and no double
    magnitude is closer to `|a| / |b|` than the result's, ties to the even significand -/
theorem float_div_rounded (a b : Nat) (hb : scaled b ≠ 0) (hfin : isFinite (fdiv a b) = true) (m : Nat) :
    sign (fdiv a b) = (sign a != sign b) ∧
    dist (scaled a * scale) (scaled (fdiv a b) * scaled b) ≤ dist (scaled a * scale) (scaledOfMag m * scaled b) ∧
    (dist (scaled a * scale) (scaled (fdiv a b) * scaled b) = dist (scaled a * scale) (scaledOfMag m * scaled b) →
      scaledOfMag m ≠ scaled (fdiv a b) → fdiv a b % 2 = 0) := by
  unfold fdiv at *
  have hle := encodeRat_le_infMag (scaled a * scale) (scaled b)
  have hM := finite_signedBits hle hfin
  obtain ⟨_, _, hs, hmag⟩ := key_signedBits (sign a != sign b) _ hM
  have hsc : scaled (signedBits (sign a != sign b) (encodeRat (scaled a * scale) (scaled b))) =
      scaledOfMag (encodeRat (scaled a * scale) (scaled b)) := by
    show scaledOfMag (mag _) = _
    rw [hmag]
  rw [hsc, signedBits_parity]
  obtain ⟨d1, t1⟩ := encodeRat_nearest (scaled a * scale) (scaled b) (by omega) hM m
  exact ⟨hs, d1, t1⟩


end Round5

/-! ### Source facts the model duplicates

`MJ.Gen.*` is regenerated from /repo's sources on every run (`lib/tables/c08.py`); when one of
these facts changes in the source, the theorem fails to build and the tie is reported broken. -/

/-- the operand `ops::neg` special-cases is `2^127` (`MIN_I128_AS_POS_U128`) -/
theorem tie_neg_special : MJ.Gen.negSpecialU128 = 170141183460469231731687303715884105728 := by decide

/-- each integer operator still goes through the overflow-aware `i128` method the model assumes -/
theorem tie_int_methods : MJ.Gen.intOpMethods =
    [("add", ["checked_add"]), ("int_div", ["checked_div_euclid"]), ("mul", ["checked_mul"]),
     ("neg", ["checked_mul"]), ("pow", ["checked_pow"]), ("rem", ["checked_rem_euclid"]),
     ("sub", ["checked_sub"])] := by decide

/-- the lexer's prefix table is the one `detectRadix` implements, the default radix is 10 -/
theorem tie_lex_radix :
    (∀ p ∈ MJ.Gen.lexRadixPrefixes, detectRadix (p.1.toList ++ ['1']) = (p.2, ['1'])) ∧
    MJ.Gen.lexRadixPrefixes.length = 6 ∧ MJ.Gen.lexDefaultRadix = 10 ∧
    (detectRadix ['1']).1 = MJ.Gen.lexDefaultRadix := by decide

/-- integers are parsed by `u64::from_str_radix(&num, radix)` then `u128::from_str_radix(&num,
    radix)`; only the float branch uses the radix-less `str::parse` -/
theorem tie_lex_parsers : MJ.Gen.lexIntParsers = [("u64", "radix"), ("u128", "radix")] ∧
    MJ.Gen.lexPlainParsers = ["Float"] := by decide

/-! ### Session 4: negative zero, and the final form of the property

`-0.0` and `0.0` (and the integer 0 of every width) are the same number: no ordering operator may
separate them, `==` holds.  `cmp_f64` gets this from its `left == right` guard in front of the
total order of the bit patterns (`totalCmp negZero 0 = .lt`: without the guard `-0.0 < 0`). -/
section Session4
open MJ.Num MJ.F64 MJ.Val MJ.Cmp MJ.NumF MJ.CmpKey MJ.CmpNum MJ.NumX

/-- the bit pattern of `-0.0` -/
def negZero : Nat := 0x8000000000000000

theorem negZero_ok : NumOK (.f64 negZero) ∧ numKey (.f64 negZero) = 0 ∧ NumOK (.f64 0) ∧ numKey (.f64 0) = 0 := by
  refine ⟨⟨?_, ?_⟩, ?_, ⟨?_, ?_⟩, ?_⟩
  · simp only [N.WF, P64, negZero]; decide
  · show isNaN negZero = false; decide
  · show key negZero = 0; decide
  · simp only [N.WF, P64]; decide
  · show isNaN 0 = false; decide
  · show key 0 = 0; decide

theorem cmp_zero_signs_equal (op : CmpOp) (z : N) (hz : NumOK z) (h0 : numKey z = 0) :
    cmpOp op (.f64 negZero) z = exactCmp op 0 0 ∧ cmpOp op z (.f64 negZero) = exactCmp op 0 0 := by
  obtain ⟨hn, hk, _, _⟩ := negZero_ok
  have h1 := cmp_ops_exact op (.f64 negZero) z hn hz
  have h2 := cmp_ops_exact op z (.f64 negZero) hz hn
  rw [hk, h0] at h1 h2
  exact ⟨h1, h2⟩

theorem cmp_f64_zero_signs_equal : cmpF64 negZero 0 = .eq ∧ cmpF64 0 negZero = .eq ∧
    totalCmp negZero 0 = .lt := by decide

theorem zero_signs_table (z : N) (hz : NumOK z) (h0 : numKey z = 0) :
    cmpOp .lt (.f64 negZero) z = false ∧ cmpOp .gt (.f64 negZero) z = false ∧
    cmpOp .le (.f64 negZero) z = true ∧ cmpOp .ge (.f64 negZero) z = true ∧
    cmpOp .eq (.f64 negZero) z = true ∧ cmpOp .ne (.f64 negZero) z = false ∧
    cmpOp .lt z (.f64 negZero) = false ∧ cmpOp .gt z (.f64 negZero) = false ∧
    cmpOp .le z (.f64 negZero) = true ∧ cmpOp .ge z (.f64 negZero) = true ∧
    cmpOp .eq z (.f64 negZero) = true ∧ cmpOp .ne z (.f64 negZero) = false := by
  refine ⟨?_, ?_, ?_, ?_, ?_, ?_, ?_, ?_, ?_, ?_, ?_, ?_⟩ <;>
    first
      | exact (cmp_zero_signs_equal _ z hz h0).1
      | exact (cmp_zero_signs_equal _ z hz h0).2

example : NumOK (.i64 0) ∧ numKey (.i64 0) = 0 ∧ NumOK (.u128 0) ∧ numKey (.u128 0) = 0 := by
  refine ⟨⟨?_, trivial⟩, ?_, ⟨?_, trivial⟩, ?_⟩
  · simp only [N.WF, i64Min, i64Max]; decide
  · show (0 : Int) * (scale : Int) = 0; exact Int.zero_mul _
  · simp only [N.WF, u128Max]; decide
  · show ((0 : Nat) : Int) * (scale : Int) = 0; simp

/-- the second sentence of the property on the model: comparison of integers and floats is exact
    (all five representations, infinities included), and `//` and `%` of floats are, before the one
    final rounding each, the Euclidean quotient and remainder of the exact operands -/
def C08_full_num : Prop :=
  (∀ (op : CmpOp) (x y : N), NumOK x → NumOK y → cmpOp op x y = exactCmp op (numKey x) (numKey y)) ∧
  (∀ a b : Int, b ≠ 0 → fDivEuclid a b * b + fRemEuclid a b = a ∧ 0 ≤ fRemEuclid a b ∧
      fRemEuclid a b < b.natAbs)

/-- the one thing between the model of the current code and `C08_full`: unary minus at the operand
    `2^127`.  NAMED HYPOTHESIS of `C08_main`; it is FALSE on the current code
    (`C08_main_gap_is_open`), which is the recorded known finding. -/
def NegOf2p127Exact : Prop :=
  ∀ (a r : NumRepr), a.WF → a.val = 170141183460469231731687303715884105728 → neg a = .ok r →
    r.WF ∧ r.val = -a.val

/-- **C08, final form.**  The full statement of the integer part (`C08_full`) and of the
    comparison / Euclid part (`C08_full_num`) follow from the theorems above and ONE named
    hypothesis, `NegOf2p127Exact`. -/
theorem C08_main (neg_of_2p127 : NegOf2p127Exact) : C08_full ∧ C08_full_num := by
  obtain ⟨h1, h2, h3, h4, h5, h6, h7⟩ := C08_holds_partial
  refine ⟨⟨h1, ?_, h3, h4, h5, h6, h7⟩, ?_, ?_⟩
  · intro a r ha hn
    by_cases hv : a.val = 170141183460469231731687303715884105728
    · exact neg_of_2p127 a r ha hv hn
    · exact h2 a r ha hv hn
  · exact cmp_ops_exact
  · intro a b hb
    obtain ⟨_, hlaw⟩ := float_div_euclid_exact a b hb
    obtain ⟨_, hlo, hhi⟩ := float_rem_euclid_exact a b hb
    exact ⟨hlaw, hlo, hhi⟩

/-- the hypothesis of `C08_main` is exactly the open gap: it fails on the current code, and it is
    equivalent to the full statement given what is proved -/
theorem C08_main_gap_is_open : ¬ NegOf2p127Exact ∧ (NegOf2p127Exact ↔ C08_full) := by
  have hiff : NegOf2p127Exact ↔ C08_full :=
    ⟨fun h => (C08_main h).1, fun h a r ha _ hn => h.2.1 a r ha hn⟩
  exact ⟨fun h => C08_counterexample (hiff.1 h), hiff⟩


/-! #### float `+ - * /` are TOTAL: correctly rounded, or the infinity of the right sign exactly from
`f64::MAX + ulp/2` on

`ovfThreshold = (2^54 - 1) · 2^2044` is `2^1024 - 2^970` in units of `2^-1074`: the midpoint between
`f64::MAX` and `2^1024`, where the tie goes to the even neighbour, i.e. to infinity
(`encodeRat_overflow_iff`).  Together with the `float_*_rounded` theorems (whose only hypothesis was
that the result is finite) every pair of finite operands is covered: subnormal and zero results by
the rounding theorems, overflow by these. -/

theorem float_add_total (a b : Nat) :
    (isFinite (fadd a b) = true ↔ (key a + key b).natAbs < ovfThreshold) ∧
    (isFinite (fadd a b) = false → fadd a b = signedBits (decide (key a + key b < 0)) infMag) ∧
    (isFinite (fadd a b) = true → ∀ m : Nat,
      (key a + key b - key (fadd a b)).natAbs ≤ (key a + key b - key m).natAbs ∧
      ((key a + key b - key (fadd a b)).natAbs = (key a + key b - key m).natAbs →
        key m ≠ key (fadd a b) → fadd a b % 2 = 0)) :=
  ⟨(fadd_finite_iff a b).1, (fadd_finite_iff a b).2, fun hfin m => float_add_rounded a b hfin m⟩

theorem float_sub_total (a b : Nat) :
    (isFinite (fsub a b) = true ↔ (key a - key b).natAbs < ovfThreshold) ∧
    (isFinite (fsub a b) = false → fsub a b = signedBits (decide (key a - key b < 0)) infMag) ∧
    (isFinite (fsub a b) = true → ∀ m : Nat,
      (key a - key b - key (fsub a b)).natAbs ≤ (key a - key b - key m).natAbs ∧
      ((key a - key b - key (fsub a b)).natAbs = (key a - key b - key m).natAbs →
        key m ≠ key (fsub a b) → fsub a b % 2 = 0)) := by
  have h := fadd_finite_iff a (fneg b)
  rw [key_fneg, ← Int.sub_eq_add_neg] at h
  exact ⟨h.1, h.2, fun hfin m => float_sub_rounded a b hfin m⟩

theorem float_mul_total (a b : Nat) :
    (isFinite (fmul a b) = true ↔ scaled a * scaled b < ovfThreshold * scale) ∧
    (isFinite (fmul a b) = false → fmul a b = signedBits (sign a != sign b) infMag) ∧
    (isFinite (fmul a b) = true → ∀ m : Nat,
      (key a * key b - key (fmul a b) * (scale : Int)).natAbs ≤
        (key a * key b - key m * (scale : Int)).natAbs ∧
      ((key a * key b - key (fmul a b) * (scale : Int)).natAbs =
          (key a * key b - key m * (scale : Int)).natAbs →
        key m ≠ key (fmul a b) → fmul a b % 2 = 0)) :=
  ⟨(fmul_finite_iff a b).1, (fmul_finite_iff a b).2, fun hfin m => float_mul_rounded a b hfin m⟩

theorem float_div_total (a b : Nat) (hb : scaled b ≠ 0) :
    (isFinite (fdiv a b) = true ↔ scaled a * scale < ovfThreshold * scaled b) ∧
    (isFinite (fdiv a b) = false → fdiv a b = signedBits (sign a != sign b) infMag) ∧
    (isFinite (fdiv a b) = true → ∀ m : Nat,
      sign (fdiv a b) = (sign a != sign b) ∧
      dist (scaled a * scale) (scaled (fdiv a b) * scaled b) ≤ dist (scaled a * scale) (scaledOfMag m * scaled b) ∧
      (dist (scaled a * scale) (scaled (fdiv a b) * scaled b) = dist (scaled a * scale) (scaledOfMag m * scaled b) →
        scaledOfMag m ≠ scaled (fdiv a b) → fdiv a b % 2 = 0)) :=
  ⟨(fdiv_finite_iff a b hb).1, (fdiv_finite_iff a b hb).2, fun hfin m => float_div_rounded a b hb hfin m⟩

-- non-vacuity: f64::MAX + f64::MAX and f64::MAX * 2.0 overflow to +inf, -f64::MAX * 2.0 to -inf,
-- f64::MAX + 2^969 (less than half an ulp) stays f64::MAX, f64::MAX + 2^970 (the tie) is +inf,
-- 5e-324 / 2.0 underflows to 0 and 5e-324 * 0.5 too (ties to even), both finite
set_option exponentiation.threshold 3000 in
set_option maxRecDepth 100000 in
example : fadd 0x7fefffffffffffff 0x7fefffffffffffff = 0x7ff0000000000000 ∧
    fmul 0x7fefffffffffffff 0x4000000000000000 = 0x7ff0000000000000 ∧
    fmul 0xffefffffffffffff 0x4000000000000000 = 0xfff0000000000000 ∧
    fadd 0x7fefffffffffffff 0x7c80000000000000 = 0x7fefffffffffffff ∧
    fadd 0x7fefffffffffffff 0x7c90000000000000 = 0x7ff0000000000000 ∧
    fdiv 0x0000000000000001 0x4000000000000000 = 0 ∧
    fmul 0x0000000000000001 0x3fe0000000000000 = 0 := by decide

end Session4

end MJ.C08
