import MJ.Proofs.Store
import MJ.Proofs.StoreIter
import MJ.Proofs.Hidden
import MJ.Proofs.MemoConc
import MJ.Proofs.RenderProg
import MJ.Gen.Tables
/-!
# C15 — an environment's behaviour depends on its contents, not on its history

Property theorems only (helper lemmas live in `MJ/Proofs/Store.lean`).

* `Store` is the model of `LoaderStore` (borrowed map + memoising owned map, a loader, mutual
  eviction on insert — after the `fix:` commit the new source is compiled *before* the other tier is
  evicted); `compiles : Source → Bool` is a parameter.
* a compiled template is `Tmpl = (source, load-time configuration it was compiled under)`; the
  store carries the current load-time configuration `cfg` (trim_blocks, lstrip_blocks,
  keep_trailing_newline, syntax, auto-escape callback) which applies to FUTURE loads only
  (`add_template*` is a load; a loader-backed template is loaded at its first lookup);
* `Spec` = a plain map `explicit : Name ⇀ Tmpl` + a memo cache `cached : Name ⇀ Tmpl`;
  `Flat` = their union `contents` (what a lookup answers from without asking the loader);
* `EnvSpec` = one environment as a value: `Flat` + run-time configuration + three registries.
* `Cow`/`World` model an environment and its clones: stores are copied by value
  (`MemoMap: Clone`, `BTreeMap: Clone`), the three registries are `Arc`s mutated through
  `Arc::make_mut`.

The store/registry part is about the *sequential* behaviour.  The hidden state of the engine — every
static, thread-local and interior-mutable field, enumerated from the source — is classified in
`MJ/Model/Hidden.lean` (`all_hidden_state_classified`); each class has a small model of the
discipline that keeps it from influencing results (once-cells, buffer pools, the value-handle
registry here; the serialisation flag, the id counters and the copy-on-write registries in
`MJ/Model/Store.lean`).  Interleavings of threads are not modelled beyond the total order of the
state-id counter; the harness validates concurrent renders against a fresh environment.
-/
namespace MJ.C15
open MJ.Store

/-- (The property at full strength is `C15_full` at the end of this file, proved by `C15_main`; this is
its sequential store part.)  Statement of the modelled sequential store part of C15, for every compile predicate
(compiling may depend on the load-time configuration, e.g. the syntax):
* (history) two arbitrary histories from the empty store that end with the same contents — per name
  the source AND the load-time configuration of its last load —, the same loader and the same
  configuration for future loads are indistinguishable by any continuation;
* (failed insert) an addition whose source does not compile returns the compile error and leaves the
  store *identical*;
* (sticky) once a lookup of `n` has found a template — in particular one obtained from the loader —
  every later lookup of `n` finds the same template (same source, same load-time configuration),
  whatever happens in between (including `set_loader` and configuration changes), unless `n` is
  removed, re-added or the templates are cleared;
* (reload) re-adding a template — also with byte-identical source — is a load: afterwards the
  template is the one compiled under the configuration in force NOW. -/
def C15_store_full : Prop :=
  ∀ c : LtCfg → Source → Bool,
    (∀ h₁ h₂ k : List Op,
        (Store.empty.run c h₁).flat = (Store.empty.run c h₂).flat →
        (Store.empty.run c h₁).results c k = (Store.empty.run c h₂).results c k) ∧
    (∀ (s : Store) (n : Name) (src : Source), c s.cfg src = false →
        s.step c (.addBorrowed n src) = (s, .compileError) ∧
        s.step c (.addOwned n src) = (s, .compileError)) ∧
    (∀ (s : Store) (n : Name) (t : Tmpl) (k : List Op),
        (s.step c (.get n)).2 = .found t → (∀ op ∈ k, op.evicts n = false) →
        (((s.step c (.get n)).1.run c k).step c (.get n)).2 = .found t) ∧
    (∀ (s : Store) (n : Name) (src : Source), c s.cfg src = true →
        ((s.step c (.addBorrowed n src)).1.get c n).2 = .found (src, s.cfg) ∧
        ((s.step c (.addOwned n src)).1.get c n).2 = .found (src, s.cfg))

/-! ## the store refines a plain map plus a memo cache -/

/-- every operation commutes with the abstraction and returns the specification's answer -/
theorem store_refines_map (c : LtCfg → Source → Bool) (s : Store) (op : Op) :
    (s.step c op).2 = (s.abs.step c op).2 ∧ (s.step c op).1.abs = (s.abs.step c op).1 :=
  step_refines c s op

def cfgA : LtCfg := LtCfg.default
def cfgB : LtCfg := { LtCfg.default with trim := true, autoEscape := 1 }

example : -- a state with both tiers occupied and a loader; a lookup that memoises under the CURRENT cfg
    let c : LtCfg → Source → Bool := fun _ s => s != 8
    let s : Store := { loader := some (fun n => if n = 2 then .src 5 else .missing), cfg := cfgB,
                       borrowed := [(0, (1, cfgA))], owned := [(1, ((3, cfgA), .explicit))] }
    (s.step c (.get 2)).2 = .found (5, cfgB) ∧ (s.step c (.get 2)).1.abs.cached 2 = some (5, cfgB) ∧
    (s.step c (.get 2)).1.abs.explicit 0 = some (1, cfgA) ∧
    (s.step c (.get 2)).1.abs.explicit 1 = some (3, cfgA) := by
  decide

/-- the explicit/cached distinction is a ghost: operations are determined by the union -/
theorem spec_refines_contents (c : LtCfg → Source → Bool) (sp : Spec) (op : Op) :
    (sp.step c op).2 = (sp.flat.step c op).2 ∧ (sp.step c op).1.flat = (sp.flat.step c op).1 :=
  spec_step_refines c sp op

/-- Two stores with the same contents (source and load-time configuration per name), the same
    loader and the same configuration for future loads give the same results for every
    continuation — in whatever tiers the templates sit, and whatever ghost tags they carry. -/
theorem results_depend_on_contents_only (c : LtCfg → Source → Bool) (s₁ s₂ : Store)
    (h : s₁.flat = s₂.flat) (k : List Op) : s₁.results c k = s₂.results c k := by
  rw [results_flat, results_flat, h]

example : -- the same contents held in different tiers (and reached differently)
    let s₁ : Store := { loader := none, cfg := cfgB, borrowed := [(0, (1, cfgA))], owned := [(1, ((2, cfgB), .loaded))] }
    let s₂ : Store := { loader := none, cfg := cfgB, borrowed := [],
                        owned := [(1, ((2, cfgB), .explicit)), (0, ((1, cfgA), .explicit))] }
    s₁.flat = s₂.flat := by
  apply Flat.ext'
  · rfl
  · rfl
  · intro m
    match m with
    | 0 => rfl
    | 1 => rfl
    | (m + 2) => rfl

/-- History independence, for ANY two histories: if they lead to the same contents (per template:
    source and load-time configuration at its last load), loader and current load-time
    configuration, every continuation behaves the same. -/
theorem history_independent (c : LtCfg → Source → Bool) (h₁ h₂ k : List Op)
    (h : (Store.empty.run c h₁).flat = (Store.empty.run c h₂).flat) :
    (Store.empty.run c h₁).results c k = (Store.empty.run c h₂).results c k :=
  results_depend_on_contents_only c _ _ h k

example : -- two different histories with the same final contents: the reference environment is built
          -- by replaying, per template, the configuration in force at its last load
    let c : LtCfg → Source → Bool := fun _ s => s != 8
    (Store.empty.run c [.addOwned 0 3, .setCfg cfgB, .addBorrowed 0 8, .addBorrowed 1 4, .remove 1,
                        .addOwned 0 3, .setCfg cfgA, .addBorrowed 2 5]).flat
      = (Store.empty.run c [.addBorrowed 2 5, .setCfg cfgB, .addBorrowed 0 3, .setCfg cfgA]).flat := by
  apply Flat.ext'
  · rfl
  · rfl
  · intro m
    match m with
    | 0 => rfl
    | 1 => rfl
    | 2 => rfl
    | (m + 3) => rfl

/-- the final contents are a function of the history of the *specification*: running the store and
    abstracting equals running the plain map -/
theorem run_refines (c : LtCfg → Source → Bool) (s : Store) (k : List Op) :
    (s.run c k).flat = s.flat.run c k :=
  run_flat c k s

/-! ## failed insert, failed lookup -/

/-- an addition whose source fails to compile leaves the store as it was (the state itself, not
    only its abstraction) and reports the compile error -/
theorem failed_insert_noop (c : LtCfg → Source → Bool) (s : Store) (n : Name) (src : Source)
    (h : c s.cfg src = false) :
    s.step c (.addBorrowed n src) = (s, .compileError) ∧
    s.step c (.addOwned n src) = (s, .compileError) := by
  simp [Store.step, h]

example : (fun (_ : LtCfg) (s : Source) => s != 8) cfgA 8 = false := by decide

/-- What the defect was: with `insert_cow` as in the pinned tree (evict the other tier, then
    compile), a failing `add_template` over an owned template removed it. -/
theorem pinned_insert_was_not_a_noop :
    ∃ (c : LtCfg → Source → Bool) (s : Store) (n : Name) (src : Source), c s.cfg src = false ∧
      (s.get c n).2 = .found (2, cfgA) ∧ ((s.stepPinned c (.addBorrowed n src)).1.get c n).2 = .notFound := by
  refine ⟨fun _ s => s != 8, { loader := none, cfg := cfgA, borrowed := [], owned := [(0, ((2, cfgA), .explicit))] }, 0, 8, ?_⟩
  decide

/-- A lookup that does not find a template (loader says missing, loader fails, the loaded source
    does not compile) leaves the store identical: failures are never memoised, the next lookup asks
    the loader again. -/
theorem failed_lookup_not_cached (c : LtCfg → Source → Bool) (s : Store) (n : Name)
    (h : ∀ t, (s.get c n).2 ≠ .found t) : (s.get c n).1 = s :=
  get_failure_not_cached c s n h

example : -- the loader fails, then is replaced by one that works: the failure left nothing behind
    let c : LtCfg → Source → Bool := fun _ s => s != 8
    let s : Store := { loader := some (fun _ => .err), cfg := cfgA, borrowed := [], owned := [] }
    (s.get c 0).2 = .loaderError ∧
    (((s.get c 0).1.step c (.setLoader (fun _ => .src 8))).1.get c 0).2 = .compileError ∧
    ((((s.get c 0).1.step c (.setLoader (fun _ => .src 8))).1.get c 0).1.step c (.setLoader (fun _ => .src 4))).1.get c 0
      = ({ loader := some (fun _ => .src 4), cfg := cfgA, borrowed := [], owned := [(0, ((4, cfgA), .loaded))] }, .found (4, cfgA)) := by
  refine ⟨by decide, by decide, ?_⟩
  rfl

/-! ## stickiness and re-loading -/

/-- A template that a lookup has found keeps that source and compilation — for a loader-backed
    template: the ones it had when first requested — across any operations that do not remove,
    re-add or clear it (in particular across `set_loader` and every configuration change). -/
theorem cached_source_sticky (c : LtCfg → Source → Bool) (s : Store) (n : Name) (t : Tmpl)
    (k : List Op) (h : (s.step c (.get n)).2 = .found t)
    (hk : ∀ op ∈ k, op.evicts n = false) :
    (((s.step c (.get n)).1.run c k).step c (.get n)).2 = .found t := by
  obtain ⟨h1, h2⟩ := store_step_flat c s (.get n)
  have hc : (s.step c (.get n)).1.flat.contents n = some t := by
    rw [h2]; exact flat_get_found c s.flat n t (h1 ▸ h)
  have hr := flat_run_keeps c k n t _ hc hk
  rw [← run_flat] at hr
  rw [(store_step_flat c _ (.get n)).1]
  exact flat_get_of_contents c _ n t hr

example : -- loaded from loader 1 under cfgA, kept although loader and configuration are replaced
    let c : LtCfg → Source → Bool := fun _ _ => true
    let l₁ : Name → LoadRes := fun _ => .src 1
    let l₂ : Name → LoadRes := fun _ => .src 2
    let s : Store := { loader := some l₁, cfg := cfgA, borrowed := [], owned := [] }
    (s.step c (.get 0)).2 = .found (1, cfgA) ∧
    (((s.step c (.get 0)).1.run c [.setLoader l₂, .setCfg cfgB, .get 1, .addOwned 1 7]).step c (.get 0)).2 = .found (1, cfgA) ∧
    (((s.step c (.get 0)).1.run c [.setLoader l₂, .setCfg cfgB, .clear]).step c (.get 0)).2 = .found (2, cfgB) := by
  decide

/-- Adding a template is a load: whatever was stored under the name before — even a template with
    the very same source, in either tier, explicit or memoised from the loader — the name now
    denotes the source compiled under the configuration in force at the time of the addition. -/
theorem readd_is_a_load (c : LtCfg → Source → Bool) (s : Store) (n : Name) (src : Source)
    (h : c s.cfg src = true) :
    ((s.step c (.addBorrowed n src)).1.get c n).2 = .found (src, s.cfg) ∧
    ((s.step c (.addOwned n src)).1.get c n).2 = .found (src, s.cfg) := by
  constructor
  · simp [Store.step, h, Store.get, find_ins_self]
  · simp [Store.step, h, Store.get, find_ins_self, find_del_self]

example : -- the seeded change C15-3 ("skip recompiling an unchanged source") contradicts this:
          -- same name, same source, configuration changed in between
    let c : LtCfg → Source → Bool := fun _ _ => true
    let s := Store.empty.run c [.addOwned 0 3, .setCfg cfgB]
    (s.get c 0).2 = .found (3, cfgA) ∧ ((s.step c (.addOwned 0 3)).1.get c 0).2 = .found (3, cfgB) := by
  decide

theorem C15_holds : C15_store_full := fun c =>
  ⟨history_independent c, failed_insert_noop c, cached_source_sticky c, readd_is_a_load c⟩

/-! ## `templates()` -/

/-- In every state reachable from an empty store the two tiers hold disjoint sets of names without
    repetition: `Environment::templates()` lists every name exactly once. -/
theorem templates_lists_each_name_once (c : LtCfg → Source → Bool) (k : List Op) :
    (((Store.empty.run c k).iter).map (·.1)).Nodup :=
  Store.iter_names_nodup _ (Store.run_inv c k _ Store.empty_inv)

example : ((Store.empty.run (fun _ _ => true) [.addOwned 0 3, .addBorrowed 0 4, .addOwned 1 3]).iter).map (·.1) = [0, 1] := by
  decide

/-- `templates()` lists exactly what the store holds: `(n, t)` is listed iff a lookup of `n` is answered
    with `t` from the store itself, without consulting the loader — in every reachable state -/
theorem templates_lists_contents (c : LtCfg → Source → Bool) (k : List Op) (n : Name) (t : Tmpl) :
    (n, t) ∈ (Store.empty.run c k).iter ↔ (Store.empty.run c k).flat.contents n = some t :=
  Store.mem_iter_iff _ (Store.run_inv c k _ Store.empty_inv) n t

example : -- a borrowed template, an owned one and one memoised from the loader are listed; an evicted one is not
    let c : LtCfg → Source → Bool := fun _ _ => true
    let s := Store.empty.run c [.setLoader (fun n => if n = 2 then .src 7 else .missing), .addOwned 0 3,
                                .addBorrowed 0 4, .addOwned 1 5, .get 2, .get 3]
    s.iter = [(0, (4, cfgA)), (2, (7, cfgA)), (1, (5, cfgA))] := by
  decide

/-! ## `add_template_owned` with borrowed parts; `Environment::empty()` -/

/-- Which arm of `insert_cow` an addition takes is decided as the model says — the borrowed arm needs
    BOTH the name and the source borrowed — and the patterns of the two arms in the source are the
    ones this was read off. -/
theorem insert_arm_selection :
    MJ.Gen.c15InsertArmPatterns = ["(Cow::Borrowed(source), Cow::Borrowed(name))", "(source, name)"] ∧
    insertArmOf true true = true ∧ insertArmOf true false = false ∧
    insertArmOf false true = false ∧ insertArmOf false false = false := by
  decide

/-- … and whichever arm is taken, whatever was stored under the name in EITHER tier is replaced: the
    name afterwards denotes the new source under the current configuration, and `templates()` lists
    it — once, like every name. -/
theorem any_arm_replaces_both_tiers (c : LtCfg → Source → Bool) (s : Store) (hs : s.Inv) (n : Name)
    (src : Source) (nb sb : Bool) (h : c s.cfg src = true) :
    let op := if insertArmOf nb sb then Op.addBorrowed n src else Op.addOwned n src
    ((s.step c op).1.get c n).2 = .found (src, s.cfg) ∧
    (n, (src, s.cfg)) ∈ (s.step c op).1.iter ∧ ((s.step c op).1.iter.map (·.1)).Nodup := by
  intro op
  have hi : (s.step c op).1.Inv := Store.step_inv c s op hs
  have hnd := Store.iter_names_nodup _ hi
  have hf : ((s.step c op).1.get c n).2 = .found (src, s.cfg) := by
    by_cases ha : insertArmOf nb sb = true
    · simp only [op, ha, if_true]; exact (readd_is_a_load c s n src h).1
    · simp only [op, ha]; exact (readd_is_a_load c s n src h).2
  refine ⟨hf, ?_, hnd⟩
  have hc : (s.step c op).1.flat.contents n = some (src, s.cfg) := by
    have := (store_step_flat c (s.step c op).1 (.get n)).1
    have h2 : ((s.step c op).1.flat.step c (.get n)).2 = .found (src, s.cfg) := by rw [← this]; exact hf
    by_cases hcn : (s.step c op).1.flat.contents n = some (src, s.cfg)
    · exact hcn
    · exfalso
      have hcfg : (s.step c op).1.flat.cfg = s.cfg := by
        by_cases ha : insertArmOf nb sb = true
        · simp [op, ha, Store.step, h, Store.flat, Spec.flat, Store.abs]
        · simp [op, ha, Store.step, h, Store.flat, Spec.flat, Store.abs]
      have hex : ∃ t, (s.step c op).1.flat.contents n = some t := by
        by_cases ha : insertArmOf nb sb = true
        · refine ⟨(src, s.cfg), ?_⟩
          rw [flat_contents_store]
          simp [op, ha, Store.step, h, find_ins_self]
        · refine ⟨(src, s.cfg), ?_⟩
          rw [flat_contents_store]
          simp [op, ha, Store.step, h, find_ins_self, find_del_self]
      obtain ⟨t, ht⟩ := hex
      simp only [Flat.step, Flat.get, ht] at h2
      simp only [Res.found.injEq] at h2
      exact hcn (h2 ▸ ht)
  exact (Store.mem_iter_iff _ hi n _).mpr hc

example : -- name borrowed, source owned (owned arm) over a borrowed template: one entry afterwards
    let c : LtCfg → Source → Bool := fun _ _ => true
    let s := Store.empty.run c [.addBorrowed 0 1]
    let op := if insertArmOf true false then Op.addBorrowed 0 2 else Op.addOwned 0 2
    (s.step c op).1.iter = [(0, (2, cfgA))] := by
  decide

/-! ## registries and clones -/

/-- `add_*`/`remove_*` through `Arc::make_mut` act as map update on the environment they are called
    on and are invisible to every other handle of the same `Arc` -/
theorem registry_refines_map (r : Cow Registry) (h : r.WF) (e j : Nat) (he : e < r.ptr.length)
    (name : Name) (v : Nat) :
    regView (r.makeMut e (fun m => ins m name v)) j
        = (if j = e then upd (regView r e) name (some v) else regView r j) ∧
    regView (r.makeMut e (fun m => del m name)) j
        = (if j = e then upd (regView r e) name none else regView r j) :=
  ⟨regView_add r h e j he name v, regView_remove r h e j he name⟩

example : -- two handles sharing one allocation: the write goes to a copy
    let r : Cow Registry := ⟨[[(1, 9)]], [0, 0]⟩
    r.WF ∧ (r.makeMut 1 (fun m => ins m 0 5)).view 0 = some [(1, 9)] ∧
    (r.makeMut 1 (fun m => ins m 0 5)).view 1 = some [(0, 5), (1, 9)] := by
  refine ⟨?_, by decide, by decide⟩
  intro a ha
  simp at ha
  subst ha
  decide

/-- the invariant the isolation theorems need holds initially and is preserved by every step -/
theorem world_wf (c : LtCfg → Source → Bool) (f t g : Registry) (k : List WOp) :
    ((World.init f t g).run c k).WF := by
  have h0 : (World.init f t g).WF := by
    refine ⟨?_, ?_, ?_, rfl, rfl, rfl, rfl⟩ <;> (intro a ha; simp [World.init] at ha; subst ha; simp [World.init])
  generalize World.init f t g = w at h0
  induction k generalizing w with
  | nil => exact h0
  | cons op ops ih => exact ih _ (World.step_WF c w op h0)

/-- … and so does every world grown from `Environment::empty()` -/
theorem world_wf_empty (c : LtCfg → Source → Bool) (k : List WOp) : (World.initEmpty.run c k).WF := by
  have h0 : World.initEmpty.WF := by
    refine ⟨?_, ?_, ?_, rfl, rfl, rfl, rfl⟩ <;> (intro a ha; simp [World.initEmpty] at ha; subst ha; simp [World.initEmpty])
  generalize World.initEmpty = w at h0
  induction k generalizing w with
  | nil => exact h0
  | cons op ops ih => exact ih _ (World.step_WF c w op h0)

/-- An environment is unaffected by anything done to other environments (its clones, or the
    original it was cloned from): for every sequence of operations none of which targets
    environment `j`, environment `j` looks exactly as before — store abstraction, run-time
    configuration and registries. -/
theorem clone_isolated (c : LtCfg → Source → Bool) (w : World) (hw : w.WF) (k : List WOp) (j : Nat)
    (hj : j < w.stores.length) (hk : ∀ op ∈ k, op.target ≠ j) :
    (w.run c k).view j = w.view j := by
  induction k generalizing w with
  | nil => rfl
  | cons op ops ih =>
    simp only [World.run]
    rw [ih _ (World.step_WF c w op hw)
          (Nat.lt_of_lt_of_le hj (World.step_length_le c w op))
          (fun o ho => hk o (by simp [ho]))]
    exact World.step_view_other c w op hw j hj (hk op (by simp))

/-- … and the clone starts out indistinguishable from the original (templates with their
    compilations, both configurations, registries) -/
theorem clone_starts_equal (c : LtCfg → Source → Bool) (w : World) (hw : w.WF) (e : Nat)
    (he : e < w.stores.length) : (w.step c (.clone e)).1.view w.stores.length = w.view e :=
  World.clone_view_new c w e hw he

/-- every operation on environment `e` (store operation, load-time or run-time configuration
    change, registry change) acts on `e`'s value exactly like the specification `EnvSpec.step` -/
theorem world_step_refines (c : LtCfg → Source → Bool) (w : World) (hw : w.WF) (e : Nat)
    (he : e < w.stores.length) (op : EOp) :
    ∃ v, w.flatView e = some v ∧
      (w.step c (op.at e)).1.flatView e = some (v.step c op).1 ∧
      (w.step c (op.at e)).2 = (v.step c op).2 :=
  World.step_local c w hw e he op

/-- The behaviour of an environment is a function of its value — (run-time configuration;
    load-time configuration for future loads; loader; per template: source and load-time
    configuration at its last load; registries) — and of nothing else: two environments, in the same
    or in different worlds (original/clone, differently built), that have the same value answer
    every sequence of further operations identically and end with the same value. -/
theorem env_history_independent (c : LtCfg → Source → Bool) (w₁ w₂ : World) (h₁ : w₁.WF) (h₂ : w₂.WF)
    (e₁ e₂ : Nat) (l₁ : e₁ < w₁.stores.length) (l₂ : e₂ < w₂.stores.length)
    (hv : w₁.flatView e₁ = w₂.flatView e₂) (k : List EOp) :
    w₁.resultsAt c e₁ k = w₂.resultsAt c e₂ k ∧
    (w₁.runAt c e₁ k).flatView e₁ = (w₂.runAt c e₂ k).flatView e₂ := by
  obtain ⟨v, hv1⟩ : ∃ v, w₁.flatView e₁ = some v := ⟨_, World.flatView_some w₁ e₁ l₁⟩
  obtain ⟨a1, a2⟩ := World.run_local c k w₁ h₁ e₁ l₁ v hv1
  obtain ⟨b1, b2⟩ := World.run_local c k w₂ h₂ e₂ l₂ v (hv ▸ hv1)
  exact ⟨a2.trans b2.symm, a1.trans b1.symm⟩

example : -- original, clone; the clone changes a filter, a template and both configurations, the
          -- original does not move
    let c : LtCfg → Source → Bool := fun _ _ => true
    let w := (World.init [(1, 9)] [(1, 9)] [(1, 9)]).run c [.store 0 (.addOwned 0 3), .clone 0]
    let w' := w.run c [.regAdd .filter 1 0 5, .store 1 (.setCfg cfgB), .store 1 (.addOwned 0 3),
                       .setRt 1 { RtCfg.default with undefined := 1 }, .regRemove .global 1 1]
    (w'.view 0).map (fun v => (v.store.explicit 0, v.rt.undefined, v.filters 0, v.globals 1))
        = some (some (3, cfgA), 0, none, some 9) ∧
    (w'.view 1).map (fun v => (v.store.explicit 0, v.rt.undefined, v.filters 0, v.globals 1))
        = some (some (3, cfgB), 1, some 5, none) := by
  decide

/-! ## `Environment::empty()` -/

/-- `Environment::empty()` is `Environment::new()` with everything taken out again: after removing
    every builtin filter, test and global and installing the auto-escape callback that never escapes,
    an environment created by `new()` has the value of one created by `empty()` — and therefore
    (`env_history_independent`) behaves like it under every continuation. -/
theorem empty_env_is_stripped_new (c : LtCfg → Source → Bool) (f t g : Registry) (k : List EOp) :
    ((World.init f t g).runAt c 0 (stripOps f t g)).resultsAt c 0 k = World.initEmpty.resultsAt c 0 k := by
  have hv := World.stripped_new_value c f t g
  have h1 : ((World.init f t g).runAt c 0 (stripOps f t g)).WF := by
    generalize stripOps f t g = ops
    have h0 := World.init_WF f t g
    generalize World.init f t g = w at h0
    induction ops generalizing w with
    | nil => exact h0
    | cons op ops ih => exact ih _ (World.step_WF c w _ h0)
  have hl : 0 < ((World.init f t g).runAt c 0 (stripOps f t g)).stores.length := by
    generalize stripOps f t g = ops
    have h0 : 0 < (World.init f t g).stores.length := by simp [World.init]
    generalize World.init f t g = w at h0
    induction ops generalizing w with
    | nil => exact h0
    | cons op ops ih => exact ih _ (by rw [World.step_at_length]; exact h0)
  have h2 : World.initEmpty.WF := by
    refine ⟨?_, ?_, ?_, rfl, rfl, rfl, rfl⟩ <;> (intro a ha; simp [World.initEmpty] at ha; subst ha; simp [World.initEmpty])
  exact (env_history_independent c _ _ h1 h2 0 0 hl (by simp [World.initEmpty]) hv k).1

example : -- new() has `upper`; stripped it is unknown as in empty(), and a template is compiled unescaped
    let c : LtCfg → Source → Bool := fun _ _ => true
    let w := (World.init [(1, 9)] [(1, 9)] [(1, 9)]).runAt c 0 (stripOps [(1, 9)] [(1, 9)] [(1, 9)])
    (w.view 0).map (fun v => (v.filters 1, v.tests 1, v.globals 1, v.store.cfg.autoEscape)) = some (none, none, none, 2) ∧
    (World.initEmpty.view 0).map (fun v => (v.filters 1, v.tests 1, v.globals 1, v.store.cfg.autoEscape)) = some (none, none, none, 2) := by
  decide

/-! ## state identity: a macro belongs to the render that created it -/

/-- With ONE process-wide counter, for any interleaving `ts` of renders started by any number of
    threads: a macro stamped by the `p`-th state is refused by every other state `q ≠ p` — no
    matter on which threads the two renders ran or what those threads rendered before. -/
theorem foreign_macro_rejected (ts : List Nat) (p q tp ip tq iq : Nat)
    (hp : (IdSys.init.run ts).created[p]? = some (tp, ip))
    (hq : (IdSys.init.run ts).created[q]? = some (tq, iq)) (hne : p ≠ q) :
    macroAccepted iq ip = false := by
  have hinv := IdSys.run_inv ts _ IdSys.init_inv
  have e1 := IdSys.id_eq_index _ hinv hp
  have e2 := IdSys.id_eq_index _ hinv hq
  subst e1; subst e2
  simp [macroAccepted]
  exact fun e => hne e.symm

/-- … and it is accepted by its own state -/
theorem own_macro_accepted (i : Nat) : macroAccepted i i = true := by simp [macroAccepted]

example : -- three threads, five renders; the export of render 1 (thread 7) is foreign to render 3 (thread 9)
    (IdSys.init.run [7, 7, 8, 9, 7]).created[1]? = some (7, 1) ∧
    (IdSys.init.run [7, 7, 8, 9, 7]).created[3]? = some (9, 3) := by decide

/-- Why the counter has to be process-wide (the seeded mutant C15-2): with one counter per thread
    the first renders of two different threads get the same id, so a macro exported from one is
    accepted by the other. -/
theorem per_thread_counter_collides :
    ∃ (ts : List Nat) (p q tp ip tq iq : Nat), p ≠ q ∧ tp ≠ tq ∧
      (perThreadRun [] ts)[p]? = some (tp, ip) ∧ (perThreadRun [] ts)[q]? = some (tq, iq) ∧
      macroAccepted iq ip = true :=
  ⟨[0, 1], 0, 1, 0, 0, 1, 0, by decide⟩

/-! ## unwinding: a caught panic leaves no residue in the thread -/

/-- A `Value::from(Serde(x))` conversion that is entered outside any conversion, does anything inside
    (nested conversions, parking and taking back engine values, in any order and number) and is then
    left by a PANIC which the host catches, leaves the thread's serialisation flag exactly as it was
    and no guard alive: what `impl Serialize for Value` emits afterwards (`tojson`, JSON auto-escape)
    is what it emitted before — on this thread as on any other. -/
theorem caught_panic_restores_thread_state (t : ThreadState) (ht : t.guards = []) (body : List ConvEv) :
    (panickingConversion true t body).serializing = t.serializing ∧
    (panickingConversion true t body).guards = [] ∧
    emitsData (panickingConversion true t body) = emitsData t := by
  have h0 : FlagInv t.serializing t := Or.inl ⟨ht, rfl⟩
  have h1 := FlagInv.run t.serializing body _ (FlagInv.step t.serializing t .enter h0)
  obtain ⟨hg, hs⟩ := unwind_all t.serializing _ _ h1 rfl
  exact ⟨hs, hg, by unfold emitsData; unfold panickingConversion; rw [hs]⟩

example : -- a context whose Serialize impl parks a value, starts a nested conversion and panics there
    (panickingConversion true ThreadState.clean [.park 7, .take, .park 8, .enter, .park 9]).serializing = false ∧
    ((ThreadState.clean.step .enter).run [.park 7, .take, .park 8, .enter, .park 9]).serializing = true := by
  decide

/-- the same holds for conversions that return (with a value, or an invalid value for an `Err`):
    any well-formed or ill-formed sequence of events keeps the flag tied to the live guards -/
theorem conversion_keeps_flag_invariant (t : ThreadState) (ht : t.guards = []) (evs : List ConvEv) :
    FlagInv t.serializing (t.run evs) :=
  FlagInv.run t.serializing evs t (Or.inl ⟨ht, rfl⟩)

/-- handles handed out while parking are fresh: a value leaked into the registry by an unwound
    conversion can never be returned for a later handle -/
theorem parked_handles_are_fresh (evs : List ConvEv) (p : Nat × Nat)
    (hp : p ∈ (ThreadState.clean.run evs).handles) : p.1 ≤ (ThreadState.clean.run evs).lastHandle :=
  HandlesInv.run evs ThreadState.clean (by intro p hp; simp [ThreadState.clean] at hp) p hp

/-- Why the guard must reset while unwinding (the seeded change C15-4, `&& !std::thread::panicking()`):
    one caught panic leaves the thread marked forever, and later conversions no longer clear it. -/
theorem seeded_guard_leaves_thread_marked :
    (panickingConversion false ThreadState.clean []).serializing = true ∧
    emitsData (panickingConversion false ThreadState.clean []) = false ∧
    emitsData (((panickingConversion false ThreadState.clean []).step .enter).step .leave) = false := by
  decide

/-- a loader that panics (the unwind is caught by the caller) leaves the store identical -/
theorem panicking_lookup_changes_nothing (c : LtCfg → Source → Bool) (s : Store) (n : Name)
    (h : (s.get c n).2 = .panicked) : (s.get c n).1 = s :=
  get_failure_not_cached c s n (by intro t ht; rw [h] at ht; cases ht)

example :
    let s : Store := { loader := some (fun _ => .panics), cfg := cfgA, borrowed := [], owned := [] }
    (s.get (fun _ _ => true) 0).2 = .panicked := by decide

/-! ## hidden state: every static, thread-local and interior-mutable field has a class -/

open MJ.Hidden in
/-- The list of process-global, thread-local and interior-mutable state regenerated from
    `minijinja/src` for this run is exactly the list `MJ/Model/Hidden.lean` classifies: a new static,
    `thread_local!`, `OnceLock`, `Cell`/`RefCell`/`Mutex`/atomic field, memo map or pool — or one
    `OnceLock` filled at a second site — fails this theorem until it is given a class. -/
theorem all_hidden_state_classified : MJ.Gen.c15HiddenState = modelHiddenState.map (·.1) := by
  decide

open MJ.Hidden in
example : -- every class is inhabited
    ∀ cls : StateClass, ∃ row ∈ modelHiddenState ++ modelHiddenStateExt, row.2 = cls := by
  intro cls; cases cls <;> decide

open MJ.Hidden in
/-- … and the same enumeration over the other two crates an application links with the engine,
    minijinja-contrib and minijinja-autoreload: everything there is either state of a VALUE a
    template creates (`cycler()`, `joiner()`) or belongs to the reloader (a layer above `Environment`
    with a property of its own, C20). -/
theorem all_hidden_state_classified_ext : MJ.Gen.c15HiddenStateExt = modelHiddenStateExt.map (·.1) := by
  decide

open MJ.Hidden in
/-- `compile_depends_only_on`, the part that can be read off the source (regenerated as
    `C15_COMPILE_READS`): a compile is handed (name, source, the store's current load-time
    configuration) and nothing else, reads exactly the fields of that configuration, cannot reach the
    environment, the VM, the loader or the registries through its imports, and the only hidden state
    inside the compiler modules is of classes that carry nothing from one compile to the next (pools:
    `pool_buffer_is_cleared`; once-cells: `once_cache_is_content_determined`; copy-on-write delimiters
    of the syntax builder; the empty instruction list).  That the compiler's OUTPUT is the same for the
    same three inputs is what the fingerprint tables of the harness observe — across processes that
    compile in different orders. -/
theorem compile_depends_only_on :
    MJ.Gen.c15CompileReads = modelCompileReads ∧
    compileReadsSafe MJ.Gen.c15CompileReads MJ.Gen.c15TemplateConfig modelHiddenState = true := by
  decide

open MJ.Hidden in
/-- `onceCache`: whatever threads read a once-cell, in whatever order and however often, starting
    from an empty cell, every read returns the value of the (one, argument-less) initialiser: the
    cell's content is determined by the code, not by the history. -/
theorem once_cache_is_content_determined {α : Type} (init : Unit → α) (n : Nat) :
    ∀ v ∈ (Once.mk (none : Option α)).reads init n, v = init () :=
  Once.reads_eq_init init n _ (Or.inl rfl)

open MJ.Hidden in
example : (Once.mk (none : Option Nat)).reads (fun _ => 7) 3 = [7, 7, 7] := by decide

open MJ.Hidden in
/-- Why "filled at one site" is part of the table: a cell shared by two initialisers keeps the value
    of whichever ran first — what `Environment::empty()` gets would depend on whether an
    `Environment::new()` was created before (the own mutation m15). -/
theorem shared_once_cell_depends_on_history :
    ∃ (a b : Unit → Nat),
      (((Once.mk none).getOrInit a).1.getOrInit b).2 ≠ (((Once.mk none).getOrInit b).1.getOrInit b).2 :=
  ⟨fun _ => 0, fun _ => 2, by decide⟩

open MJ.Hidden in
/-- `pool`: when taking a buffer clears it, or recycling does, every buffer ever handed out by `take`
    is empty — whatever the holders pushed, whether they recycled their buffer, dropped it while
    unwinding, or found the pool full. -/
theorem pool_buffer_is_cleared {α : Type} (takeClears recycleClears : Bool)
    (h : (takeClears || recycleClears) = true) (evs : List (PoolEv α)) :
    ∀ b ∈ (Pool.empty.run takeClears recycleClears evs).handedOut, b = [] :=
  (Pool.run_clean takeClears recycleClears h evs _ (Pool.empty_clean recycleClears)).2

open MJ.Hidden in
example : -- a buffer comes back with two spans in it and is taken again
    (Pool.empty.run true false [.take, .push 0 (5 : Nat), .push 0 6, .recycle 0, .take]).handedOut = [[], []] ∧
    (Pool.empty.run false true [.take, .push 0 (5 : Nat), .push 0 6, .recycle 0, .take]).handedOut = [[], []] := by
  decide

open MJ.Hidden in
/-- … and with neither clear a later generator starts with the leftovers of an earlier one -/
theorem pool_without_clears_leaks :
    ∃ evs : List (PoolEv Nat), ∃ b ∈ (Pool.empty.run false false evs).handedOut, b ≠ [] :=
  ⟨[.take, .push 0 5, .recycle 0, .take], [5], by decide, by decide⟩

open MJ.Hidden in
/-- the pools found in the source are the modelled ones and each has at least one of the two clears
    (dropping ONE of them is a harmless change and does not fail this) -/
theorem source_pools_safe :
    MJ.Gen.c15Pools.map (·.1) = modelPools.map (·.1) ∧ ∀ row ∈ MJ.Gen.c15Pools, poolSafe row = true := by
  decide

open MJ.Hidden in
/-- `freshKeyRegistry`: the value-handle registry with its one-entry fast path is a map.  Whatever it
    holds (entries a foreign serializer or an unwound conversion left behind), parking a value under
    a handle that is not in use and taking it back returns that value and leaves every other entry
    as it was. -/
theorem leaked_handles_never_returned (r : HandleReg) (hr : r.Inv) (h v : Nat) (hf : r.lookup h = none) :
    ((r.insert h v).remove true h).2 = some v ∧
    ((r.insert h v).remove true h).1.Inv ∧
    ∀ k, ((r.insert h v).remove true h).1.lookup k = r.lookup k := by
  have hi := HandleReg.insert_inv r h v hr
  refine ⟨?_, HandleReg.remove_inv _ h hi, fun k => ?_⟩
  · rw [HandleReg.remove_result _ h hi, HandleReg.lookup_insert]; simp
  · rw [HandleReg.remove_lookup _ h k hi, HandleReg.lookup_insert]
    by_cases e : k = h
    · subst e; simp [hf]
    · simp [e]

open MJ.Hidden in
example : -- two leaked entries, then a conversion parks and takes back a third value
    let r := (HandleReg.empty.insert 1 100).insert 2 200
    r.lookup 3 = none ∧ ((r.insert 3 7).remove true 3).2 = some 7 ∧
    ((r.insert 3 7).remove true 3).1.lookup 1 = some 100 := by
  decide

open MJ.Hidden in
/-- The single slot holds an entry only while it is the registry's ONLY entry, so taking it whenever
    it is occupied ("handles come back in LIFO order") is the same as comparing its handle — for
    every handle that is in the registry.  (The own mutation m08 is therefore not a behavioural
    change for handles the engine hands out.) -/
theorem lifo_remove_agrees_when_present (r : HandleReg) (hr : r.Inv) (h : Nat) (hp : r.lookup h ≠ none) :
    r.remove false h = r.remove true h :=
  HandleReg.lifo_agrees_when_present r h hr hp

open MJ.Hidden in
example : ((HandleReg.empty.insert 1 100).insert 2 200).lookup 2 ≠ none := by decide

open MJ.Hidden in
/-- the facts about `ValueHandleRegistry` found in the source are the modelled ones; `insert` keeps the
    single-slot invariant (the comparison in `remove` is recorded, not demanded: see above) -/
theorem source_handle_registry_as_modelled :
    MJ.Gen.c15HandleRegistry.map (·.1) = modelHandleRegistry.map (·.1) ∧
    handleRegistrySafe MJ.Gen.c15HandleRegistry = true := by
  decide

/-! ## the memoising tier under concurrency: all interleavings at lock granularity

`MJ/Model/MemoConc.lean`: any number of threads perform lookups on ONE shared store; a lookup that
misses the borrowed tier goes through `acquire` / `look` / `create + insert` / `release` as separate
steps; the schedule — which thread moves next, and when the outside world changes what the loader
answers — is arbitrary. -/

open MJ.MemoConc in
/-- Linearizability against the plain sequential store.  For EVERY schedule, the run of the threads
    is equivalent to the sequential history `σ.history` (each lookup placed where it took effect,
    each change of the outside world where it happened):
    * the shared store is exactly what `Store.run` — the sequential model all other theorems are
      about — makes of that history,
    * every thread got, for each of its lookups, the answer the sequential run gives at that place,
    * and the history contains every thread's lookups in that thread's own order (what it has
      answered so far followed by what it still has to do is its program). -/
theorem concurrent_lookups_linearizable (c : LtCfg → Source → Bool) (s : Store) (todos : List (List Name))
    (sched : List Ev) :
    let σ := (Sys.start s todos).run c sched
    σ.store = Store.run c s σ.history ∧
    (∀ i t, σ.thr[i]? = some t → t.answers = seqAnswers c s σ.trace (some i)) ∧
    (∀ (i : Nat) (t : Thr), σ.thr[i]? = some t → todos[i]? = some ((t.done.map (·.1)).reverse ++ t.todo)) := by
  intro σ
  have h := run_ref c s sched _ (start_inv s todos) (start_ref c s todos)
  exact ⟨h.1.1.symm, h.1.2, run_prog c todos sched _ (start_inv s todos) (start_prog s todos)⟩

open MJ.MemoConc in
example : -- three threads, one of them answered from the borrowed tier without the lock; thread 1 is
          -- blocked while thread 0 creates; the outside world changes in between
    let c : LtCfg → Source → Bool := fun _ _ => true
    let s : Store := { loader := some (fun _ => .src 1), cfg := cfgA, borrowed := [(5, (9, cfgA))], owned := [] }
    let σ := (Sys.start s [[0, 5], [0], [5, 0]]).run c
      [.thread 0, .thread 1, .thread 0, .thread 2, .world (fun _ => .src 2), .thread 0, .thread 1, .thread 0,
       .thread 1, .thread 1, .thread 1, .thread 0, .thread 2, .thread 2, .thread 2]
    σ.thr.map (·.answers) =
      [[(5, .found (9, cfgA)), (0, .found (2, cfgA))], [(0, .found (2, cfgA))], [(0, .found (2, cfgA)), (5, .found (9, cfgA))]] ∧
    σ.history.length = 6 := by
  decide

open MJ.MemoConc in
/-- Mutual exclusion is a consequence of the model's mutex, not an assumption: in every reachable
    state at most one thread is between `acquire` and `release`. -/
theorem concurrent_mutual_exclusion (c : LtCfg → Source → Bool) (s : Store) (todos : List (List Name))
    (sched : List Ev) (i j : Nat) (ti tj : Thr)
    (hi : ((Sys.start s todos).run c sched).thr[i]? = some ti)
    (hj : ((Sys.start s todos).run c sched).thr[j]? = some tj)
    (hni : ti.pc ≠ .idle) (hnj : tj.pc ≠ .idle) : i = j := by
  have hinv := run_inv c sched _ (start_inv s todos)
  have a := hinv i ti hi
  have b := hinv j tj hj
  have la : ((Sys.start s todos).run c sched).lock = some i := by
    unfold ThrOk at a
    split at a
    · rename_i h; exact absurd h hni
    · exact a.1
    · exact a.1
    · exact a.1
  have lb : ((Sys.start s todos).run c sched).lock = some j := by
    unfold ThrOk at b
    split at b
    · rename_i h; exact absurd h hnj
    · exact b.1
    · exact b.1
    · exact b.1
  rw [la] at lb
  exact Option.some.inj lb

open MJ.MemoConc in
/-- Progress (no deadlock, no lost wake-up at this granularity): in every reachable state in which some
    thread still has a lookup to do, some thread can take a step that gets it somewhere (its program
    counter changes or its to-do list shrinks) — the mutex is always held by a thread that is inside
    its critical section and can move on, and when it is free any thread with work can take it or is
    answered by the borrowed tier.  So every fair schedule completes all lookups. -/
theorem concurrent_progress (c : LtCfg → Source → Bool) (s : Store) (todos : List (List Name)) (sched : List Ev)
    (hwork : ∃ (i : Nat) (t : Thr), ((Sys.start s todos).run c sched).thr[i]? = some t ∧ t.todo ≠ []) :
    ∃ j, ((Sys.start s todos).run c sched).Moves c j :=
  progress_of_inv c _ (run_inv c sched _ (start_inv s todos))
    (run_held c sched _ (start_inv s todos) (start_held s todos)) hwork

open MJ.MemoConc in
example : -- thread 1 is blocked (thread 0 holds the mutex, inside the creator): thread 0 moves
    let c : LtCfg → Source → Bool := fun _ _ => true
    let s : Store := { loader := some (fun _ => .src 1), cfg := cfgA, borrowed := [], owned := [] }
    let σ := (Sys.start s [[0], [0]]).run c [.thread 0, .thread 0, .thread 1]
    σ.lock = some 0 ∧ (σ.stepThr c 1).lock = some 0 ∧ (σ.stepThr c 0).thr.map (·.answers) = [[(0, .found (1, cfgA))], []] := by
  decide

open MJ.MemoConc in
/-- Stickiness under concurrency: whatever the threads do and however the outside world changes, an
    entry of the memo map — a loader-backed template once loaded by ANY thread — is never replaced
    while the environment is shared: from any reachable state on, it stays what it is. -/
theorem concurrent_entries_never_replaced (c : LtCfg → Source → Bool) (s : Store) (todos : List (List Name))
    (sched more : List Ev) (n : Name) (x : Tmpl × Origin)
    (h : find ((Sys.start s todos).run c sched).store.owned n = some x) :
    find (((Sys.start s todos).run c sched).run c more).store.owned n = some x :=
  run_owned_kept c more n x _ (run_inv c sched _ (start_inv s todos)) h

open MJ.MemoConc in
/-- "The same template gives the same result from any number of threads at once": when the outside
    world does not change during the concurrent phase (the loader answers as a function of the name),
    EVERY answer ANY thread gets for a name, under EVERY schedule, is the answer a single lookup in
    the store as it was before the phase gives. -/
theorem concurrent_same_answer (c : LtCfg → Source → Bool) (s : Store) (todos : List (List Name))
    (sched : List Ev) (hs : onlyThreads sched = true) (i : Nat) (t : Thr)
    (hi : ((Sys.start s todos).run c sched).thr[i]? = some t) :
    ∀ p ∈ t.answers, p.2 = (s.get c p.1).2 := by
  have h := run_ref c s sched _ (start_inv s todos) (start_ref c s todos)
  rw [h.1.2 i t hi]
  exact seqAnswers_pure c s (some i) _
    (run_trace_gets c sched hs _ (by intro x hx; simp [Sys.start] at hx))

open MJ.MemoConc in
/-- What the mutex is for: with `acquire`/`release` doing nothing, two threads can both miss and both
    create — with a loader whose answer changed in between, they return DIFFERENT templates for one
    name, and the first one's entry has been replaced behind its back.  With the mutex the same
    schedule gives both the same template. -/
theorem without_mutex_answers_diverge :
    ∃ (s : Store) (sched : List Ev),
      ((Sys.start s [[0], [0]]).runNoLock (fun _ _ => true) sched).thr.map (·.answers)
        = [[(0, .found (1, cfgA))], [(0, .found (2, cfgA))]] ∧
      ((Sys.start s [[0], [0]]).run (fun _ _ => true) (sched ++ [.thread 1, .thread 1, .thread 1])).thr.map (·.answers)
        = [[(0, .found (1, cfgA))], [(0, .found (1, cfgA))]] :=
  ⟨{ loader := some (fun _ => .src 1), cfg := cfgA, borrowed := [], owned := [] },
   [.thread 0, .thread 0, .thread 1, .thread 1, .thread 0, .world (fun _ => .src 2), .thread 1, .thread 0, .thread 1],
   by decide⟩

open MJ.MemoConc in
/-- the facts about memo-map (the version in Cargo.lock, read from the cargo registry) are the ones
    the concurrent model was written against -/
theorem memo_map_source_as_modelled :
    MJ.Gen.c15MemoMap = modelMemoMap ∧ memoMapSafe MJ.Gen.c15MemoMap = true := by
  decide

/-! ## rendering: what a render can depend on

`MJ/Model/RenderProg.lean`: a render is a program (`Prog`) of template lookups — adaptive: which name
comes next may depend on the earlier answers — determined by the name and context it is called
with, the run-time configuration, the registries and what it can read of the hidden state
(`Renderer`; that the real VM is such a function is the validated hypothesis `render_reads_only`,
that an answer is determined by (name, source, load-time configuration) the validated hypothesis
`compile_depends_only_on`).  Proved here: nothing else gets in. -/

open MJ.Render in
/-- History independence INCLUDING rendering: two environments — in the same or in different worlds
    (original / clone / freshly built), reached by whatever histories, rendered on whatever threads —
    that have the same value, on threads that present the same hidden view, render every template
    with every context to the same output (every renderer, every compile predicate), and have the
    same value afterwards. -/
theorem render_history_independent {Ctx Out : Type} (c : LtCfg → Source → Bool) (R : Renderer Ctx Out)
    (w₁ w₂ : World) (h₁ : w₁.WF) (h₂ : w₂.WF) (e₁ e₂ : Nat) (l₁ : e₁ < w₁.stores.length)
    (l₂ : e₂ < w₂.stores.length) (hv : w₁.flatView e₁ = w₂.flatView e₂) (t₁ t₂ : ThreadHidden)
    (ht : t₁.view = t₂.view) (name : Name) (ctx : Ctx) :
    (render c R w₁ e₁ t₁ name ctx).map (·.1) = (render c R w₂ e₂ t₂ name ctx).map (·.1) ∧
    (render c R w₁ e₁ t₁ name ctx).bind (·.2.flatView e₁) = (render c R w₂ e₂ t₂ name ctx).bind (·.2.flatView e₂) := by
  have hv1 := World.flatView_some w₁ e₁ l₁
  have hv2 := World.flatView_some w₂ e₂ l₂
  generalize hg₁ : ({ flat := (w₁.stores[e₁]).flat, rt := (w₁.rts[e₁]?).getD RtCfg.default,
                      filters := regView w₁.filters e₁, tests := regView w₁.tests e₁,
                      globals := regView w₁.globals e₁ } : EnvSpec) = v at hv1
  rw [hv1] at hv
  have hv2' : w₂.flatView e₂ = some v := hv.symm
  unfold render
  rw [hv1, hv2', ht]
  obtain ⟨a1, a2, _, _⟩ := runAt_local c e₁ (R.prog v.rt v.filters v.tests v.globals t₂.view name ctx) w₁ h₁ l₁ v hv1
  obtain ⟨b1, b2, _, _⟩ := runAt_local c e₂ (R.prog v.rt v.filters v.tests v.globals t₂.view name ctx) w₂ h₂ l₂ v hv2'
  simp only [Option.map_some, Option.bind_some]
  exact ⟨by rw [a1, b1], by rw [a2, b2]⟩

open MJ.Render in
/-- Renders do not influence each other: after ANY other activity that only renders and looks up
    (any program `p` of lookups: other templates, other contexts, failing renders, the same render
    before), every template renders with every context exactly as it would have before — in
    particular the same template and context give the same result every time.  (Between the two
    nothing but lookups happens: the outside world — what the loader answers — is the same.) -/
theorem renders_do_not_influence_each_other {Ctx Out Out' : Type} (c : LtCfg → Source → Bool)
    (R : Renderer Ctx Out) (v : EnvSpec) (hv : HiddenView) (p : Prog Out') (name : Name) (ctx : Ctx) :
    (renderSpec c R (p.runOn c v).2 hv name ctx).1 = (renderSpec c R v hv name ctx).1 := by
  obtain ⟨_, hs⟩ := runOn_same c p v v ⟨Flat.Same.refl c v.flat, rfl, rfl, rfl, rfl⟩
  obtain ⟨hf, h1, h2, h3, h4⟩ := hs
  unfold renderSpec
  rw [h1, h2, h3, h4]
  exact (runOn_same c _ v _ ⟨hf, h1, h2, h3, h4⟩).1

open MJ.Render in
example : -- a renderer that includes what the first answer names; rendering "1" (which loads 2 and 3
          -- through the loader) does not change what rendering "0" gives
    let c : LtCfg → Source → Bool := fun _ _ => true
    let R : Renderer Nat (List Res) :=
      ⟨fun _ _ _ _ _ n _ => .lookup n (fun r => match r with
          | .found (src, _) => .lookup src (fun r2 => .ret [r, r2])
          | _ => .ret [r])⟩
    let v : EnvSpec := { flat := { loader := some (fun n => .src (n + 1)), cfg := cfgA, contents := fun _ => none },
                         rt := RtCfg.default, filters := fun _ => none, tests := fun _ => none, globals := fun _ => none }
    (renderSpec c R v HiddenView.clean 0 7).1 = [.found (1, cfgA), .found (2, cfgA)] ∧
    (renderSpec c R (renderSpec c R v HiddenView.clean 1 7).2 HiddenView.clean 0 7).1 = [.found (1, cfgA), .found (2, cfgA)] := by
  decide

open MJ.Render MJ.Hidden in
/-- What a render can read of the hidden state is the same on every thread, whatever that thread did
    before: after any sequence of conversion events that leaves no guard alive (complete
    conversions, nested ones, conversions left by caught panics — `caught_panic_restores_thread_state`)
    and any use of the code generator pools (given one of the two clears, `source_pools_safe`), the
    hidden view is the clean one. -/
theorem hidden_view_is_clean (evs : List ConvEv) (hg : (ThreadState.clean.run evs).guards = [])
    (takeClears recycleClears : Bool) (hp : (takeClears || recycleClears) = true) (pevs : List (PoolEv Nat)) :
    ThreadHidden.view ⟨ThreadState.clean.run evs, Pool.empty.run takeClears recycleClears pevs⟩ = HiddenView.clean := by
  have hf := conversion_keeps_flag_invariant ThreadState.clean rfl evs
  have hs : (ThreadState.clean.run evs).serializing = false := by
    rcases hf with ⟨_, h⟩ | ⟨k, h, _⟩
    · exact h
    · rw [hg] at h
      cases k <;> simp at h
  have hb := pool_buffer_is_cleared takeClears recycleClears hp pevs
  unfold ThreadHidden.view HiddenView.clean
  simp only [hs]
  congr 1
  generalize (Pool.empty.run takeClears recycleClears pevs).handedOut = l at hb
  induction l with
  | nil => rfl
  | cons b bs ih =>
    rw [List.flatten_cons, hb b (by simp), ih (fun x hx => hb x (by simp [hx]))]
    rfl

open MJ.Render MJ.Hidden in
example : -- a thread that went through a caught panic inside a nested conversion and whose generators
          -- pushed spans into pooled buffers
    ThreadHidden.view ⟨panickingConversion true ThreadState.clean [.park 7, .enter, .park 9],
                       Pool.empty.run true true [.take, .push 0 5, .recycle 0, .take]⟩ = HiddenView.clean := by
  decide


/-! ## C15 at full strength -/

open MJ.Render MJ.Hidden MJ.MemoConc in
/-- **C15, full strength** (for code generator pools with the given clears — `C15_main_source` plugs in
    what the source has).  For every compile predicate `c` (`compile_depends_only_on`: whether and to
    what a source compiles is a function of name, source and load-time configuration) and every
    renderer `R` (`render_reads_only`):

    1. *contents, not history* — take ANY two worlds in which the registries are well-formed heaps
       (`World.WF`; by the second clause that is every world reached from `Environment::new()` or
       `Environment::empty()` by ANY history of operations: add / replace / remove templates in
       either tier, clear, set_loader, every load-time and run-time setter, add / remove filters,
       tests, globals, clone, lookups = renders succeeding or failing), ANY environments `e₁`, `e₂`
       alive in them (originals or clones), ANY two threads with arbitrary pasts (conversions incl. caught panics that leave no guard alive,
       code generator pool traffic): if the two environments have the same value — run-time
       configuration, load-time configuration, loader, per template (source, load-time configuration
       of its last load), registries — then every template renders with every context to the SAME
       output in both (`k₂` = the shortest way to build those contents: "a freshly built
       environment with the same final contents"), and they have the same value afterwards;
    2. *an addition that fails to compile leaves the environment as it was* (the state itself);
    3. *renders do not influence each other* — after any other renders / lookups `p` (succeeding or
       failing) every template renders as before; the same template and context give the same
       result every time;
    4. *from any number of threads at once* — under EVERY interleaving (lock granularity, explicit
       mutex) of any number of threads looking up any names on a shared environment, every answer
       any thread gets is the answer of a single lookup before the phase;
    5. *a loader-backed template keeps the source it had when first requested* until it is removed,
       re-added or the cache is cleared — sequentially across any other operations incl. set_loader
       and configuration changes, and concurrently across any schedule incl. changes of what the
       loader answers. -/
def C15_full (takeClears recycleClears : Bool) : Prop :=
  ∀ (Ctx Out : Type) (c : LtCfg → Source → Bool) (R : Renderer Ctx Out),
    (∀ (w₁ w₂ : World) (e₁ e₂ : Nat) (evs₁ evs₂ : List ConvEv) (pevs₁ pevs₂ : List (PoolEv Nat))
        (name : Name) (ctx : Ctx),
        w₁.WF → w₂.WF → e₁ < w₁.stores.length → e₂ < w₂.stores.length →
        (ThreadState.clean.run evs₁).guards = [] → (ThreadState.clean.run evs₂).guards = [] →
        w₁.flatView e₁ = w₂.flatView e₂ →
        (render c R w₁ e₁ ⟨ThreadState.clean.run evs₁, Pool.empty.run takeClears recycleClears pevs₁⟩ name ctx).map (·.1)
          = (render c R w₂ e₂ ⟨ThreadState.clean.run evs₂, Pool.empty.run takeClears recycleClears pevs₂⟩ name ctx).map (·.1)) ∧
    (∀ (f t g : Registry) (k : List WOp),
        ((World.init f t g).run c k).WF ∧ (World.initEmpty.run c k).WF) ∧
    (∀ (s : Store) (n : Name) (src : Source), c s.cfg src = false →
        s.step c (.addBorrowed n src) = (s, .compileError) ∧ s.step c (.addOwned n src) = (s, .compileError)) ∧
    (∀ (v : EnvSpec) (hv : HiddenView) (p : Prog Out) (name : Name) (ctx : Ctx),
        (renderSpec c R (p.runOn c v).2 hv name ctx).1 = (renderSpec c R v hv name ctx).1) ∧
    (∀ (s : Store) (todos : List (List Name)) (sched : List Ev), onlyThreads sched = true →
        ∀ (i : Nat) (t : Thr), ((Sys.start s todos).run c sched).thr[i]? = some t →
          ∀ p ∈ t.answers, p.2 = (s.get c p.1).2) ∧
    ((∀ (s : Store) (n : Name) (t : Tmpl) (k : List Op),
        (s.step c (.get n)).2 = .found t → (∀ op ∈ k, op.evicts n = false) →
        (((s.step c (.get n)).1.run c k).step c (.get n)).2 = .found t) ∧
     (∀ (s : Store) (todos : List (List Name)) (sched more : List Ev) (n : Name) (x : Tmpl × Origin),
        find ((Sys.start s todos).run c sched).store.owned n = some x →
        find (((Sys.start s todos).run c sched).run c more).store.owned n = some x))

open MJ.Render MJ.Hidden MJ.MemoConc in
/-- **C15_main.**  The only hypothesis left explicit is about the source: each code generator pool
    clears its buffers when taking or when recycling (`pools_clear`, discharged from the regenerated
    table in `C15_main_source`).  The two VALIDATED hypotheses are parameters by type —
    `compile_depends_only_on` is `c : LtCfg → Source → Bool` together with `Tmpl = Source × LtCfg`,
    `render_reads_only` is `R : Renderer Ctx Out` — and are tied to the code by the regenerated lists
    `C15_COMPILE_READS` / `C15_HIDDEN_STATE` (nothing else exists that a compile / a render could
    read) and by the differential histories.  Everything else is proved. -/
theorem C15_main (takeClears recycleClears : Bool) (pools_clear : (takeClears || recycleClears) = true) :
    C15_full takeClears recycleClears := by
  intro Ctx Out c R
  refine ⟨?_, ?_, failed_insert_noop c, renders_do_not_influence_each_other c R, ?_,
          cached_source_sticky c, concurrent_entries_never_replaced c⟩
  · intro w₁ w₂ e₁ e₂ evs₁ evs₂ pevs₁ pevs₂ name ctx h₁ h₂ l₁ l₂ g₁ g₂ hv
    refine (render_history_independent c R _ _ h₁ h₂ e₁ e₂ l₁ l₂ hv _ _ ?_ name ctx).1
    rw [hidden_view_is_clean evs₁ g₁ takeClears recycleClears pools_clear pevs₁,
        hidden_view_is_clean evs₂ g₂ takeClears recycleClears pools_clear pevs₂]
  · intro f t g k
    exact ⟨world_wf c f t g k, world_wf_empty c k⟩
  · intro s todos sched hs i t hi
    exact concurrent_same_answer c s todos sched hs i t hi

open MJ.Hidden in
/-- … with the clears the code generator pools of the current source have (regenerated table) -/
theorem C15_main_source : ∀ row ∈ MJ.Gen.c15Pools, C15_full row.2.1 row.2.2.2 := by
  intro row hrow
  exact C15_main _ _ (source_pools_safe.2 row hrow)

example : -- the pools of the source: all of them clear on both sides today
    MJ.Gen.c15Pools.map (fun r => (r.2.1, r.2.2.2)) = [(true, true), (true, true), (true, true)] := by decide

/-! ## tie to the source text -/

/-- The structural facts of `loader.rs`, `environment.rs`, `template.rs`, `lexer.rs` and
    `vm/state.rs` that the model transcribes, as regenerated from `/repo` for this run, are the ones
    the model was written against: the classification of every `Environment::set_*` into load-time /
    loader / run-time, the fields of the load-time configuration, the event order in both
    `insert_cow` arms (compile, evict, insert — no early return, no look at the stored entry), the
    lookup order of `get`, the tiers `remove`/`clear` touch, the process-wide `STATE_ID`, the
    derived `Clone`s, every `thread_local!` of the crate and every `Drop` guard that restores one (its
    condition must be the guard's own flag and nothing else).  (Pools, the handle registry and the full
    list of hidden state: `source_pools_safe`, `source_handle_registry_as_modelled`,
    `all_hidden_state_classified`.) -/
theorem source_tables_match_model :
    MJ.Gen.c15Setters = modelSetters ∧
    MJ.Gen.c15TemplateConfig = modelTemplateConfig ∧ MJ.Gen.c15WhitespaceConfig = modelWhitespaceConfig ∧
    MJ.Gen.c15InsertArms = modelInsertArms ∧ MJ.Gen.c15GetOrder = modelGetOrder ∧
    MJ.Gen.c15RemoveTiers = modelRemoveTiers ∧ MJ.Gen.c15ClearTiers = modelClearTiers ∧
    MJ.Gen.c15StateId = modelStateId ∧ MJ.Gen.c15CloneDerives = modelCloneDerives ∧
    MJ.Gen.c15ThreadLocals = modelThreadLocals.map (·.1) ∧ MJ.Gen.c15DropGuards = modelDropGuards := by
  decide

end MJ.C15
