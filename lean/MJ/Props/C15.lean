import MJ.Proofs.Store
/-!
# C15 — an environment's behaviour depends on its contents, not on its history

Property theorems only (helper lemmas live in `MJ/Proofs/Store.lean`).

* `Store` is the model of `LoaderStore` (borrowed map + memoising owned map, a loader, mutual
  eviction on insert — after the `fix:` commit the new source is compiled *before* the other tier is
  evicted); `compiles : Source → Bool` is a parameter.
* `Spec` = a plain map `explicit : Name ⇀ Source` + a memo cache `cached : Name ⇀ Source`;
  `Flat` = their union `contents` (what a lookup answers from without asking the loader).
* `Cow`/`World` model an environment and its clones: stores are copied by value
  (`MemoMap: Clone`, `BTreeMap: Clone`), the three registries are `Arc`s mutated through
  `Arc::make_mut`.

Everything here is about the *sequential* behaviour.  Threads, the thread-local buffer pools of the
code generator, the serialisation flag and the value-handle registry are not in the model; the
harness validates them (concurrent renders vs. a fresh environment), it does not prove them.
-/
namespace MJ.C15
open MJ.Store

/-- Full-strength statement of the modelled (sequential) part of C15, for every compile predicate:
* (history) two arbitrary histories from the empty store that end with the same contents and the
  same loader are indistinguishable by any continuation (every later lookup, addition, … returns
  the same);
* (failed insert) an addition whose source does not compile returns the compile error and leaves the
  store *identical*;
* (sticky) once a lookup of `n` has found a source — in particular one obtained from the loader —
  every later lookup of `n` finds the same source, whatever happens in between (including
  `set_loader` to a loader that answers differently), unless `n` is removed, re-added or the
  templates are cleared. -/
def C15_full : Prop :=
  ∀ c : Source → Bool,
    (∀ h₁ h₂ k : List Op,
        (Store.empty.run c h₁).flat = (Store.empty.run c h₂).flat →
        (Store.empty.run c h₁).results c k = (Store.empty.run c h₂).results c k) ∧
    (∀ (s : Store) (n : Name) (src : Source), c src = false →
        s.step c (.addBorrowed n src) = (s, .compileError) ∧
        s.step c (.addOwned n src) = (s, .compileError)) ∧
    (∀ (s : Store) (n : Name) (src : Source) (k : List Op),
        (s.step c (.get n)).2 = .found src → (∀ op ∈ k, op.evicts n = false) →
        (((s.step c (.get n)).1.run c k).step c (.get n)).2 = .found src)

/-! ## the store refines a plain map plus a memo cache -/

/-- every operation commutes with the abstraction and returns the specification's answer -/
theorem store_refines_map (c : Source → Bool) (s : Store) (op : Op) :
    (s.step c op).2 = (s.abs.step c op).2 ∧ (s.step c op).1.abs = (s.abs.step c op).1 :=
  step_refines c s op

example : -- a state with both tiers occupied and a loader; a lookup that memoises
    let c : Source → Bool := fun s => s != 8
    let s : Store := { loader := some (fun n => if n = 2 then .src 5 else .missing),
                       borrowed := [(0, 1)], owned := [(1, (3, .explicit))] }
    (s.step c (.get 2)).2 = .found 5 ∧ (s.step c (.get 2)).1.abs.cached 2 = some 5 ∧
    (s.step c (.get 2)).1.abs.explicit 0 = some 1 ∧ (s.step c (.get 2)).1.abs.explicit 1 = some 3 := by
  decide

/-- the explicit/cached distinction is a ghost: operations are determined by the union -/
theorem spec_refines_contents (c : Source → Bool) (sp : Spec) (op : Op) :
    (sp.step c op).2 = (sp.flat.step c op).2 ∧ (sp.step c op).1.flat = (sp.flat.step c op).1 :=
  spec_step_refines c sp op

/-- Two stores with the same contents and the same loader give the same results for every
    continuation — in whatever tiers the templates sit, and whatever ghost tags they carry. -/
theorem results_depend_on_contents_only (c : Source → Bool) (s₁ s₂ : Store)
    (h : s₁.flat = s₂.flat) (k : List Op) : s₁.results c k = s₂.results c k := by
  rw [results_flat, results_flat, h]

example : -- the same contents held in different tiers (and reached differently)
    let s₁ : Store := { loader := none, borrowed := [(0, 1)], owned := [(1, (2, .loaded))] }
    let s₂ : Store := { loader := none, borrowed := [], owned := [(1, (2, .explicit)), (0, (1, .explicit))] }
    s₁.flat = s₂.flat := by
  apply Flat.ext'
  · rfl
  · intro m
    match m with
    | 0 => rfl
    | 1 => rfl
    | (m + 2) => rfl

/-- History independence, for ANY two histories: if they lead to the same contents (and loader),
    every continuation behaves the same. -/
theorem history_independent (c : Source → Bool) (h₁ h₂ k : List Op)
    (h : (Store.empty.run c h₁).flat = (Store.empty.run c h₂).flat) :
    (Store.empty.run c h₁).results c k = (Store.empty.run c h₂).results c k :=
  results_depend_on_contents_only c _ _ h k

example : -- two different histories with the same final contents
    let c : Source → Bool := fun s => s != 8
    (Store.empty.run c [.addOwned 0 3, .addBorrowed 0 8, .addBorrowed 1 4, .remove 1, .addBorrowed 0 2]).flat
      = (Store.empty.run c [.addBorrowed 0 2]).flat := by
  apply Flat.ext'
  · rfl
  · intro m
    match m with
    | 0 => rfl
    | 1 => rfl
    | (m + 2) => rfl

/-- the final contents are a function of the history of the *specification*: running the store and
    abstracting equals running the plain map -/
theorem run_refines (c : Source → Bool) (s : Store) (k : List Op) :
    (s.run c k).flat = s.flat.run c k :=
  run_flat c k s

/-! ## failed insert -/

/-- an addition whose source fails to compile leaves the store as it was (the state itself, not
    only its abstraction) and reports the compile error -/
theorem failed_insert_noop (c : Source → Bool) (s : Store) (n : Name) (src : Source)
    (h : c src = false) :
    s.step c (.addBorrowed n src) = (s, .compileError) ∧
    s.step c (.addOwned n src) = (s, .compileError) := by
  simp [Store.step, h]

example : (fun s : Source => s != 8) 8 = false := by decide

/-- What the defect was: with `insert_cow` as in the pinned tree (evict the other tier, then
    compile), a failing `add_template` over an owned template removed it. -/
theorem pinned_insert_was_not_a_noop :
    ∃ (c : Source → Bool) (s : Store) (n : Name) (src : Source), c src = false ∧
      (s.get c n).2 = .found 2 ∧ ((s.stepPinned c (.addBorrowed n src)).1.get c n).2 = .notFound := by
  refine ⟨fun s => s != 8, { loader := none, borrowed := [], owned := [(0, (2, .explicit))] }, 0, 8, ?_⟩
  decide

/-! ## stickiness -/

/-- A template that a lookup has found keeps that source — for a loader-backed template: the source
    it had when first requested — across any operations that do not remove, re-add or clear it. -/
theorem cached_source_sticky (c : Source → Bool) (s : Store) (n : Name) (src : Source)
    (k : List Op) (h : (s.step c (.get n)).2 = .found src)
    (hk : ∀ op ∈ k, op.evicts n = false) :
    (((s.step c (.get n)).1.run c k).step c (.get n)).2 = .found src := by
  obtain ⟨h1, h2⟩ := store_step_flat c s (.get n)
  have hc : (s.step c (.get n)).1.flat.contents n = some src := by
    rw [h2]; exact flat_get_found c s.flat n src (h1 ▸ h)
  have hr := flat_run_keeps c k n src _ hc hk
  rw [← run_flat] at hr
  rw [(store_step_flat c _ (.get n)).1]
  exact flat_get_of_contents c _ n src hr

example : -- loaded from loader 1, kept although the loader is replaced by one that answers differently
    let c : Source → Bool := fun _ => true
    let l₁ : Name → LoadRes := fun _ => .src 1
    let l₂ : Name → LoadRes := fun _ => .src 2
    let s : Store := { loader := some l₁, borrowed := [], owned := [] }
    (s.step c (.get 0)).2 = .found 1 ∧
    (((s.step c (.get 0)).1.run c [.setLoader l₂, .get 1, .addOwned 1 7]).step c (.get 0)).2 = .found 1 ∧
    (((s.step c (.get 0)).1.run c [.setLoader l₂, .clear]).step c (.get 0)).2 = .found 2 := by
  decide

theorem C15_holds : C15_full := fun c =>
  ⟨history_independent c, failed_insert_noop c, cached_source_sticky c⟩

/-! ## registries and clones -/

/-- `add_*`/`remove_*` through `Arc::make_mut` act as map update on the environment they are called
    on and are invisible to every other handle of the same `Arc` -/
theorem registry_refines_map (r : Cow Registry) (h : r.WF) (e j : Nat) (he : e < r.ptr.length)
    (name : Name) (v : Nat) :
    regView (r.makeMut e (fun m => ins m name v)) j
        = (if j = e then upd (regView r e) name (some v) else regView r j) ∧
    regView (r.makeMut e (fun m => del m name)) j
        = (if j = e then upd (regView r e) name none else regView r j) :=
  ⟨regView_add r h e j he name v, regView_remove r h e j he name⟩

example : -- two handles sharing one allocation: the write goes to a copy
    let r : Cow Registry := ⟨[[(1, 9)]], [0, 0]⟩
    r.WF ∧ (r.makeMut 1 (fun m => ins m 0 5)).view 0 = some [(1, 9)] ∧
    (r.makeMut 1 (fun m => ins m 0 5)).view 1 = some [(0, 5), (1, 9)] := by
  refine ⟨?_, by decide, by decide⟩
  intro a ha
  simp at ha
  subst ha
  decide

/-- the invariant the isolation theorems need holds initially and is preserved by every step -/
theorem world_wf (c : Source → Bool) (f t g : Registry) (k : List WOp) :
    ((World.init f t g).run c k).WF := by
  have h0 : (World.init f t g).WF := by
    refine ⟨?_, ?_, ?_, rfl, rfl, rfl⟩ <;> (intro a ha; simp [World.init] at ha; subst ha; simp [World.init])
  generalize World.init f t g = w at h0
  induction k generalizing w with
  | nil => exact h0
  | cons op ops ih => exact ih _ (World.step_WF c w op h0)

/-- An environment is unaffected by anything done to other environments (its clones, or the
    original it was cloned from): for every sequence of operations none of which targets
    environment `j`, environment `j` looks exactly as before — store abstraction and registries. -/
theorem clone_isolated (c : Source → Bool) (w : World) (hw : w.WF) (k : List WOp) (j : Nat)
    (hj : j < w.stores.length) (hk : ∀ op ∈ k, op.target ≠ j) :
    (w.run c k).view j = w.view j := by
  induction k generalizing w with
  | nil => rfl
  | cons op ops ih =>
    simp only [World.run]
    rw [ih _ (World.step_WF c w op hw)
          (Nat.lt_of_lt_of_le hj (World.step_length_le c w op))
          (fun o ho => hk o (by simp [ho]))]
    exact World.step_view_other c w op hw j hj (hk op (by simp))

/-- … and the clone starts out indistinguishable from the original -/
theorem clone_starts_equal (c : Source → Bool) (w : World) (hw : w.WF) (e : Nat)
    (he : e < w.stores.length) : (w.step c (.clone e)).1.view w.stores.length = w.view e :=
  World.clone_view_new c w e hw he

/-- an operation on environment `e` acts on `e`'s own view like the specification: store
    operations as `Spec.step`, registry operations as map update -/
theorem world_step_refines (c : Source → Bool) (w : World) (hw : w.WF) (e : Nat) (s : Store)
    (hs : w.stores[e]? = some s) :
    (∀ op, ((w.step c (.store e op)).1.view e).map (·.store) = some (s.abs.step c op).1 ∧
           (w.step c (.store e op)).2 = (s.abs.step c op).2) ∧
    (∀ name v, ((w.step c (.regAdd .filter e name v)).1.view e).map (·.filters)
        = some (upd (regView w.filters e) name (some v))) ∧
    (∀ name, ((w.step c (.regRemove .filter e name)).1.view e).map (·.filters)
        = some (upd (regView w.filters e) name none)) := by
  have he : e < w.stores.length := (List.getElem?_eq_some_iff.mp hs).1
  obtain ⟨h1, _, _, h4, _, _⟩ := hw
  refine ⟨?_, ?_, ?_⟩
  · intro op
    obtain ⟨r1, r2⟩ := store_refines_map c s op
    have hse : w.stores[e] = s := (List.getElem?_eq_some_iff.mp hs).2
    simp [World.step, World.view, he, hse, r1, r2]
  · intro name v
    simp only [World.step, World.modReg, World.view, hs, Option.map]
    rw [regView_add _ h1 _ _ (h4 ▸ he)]
    simp
  · intro name
    simp only [World.step, World.modReg, World.view, hs, Option.map]
    rw [regView_remove _ h1 _ _ (h4 ▸ he)]
    simp

example : -- original, clone; the clone changes a filter and a template, the original does not move
    let c : Source → Bool := fun _ => true
    let w := (World.init [(1, 9)] [(1, 9)] [(1, 9)]).run c [.store 0 (.addOwned 0 3), .clone 0]
    let w' := w.run c [.regAdd .filter 1 0 5, .store 1 (.remove 0), .regRemove .global 1 1]
    (w'.view 0).map (fun v => (v.store.explicit 0, v.filters 0, v.globals 1)) = some (some 3, none, some 9) ∧
    (w'.view 1).map (fun v => (v.store.explicit 0, v.filters 0, v.globals 1)) = some (none, some 5, none) := by
  decide

/-! ## state identity: a macro belongs to the render that created it -/

/-- With ONE process-wide counter, for any interleaving `ts` of renders started by any number of
    threads: a macro stamped by the `p`-th state is refused by every other state `q ≠ p` — no
    matter on which threads the two renders ran or what those threads rendered before. -/
theorem foreign_macro_rejected (ts : List Nat) (p q tp ip tq iq : Nat)
    (hp : (IdSys.init.run ts).created[p]? = some (tp, ip))
    (hq : (IdSys.init.run ts).created[q]? = some (tq, iq)) (hne : p ≠ q) :
    macroAccepted iq ip = false := by
  have hinv := IdSys.run_inv ts _ IdSys.init_inv
  have e1 := IdSys.id_eq_index _ hinv hp
  have e2 := IdSys.id_eq_index _ hinv hq
  subst e1; subst e2
  simp [macroAccepted]
  exact fun e => hne e.symm

/-- … and it is accepted by its own state -/
theorem own_macro_accepted (i : Nat) : macroAccepted i i = true := by simp [macroAccepted]

example : -- three threads, five renders; the export of render 1 (thread 7) is foreign to render 3 (thread 9)
    (IdSys.init.run [7, 7, 8, 9, 7]).created[1]? = some (7, 1) ∧
    (IdSys.init.run [7, 7, 8, 9, 7]).created[3]? = some (9, 3) := by decide

/-- Why the counter has to be process-wide (the seeded mutant C15-2): with one counter per thread
    the first renders of two different threads get the same id, so a macro exported from one is
    accepted by the other. -/
theorem per_thread_counter_collides :
    ∃ (ts : List Nat) (p q tp ip tq iq : Nat), p ≠ q ∧ tp ≠ tq ∧
      (perThreadRun [] ts)[p]? = some (tp, ip) ∧ (perThreadRun [] ts)[q]? = some (tq, iq) ∧
      macroAccepted iq ip = true :=
  ⟨[0, 1], 0, 1, 0, 0, 1, 0, by decide⟩

end MJ.C15
