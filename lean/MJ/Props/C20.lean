import MJ.Proofs.Reloader
import MJ.Model.ReloaderV
import MJ.Gen.Tables
/-!
# C20 — the auto-reloader never loses a reload request

All theorems are about `MJ.Reloader.Reachable`: every state reachable from an initial state with
*any* number of acquiring / requesting / fast-reload-switching threads under *any* schedule, with
creator callbacks that may issue requests, switch fast reload, or fail, and a freshness callback
that may answer `true`.  Clock values are ghost (one tick per atomic step).

`Env.freshAt` = clock at which the creator call that built the environment *started*, or of the
last `clear_templates` — the most conservative reading of "created / cleared after the request".
-/
namespace MJ.C20
open MJ.Reloader

/-- the property at full strength, as one statement -/
def C20_full : Prop :=
  ∀ σ : State, Reachable σ →
    -- a request that returned before an acquire locked: that acquire hands out a fresh environment
    (∀ r ∈ σ.reqLog, ∀ a ∈ σ.acqLog, r.retAt < a.lockedAt → r.setAt < a.env.freshAt) ∧
    -- … in fact every flag set that precedes the acquire's reload check is served
    (∀ s ∈ σ.sets, ∀ a ∈ σ.acqLog, s < a.checkedAt → s < a.env.freshAt) ∧
    -- while a guard is held, no step of any thread replaces or clears the environment
    (∀ c, σ.cur = some c → c.pc = .holding →
      (∃ a ∈ σ.acqLog, a.tid = c.tid ∧ a.lockedAt = c.lockedAt ∧ σ.env = some a.env) ∧
      ∀ i σ', step σ i = some σ' →
        σ'.env = σ.env ∧ σ'.creates = σ.creates ∧ σ'.clears = σ.clears) ∧
    -- creator calls and clears are each caused by an observation; observations are caused by requests
    (σ.creates + σ.clears ≤ σ.noneObs + σ.flagObs + σ.cbObs ∧ σ.noneObs ≤ 1 + σ.failed + σ.panicked ∧
      σ.flagObs ≤ σ.sets.length + σ.failed) ∧
    -- a request that arrives while the creator runs keeps the flag up until the next acquire
    (∀ c, σ.cur = some c → (c.pc = .created ∨ (c.pc = .holding ∧ c.built = true) ∨
        (∃ ops, c.pc = .creating ops) ∨ (∃ s ops, c.pc = .innerSet s ops)) →
      ∀ s ∈ σ.sets, c.buildStart ≤ s → σ.flag = true) ∧
    (σ.cur = none → σ.poisoned = false →
      ∀ s ∈ σ.sets, σ.flag = true ∨ ∀ e, σ.env = some e → s < e.freshAt) ∧
    -- a creator panic poisons the mutex: no guard is ever handed out afterwards
    (∀ p, σ.panicAt = some p → ∀ a ∈ σ.acqLog, a.checkedAt < p) ∧
    -- every reload decision is taken under the cached_env lock, and nobody else locks in between
    ((∀ a ∈ σ.acqLog, a.lockedAt < a.checkedAt) ∧
      ∀ a ∈ σ.acqLog, ∀ b ∈ σ.acqLog, a.lockedAt < b.lockedAt → a.checkedAt < b.lockedAt) ∧
    -- one request (or one burst of requests between two reload checks) is served at most once
    (σ.flagObs + flagUnseen σ ≤ σ.risings + σ.failed ∧ σ.risings ≤ σ.sets.length)

/-- while somebody is inside `acquire_env` the mutex is not poisoned -/
theorem not_poisoned_of_cur {σ : State} (h : Reachable σ) {c : Active} (hc : σ.cur = some c) :
    σ.poisoned = false := by
  have hi := inv_of_reachable h
  cases hq : σ.poisoned with
  | false => rfl
  | true =>
    have h0 := hi.pois2 hq
    cases hpa : σ.panicAt with
    | none => exact absurd hpa h0
    | some p => have := (hi.pois p hpa).2.1; rw [hc] at this; cases this

/-- **Every flag set that precedes an acquire's reload check is served by that acquire**: the
    environment it hands out was built (creator started) or cleared after the set. -/
theorem request_before_check {σ : State} (h : Reachable σ) :
    ∀ s ∈ σ.sets, ∀ a ∈ σ.acqLog, s < a.checkedAt → s < a.env.freshAt := by
  intro s hs a ha hlt
  exact ((inv_of_reachable h).acqLog a ha).2.2.1 s hs hlt

example : ∃ σ, Reachable σ ∧ ∃ s ∈ σ.sets, ∃ a ∈ σ.acqLog, s < a.checkedAt ∧ a.env.gen = 2 :=
  ⟨run (init [.acqIdle {}, .reqIdle, .acqIdle {}]) [0, 0, 0, 0, 0, 0, 0, 0, 1, 2, 2, 2, 2, 2, 2, 2, 2],
   reachable_run (.init _ (by decide)) _, by decide⟩

/-- **No lost request**: a request (from any thread, or from inside the creator) that returned
    before an acquire locked the cache ⇒ that acquire hands out an environment whose creator
    started, or whose templates were cleared, after the request had set the flag. -/
theorem no_lost_request {σ : State} (h : Reachable σ) :
    ∀ r ∈ σ.reqLog, ∀ a ∈ σ.acqLog, r.retAt < a.lockedAt →
      r.setAt < a.env.freshAt ∧ r.setAt < r.retAt := by
  intro r hr a ha hlt
  have hi := inv_of_reachable h
  have h1 := hi.reqLog r hr
  have h2 := hi.acqLog a ha
  exact ⟨h2.2.2.1 r.setAt h1.1 (by have := h2.1; omega), h1.2.1⟩

/-- non-vacuity: request returns, then an acquire over an existing environment (fast reload on,
    so the templates are cleared rather than the environment rebuilt) -/
example : ∃ σ, Reachable σ ∧ ∃ r ∈ σ.reqLog, ∃ a ∈ σ.acqLog, r.retAt < a.lockedAt ∧
    a.env.gen = 1 ∧ a.env.clears = 1 :=
  ⟨run (init [.acqIdle { script := [.setFast true] }, .reqIdle, .acqIdle {}])
      [0, 0, 0, 0, 0, 0, 0, 0, 0, 1, 1, 2, 2, 2, 2, 2, 2, 2],
   reachable_run (.init _ (by decide)) _, by decide⟩

/-- a concrete reachable state with a *pending* request (flag up, stale environment cached) -/
example : ∃ σ, Reachable σ ∧ σ.flag = true ∧ σ.cur = none ∧
    ∃ e, σ.env = some e ∧ ∃ s ∈ σ.sets, e.freshAt < s :=
  ⟨run (init [.acqIdle {}, .reqIdle, .acqIdle {}]) [0, 0, 0, 0, 0, 0, 0, 0, 1, 1],
   reachable_run (.init _ (by decide)) _, by decide⟩

/-- **A guard excludes replacement**: while a guard is held the cache holds exactly the
    environment that was handed out, and no step of any thread (another acquirer is blocked,
    requesters only touch the flag, the holder can only drop the guard) changes the environment,
    calls the creator or clears the templates. -/
theorem guard_excludes_replace {σ : State} (h : Reachable σ) {c : Active}
    (hc : σ.cur = some c) (hp : c.pc = .holding) :
    (∃ a ∈ σ.acqLog, a.tid = c.tid ∧ a.lockedAt = c.lockedAt ∧ σ.env = some a.env) ∧
    ∀ i σ', step σ i = some σ' →
      σ'.env = σ.env ∧ σ'.creates = σ.creates ∧ σ'.clears = σ.clears := by
  constructor
  · have := (inv_of_reachable h).hold
    simp only [HoldLink, hc, hp] at this
    obtain ⟨a, ha, h1, h2, _, h4⟩ := this
    exact ⟨a, ha, h1, h2, h4⟩
  · intro i σ' hs
    unfold step at hs
    split at hs
    · simp [hc] at hs
    · simp only [hc] at hs
      split at hs
      · simp [stepActive, hp] at hs; cases hs; simp
      · cases hs
    all_goals (first | (cases hs; simp) | cases hs)

/-- other acquirers are blocked while the mutex is held -/
theorem acquirers_blocked {σ : State} {c : Active} (hc : σ.cur = some c) {i : Nat} {cfg : AcqCfg}
    (hi : σ.threads[i]? = some (.acqIdle cfg)) : step σ i = none := by
  simp [step, hi, hc]

example : ∃ σ, Reachable σ ∧ ∃ c, σ.cur = some c ∧ c.pc = .holding ∧ step σ 1 ≠ none ∧
    step σ 2 = none :=
  ⟨run (init [.acqIdle {}, .reqIdle, .acqIdle {}]) [0, 0, 0, 0, 0, 0, 0],
   reachable_run (.init _ (by decide)) _, by decide⟩

theorem pendingFirst_le_one (σ : State) : pendingFirst σ ≤ 1 := by
  unfold pendingFirst; repeat' split
  all_goals omega

/-- **No spurious creator call**: every creator call and every clear is caused by its own
    observation (cache empty / flag read as true / freshness callback true); the cache is found
    empty at most once plus once per failed creator call; the flag is read as true at most once
    per request (plus once per failed creator call, which re-arms it). -/
theorem no_spurious_create {σ : State} (h : Reachable σ) :
    σ.creates + σ.clears ≤ σ.noneObs + σ.flagObs + σ.cbObs ∧ σ.noneObs ≤ 1 + σ.failed + σ.panicked ∧
    σ.flagObs ≤ σ.sets.length + σ.failed := by
  have hi := inv_of_reachable h
  refine ⟨by have := hi.cntRebuild; omega, ?_, by have := hi.cntFlag; have := hi.risLe; omega⟩
  have := hi.cntNone
  have h1 := pendingFirst_le_one σ
  cases he : σ.env with
  | none => have := this.1 he; omega
  | some e => have := this.2 (by simp [he]); omega

/-- in particular: creator calls ≤ 1 + (times the flag was observed true) + (callback answers)
    as long as the creator does not fail, and ≤ 1 + (number of requests) without a callback -/
theorem creates_le {σ : State} (h : Reachable σ) (hf : σ.failed = 0) (hp : σ.panicked = 0) :
    σ.creates ≤ 1 + σ.flagObs + σ.cbObs ∧ σ.creates + σ.clears ≤ 1 + σ.sets.length + σ.cbObs := by
  have := no_spurious_create h
  omega

example : ∃ σ, Reachable σ ∧ σ.failed = 0 ∧ σ.panicked = 0 ∧ σ.creates = 2 ∧ σ.flagObs = 1 ∧ σ.acqLog.length = 3 :=
  ⟨run (init [.acqIdle {}, .reqIdle, .acqIdle {}, .acqIdle {}])
      [0, 0, 0, 0, 0, 0, 0, 0, 1, 1, 2, 2, 2, 2, 2, 2, 2, 2, 3, 3, 3, 3],
   reachable_run (.init _ (by decide)) _, by decide⟩

/-- **A request arriving while the creator runs is kept**: from the start of the creator call
    until the builder drops its guard, a flag set at or after the creator start leaves the flag up
    (only the mutex holder resets it, and it did so before calling the creator). -/
theorem flag_kept_during_build {σ : State} (h : Reachable σ) {c : Active} (hc : σ.cur = some c)
    (hp : c.pc = .created ∨ (c.pc = .holding ∧ c.built = true) ∨
      (∃ ops, c.pc = .creating ops) ∨ (∃ s ops, c.pc = .innerSet s ops)) :
    ∀ s ∈ σ.sets, c.buildStart ≤ s → σ.flag = true := by
  intro s hs hle
  have hi := inv_of_reachable h
  have h1 := hi.served (not_poisoned_of_cur h hc) s hs
  have h2 := hi.built
  rcases h1 with h1 | h1
  · exact h1
  · exfalso
    simp only [hc, BuiltOk, EnvFresh] at h1 h2
    rcases hp with hp | ⟨hp, hb⟩ | ⟨ops, hp⟩ | ⟨s', ops, hp⟩
    · simp only [hp] at h1 h2
      obtain ⟨_, e, he, _, hf, _⟩ := h2
      have := h1 e he; omega
    · simp only [hp] at h1 h2
      obtain ⟨e, he, _, hf, _⟩ := h2 hb
      have := h1 e he; omega
    · simp only [hp] at h1; omega
    · simp only [hp] at h1; omega

/-- when nobody is inside `acquire_env`, every request is either still pending (flag up) or
    served by the cached environment -/
theorem unserved_request_is_pending {σ : State} (h : Reachable σ) (hc : σ.cur = none)
    (hp : σ.poisoned = false) :
    ∀ s ∈ σ.sets, σ.flag = true ∨ ∀ e, σ.env = some e → s < e.freshAt := by
  intro s hs
  have := (inv_of_reachable h).served hp s hs
  simpa only [Served, hc, EnvFresh] using this

/-- **… and the NEXT acquire rebuilds**: if acquire `a0` ran the creator (started at `b`) and a
    request set the flag at `s ≥ b` (during or after that build), every acquire whose check comes
    after `s` hands out an environment strictly fresher than the one `a0` built. -/
theorem request_during_build_kept {σ : State} (h : Reachable σ) :
    ∀ a0 ∈ σ.acqLog, ∀ b, a0.built = some b → ∀ s ∈ σ.sets, b ≤ s →
      ∀ a' ∈ σ.acqLog, s < a'.checkedAt →
        s < a'.env.freshAt ∧ a0.env.freshAt < a'.env.freshAt ∧ a0.env.builtAt = b := by
  intro a0 ha0 b hb s hs hle a' ha' hlt
  have hi := inv_of_reachable h
  have h0 := (hi.acqLog a0 ha0).2.2.2 b hb
  have h1 := (hi.acqLog a' ha').2.2.1 s hs hlt
  exact ⟨h1, by omega, h0.1⟩

/-- non-vacuity: the creator of acquire 0 itself issues a request; acquire 1 rebuilds (gen 2) -/
example : ∃ σ, Reachable σ ∧ ∃ a0 ∈ σ.acqLog, ∃ b, a0.built = some b ∧ ∃ s ∈ σ.sets, b ≤ s ∧
    ∃ a' ∈ σ.acqLog, s < a'.checkedAt ∧ a0.env.gen = 1 ∧ a'.env.gen = 2 :=
  ⟨run (init [.acqIdle { script := [.req] }, .acqIdle {}])
      [0, 0, 0, 0, 0, 0, 0, 0, 0, 0, 1, 1, 1, 1, 1, 1, 1, 1],
   reachable_run (.init _ (by decide)) _, by decide⟩

/-- non-vacuity of `flag_kept_during_build`: a requester thread sets the flag while the creator
    of acquire 0 is running -/
example : ∃ σ, Reachable σ ∧ ∃ c, σ.cur = some c ∧ c.pc = .creating [] ∧
    ∃ s ∈ σ.sets, c.buildStart ≤ s :=
  ⟨run (init [.acqIdle {}, .reqIdle]) [0, 0, 0, 0, 0, 1],
   reachable_run (.init _ (by decide)) _, by decide⟩

/-- the `unwrap`s on the cached environment never fail: the mutex holder can always step -/
theorem holder_never_stuck {σ : State} (h : Reachable σ) {c : Active} (hc : σ.cur = some c) :
    (stepActive σ c).isSome = true := by
  have h6 := (inv_of_reachable h).envSome
  simp only [EnvSome, hc] at h6
  unfold stepActive
  repeat' split
  all_goals simp_all

/-- **a failed creator call does not lose the request** (repaired code): after the failure the
    flag is up again when the mutex is released -/
theorem failure_rearms {σ : State} (h : Reachable σ) {c : Active} (hc : σ.cur = some c)
    (hp : c.pc = .remarked) (hne : σ.sets ≠ []) : σ.flag = true := by
  obtain ⟨s, hs⟩ := List.exists_mem_of_ne_nil _ hne
  have := (inv_of_reachable h).served (not_poisoned_of_cur h hc) s hs
  simpa [Served, hc, hp] using this

/-- non-vacuity for the combination "rebuild triggered by the freshness callback (flag down) ×
    request from inside the creator × creator fails": the flag is forced up (not restored to its
    value before the rebuild), and the next acquire calls the creator again (generation 3) -/
example : ∃ σ, Reachable σ ∧ σ.failed = 1 ∧ σ.cbObs = 1 ∧ σ.flagObs = 1 ∧
    ∃ r ∈ σ.reqLog, ∃ a ∈ σ.acqLog, r.retAt < a.lockedAt ∧ a.tid = 2 ∧ a.env.gen = 3 :=
  ⟨run (init [.acqIdle {}, .acqIdle { cb := true, fails := true, script := [.req] }, .acqIdle {}])
      [0, 0, 0, 0, 0, 0, 0, 0, 1, 1, 1, 1, 1, 1, 1, 1, 1, 1, 2, 2, 2, 2, 2, 2, 2, 2],
   reachable_run (.init _ (by decide)) _, by decide⟩

example : ∃ σ, Reachable σ ∧ ∃ c, σ.cur = some c ∧ c.pc = .remarked ∧ c.sawFlag = false ∧
    σ.sets ≠ [] ∧ σ.flag = true :=
  ⟨run (init [.acqIdle {}, .acqIdle { cb := true, fails := true, script := [.req] }, .acqIdle {}])
      [0, 0, 0, 0, 0, 0, 0, 0, 1, 1, 1, 1, 1, 1, 1, 1, 1],
   reachable_run (.init _ (by decide)) _, by decide⟩


/-! ## one request is served at most once (the second half of the statement, as a sharp count) -/

/-- **A request is served at most once.**  `risings` counts the requests that found the flag DOWN
    (a burst of requests between two reload checks raises it once).  In every reachable state
    `(flag observed true so far) + (1 if the flag is up and that has not been observed yet)` is at
    most `risings + failed creator calls` — so a request whose flag-raise has been observed can never
    be observed again, and a burst of k requests before the next acquire causes ONE reload, not k.
    Together with `creates + clears + pendingRebuild = noneObs + flagObs + cbObs` (every reload has
    its own observation) this bounds the creator calls and clears exactly. -/
theorem request_served_at_most_once {σ : State} (h : Reachable σ) :
    σ.flagObs + flagUnseen σ ≤ σ.risings + σ.failed ∧ σ.risings ≤ σ.sets.length ∧
    σ.creates + σ.clears + pendingRebuild σ = σ.noneObs + σ.flagObs + σ.cbObs := by
  have hi := inv_of_reachable h
  exact ⟨by have := hi.cntFlag; omega, hi.risLe, hi.cntRebuild⟩

/-- … in the absence of other triggers (freshness callback never true, creator never fails or
    panics): reloads done + reload in progress + reload still owed ≤ 1 (the first build) + number of
    flag raises ≤ 1 + number of requests -/
theorem reloads_le_requests {σ : State} (h : Reachable σ) (hcb : σ.cbObs = 0) (hf : σ.failed = 0)
    (hp : σ.panicked = 0) :
    σ.creates + σ.clears + pendingRebuild σ + flagUnseen σ ≤ 1 + σ.risings ∧
    σ.risings ≤ σ.sets.length := by
  have h1 := request_served_at_most_once h
  have h2 := no_spurious_create h
  omega

/-- sharpness (equality): two requests, each followed by an acquire: 1 + 2 creator calls … -/
example : ∃ σ, Reachable σ ∧ σ.cbObs = 0 ∧ σ.failed = 0 ∧ σ.panicked = 0 ∧ σ.cur = none ∧
    σ.risings = 2 ∧ σ.creates = 3 ∧ σ.flagObs = 2 ∧ flagUnseen σ = 0 :=
  ⟨run (init [.acqIdle {}, .reqIdle, .acqIdle {}, .reqIdle, .acqIdle {}])
      [0, 0, 0, 0, 0, 0, 0, 0, 1, 1, 2, 2, 2, 2, 2, 2, 2, 2, 3, 3, 4, 4, 4, 4, 4, 4, 4, 4],
   reachable_run (.init _ (by decide)) _, by decide⟩

/-- … and coalescing: a burst of three requests before the next acquire is ONE flag raise and causes
    ONE creator call (`sets.length = 3`, `risings = 1`, `creates = 2`), and a further acquire without a
    request calls nothing -/
example : ∃ σ, Reachable σ ∧ σ.sets.length = 3 ∧ σ.risings = 1 ∧ σ.creates = 2 ∧ σ.flagObs = 1 ∧
    σ.acqLog.length = 3 ∧ σ.cur = none :=
  ⟨run (init [.acqIdle {}, .reqIdle, .reqIdle, .reqIdle, .acqIdle {}, .acqIdle {}])
      [0, 0, 0, 0, 0, 0, 0, 0, 1, 2, 3, 1, 2, 3, 4, 4, 4, 4, 4, 4, 4, 4, 5, 5, 5, 5],
   reachable_run (.init _ (by decide)) _, by decide⟩

/-- a pending request is owed exactly one reload: flag up, nobody inside ⇒ `flagUnseen = 1` -/
example : ∃ σ, Reachable σ ∧ σ.cur = none ∧ σ.flag = true ∧ flagUnseen σ = 1 ∧
    σ.flagObs + 1 = σ.risings + σ.failed :=
  ⟨run (init [.acqIdle {}, .reqIdle, .acqIdle {}]) [0, 0, 0, 0, 0, 0, 0, 0, 1, 1],
   reachable_run (.init _ (by decide)) _, by decide⟩

/-! ## the ORDER: the reload decision is taken while `cached_env` is held -/

/-- **check under lock** (schema over all reachable states): the holder locked before it decided; so
    did every acquire that handed out a guard; and the intervals `[lockedAt, checkedAt]` of any two
    acquires are disjoint and ordered — no other thread locks (let alone decides) between an
    acquire's lock and its decision.  This is what makes a decision CURRENT when it is acted upon. -/
theorem check_under_lock {σ : State} (h : Reachable σ) :
    (∀ c, σ.cur = some c → c.lockedAt < σ.now ∧
      (c.pc ≠ .locked → c.lockedAt < c.checkedAt ∧ c.checkedAt < σ.now)) ∧
    (∀ a ∈ σ.acqLog, a.lockedAt < a.checkedAt ∧ a.checkedAt < σ.now) ∧
    (∀ a ∈ σ.acqLog, ∀ b ∈ σ.acqLog, a.lockedAt < b.lockedAt → a.checkedAt < b.lockedAt) ∧
    (∀ c, σ.cur = some c → ∀ a ∈ σ.acqLog,
      (c.pc = .holding ∧ a.lockedAt = c.lockedAt ∧ a.checkedAt = c.checkedAt) ∨ a.checkedAt < c.lockedAt) := by
  have ho := ordInv_of_reachable h
  exact ⟨ho.cur, ho.lt, ho.pair, ho.own⟩

/-- step form: **only the lock holder observes** — a step that bumps one of the observation counters
    (cache empty / flag true / callback true) or decides `checked _` is a step of the thread that
    holds `cached_env`, taken from `.locked` -/
theorem observation_only_by_holder {σ σ' : State} {i : Nat} (hs : step σ i = some σ')
    (hobs : σ'.noneObs ≠ σ.noneObs ∨ σ'.flagObs ≠ σ.flagObs ∨ σ'.cbObs ≠ σ.cbObs) :
    ∃ c, σ.cur = some c ∧ c.tid = i ∧ c.pc = .locked := by
  unfold step at hs
  split at hs
  · split at hs
    · split at hs <;> (cases hs; simp at hobs)
    · cases hs
  · split at hs
    · rename_i c hc
      split at hs
      · rename_i htid
        refine ⟨c, hc, htid, ?_⟩
        apply Classical.byContradiction
        intro hne
        unfold stepActive at hs
        repeat' split at hs
        all_goals first
          | (cases hs; done)
          | (cases hs; simp_all)
      · cases hs
    · cases hs
  all_goals first
    | (cases hs; done)
    | (cases hs; simp at hobs)

/-- non-vacuity: the step that reads the flag as true is a step of the holder, taken from `.locked` -/
example : ∃ σ i, Reachable σ ∧ (step σ i).map (·.flagObs) = some (σ.flagObs + 1) ∧
    σ.cur.map (fun c => (c.tid, c.pc)) = some (i, .locked) :=
  ⟨run (init [.acqIdle {}, .reqIdle, .acqIdle {}]) [0, 0, 0, 0, 0, 0, 0, 0, 1, 1, 2], 2,
   reachable_run (.init _ (by decide)) _, by decide⟩

example : ∃ σ, Reachable σ ∧ ∃ a ∈ σ.acqLog, ∃ b ∈ σ.acqLog, a.lockedAt < b.lockedAt ∧
    a.checkedAt < b.lockedAt ∧ b.env.gen = 2 :=
  ⟨run (init [.acqIdle {}, .reqIdle, .acqIdle {}]) [0, 0, 0, 0, 0, 0, 0, 0, 1, 2, 2, 2, 2, 2, 2, 2, 2],
   reachable_run (.init _ (by decide)) _, by decide⟩

/-! ### why the order matters: the VARIANT that checks before it locks (`MJ/Model/ReloaderV.lean`,
    the seeded change C20-6) violates both halves of the property -/

/-- the schedule of `variant_loses_request`: acquire 0 builds generation 1 · request 1 sets the flag
    and returns · acquire 2 (its creator will fail) pre-checks (true), locks, resets the flag, starts
    the creator · acquire 3 pre-checks NOW: the flag is down → "no reload" · acquire 2's creator
    fails, the flag is re-armed, the lock released · acquire 3 locks and acts on its stale decision -/
def variantLostSchedule : List Nat :=
  [0, 0, 0, 0, 0, 0, 0, 0, 0] ++ [1, 1] ++ [2, 2, 2, 2, 2, 2] ++ [3] ++ [2, 2, 2, 2] ++ [3, 3, 3, 3, 3]

/-- **check-before-lock loses a request**: in the variant a request that returned (clock 10) long
    before acquire 3 locked (clock 21) is not served — acquire 3 hands out generation 1, built at
    clock 5.  (`no_lost_request`'s statement is false for the variant.) -/
theorem variant_loses_request :
    let σ := (runV (vinit [.acqIdle {}, .reqIdle, .acqIdle { fails := true }, .acqIdle {}])
                variantLostSchedule).base
    ∃ r ∈ σ.reqLog, ∃ a ∈ σ.acqLog, r.retAt < a.lockedAt ∧ ¬ r.setAt < a.env.freshAt := by
  decide

/-- the same threads under the same schedule (minus the pre-check steps, which do not exist) in the
    REAL protocol: acquire 3 is blocked while acquire 2 rebuilds, then checks under the lock, sees the
    re-armed flag and rebuilds (generation 3) -/
example :
    let σ := run (init [.acqIdle {}, .reqIdle, .acqIdle { fails := true }, .acqIdle {}])
      ([0, 0, 0, 0, 0, 0, 0, 0] ++ [1, 1] ++ [2, 2, 2, 2, 2] ++ [3] ++ [2, 2, 2, 2] ++ [3, 3, 3, 3, 3, 3, 3, 3])
    ∃ a ∈ σ.acqLog, a.tid = 3 ∧ a.env.gen = 3 ∧ ∀ r ∈ σ.reqLog, r.setAt < a.env.freshAt := by
  decide

/-- **check-before-lock calls the creator twice for one request**: two acquirers pre-check while the
    flag of ONE request is up; both decide to reload; the creator runs for each (3 calls: first
    build + 2), the flag was observed true twice for one raise — `no_spurious_create`'s and
    `request_served_at_most_once`'s statements are false for the variant. -/
theorem variant_spurious_create :
    let σ := (runV (vinit [.acqIdle {}, .reqIdle, .acqIdle {}, .acqIdle {}])
      ([0, 0, 0, 0, 0, 0, 0, 0, 0] ++ [1, 1] ++ [2, 3] ++ [2, 2, 2, 2, 2, 2, 2, 2] ++ [3, 3, 3, 3, 3, 3, 3, 3])).base
    σ.sets.length = 1 ∧ σ.failed = 0 ∧ σ.cbObs = 0 ∧ σ.creates = 3 ∧
      ¬ (σ.flagObs ≤ σ.sets.length + σ.failed) ∧ ¬ (σ.flagObs + flagUnseen σ ≤ σ.risings + σ.failed) := by
  decide

/-- … and the ORDER invariant itself fails in the variant: acquire 3's decision (pre-check at clock
    17) was taken while acquire 2 held the lock (locked at 12, released at 21) -/
theorem variant_decides_without_lock :
    let v := runV (vinit [.acqIdle {}, .reqIdle, .acqIdle { fails := true }, .acqIdle {}])
                (variantLostSchedule.take 18)
    (v.pre.lookup 3).isSome = true ∧ ∃ c, v.base.cur = some c ∧ c.tid = 2 := by
  decide

/-! ## environment identity (fast reload keeps the object, full reload makes a new one) -/

/-- the generation number identifies the environment object: two guards that saw the same
    generation saw the same creator call's product -/
theorem same_gen_same_env {σ : State} (h : Reachable σ) :
    ∀ a1 ∈ σ.acqLog, ∀ a2 ∈ σ.acqLog, a1.env.gen = a2.env.gen → a1.env.builtAt = a2.env.builtAt :=
  (genInv_of_reachable h).pair

/-- every guard's environment is the cached one or a predecessor of it: generations never go
    back, and for the same generation the template cache was cleared at least as often since -/
theorem handed_out_not_newer_than_cache {σ : State} (h : Reachable σ) :
    ∀ a ∈ σ.acqLog, 1 ≤ a.env.gen ∧ a.env.gen ≤ σ.creates ∧ ∃ e, σ.env = some e ∧ a.env.gen ≤ e.gen ∧
      (a.env.gen = e.gen → a.env.builtAt = e.builtAt ∧ a.env.clears ≤ e.clears) := by
  intro a ha
  have hi := genInv_of_reachable h
  obtain ⟨h1, e, he, h2, h3⟩ := hi.log a ha
  have := (hi.env e he).2.1
  exact ⟨h1, by omega, e, he, h2, fun hg => ⟨(h3 hg).1, (h3 hg).2.2⟩⟩

/-- **fast reload keeps the environment object**: the clear step changes neither the generation
    nor the build time, it only empties the template cache (`clears + 1`) -/
theorem clear_keeps_identity {σ σ' : State} {c : Active} (hc : c.pc = .toClear)
    (hs : stepActive σ c = some σ') :
    ∃ e e', σ.env = some e ∧ σ'.env = some e' ∧ e'.gen = e.gen ∧ e'.builtAt = e.builtAt ∧
      e'.clears = e.clears + 1 ∧ σ'.creates = σ.creates := by
  unfold stepActive at hs
  simp only [hc] at hs
  split at hs
  · rename_i e he; cases hs; exact ⟨e, _, he, rfl, rfl, rfl, rfl, rfl⟩
  · cases hs

/-- **full reload makes a new object**: the environment stored by a successful creator call has a
    generation that no guard handed out so far has seen -/
theorem create_is_new {σ σ' : State} (h : Reachable σ) {c : Active} (hcur : σ.cur = some c)
    (hc : c.pc = .creating []) (hf : c.cfg.fails = false) (hnp : c.cfg.panics = false)
    (hs : stepActive σ c = some σ') :
    ∃ e', σ'.env = some e' ∧ e'.gen = σ.creates ∧ ∀ a ∈ σ.acqLog, a.env.gen < e'.gen := by
  have hi := genInv_of_reachable h
  unfold stepActive at hs
  simp [hc, hf, hnp] at hs
  cases hs
  refine ⟨_, rfl, rfl, ?_⟩
  intro a ha
  obtain ⟨_, e, he, h2, _⟩ := hi.log a ha
  have := (hi.building c hcur (Or.inl ⟨[], hc⟩)).2.2 e he
  simp; omega

example : ∃ σ, Reachable σ ∧ ∃ a1 ∈ σ.acqLog, ∃ a2 ∈ σ.acqLog, a1.env.gen = a2.env.gen ∧
    a1.env.clears ≠ a2.env.clears :=
  ⟨run (init [.acqIdle { script := [.setFast true] }, .reqIdle, .acqIdle {}])
      [0, 0, 0, 0, 0, 0, 0, 0, 0, 1, 1, 2, 2, 2, 2, 2, 2, 2],
   reachable_run (.init _ (by decide)) _, by decide⟩

/-! ## the tie to the source: every access to shared state, per function, as extracted from
    minijinja-autoreload/src/lib.rs on this run (lib/tables/c20.py → `MJ.Gen.reloaderAccesses`) -/

/-- the accesses the model's steps were written against.  Reading guide (model step ← tokens):
  * `acquire_env`: lock (`lockCached`) · check (`readEnv`, `call:should_reload` = one notifier
    critical section: `readFlag`, `pollCb`, `callOnCb`) · reset (`call:prepare_and_mark_reload` …
    both `readFast` in ONE critical section … `flag=false`; its `try` cannot fail) · decide
    (`readEnv` + the fast-reload value prepare_and_mark_reload returned: no second read, fix 5725511) · creator …
    (`creator`) · store (`env=new`) | remark (`call:keep_reload_pending` = `flag=true`) + `returnErr`
    · clear (`derefEnv`, `clear`) · handout.
  * `request_reload`: set (`lockHandle`, `flag=true`) · ret (`lockHandle`, `callOnCb`).
  * the fs-watcher closure in `with_fs_watcher`: the same four tokens after its `upgrade`; the call into
    the watcher (`watch` / `unwatch`, which waits for the watcher's thread) is made under the watcher's
    OWN mutex (`lockWatcher`), after the notifier mutex was released (fix: the watcher's thread takes
    the notifier mutex in the closure — holding it across the call deadlocked the two).
  * `set_fast_reload` / `set_callback`: one critical section each.
  * every entry point starts with `upgrade`: on a dead notifier it does nothing.
  * every `lock()` result is consumed by `.unwrap()`: a poisoned mutex panics (model: the lock step
    of `acquire_env` on a poisoned `cached_env` ends the acquire with a panic). -/
def assumedAccesses : List (String × List String) := [
  ("notifier", ["call:weak"]),
  ("acquire_env", ["lockCached.unwrap", "readEnv", "call:should_reload", "call:prepare_and_mark_reload", "try",
    "readEnv", "creator", "env=new", "call:keep_reload_pending", "returnErr",
    "derefEnv", "clear", "handout"]),
  ("deref", ["derefEnv"]),
  ("request_reload", ["upgrade", "lockHandle.unwrap", "flag=true", "lockHandle.unwrap", "callOnCb"]),
  ("set_fast_reload", ["upgrade", "lockHandle.unwrap", "fast=yes"]),
  ("set_callback", ["upgrade", "lockHandle.unwrap", "setCb"]),
  ("set_on_should_reload_callback", ["upgrade", "lockHandle.unwrap", "setOnCb"]),
  ("watch_path", ["call:with_fs_watcher"]),
  ("unwatch_path", ["call:with_fs_watcher"]),
  ("persistent_watch", ["upgrade", "lockHandle.unwrap"]),
  ("is_dead", ["upgrade"]),
  ("handle", ["upgrade"]),
  ("should_reload", ["upgrade", "lockHandle.unwrap", "readFlag", "pollCb", "callOnCb"]),
  ("with_fs_watcher", ["upgrade", "lockHandle.unwrap", "upgrade", "lockHandle.unwrap", "flag=true", "lockHandle.unwrap", "callOnCb",
    "lockWatcher.unwrap"]),
  ("prepare_and_mark_reload", ["upgrade", "lockHandle.unwrap", "readFast", "readFast", "lockHandle.unwrap", "flag=false"]),
  ("keep_reload_pending", ["upgrade", "lockHandle.unwrap", "flag=true"]),
  ("weak", ["upgrade"])]

/-- **the source performs exactly the shared accesses the model assumes, in that order** -/
theorem accesses_as_modelled : MJ.Gen.reloaderAccesses = assumedAccesses := by decide

/-- **the fs-watcher notification is `request_reload`**: after upgrading its weak handle it
    performs the same critical sections (it is a requester thread of the model) -/
theorem fs_callback_is_request :
    (((MJ.Gen.reloaderAccesses.lookup "with_fs_watcher").getD []).drop 2).take 5 =
      (MJ.Gen.reloaderAccesses.lookup "request_reload").getD ["?"] ∧
    (((MJ.Gen.reloaderAccesses.lookup "with_fs_watcher").getD []).drop 7) = ["lockWatcher.unwrap"] := by decide

/-! ## a PANICKING creator (third outcome besides Ok / Err) -/

/-- **no guard is handed out after a creator panic**: the unwinding skips the arm that re-arms the
    flag and leaves the old environment cached, but it also poisons the `cached_env` mutex, and
    `acquire_env` `unwrap()`s the lock result — every guard in the log had its reload check before
    the panic. -/
theorem panic_never_serves_stale {σ : State} (h : Reachable σ) :
    ∀ p, σ.panicAt = some p → ∀ a ∈ σ.acqLog, a.checkedAt < p :=
  fun p hp => ((inv_of_reachable h).pois p hp).2.2.2

/-- step form: once poisoned, an acquire can only panic; nothing is handed out, rebuilt or cleared -/
theorem poisoned_acquire_panics {σ σ' : State} (h : Reachable σ) (hp : σ.poisoned = true)
    {i : Nat} (hs : step σ i = some σ') :
    σ'.acqLog = σ.acqLog ∧ σ'.env = σ.env ∧ σ'.creates = σ.creates ∧ σ'.poisoned = true ∧
      σ'.cur = none := by
  have hi := inv_of_reachable h
  have hn := hi.norec
  obtain ⟨p, hpa⟩ := Option.ne_none_iff_exists'.mp (hi.pois2 hp)
  have hc := (hi.pois p hpa).2.1
  unfold step at hs
  split at hs
  · simp only [hc, hp, hn] at hs
    cases hs; simp [hp, hc]
  · simp [hc] at hs
  all_goals (first | (cases hs; simp [hp, hc]) | cases hs)

/-- non-vacuity: request, rebuild whose creator panics, two more acquires: both panic on the lock -/
example : ∃ σ, Reachable σ ∧ σ.panicAt = some 15 ∧ σ.lockPanics = 2 ∧ σ.flag = false ∧
    σ.acqLog.length = 1 ∧ ∃ s ∈ σ.sets, ∃ e, σ.env = some e ∧ e.freshAt < s :=
  ⟨run (init [.acqIdle {}, .reqIdle, .acqIdle { panics := true }, .acqIdle {}, .acqIdle {}])
      [0, 0, 0, 0, 0, 0, 0, 0, 1, 1, 2, 2, 2, 2, 2, 2, 3, 4],
   reachable_run (.init _ (by decide)) _, by decide⟩

/-- **what the poison protects**: in the model VARIANT whose `lock()` recovers from the poison
    (`recoverPoison := true`, not reachable from `init`), the same schedule hands out the stale
    environment to a later acquire although the request had returned before it locked —
    `no_lost_request`'s statement is false there. -/
example :
    let σ := run { init [.acqIdle {}, .reqIdle, .acqIdle { panics := true }, .acqIdle {}] with
                   recoverPoison := true }
      [0, 0, 0, 0, 0, 0, 0, 0, 1, 1, 2, 2, 2, 2, 2, 2, 3, 3, 3, 3]
    ∃ r ∈ σ.reqLog, ∃ a ∈ σ.acqLog, r.retAt < a.lockedAt ∧ ¬ r.setAt < a.env.freshAt := by
  decide

/-! ## file-change notifications: which `notify` events request a reload
`MJ.Gen.fsEventFilter` = the `matches!` pattern of `with_fs_watcher`, evaluated by the extractor on
every concrete `EventKind` of the vendored notify-types crate (variant lists regenerated from it). -/

/-- **every event that denotes a change of file content or of the set of files requests a reload**
    (Create, Remove, Modify(Data), Modify(Name(m)) for every RenameMode m, Modify(Any)) -/
theorem every_namespace_change_event_requests :
    ∀ p ∈ MJ.Gen.fsEventFilter, fsChangesFiles p.1 = true → p.2 = true := by decide

/-- … and such a notification is a requester thread of the model (so `no_lost_request` covers it) -/
theorem fs_change_is_requester :
    ∀ p ∈ MJ.Gen.fsEventFilter, fsChangesFiles p.1 = true → fsThread p.2 = Thread.reqIdle := by decide

/-- the rename half that is the ONLY event for a file moved out of the tree / a moved root, and
    every other rename mode of the vendored notify version, are accepted -/
theorem all_rename_modes_request :
    ∀ m ∈ MJ.Gen.notifyRenameMode, (["Modify", "Name", m], true) ∈ MJ.Gen.fsEventFilter := by decide

/-- the table is exhaustive over the vendored enums: every top-level kind and every ModifyKind occurs -/
theorem fs_filter_table_exhaustive :
    (∀ k ∈ MJ.Gen.notifyEventKind, ∃ p ∈ MJ.Gen.fsEventFilter, p.1.head? = some k) ∧
    (∀ k ∈ MJ.Gen.notifyModifyKind, ∃ p ∈ MJ.Gen.fsEventFilter, p.1.take 2 = ["Modify", k]) ∧
    "From" ∈ MJ.Gen.notifyRenameMode := by decide

/-- access events (the reloader's own reads of the templates!) and metadata-only changes do not
    request a reload — "without a request the creator is not called again" -/
theorem fs_filter_excludes_access_and_metadata :
    ∀ p ∈ MJ.Gen.fsEventFilter,
      (p.1.head? = some "Access" ∨ p.1.take 2 = ["Modify", "Metadata"]) → p.2 = false := by decide

/-! ## the fs watcher's lifetime: a reload must not silence later file changes -/

/-- the source's drop condition (`if … { fs_watcher.take() }` in `prepare_and_mark_reload`, its
    4-row truth table regenerated on this run) is the model's `dropWatcher` -/
theorem drop_cond_as_modelled :
    MJ.Gen.watcherDropCond.length = 4 ∧
    ∀ p f, (MJ.Gen.watcherDropCond.lookup (p, f)) = some (dropWatcher p f) := by decide

/-- the watcher is thrown away ONLY when neither persistent_watch nor fast reload is on: with fast
    reload the creator (which registered the paths) never runs again, with persistent_watch the
    paths were registered once from outside — a dropped watcher would never be re-registered -/
theorem watcher_kept_if_fast_or_persistent :
    ∀ row ∈ MJ.Gen.watcherDropCond, (row.1.1 = true ∨ row.1.2 = true) → row.2 = false := by decide

/-- **registered paths stay watched across reloads**: in every reachable state, if `watch_path` was
    ever called then the watcher is alive, or it was thrown away by a reload that started with
    persistent_watch off AND fast reload off and nobody has re-registered since (the documented
    case: "when the environment is reloaded the watcher is cleared out, watch_path must be invoked
    again") -/
theorem watcher_alive_whenever_needed {σ : State} (h : Reachable σ) (hr : σ.registered = true) :
    σ.watching = true ∨ σ.lastDrop = some (false, false) :=
  (watchInv_of_reachable h).alive hr

/-- step form: a reload that starts while fast reload or persistent_watch is on keeps the watcher -/
theorem reload_keeps_watcher {σ σ' : State} {c : Active} (hc : c.pc = .checked true)
    (hk : σ.persistent = true ∨ σ.fast = true) (hs : stepActive σ c = some σ') :
    σ'.watching = σ.watching ∧ σ'.lastDrop = σ.lastDrop := by
  unfold stepActive at hs
  simp only [hc] at hs
  cases hs
  rcases hk with hk | hk <;> simp [dropWatcher, hk]

/-- … and a reload that dropped it goes on to run the creator (which can re-register): the
    create-or-clear decision uses the value of fast reload that the drop decision used
    (`prepare_and_mark_reload` returns it, fix 5725511), whatever other threads do in between -/
theorem dropped_then_creator_runs {σ σ' : State} {c : Active} (h : Reachable σ) (hcur : σ.cur = some c)
    (hc : c.pc = .reset) (hd : c.droppedW = true) (hs : stepActive σ c = some σ') :
    ∃ c', σ'.cur = some c' ∧ c'.pc = .toCreate := by
  have hf := ((watchInv_of_reachable h).hold c hcur).1 hd
  unfold stepActive at hs
  simp [hc, hf] at hs
  cases hs
  exact ⟨_, rfl, rfl⟩

/-- **no fast-reload clear is ever done by an acquire that threw the watcher away** — in every
    reachable state, under every interleaving with `set_fast_reload` calls of other threads -/
theorem no_clear_after_drop {σ : State} (h : Reachable σ) : σ.clearsAfterDrop = 0 :=
  (watchInv_of_reachable h).nocad

/-- a creator that calls `watch_path` re-registers -/
theorem creator_reregisters {σ σ' : State} {c : Active} {rest : List COp}
    (hc : c.pc = .creating (.watch :: rest)) (hs : stepActive σ c = some σ') :
    σ'.watching = true ∧ σ'.lastDrop = none := by
  unfold stepActive at hs
  simp [hc] at hs
  cases hs
  exact ⟨rfl, rfl⟩

/-- non-vacuity: fast reload, paths registered by the creator, a request, a reload: still watching -/
example : ∃ σ, Reachable σ ∧ σ.registered = true ∧ σ.watching = true ∧ σ.clears = 1 ∧ σ.creates = 1 :=
  ⟨run (init [.acqIdle { script := [.setFast true, .watch] }, .reqIdle, .acqIdle {}])
      [0, 0, 0, 0, 0, 0, 0, 0, 0, 0, 1, 1, 2, 2, 2, 2, 2, 2, 2],
   reachable_run (.init _ (by decide)) _, by decide⟩

/-- non-vacuity of the documented exception: registered once from OUTSIDE, neither persistent nor
    fast: the first reload silences the watcher -/
example : ∃ σ, Reachable σ ∧ σ.registered = true ∧ σ.watching = false ∧
    σ.lastDrop = some (false, false) :=
  ⟨run (init [.acqIdle {}, .watchIdle, .reqIdle, .acqIdle {}])
      [0, 0, 0, 0, 0, 0, 0, 0, 1, 2, 2, 3, 3, 3, 3, 3, 3, 3, 3],
   reachable_run (.init _ (by decide)) _, by decide⟩

/-- the schedule of the race the pinned code had (drop decision and create-or-clear decision read
    `fast_reload` in two critical sections; another thread switches fast reload ON in between): with
    the decision taken once (fix 5725511) the acquire that dropped the watcher runs the creator, which
    re-registers — the paths are watched again.  (Before the fix this schedule ended with
    `watching = false ∧ fast = true ∧ creates = 1 ∧ clears = 1`.) -/
example : ∃ σ, Reachable σ ∧ σ.registered = true ∧ σ.watching = true ∧ σ.fast = true ∧
    σ.cur = none ∧ σ.creates = 2 ∧ σ.clears = 0 :=
  ⟨run (init [.acqIdle { script := [.watch] }, .reqIdle, .acqIdle { script := [.watch] }, .fastIdle true])
      [0, 0, 0, 0, 0, 0, 0, 0, 0, 1, 1, 2, 2, 2, 3, 2, 2, 2, 2, 2, 2, 2],
   reachable_run (.init _ (by decide)) _, by decide⟩

theorem C20_holds : C20_full := by
  intro σ h
  refine ⟨fun r hr a ha hlt => (no_lost_request h r hr a ha hlt).1, request_before_check h, ?_,
    no_spurious_create h, fun c hc hp => flag_kept_during_build h hc hp,
    unserved_request_is_pending h, panic_never_serves_stale h,
    ⟨fun a ha => ((check_under_lock h).2.1 a ha).1, (check_under_lock h).2.2.1⟩,
    ⟨(request_served_at_most_once h).1, (request_served_at_most_once h).2.1⟩⟩
  intro c hc hp
  exact guard_excludes_replace h hc hp

end MJ.C20
