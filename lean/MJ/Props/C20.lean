import MJ.Proofs.Reloader
import MJ.Model.ReloaderV
import MJ.Model.LoaderStore
import MJ.Proofs.ReloaderWindow
import MJ.Model.ReloaderLife
import MJ.Model.WatcherReg
import MJ.Gen.Tables
/-!
# C20 — the auto-reloader never loses a reload request

All theorems are about `MJ.Reloader.Reachable`: every state reachable from an initial state with
*any* number of acquiring / requesting / fast-reload-switching threads under *any* schedule, with
creator callbacks that may issue requests, switch fast reload, or fail, and a freshness callback
that may answer `true`.  Clock values are ghost (one tick per atomic step).

`Env.freshAt` = clock at which the creator call that built the environment *started*, or of the
last `clear_templates` — the most conservative reading of "created / cleared after the request".
-/
namespace MJ.C20
open MJ.Reloader

/-- the property's clauses for ONE state of the protocol -/
def C20_at (σ : State) : Prop :=
    -- a request that returned before an acquire locked: that acquire hands out a fresh environment
    (∀ r ∈ σ.reqLog, ∀ a ∈ σ.acqLog, r.retAt < a.lockedAt → r.setAt < a.env.freshAt) ∧
    -- … in fact every flag set that precedes the acquire's reload check is served
    (∀ s ∈ σ.sets, ∀ a ∈ σ.acqLog, s < a.checkedAt → s < a.env.freshAt) ∧
    -- while a guard is held, no step of any thread replaces or clears the environment
    (∀ c, σ.cur = some c → c.pc = .holding →
      (∃ a ∈ σ.acqLog, a.tid = c.tid ∧ a.lockedAt = c.lockedAt ∧ σ.env = some a.env) ∧
      ∀ i σ', step σ i = some σ' →
        σ'.env = σ.env ∧ σ'.creates = σ.creates ∧ σ'.clears = σ.clears) ∧
    -- creator calls and clears are each caused by an observation; observations are caused by requests
    (σ.creates + σ.clears ≤ σ.noneObs + σ.flagObs + σ.cbObs ∧ σ.noneObs ≤ 1 + σ.failed + σ.panicked ∧
      σ.flagObs ≤ σ.sets.length + σ.failed) ∧
    -- a request that arrives while the creator runs keeps the flag up until the next acquire
    (∀ c, σ.cur = some c → (c.pc = .created ∨ (c.pc = .holding ∧ c.built = true) ∨
        (∃ ops, c.pc = .creating ops) ∨ (∃ s ops, c.pc = .innerSet s ops)) →
      ∀ s ∈ σ.sets, c.buildStart ≤ s → σ.flag = true) ∧
    (σ.cur = none → σ.poisoned = false →
      ∀ s ∈ σ.sets, σ.flag = true ∨ ∀ e, σ.env = some e → s < e.freshAt) ∧
    -- a creator panic poisons the mutex: no guard is ever handed out afterwards
    (∀ p, σ.panicAt = some p → ∀ a ∈ σ.acqLog, a.checkedAt < p) ∧
    -- every reload decision is taken under the cached_env lock, and nobody else locks in between
    ((∀ a ∈ σ.acqLog, a.lockedAt < a.checkedAt) ∧
      ∀ a ∈ σ.acqLog, ∀ b ∈ σ.acqLog, a.lockedAt < b.lockedAt → a.checkedAt < b.lockedAt) ∧
    -- one request (or one burst of requests between two reload checks) is served at most once
    (σ.flagObs + flagUnseen σ ≤ σ.risings + σ.failed ∧ σ.risings ≤ σ.sets.length)

/-- **the property at full strength, as one statement**: under every interleaving (every state reachable
    from any number of requesting / acquiring / switching threads, incl. requests issued from inside the
    creator callback, with and without fast reload and a freshness callback) a request that has returned is
    served by the next `acquire_env` (environment created — or, fast reload, cleared — after it), also when
    it arrives while a rebuild is in progress; while a guard is held the environment is not replaced; and
    without a request the creator is not called again. -/
def C20_full : Prop := ∀ σ : State, Reachable σ → C20_at σ

/-- while somebody is inside `acquire_env` the mutex is not poisoned -/
theorem not_poisoned_of_cur {σ : State} (h : Reachable σ) {c : Active} (hc : σ.cur = some c) :
    σ.poisoned = false := by
  have hi := inv_of_reachable h
  cases hq : σ.poisoned with
  | false => rfl
  | true =>
    have h0 := hi.pois2 hq
    cases hpa : σ.panicAt with
    | none => exact absurd hpa h0
    | some p => have := (hi.pois p hpa).2.1; rw [hc] at this; cases this

/-- **Every flag set that precedes an acquire's reload check is served by that acquire**: the
    environment it hands out was built (creator started) or cleared after the set. -/
theorem request_before_check {σ : State} (h : Reachable σ) :
    ∀ s ∈ σ.sets, ∀ a ∈ σ.acqLog, s < a.checkedAt → s < a.env.freshAt := by
  intro s hs a ha hlt
  exact ((inv_of_reachable h).acqLog a ha).2.2.1 s hs hlt

example : ∃ σ, Reachable σ ∧ ∃ s ∈ σ.sets, ∃ a ∈ σ.acqLog, s < a.checkedAt ∧ a.env.gen = 2 :=
  ⟨run (init [.acqIdle {}, .reqIdle, .acqIdle {}]) [0, 0, 0, 0, 0, 0, 0, 0, 1, 2, 2, 2, 2, 2, 2, 2, 2],
   reachable_run (.init _ (by decide)) _, by decide⟩

/-- **No lost request**: a request (from any thread, or from inside the creator) that returned
    before an acquire locked the cache ⇒ that acquire hands out an environment whose creator
    started, or whose templates were cleared, after the request had set the flag. -/
theorem no_lost_request {σ : State} (h : Reachable σ) :
    ∀ r ∈ σ.reqLog, ∀ a ∈ σ.acqLog, r.retAt < a.lockedAt →
      r.setAt < a.env.freshAt ∧ r.setAt < r.retAt := by
  intro r hr a ha hlt
  have hi := inv_of_reachable h
  have h1 := hi.reqLog r hr
  have h2 := hi.acqLog a ha
  exact ⟨h2.2.2.1 r.setAt h1.1 (by have := h2.1; omega), h1.2.1⟩

/-- non-vacuity: request returns, then an acquire over an existing environment (fast reload on,
    so the templates are cleared rather than the environment rebuilt) -/
example : ∃ σ, Reachable σ ∧ ∃ r ∈ σ.reqLog, ∃ a ∈ σ.acqLog, r.retAt < a.lockedAt ∧
    a.env.gen = 1 ∧ a.env.clears = 1 :=
  ⟨run (init [.acqIdle { script := [.setFast true] }, .reqIdle, .acqIdle {}])
      [0, 0, 0, 0, 0, 0, 0, 0, 0, 1, 1, 2, 2, 2, 2, 2, 2, 2],
   reachable_run (.init _ (by decide)) _, by decide⟩

/-- a concrete reachable state with a *pending* request (flag up, stale environment cached) -/
example : ∃ σ, Reachable σ ∧ σ.flag = true ∧ σ.cur = none ∧
    ∃ e, σ.env = some e ∧ ∃ s ∈ σ.sets, e.freshAt < s :=
  ⟨run (init [.acqIdle {}, .reqIdle, .acqIdle {}]) [0, 0, 0, 0, 0, 0, 0, 0, 1, 1],
   reachable_run (.init _ (by decide)) _, by decide⟩

/-- **A guard excludes replacement**: while a guard is held the cache holds exactly the
    environment that was handed out, and no step of any thread (another acquirer is blocked,
    requesters only touch the flag, the holder can only drop the guard) changes the environment,
    calls the creator or clears the templates. -/
theorem guard_excludes_replace {σ : State} (h : Reachable σ) {c : Active}
    (hc : σ.cur = some c) (hp : c.pc = .holding) :
    (∃ a ∈ σ.acqLog, a.tid = c.tid ∧ a.lockedAt = c.lockedAt ∧ σ.env = some a.env) ∧
    ∀ i σ', step σ i = some σ' →
      σ'.env = σ.env ∧ σ'.creates = σ.creates ∧ σ'.clears = σ.clears := by
  constructor
  · have := (inv_of_reachable h).hold
    simp only [HoldLink, hc, hp] at this
    obtain ⟨a, ha, h1, h2, _, h4⟩ := this
    exact ⟨a, ha, h1, h2, h4⟩
  · intro i σ' hs
    unfold step at hs
    split at hs
    · simp [hc] at hs
    · simp only [hc] at hs
      split at hs
      · simp [stepActive, hp] at hs; cases hs; simp
      · cases hs
    all_goals (first | (cases hs; simp) | cases hs)

/-- other acquirers are blocked while the mutex is held -/
theorem acquirers_blocked {σ : State} {c : Active} (hc : σ.cur = some c) {i : Nat} {cfg : AcqCfg}
    (hi : σ.threads[i]? = some (.acqIdle cfg)) : step σ i = none := by
  simp [step, hi, hc]

example : ∃ σ, Reachable σ ∧ ∃ c, σ.cur = some c ∧ c.pc = .holding ∧ step σ 1 ≠ none ∧
    step σ 2 = none :=
  ⟨run (init [.acqIdle {}, .reqIdle, .acqIdle {}]) [0, 0, 0, 0, 0, 0, 0],
   reachable_run (.init _ (by decide)) _, by decide⟩

theorem pendingFirst_le_one (σ : State) : pendingFirst σ ≤ 1 := by
  unfold pendingFirst; repeat' split
  all_goals omega

/-- **No spurious creator call**: every creator call and every clear is caused by its own
    observation (cache empty / flag read as true / freshness callback true); the cache is found
    empty at most once plus once per failed creator call; the flag is read as true at most once
    per request (plus once per failed creator call, which re-arms it). -/
theorem no_spurious_create {σ : State} (h : Reachable σ) :
    σ.creates + σ.clears ≤ σ.noneObs + σ.flagObs + σ.cbObs ∧ σ.noneObs ≤ 1 + σ.failed + σ.panicked ∧
    σ.flagObs ≤ σ.sets.length + σ.failed := by
  have hi := inv_of_reachable h
  refine ⟨by have := hi.cntRebuild; omega, ?_, by have := hi.cntFlag; have := hi.risLe; omega⟩
  have := hi.cntNone
  have h1 := pendingFirst_le_one σ
  cases he : σ.env with
  | none => have := this.1 he; omega
  | some e => have := this.2 (by simp [he]); omega

/-- in particular: creator calls ≤ 1 + (times the flag was observed true) + (callback answers)
    as long as the creator does not fail, and ≤ 1 + (number of requests) without a callback -/
theorem creates_le {σ : State} (h : Reachable σ) (hf : σ.failed = 0) (hp : σ.panicked = 0) :
    σ.creates ≤ 1 + σ.flagObs + σ.cbObs ∧ σ.creates + σ.clears ≤ 1 + σ.sets.length + σ.cbObs := by
  have := no_spurious_create h
  omega

example : ∃ σ, Reachable σ ∧ σ.failed = 0 ∧ σ.panicked = 0 ∧ σ.creates = 2 ∧ σ.flagObs = 1 ∧ σ.acqLog.length = 3 :=
  ⟨run (init [.acqIdle {}, .reqIdle, .acqIdle {}, .acqIdle {}])
      [0, 0, 0, 0, 0, 0, 0, 0, 1, 1, 2, 2, 2, 2, 2, 2, 2, 2, 3, 3, 3, 3],
   reachable_run (.init _ (by decide)) _, by decide⟩

/-- **A request arriving while the creator runs is kept**: from the start of the creator call
    until the builder drops its guard, a flag set at or after the creator start leaves the flag up
    (only the mutex holder resets it, and it did so before calling the creator). -/
theorem flag_kept_during_build {σ : State} (h : Reachable σ) {c : Active} (hc : σ.cur = some c)
    (hp : c.pc = .created ∨ (c.pc = .holding ∧ c.built = true) ∨
      (∃ ops, c.pc = .creating ops) ∨ (∃ s ops, c.pc = .innerSet s ops)) :
    ∀ s ∈ σ.sets, c.buildStart ≤ s → σ.flag = true := by
  intro s hs hle
  have hi := inv_of_reachable h
  have h1 := hi.served (not_poisoned_of_cur h hc) s hs
  have h2 := hi.built
  rcases h1 with h1 | h1
  · exact h1
  · exfalso
    simp only [hc, BuiltOk, EnvFresh] at h1 h2
    rcases hp with hp | ⟨hp, hb⟩ | ⟨ops, hp⟩ | ⟨s', ops, hp⟩
    · simp only [hp] at h1 h2
      obtain ⟨_, e, he, _, hf, _⟩ := h2
      have := h1 e he; omega
    · simp only [hp] at h1 h2
      obtain ⟨e, he, _, hf, _⟩ := h2 hb
      have := h1 e he; omega
    · simp only [hp] at h1; omega
    · simp only [hp] at h1; omega

/-- when nobody is inside `acquire_env`, every request is either still pending (flag up) or
    served by the cached environment -/
theorem unserved_request_is_pending {σ : State} (h : Reachable σ) (hc : σ.cur = none)
    (hp : σ.poisoned = false) :
    ∀ s ∈ σ.sets, σ.flag = true ∨ ∀ e, σ.env = some e → s < e.freshAt := by
  intro s hs
  have := (inv_of_reachable h).served hp s hs
  simpa only [Served, hc, EnvFresh] using this

/-- **… and the NEXT acquire rebuilds**: if acquire `a0` ran the creator (started at `b`) and a
    request set the flag at `s ≥ b` (during or after that build), every acquire whose check comes
    after `s` hands out an environment strictly fresher than the one `a0` built. -/
theorem request_during_build_kept {σ : State} (h : Reachable σ) :
    ∀ a0 ∈ σ.acqLog, ∀ b, a0.built = some b → ∀ s ∈ σ.sets, b ≤ s →
      ∀ a' ∈ σ.acqLog, s < a'.checkedAt →
        s < a'.env.freshAt ∧ a0.env.freshAt < a'.env.freshAt ∧ a0.env.builtAt = b := by
  intro a0 ha0 b hb s hs hle a' ha' hlt
  have hi := inv_of_reachable h
  have h0 := (hi.acqLog a0 ha0).2.2.2 b hb
  have h1 := (hi.acqLog a' ha').2.2.1 s hs hlt
  exact ⟨h1, by omega, h0.1⟩

/-- non-vacuity: the creator of acquire 0 itself issues a request; acquire 1 rebuilds (gen 2) -/
example : ∃ σ, Reachable σ ∧ ∃ a0 ∈ σ.acqLog, ∃ b, a0.built = some b ∧ ∃ s ∈ σ.sets, b ≤ s ∧
    ∃ a' ∈ σ.acqLog, s < a'.checkedAt ∧ a0.env.gen = 1 ∧ a'.env.gen = 2 :=
  ⟨run (init [.acqIdle { script := [.req] }, .acqIdle {}])
      [0, 0, 0, 0, 0, 0, 0, 0, 0, 0, 1, 1, 1, 1, 1, 1, 1, 1],
   reachable_run (.init _ (by decide)) _, by decide⟩

/-- non-vacuity of `flag_kept_during_build`: a requester thread sets the flag while the creator
    of acquire 0 is running -/
example : ∃ σ, Reachable σ ∧ ∃ c, σ.cur = some c ∧ c.pc = .creating [] ∧
    ∃ s ∈ σ.sets, c.buildStart ≤ s :=
  ⟨run (init [.acqIdle {}, .reqIdle]) [0, 0, 0, 0, 0, 1],
   reachable_run (.init _ (by decide)) _, by decide⟩

/-- the `unwrap`s on the cached environment never fail: the mutex holder can always step -/
theorem holder_never_stuck {σ : State} (h : Reachable σ) {c : Active} (hc : σ.cur = some c) :
    (stepActive σ c).isSome = true := by
  have h6 := (inv_of_reachable h).envSome
  simp only [EnvSome, hc] at h6
  unfold stepActive
  repeat' split
  all_goals simp_all

/-- **a failed creator call does not lose the request** (repaired code): after the failure the
    flag is up again when the mutex is released -/
theorem failure_rearms {σ : State} (h : Reachable σ) {c : Active} (hc : σ.cur = some c)
    (hp : c.pc = .remarked) (hne : σ.sets ≠ []) : σ.flag = true := by
  obtain ⟨s, hs⟩ := List.exists_mem_of_ne_nil _ hne
  have := (inv_of_reachable h).served (not_poisoned_of_cur h hc) s hs
  simpa [Served, hc, hp] using this

/-- non-vacuity for the combination "rebuild triggered by the freshness callback (flag down) ×
    request from inside the creator × creator fails": the flag is forced up (not restored to its
    value before the rebuild), and the next acquire calls the creator again (generation 3) -/
example : ∃ σ, Reachable σ ∧ σ.failed = 1 ∧ σ.cbObs = 1 ∧ σ.flagObs = 1 ∧
    ∃ r ∈ σ.reqLog, ∃ a ∈ σ.acqLog, r.retAt < a.lockedAt ∧ a.tid = 2 ∧ a.env.gen = 3 :=
  ⟨run (init [.acqIdle {}, .acqIdle { cb := true, fails := true, script := [.req] }, .acqIdle {}])
      [0, 0, 0, 0, 0, 0, 0, 0, 1, 1, 1, 1, 1, 1, 1, 1, 1, 1, 2, 2, 2, 2, 2, 2, 2, 2],
   reachable_run (.init _ (by decide)) _, by decide⟩

example : ∃ σ, Reachable σ ∧ ∃ c, σ.cur = some c ∧ c.pc = .remarked ∧ c.sawFlag = false ∧
    σ.sets ≠ [] ∧ σ.flag = true :=
  ⟨run (init [.acqIdle {}, .acqIdle { cb := true, fails := true, script := [.req] }, .acqIdle {}])
      [0, 0, 0, 0, 0, 0, 0, 0, 1, 1, 1, 1, 1, 1, 1, 1, 1],
   reachable_run (.init _ (by decide)) _, by decide⟩


/-! ## one request is served at most once (the second half of the statement, as a sharp count) -/

/-- **A request is served at most once.**  `risings` counts the requests that found the flag DOWN
    (a burst of requests between two reload checks raises it once).  In every reachable state
    `(flag observed true so far) + (1 if the flag is up and that has not been observed yet)` is at
    most `risings + failed creator calls` — so a request whose flag-raise has been observed can never
    be observed again, and a burst of k requests before the next acquire causes ONE reload, not k.
    Together with `creates + clears + pendingRebuild = noneObs + flagObs + cbObs` (every reload has
    its own observation) this bounds the creator calls and clears exactly. -/
theorem request_served_at_most_once {σ : State} (h : Reachable σ) :
    σ.flagObs + flagUnseen σ ≤ σ.risings + σ.failed ∧ σ.risings ≤ σ.sets.length ∧
    σ.creates + σ.clears + pendingRebuild σ = σ.noneObs + σ.flagObs + σ.cbObs := by
  have hi := inv_of_reachable h
  exact ⟨by have := hi.cntFlag; omega, hi.risLe, hi.cntRebuild⟩

/-- … in the absence of other triggers (freshness callback never true, creator never fails or
    panics): reloads done + reload in progress + reload still owed ≤ 1 (the first build) + number of
    flag raises ≤ 1 + number of requests -/
theorem reloads_le_requests {σ : State} (h : Reachable σ) (hcb : σ.cbObs = 0) (hf : σ.failed = 0)
    (hp : σ.panicked = 0) :
    σ.creates + σ.clears + pendingRebuild σ + flagUnseen σ ≤ 1 + σ.risings ∧
    σ.risings ≤ σ.sets.length := by
  have h1 := request_served_at_most_once h
  have h2 := no_spurious_create h
  omega

/-- sharpness (equality): two requests, each followed by an acquire: 1 + 2 creator calls … -/
example : ∃ σ, Reachable σ ∧ σ.cbObs = 0 ∧ σ.failed = 0 ∧ σ.panicked = 0 ∧ σ.cur = none ∧
    σ.risings = 2 ∧ σ.creates = 3 ∧ σ.flagObs = 2 ∧ flagUnseen σ = 0 :=
  ⟨run (init [.acqIdle {}, .reqIdle, .acqIdle {}, .reqIdle, .acqIdle {}])
      [0, 0, 0, 0, 0, 0, 0, 0, 1, 1, 2, 2, 2, 2, 2, 2, 2, 2, 3, 3, 4, 4, 4, 4, 4, 4, 4, 4],
   reachable_run (.init _ (by decide)) _, by decide⟩

/-- … and coalescing: a burst of three requests before the next acquire is ONE flag raise and causes
    ONE creator call (`sets.length = 3`, `risings = 1`, `creates = 2`), and a further acquire without a
    request calls nothing -/
example : ∃ σ, Reachable σ ∧ σ.sets.length = 3 ∧ σ.risings = 1 ∧ σ.creates = 2 ∧ σ.flagObs = 1 ∧
    σ.acqLog.length = 3 ∧ σ.cur = none :=
  ⟨run (init [.acqIdle {}, .reqIdle, .reqIdle, .reqIdle, .acqIdle {}, .acqIdle {}])
      [0, 0, 0, 0, 0, 0, 0, 0, 1, 2, 3, 1, 2, 3, 4, 4, 4, 4, 4, 4, 4, 4, 5, 5, 5, 5],
   reachable_run (.init _ (by decide)) _, by decide⟩

/-- a pending request is owed exactly one reload: flag up, nobody inside ⇒ `flagUnseen = 1` -/
example : ∃ σ, Reachable σ ∧ σ.cur = none ∧ σ.flag = true ∧ flagUnseen σ = 1 ∧
    σ.flagObs + 1 = σ.risings + σ.failed :=
  ⟨run (init [.acqIdle {}, .reqIdle, .acqIdle {}]) [0, 0, 0, 0, 0, 0, 0, 0, 1, 1],
   reachable_run (.init _ (by decide)) _, by decide⟩

/-! ## the ORDER: the reload decision is taken while `cached_env` is held -/

/-- **check under lock** (schema over all reachable states): the holder locked before it decided; so
    did every acquire that handed out a guard; and the intervals `[lockedAt, checkedAt]` of any two
    acquires are disjoint and ordered — no other thread locks (let alone decides) between an
    acquire's lock and its decision.  This is what makes a decision CURRENT when it is acted upon. -/
theorem check_under_lock {σ : State} (h : Reachable σ) :
    (∀ c, σ.cur = some c → c.lockedAt < σ.now ∧
      (c.pc ≠ .locked → c.lockedAt < c.checkedAt ∧ c.checkedAt < σ.now)) ∧
    (∀ a ∈ σ.acqLog, a.lockedAt < a.checkedAt ∧ a.checkedAt < σ.now) ∧
    (∀ a ∈ σ.acqLog, ∀ b ∈ σ.acqLog, a.lockedAt < b.lockedAt → a.checkedAt < b.lockedAt) ∧
    (∀ c, σ.cur = some c → ∀ a ∈ σ.acqLog,
      (c.pc = .holding ∧ a.lockedAt = c.lockedAt ∧ a.checkedAt = c.checkedAt) ∨ a.checkedAt < c.lockedAt) := by
  have ho := ordInv_of_reachable h
  exact ⟨ho.cur, ho.lt, ho.pair, ho.own⟩

/-- step form: **only the lock holder observes** — a step that bumps one of the observation counters
    (cache empty / flag true / callback true) or decides `checked _` is a step of the thread that
    holds `cached_env`, taken from `.locked` -/
theorem observation_only_by_holder {σ σ' : State} {i : Nat} (hs : step σ i = some σ')
    (hobs : σ'.noneObs ≠ σ.noneObs ∨ σ'.flagObs ≠ σ.flagObs ∨ σ'.cbObs ≠ σ.cbObs) :
    ∃ c, σ.cur = some c ∧ c.tid = i ∧ c.pc = .locked := by
  unfold step at hs
  split at hs
  · split at hs
    · split at hs <;> (cases hs; simp at hobs)
    · cases hs
  · split at hs
    · rename_i c hc
      split at hs
      · rename_i htid
        refine ⟨c, hc, htid, ?_⟩
        apply Classical.byContradiction
        intro hne
        unfold stepActive at hs
        repeat' split at hs
        all_goals first
          | (cases hs; done)
          | (cases hs; simp_all)
      · cases hs
    · cases hs
  all_goals first
    | (cases hs; done)
    | (cases hs; simp at hobs)

/-- non-vacuity: the step that reads the flag as true is a step of the holder, taken from `.locked` -/
example : ∃ σ i, Reachable σ ∧ (step σ i).map (·.flagObs) = some (σ.flagObs + 1) ∧
    σ.cur.map (fun c => (c.tid, c.pc)) = some (i, .locked) :=
  ⟨run (init [.acqIdle {}, .reqIdle, .acqIdle {}]) [0, 0, 0, 0, 0, 0, 0, 0, 1, 1, 2], 2,
   reachable_run (.init _ (by decide)) _, by decide⟩

example : ∃ σ, Reachable σ ∧ ∃ a ∈ σ.acqLog, ∃ b ∈ σ.acqLog, a.lockedAt < b.lockedAt ∧
    a.checkedAt < b.lockedAt ∧ b.env.gen = 2 :=
  ⟨run (init [.acqIdle {}, .reqIdle, .acqIdle {}]) [0, 0, 0, 0, 0, 0, 0, 0, 1, 2, 2, 2, 2, 2, 2, 2, 2],
   reachable_run (.init _ (by decide)) _, by decide⟩

/-! ### why the order matters: the VARIANT that checks before it locks (`MJ/Model/ReloaderV.lean`,
    the seeded change C20-6) violates both halves of the property -/

/-- the schedule of `variant_loses_request`: acquire 0 builds generation 1 · request 1 sets the flag
    and returns · acquire 2 (its creator will fail) pre-checks (true), locks, resets the flag, starts
    the creator · acquire 3 pre-checks NOW: the flag is down → "no reload" · acquire 2's creator
    fails, the flag is re-armed, the lock released · acquire 3 locks and acts on its stale decision -/
def variantLostSchedule : List Nat :=
  [0, 0, 0, 0, 0, 0, 0, 0, 0] ++ [1, 1] ++ [2, 2, 2, 2, 2, 2] ++ [3] ++ [2, 2, 2, 2] ++ [3, 3, 3, 3, 3]

/-- **check-before-lock loses a request**: in the variant a request that returned (clock 10) long
    before acquire 3 locked (clock 21) is not served — acquire 3 hands out generation 1, built at
    clock 5.  (`no_lost_request`'s statement is false for the variant.) -/
theorem variant_loses_request :
    let σ := (runV (vinit [.acqIdle {}, .reqIdle, .acqIdle { fails := true }, .acqIdle {}])
                variantLostSchedule).base
    ∃ r ∈ σ.reqLog, ∃ a ∈ σ.acqLog, r.retAt < a.lockedAt ∧ ¬ r.setAt < a.env.freshAt := by
  decide

/-- the same threads under the same schedule (minus the pre-check steps, which do not exist) in the
    REAL protocol: acquire 3 is blocked while acquire 2 rebuilds, then checks under the lock, sees the
    re-armed flag and rebuilds (generation 3) -/
example :
    let σ := run (init [.acqIdle {}, .reqIdle, .acqIdle { fails := true }, .acqIdle {}])
      ([0, 0, 0, 0, 0, 0, 0, 0] ++ [1, 1] ++ [2, 2, 2, 2, 2] ++ [3] ++ [2, 2, 2, 2] ++ [3, 3, 3, 3, 3, 3, 3, 3])
    ∃ a ∈ σ.acqLog, a.tid = 3 ∧ a.env.gen = 3 ∧ ∀ r ∈ σ.reqLog, r.setAt < a.env.freshAt := by
  decide

/-- **check-before-lock calls the creator twice for one request**: two acquirers pre-check while the
    flag of ONE request is up; both decide to reload; the creator runs for each (3 calls: first
    build + 2), the flag was observed true twice for one raise — `no_spurious_create`'s and
    `request_served_at_most_once`'s statements are false for the variant. -/
theorem variant_spurious_create :
    let σ := (runV (vinit [.acqIdle {}, .reqIdle, .acqIdle {}, .acqIdle {}])
      ([0, 0, 0, 0, 0, 0, 0, 0, 0] ++ [1, 1] ++ [2, 3] ++ [2, 2, 2, 2, 2, 2, 2, 2] ++ [3, 3, 3, 3, 3, 3, 3, 3])).base
    σ.sets.length = 1 ∧ σ.failed = 0 ∧ σ.cbObs = 0 ∧ σ.creates = 3 ∧
      ¬ (σ.flagObs ≤ σ.sets.length + σ.failed) ∧ ¬ (σ.flagObs + flagUnseen σ ≤ σ.risings + σ.failed) := by
  decide

/-- … and the ORDER invariant itself fails in the variant: acquire 3's decision (pre-check at clock
    17) was taken while acquire 2 held the lock (locked at 12, released at 21) -/
theorem variant_decides_without_lock :
    let v := runV (vinit [.acqIdle {}, .reqIdle, .acqIdle { fails := true }, .acqIdle {}])
                (variantLostSchedule.take 18)
    (v.pre.lookup 3).isSome = true ∧ ∃ c, v.base.cur = some c ∧ c.tid = 2 := by
  decide

/-! ## environment identity (fast reload keeps the object, full reload makes a new one) -/

/-- the generation number identifies the environment object: two guards that saw the same
    generation saw the same creator call's product -/
theorem same_gen_same_env {σ : State} (h : Reachable σ) :
    ∀ a1 ∈ σ.acqLog, ∀ a2 ∈ σ.acqLog, a1.env.gen = a2.env.gen → a1.env.builtAt = a2.env.builtAt :=
  (genInv_of_reachable h).pair

/-- every guard's environment is the cached one or a predecessor of it: generations never go
    back, and for the same generation the template cache was cleared at least as often since -/
theorem handed_out_not_newer_than_cache {σ : State} (h : Reachable σ) :
    ∀ a ∈ σ.acqLog, 1 ≤ a.env.gen ∧ a.env.gen ≤ σ.creates ∧ ∃ e, σ.env = some e ∧ a.env.gen ≤ e.gen ∧
      (a.env.gen = e.gen → a.env.builtAt = e.builtAt ∧ a.env.clears ≤ e.clears) := by
  intro a ha
  have hi := genInv_of_reachable h
  obtain ⟨h1, e, he, h2, h3⟩ := hi.log a ha
  have := (hi.env e he).2.1
  exact ⟨h1, by omega, e, he, h2, fun hg => ⟨(h3 hg).1, (h3 hg).2.2⟩⟩

/-- **fast reload keeps the environment object**: the clear step changes neither the generation
    nor the build time, it only empties the template cache (`clears + 1`) -/
theorem clear_keeps_identity {σ σ' : State} {c : Active} (hc : c.pc = .toClear)
    (hs : stepActive σ c = some σ') :
    ∃ e e', σ.env = some e ∧ σ'.env = some e' ∧ e'.gen = e.gen ∧ e'.builtAt = e.builtAt ∧
      e'.clears = e.clears + 1 ∧ σ'.creates = σ.creates := by
  unfold stepActive at hs
  simp only [hc] at hs
  split at hs
  · rename_i e he; cases hs; exact ⟨e, _, he, rfl, rfl, rfl, rfl, rfl⟩
  · cases hs

/-- **full reload makes a new object**: the environment stored by a successful creator call has a
    generation that no guard handed out so far has seen -/
theorem create_is_new {σ σ' : State} (h : Reachable σ) {c : Active} (hcur : σ.cur = some c)
    (hc : c.pc = .creating []) (hf : c.cfg.fails = false) (hnp : c.cfg.panics = false)
    (hs : stepActive σ c = some σ') :
    ∃ e', σ'.env = some e' ∧ e'.gen = σ.creates ∧ ∀ a ∈ σ.acqLog, a.env.gen < e'.gen := by
  have hi := genInv_of_reachable h
  unfold stepActive at hs
  simp [hc, hf, hnp] at hs
  cases hs
  refine ⟨_, rfl, rfl, ?_⟩
  intro a ha
  obtain ⟨_, e, he, h2, _⟩ := hi.log a ha
  have := (hi.building c hcur (Or.inl ⟨[], hc⟩)).2.2 e he
  simp; omega

example : ∃ σ, Reachable σ ∧ ∃ a1 ∈ σ.acqLog, ∃ a2 ∈ σ.acqLog, a1.env.gen = a2.env.gen ∧
    a1.env.clears ≠ a2.env.clears :=
  ⟨run (init [.acqIdle { script := [.setFast true] }, .reqIdle, .acqIdle {}])
      [0, 0, 0, 0, 0, 0, 0, 0, 0, 1, 1, 2, 2, 2, 2, 2, 2, 2],
   reachable_run (.init _ (by decide)) _, by decide⟩

/-! ## the tie to the source: every access to shared state, per function, as extracted from
    minijinja-autoreload/src/lib.rs on this run (lib/tables/c20.py → `MJ.Gen.reloaderAccesses`) -/

/-- the accesses the model's steps were written against.  Reading guide (model step ← tokens):
  * `acquire_env`: lock (`lockCached`) · check (`readEnv`, `call:should_reload` = one notifier
    critical section: `readFlag`, `pollCb`, `callOnCb`) · reset (`call:prepare_and_mark_reload` …
    both `readFast` in ONE critical section … `flag=false`; its `try` cannot fail) · decide
    (`readEnv` + the fast-reload value prepare_and_mark_reload returned: no second read, fix 5725511) · creator …
    (`creator`) · store (`env=new`) | remark (`call:keep_reload_pending` = `flag=true`) + `returnErr`
    · clear (`derefEnv`, `clear`) · handout.
  * `request_reload`: set (`lockHandle`, `flag=true`) · ret (`lockHandle`, `callOnCb`).
  * the fs-watcher closure in `with_fs_watcher`: the same four tokens after its `upgrade`; the call into
    the watcher (`watch` / `unwatch`, which waits for the watcher's thread) is made under the watcher's
    OWN mutex (`lockWatcher`), after the notifier mutex was released (fix: the watcher's thread takes
    the notifier mutex in the closure — holding it across the call deadlocked the two).
  * `set_fast_reload` / `set_callback`: one critical section each.
  * every entry point starts with `upgrade`: on a dead notifier it does nothing.
  * every `lock()` result is consumed by `.unwrap()`: a poisoned mutex panics (model: the lock step
    of `acquire_env` on a poisoned `cached_env` ends the acquire with a panic). -/
def assumedAccesses : List (String × List String) := [
  ("notifier", ["call:weak"]),
  ("acquire_env", ["lockCached.unwrap", "readEnv", "call:should_reload", "call:prepare_and_mark_reload", "try",
    "readEnv", "creator", "env=new", "call:keep_reload_pending", "returnErr",
    "derefEnv", "clear", "handout"]),
  ("deref", ["derefEnv"]),
  ("request_reload", ["upgrade", "lockHandle.unwrap", "flag=true", "lockHandle.unwrap", "callOnCb"]),
  ("set_fast_reload", ["upgrade", "lockHandle.unwrap", "fast=yes"]),
  ("set_callback", ["upgrade", "lockHandle.unwrap", "setCb"]),
  ("set_on_should_reload_callback", ["upgrade", "lockHandle.unwrap", "setOnCb"]),
  ("watch_path", ["call:with_fs_watcher"]),
  ("unwatch_path", ["call:with_fs_watcher"]),
  ("persistent_watch", ["upgrade", "lockHandle.unwrap"]),
  ("is_dead", ["upgrade"]),
  ("handle", ["upgrade"]),
  ("should_reload", ["upgrade", "lockHandle.unwrap", "readFlag", "pollCb", "callOnCb"]),
  ("with_fs_watcher", ["upgrade", "lockHandle.unwrap", "upgrade", "lockHandle.unwrap", "flag=true", "lockHandle.unwrap", "callOnCb",
    "lockWatcher.unwrap"]),
  ("prepare_and_mark_reload", ["upgrade", "lockHandle.unwrap", "readFast", "readFast", "lockHandle.unwrap", "flag=false"]),
  ("keep_reload_pending", ["upgrade", "lockHandle.unwrap", "flag=true"]),
  ("weak", ["upgrade"])]

/-- **the source performs exactly the shared accesses the model assumes, in that order** -/
theorem accesses_as_modelled : MJ.Gen.reloaderAccesses = assumedAccesses := by decide

/-- **the fs-watcher notification is `request_reload`**: after upgrading its weak handle it
    performs the same critical sections (it is a requester thread of the model) -/
theorem fs_callback_is_request :
    (((MJ.Gen.reloaderAccesses.lookup "with_fs_watcher").getD []).drop 2).take 5 =
      (MJ.Gen.reloaderAccesses.lookup "request_reload").getD ["?"] ∧
    (((MJ.Gen.reloaderAccesses.lookup "with_fs_watcher").getD []).drop 7) = ["lockWatcher.unwrap"] := by decide

/-! ## a PANICKING creator (third outcome besides Ok / Err) -/

/-- **no guard is handed out after a creator panic**: the unwinding skips the arm that re-arms the
    flag and leaves the old environment cached, but it also poisons the `cached_env` mutex, and
    `acquire_env` `unwrap()`s the lock result — every guard in the log had its reload check before
    the panic. -/
theorem panic_never_serves_stale {σ : State} (h : Reachable σ) :
    ∀ p, σ.panicAt = some p → ∀ a ∈ σ.acqLog, a.checkedAt < p :=
  fun p hp => ((inv_of_reachable h).pois p hp).2.2.2

/-- step form: once poisoned, an acquire can only panic; nothing is handed out, rebuilt or cleared -/
theorem poisoned_acquire_panics {σ σ' : State} (h : Reachable σ) (hp : σ.poisoned = true)
    {i : Nat} (hs : step σ i = some σ') :
    σ'.acqLog = σ.acqLog ∧ σ'.env = σ.env ∧ σ'.creates = σ.creates ∧ σ'.poisoned = true ∧
      σ'.cur = none := by
  have hi := inv_of_reachable h
  have hn := hi.norec
  obtain ⟨p, hpa⟩ := Option.ne_none_iff_exists'.mp (hi.pois2 hp)
  have hc := (hi.pois p hpa).2.1
  unfold step at hs
  split at hs
  · simp only [hc, hp, hn] at hs
    cases hs; simp [hp, hc]
  · simp [hc] at hs
  all_goals (first | (cases hs; simp [hp, hc]) | cases hs)

/-- non-vacuity: request, rebuild whose creator panics, two more acquires: both panic on the lock -/
example : ∃ σ, Reachable σ ∧ σ.panicAt = some 15 ∧ σ.lockPanics = 2 ∧ σ.flag = false ∧
    σ.acqLog.length = 1 ∧ ∃ s ∈ σ.sets, ∃ e, σ.env = some e ∧ e.freshAt < s :=
  ⟨run (init [.acqIdle {}, .reqIdle, .acqIdle { panics := true }, .acqIdle {}, .acqIdle {}])
      [0, 0, 0, 0, 0, 0, 0, 0, 1, 1, 2, 2, 2, 2, 2, 2, 3, 4],
   reachable_run (.init _ (by decide)) _, by decide⟩

/-- **what the poison protects**: in the model VARIANT whose `lock()` recovers from the poison
    (`recoverPoison := true`, not reachable from `init`), the same schedule hands out the stale
    environment to a later acquire although the request had returned before it locked —
    `no_lost_request`'s statement is false there. -/
example :
    let σ := run { init [.acqIdle {}, .reqIdle, .acqIdle { panics := true }, .acqIdle {}] with
                   recoverPoison := true }
      [0, 0, 0, 0, 0, 0, 0, 0, 1, 1, 2, 2, 2, 2, 2, 2, 3, 3, 3, 3]
    ∃ r ∈ σ.reqLog, ∃ a ∈ σ.acqLog, r.retAt < a.lockedAt ∧ ¬ r.setAt < a.env.freshAt := by
  decide

/-! ## file-change notifications: which `notify` events request a reload
`MJ.Gen.fsEventFilter` = the `matches!` pattern of `with_fs_watcher`, evaluated by the extractor on
every concrete `EventKind` of the vendored notify-types crate (variant lists regenerated from it). -/

/-- **every event that denotes a change of file content or of the set of files requests a reload**
    (Create, Remove, Modify(Data), Modify(Name(m)) for every RenameMode m, Modify(Any)) -/
theorem every_namespace_change_event_requests :
    ∀ p ∈ MJ.Gen.fsEventFilter, fsChangesFiles p.1 = true → p.2 = true := by decide

/-- … and such a notification is a requester thread of the model (so `no_lost_request` covers it) -/
theorem fs_change_is_requester :
    ∀ p ∈ MJ.Gen.fsEventFilter, fsChangesFiles p.1 = true → fsThread p.2 = Thread.reqIdle := by decide

/-- the rename half that is the ONLY event for a file moved out of the tree / a moved root, and
    every other rename mode of the vendored notify version, are accepted -/
theorem all_rename_modes_request :
    ∀ m ∈ MJ.Gen.notifyRenameMode, (["Modify", "Name", m], true) ∈ MJ.Gen.fsEventFilter := by decide

/-- the table is exhaustive over the vendored enums: every top-level kind and every ModifyKind occurs -/
theorem fs_filter_table_exhaustive :
    (∀ k ∈ MJ.Gen.notifyEventKind, ∃ p ∈ MJ.Gen.fsEventFilter, p.1.head? = some k) ∧
    (∀ k ∈ MJ.Gen.notifyModifyKind, ∃ p ∈ MJ.Gen.fsEventFilter, p.1.take 2 = ["Modify", k]) ∧
    "From" ∈ MJ.Gen.notifyRenameMode := by decide

/-- access events (the reloader's own reads of the templates!) and metadata-only changes do not
    request a reload — "without a request the creator is not called again" -/
theorem fs_filter_excludes_access_and_metadata :
    ∀ p ∈ MJ.Gen.fsEventFilter,
      (p.1.head? = some "Access" ∨ p.1.take 2 = ["Modify", "Metadata"]) → p.2 = false := by decide

/-! ## the fs watcher's lifetime: a reload must not silence later file changes -/

/-- the source's drop condition (`if … { fs_watcher.take() }` in `prepare_and_mark_reload`, its
    4-row truth table regenerated on this run) is the model's `dropWatcher` -/
theorem drop_cond_as_modelled :
    MJ.Gen.watcherDropCond.length = 4 ∧
    ∀ p f, (MJ.Gen.watcherDropCond.lookup (p, f)) = some (dropWatcher p f) := by decide

/-- the watcher is thrown away ONLY when neither persistent_watch nor fast reload is on: with fast
    reload the creator (which registered the paths) never runs again, with persistent_watch the
    paths were registered once from outside — a dropped watcher would never be re-registered -/
theorem watcher_kept_if_fast_or_persistent :
    ∀ row ∈ MJ.Gen.watcherDropCond, (row.1.1 = true ∨ row.1.2 = true) → row.2 = false := by decide

/-- **registered paths stay watched across reloads**: in every reachable state, if `watch_path` was
    ever called then the watcher is alive, or it was thrown away by a reload that started with
    persistent_watch off AND fast reload off and nobody has re-registered since (the documented
    case: "when the environment is reloaded the watcher is cleared out, watch_path must be invoked
    again") -/
theorem watcher_alive_whenever_needed {σ : State} (h : Reachable σ) (hr : σ.registered = true) :
    σ.watching = true ∨ σ.lastDrop = some (false, false) :=
  (watchInv_of_reachable h).alive hr

/-- step form: a reload that starts while fast reload or persistent_watch is on keeps the watcher -/
theorem reload_keeps_watcher {σ σ' : State} {c : Active} (hc : c.pc = .checked true)
    (hk : σ.persistent = true ∨ σ.fast = true) (hs : stepActive σ c = some σ') :
    σ'.watching = σ.watching ∧ σ'.lastDrop = σ.lastDrop := by
  unfold stepActive at hs
  simp only [hc] at hs
  cases hs
  rcases hk with hk | hk <;> simp [dropWatcher, hk]

/-- … and a reload that dropped it goes on to run the creator (which can re-register): the
    create-or-clear decision uses the value of fast reload that the drop decision used
    (`prepare_and_mark_reload` returns it, fix 5725511), whatever other threads do in between -/
theorem dropped_then_creator_runs {σ σ' : State} {c : Active} (h : Reachable σ) (hcur : σ.cur = some c)
    (hc : c.pc = .reset) (hd : c.droppedW = true) (hs : stepActive σ c = some σ') :
    ∃ c', σ'.cur = some c' ∧ c'.pc = .toCreate := by
  have hf := ((watchInv_of_reachable h).hold c hcur).1 hd
  unfold stepActive at hs
  simp [hc, hf] at hs
  cases hs
  exact ⟨_, rfl, rfl⟩

/-- **no fast-reload clear is ever done by an acquire that threw the watcher away** — in every
    reachable state, under every interleaving with `set_fast_reload` calls of other threads -/
theorem no_clear_after_drop {σ : State} (h : Reachable σ) : σ.clearsAfterDrop = 0 :=
  (watchInv_of_reachable h).nocad

/-- a creator that calls `watch_path` re-registers -/
theorem creator_reregisters {σ σ' : State} {c : Active} {rest : List COp}
    (hc : c.pc = .creating (.watch :: rest)) (hs : stepActive σ c = some σ') :
    σ'.watching = true ∧ σ'.lastDrop = none := by
  unfold stepActive at hs
  simp [hc] at hs
  cases hs
  exact ⟨rfl, rfl⟩

/-- non-vacuity: fast reload, paths registered by the creator, a request, a reload: still watching -/
example : ∃ σ, Reachable σ ∧ σ.registered = true ∧ σ.watching = true ∧ σ.clears = 1 ∧ σ.creates = 1 :=
  ⟨run (init [.acqIdle { script := [.setFast true, .watch] }, .reqIdle, .acqIdle {}])
      [0, 0, 0, 0, 0, 0, 0, 0, 0, 0, 1, 1, 2, 2, 2, 2, 2, 2, 2],
   reachable_run (.init _ (by decide)) _, by decide⟩

/-- non-vacuity of the documented exception: registered once from OUTSIDE, neither persistent nor
    fast: the first reload silences the watcher -/
example : ∃ σ, Reachable σ ∧ σ.registered = true ∧ σ.watching = false ∧
    σ.lastDrop = some (false, false) :=
  ⟨run (init [.acqIdle {}, .watchIdle, .reqIdle, .acqIdle {}])
      [0, 0, 0, 0, 0, 0, 0, 0, 1, 2, 2, 3, 3, 3, 3, 3, 3, 3, 3],
   reachable_run (.init _ (by decide)) _, by decide⟩

/-- the schedule of the race the pinned code had (drop decision and create-or-clear decision read
    `fast_reload` in two critical sections; another thread switches fast reload ON in between): with
    the decision taken once (fix 5725511) the acquire that dropped the watcher runs the creator, which
    re-registers — the paths are watched again.  (Before the fix this schedule ended with
    `watching = false ∧ fast = true ∧ creates = 1 ∧ clears = 1`.) -/
example : ∃ σ, Reachable σ ∧ σ.registered = true ∧ σ.watching = true ∧ σ.fast = true ∧
    σ.cur = none ∧ σ.creates = 2 ∧ σ.clears = 0 :=
  ⟨run (init [.acqIdle { script := [.watch] }, .reqIdle, .acqIdle { script := [.watch] }, .fastIdle true])
      [0, 0, 0, 0, 0, 0, 0, 0, 0, 1, 1, 2, 2, 2, 3, 2, 2, 2, 2, 2, 2, 2],
   reachable_run (.init _ (by decide)) _, by decide⟩


/-! ## fast reload: what "the template cache was cleared" means (`Environment::clear_templates` =
    `LoaderStore::clear`, minijinja/src/{environment,loader}.rs; model `MJ/Model/LoaderStore.lean`) -/

/-- the fields of `LoaderStore` on which some method of the store calls a method (`self.f.m(..)`): the
    containers a lookup consults or fills — template caches, and whatever cache or index is added later.
    (`loader` is only assigned and matched on, `template_config` only borrowed.)  Regenerated. -/
def storeContainerFields : List String :=
  (MJ.Gen.loaderStoreFields.map (·.1)).filter fun f =>
    MJ.Gen.loaderStoreUses.any fun u => u.2.any fun p => p.1 == f && p.2 != "use" && p.2 != "="

/-- **`clear_templates` empties every lookup cache of the store**, over the field list regenerated from
    the source on this run: the struct has exactly the fields the model's `Store` represents; EVERY
    container field is `.clear()`ed by `LoaderStore::clear` (a new cache that `clear` forgets — e.g. a
    negative lookup cache, seeded change C20-7 — breaks this); the containers are exactly the model's two
    maps; `Environment::clear_templates` does `self.templates.clear()` and nothing else, `templates` is a
    `LoaderStore`; and the fast-reload arm of `acquire_env` calls `clear_templates`. -/
theorem clear_empties_every_lookup_cache :
    MJ.Gen.loaderStoreFields.map (·.1) = MJ.LoaderStore.modelledFields ∧
    (∀ f ∈ storeContainerFields, (f, "clear") ∈ (MJ.Gen.loaderStoreUses.lookup "clear").getD []) ∧
    storeContainerFields = ["owned_templates", "borrowed_templates"] ∧
    MJ.Gen.envClearTemplatesCalls = ["templates.clear"] ∧ MJ.Gen.envTemplatesType = "LoaderStore" ∧
    "clear" ∈ (MJ.Gen.reloaderAccesses.lookup "acquire_env").getD [] := by decide

/-- the lookup (`get`) consults only the two maps and the loader, and `set_loader` only assigns the loader:
    nothing else the store holds decides what a name resolves to -/
theorem store_lookup_reads_maps_and_loader :
    (MJ.Gen.loaderStoreUses.lookup "get").getD [] =
      [("borrowed_templates", "get"), ("owned_templates", "get_or_try_insert"), ("loader", "use")] ∧
    (MJ.Gen.loaderStoreUses.lookup "set_loader").getD [] = [("loader", "=")] ∧
    (MJ.Gen.loaderStoreUses.lookup "remove").getD [] =
      [("borrowed_templates", "remove"), ("owned_templates", "remove")] := by decide

/-- **after the clear every lookup goes to the loader** — for every store state (whatever was added, loaded,
    removed or looked up in vain before), every name, every loader answer and every compiler: the lookup
    calls the loader and answers what the loader says NOW.  With `no_lost_request` (the clear step is after
    the request: `freshAt`) this is the fast-reload half of the property in terms of what a user sees. -/
theorem cleared_env_consults_loader (ok : String → Bool) (disk : String → MJ.LoaderStore.LoadAns)
    (s : MJ.LoaderStore.Store) (name : String) (hl : s.hasLoader = true) :
    (MJ.LoaderStore.get ok disk (MJ.LoaderStore.clear s) name).called = true ∧
    (MJ.LoaderStore.get ok disk (MJ.LoaderStore.clear s) name).res = MJ.LoaderStore.fromDisk ok (disk name) ∧
    (MJ.LoaderStore.clear s).hasLoader = true :=
  ⟨(MJ.LoaderStore.get_after_clear ok disk s name hl).1, (MJ.LoaderStore.get_after_clear ok disk s name hl).2, hl⟩

/-- non-vacuity: a name that was looked up in vain, then appears on disk: after the clear it is found -/
example :
    let ok := fun _ => true
    let s0 : MJ.LoaderStore.Store := { hasLoader := true }
    let s1 := (MJ.LoaderStore.get ok (fun _ => .missing) s0 "a").store
    (MJ.LoaderStore.get ok (fun _ => .found "new") (MJ.LoaderStore.clear s1) "a").res = .tmpl "new" := by decide

/-- **why the clear is needed** (and sufficient only together with it): without it a template that was
    loaded once is answered from the memo for ever, whatever the loader would say by then -/
theorem uncleared_env_serves_memo (ok : String → Bool) (disk disk' : String → MJ.LoaderStore.LoadAns)
    (s : MJ.LoaderStore.Store) (name src : String)
    (h : (MJ.LoaderStore.get ok disk s name).res = .tmpl src) :
    (MJ.LoaderStore.get ok disk' (MJ.LoaderStore.get ok disk s name).store name).called = false ∧
    (MJ.LoaderStore.get ok disk' (MJ.LoaderStore.get ok disk s name).store name).res = .tmpl src :=
  MJ.LoaderStore.get_memoises ok disk disk' s name src h

example : (MJ.LoaderStore.get (fun _ => true) (fun _ => .found "v0") { hasLoader := true } "a").res = .tmpl "v0" := by
  decide

/-- a lookup that fails memoises nothing (no negative cache): the next lookup asks the loader again -/
theorem failed_lookup_not_cached (ok : String → Bool) (disk : String → MJ.LoaderStore.LoadAns)
    (s : MJ.LoaderStore.Store) (name : String)
    (h : ∀ src, (MJ.LoaderStore.get ok disk s name).res ≠ .tmpl src) :
    (MJ.LoaderStore.get ok disk s name).store = s :=
  MJ.LoaderStore.failed_get_leaves_store ok disk s name h

example : ∀ src, (MJ.LoaderStore.get (fun _ => true) (fun _ => .missing) { hasLoader := true } "a").res ≠ .tmpl src := by
  intro src h; simp [MJ.LoaderStore.get, List.lookup] at h


/-! ## the window without a watcher (full reload without `persistent_watch`): what is promised -/

/-- **a creator that registers its paths leaves no silent window.**  From any initial thread list in which
    every acquire's creator calls `watch_path`, in every reachable state: when nobody is inside
    `acquire_env` and an environment is cached, the paths are watched; while a guard is held they are
    watched; and the watcher is missing (with an environment cached) ONLY while the acquire that dropped it
    holds the `cached_env` lock between its flag reset and its creator's `watch_path` call (`reset` with
    `droppedW`, `toCreate`, or inside the creator with `watch` still to come) — nobody can look at the old
    environment then, and the new one is built after the registration.  A file change in that window
    produces no notification (it is not a requester thread of the model); it is seen by whatever the new
    environment loads afterwards. -/
theorem registering_creator_leaves_no_silent_window {ths : List Thread}
    (h0 : ∀ t ∈ ths, t.initial = true)
    (hreg : ∀ t ∈ ths, ∀ cfg, t = .acqIdle cfg → COp.watch ∈ cfg.script)
    {σ : State} (h : ReachableFrom ths σ) :
    (σ.cur = none → σ.env ≠ none → σ.watching = true) ∧
    (∀ c, σ.cur = some c → c.pc = .holding → σ.watching = true) ∧
    (∀ c, σ.cur = some c → σ.env ≠ none → σ.watching = false →
      (c.pc = .reset ∧ c.droppedW = true) ∨ c.pc = .toCreate ∨
      ∃ rest, COp.watch ∈ rest ∧ (c.pc = .creating rest ∨ ∃ s, c.pc = .innerSet s rest)) := by
  have hw := (winOk_of_reachableFrom h0 hreg h).2
  have hes := (inv_of_reachable (h.reachable h0)).envSome
  refine ⟨?_, ?_, ?_⟩
  · intro hc; simpa [WinOk, hc] using hw
  · intro c hc hp
    simp only [WinOk, hc, hp] at hw
    simp only [EnvSome, hc, hp] at hes
    exact hw hes
  · intro c hc he hnw
    simp only [WinOk, hc] at hw
    cases hp : c.pc <;> simp only [hp] at hw <;> simp_all

/-- non-vacuity + the window itself: a registering creator, a request, a full reload: at `BeforeCreate`
    the watcher is gone (a file change now is silent) while the lock is held … -/
example : ∃ σ, ReachableFrom [.acqIdle { script := [.watch] }, .reqIdle, .acqIdle { script := [.watch] }] σ ∧
    σ.registered = true ∧ σ.watching = false ∧ σ.env ≠ none ∧ ∃ c, σ.cur = some c ∧ c.pc = .toCreate :=
  ⟨run (init _) [0, 0, 0, 0, 0, 0, 0, 0, 0, 1, 1, 2, 2, 2, 2], reachableFrom_run .init _, by decide⟩

/-- … and when that acquire hands its guard out the paths are watched again -/
example : ∃ σ, ReachableFrom [.acqIdle { script := [.watch] }, .reqIdle, .acqIdle { script := [.watch] }] σ ∧
    σ.watching = true ∧ σ.creates = 2 ∧ ∃ c, σ.cur = some c ∧ c.pc = .holding :=
  ⟨run (init _) [0, 0, 0, 0, 0, 0, 0, 0, 0, 1, 1, 2, 2, 2, 2, 2, 2, 2, 2], reachableFrom_run .init _, by decide⟩


/-! ## notifier handles that outlive the reloader, several reloaders (`MJ/Model/ReloaderLife.lean`) -/

/-- **one strong handle per reloader, and it never leaves it** (constructions of notifier handles
    regenerated from lib.rs): the only `NotifierImplHandle::Strong(..)` is built in the PRIVATE
    `Notifier::new`; only `AutoReloader::new` calls it (so every reloader has a `NotifierImpl` of its own and
    two reloaders never share a flag); `AutoReloader::notifier()` returns `self.notifier.weak()`; no other
    function hands `self.notifier` out; the creator's argument (`prepare_and_mark_reload`) and `weak` build
    `Weak` handles.  Hence dropping the reloader kills every handle (`lstep … .drop`), and while it lives
    every upgrade succeeds. -/
theorem one_strong_handle_per_reloader :
    MJ.Gen.notifierHandleSites.filter (fun s => s.2.2 == "makeStrong") = [("Notifier::new", "priv", "makeStrong")] ∧
    MJ.Gen.notifierHandleSites.filter (fun s => s.2.2 == "call:Notifier::new") =
      [("AutoReloader::new", "pub", "call:Notifier::new")] ∧
    MJ.Gen.notifierHandleSites.filter (fun s => s.1 == "AutoReloader::notifier") =
      [("AutoReloader::notifier", "pub", "returns:self.notifier.weak")] ∧
    MJ.Gen.notifierHandleSites.all (fun s =>
      ["makeStrong", "makeWeak", "call:Notifier::new", "returns:self.notifier.weak"].contains s.2.2) = true ∧
    (MJ.Gen.notifierHandleSites.filter (fun s => s.2.2 == "makeWeak")).map (·.1) =
      ["Notifier::prepare_and_mark_reload", "Notifier::weak"] := by decide

/-- **while the reloader exists, the lifetime model is the protocol model** — every theorem above holds for
    the base state of every reachable alive state -/
theorem alive_reloader_is_protocol {l : LState} (h : LReachable l) (ha : l.alive = true) :
    Reachable l.base := alive_base_reachable h ha

/-- **a notifier handle that outlived its reloader does nothing** (request_reload, set_fast_reload,
    set_callback, watch_path, persistent_watch through any clone): no step after the drop changes the flag,
    the switches, the callbacks, the watcher, the environment, the creator / clear counters or the guard
    log, and the notifier stays dead -/
theorem dead_notifier_does_nothing {l l' : LState} {ev : LEv} (hd : l.alive = false)
    (hs : lstep l ev = some l') :
    l'.alive = false ∧ protocolState l'.base = protocolState l.base :=
  ⟨(dead_notifier_is_inert hd hs).1, (dead_notifier_is_inert hd hs).2.1⟩

/-- the drop needs exclusive ownership (no acquire in progress, no guard alive); nobody acquires afterwards;
    and whoever is inside `acquire_env` has a live notifier, so `prepare_and_mark_reload`'s
    `expect("notifier unexpectedly went away")` cannot fire -/
theorem drop_excludes_acquire {l : LState} (h : LReachable l) :
    (∀ l', lstep l .drop = some l' → l.base.cur = none ∧ l'.alive = false) ∧
    (l.alive = false → ∀ i cfg, l.base.threads[i]? = some (.acqIdle cfg) → lstep l (.thread i) = none) ∧
    (l.base.cur ≠ none → l.alive = true) :=
  ⟨fun _ hs => ⟨(drop_needs_no_guard hs).2.1, (drop_needs_no_guard hs).2.2.1⟩,
   fun hd _ _ hi => no_acquire_after_drop hd hi, holder_implies_alive h⟩

/-- non-vacuity: build, drop, then a request and a fast-reload switch through surviving handles: 2 dead
    calls, flag still down, fast reload still off -/
example : ∃ l, LReachable l ∧ l.alive = false ∧ l.deadCalls = 2 ∧ l.base.flag = false ∧ l.base.fast = false ∧
    l.base.creates = 1 :=
  ⟨lrun (linit [.acqIdle {}, .reqIdle, .fastIdle true])
     ((List.replicate 8 (LEv.thread 0)) ++ [.drop, .thread 1, .thread 2]),
   lreachable_run (.init _ (by decide)) _, by decide⟩

/-- the one exception: a `request_reload` that upgraded before the drop finishes (it owns the state) -/
example : ∃ l, LReachable l ∧ l.alive = false ∧ l.deadCalls = 0 ∧ l.base.onCalls = 1 ∧ l.base.flag = true :=
  ⟨lrun (linit [.acqIdle {}, .reqIdle]) ((List.replicate 8 (LEv.thread 0)) ++ [.thread 1, .drop, .thread 1]),
   lreachable_run (.init _ (by decide)) _, by decide⟩

/-- **several reloaders are independent copies of the protocol**: a step on one leaves the other untouched,
    and each is a reachable state of the single-reloader system (so C20 holds for each) -/
theorem several_reloaders_independent {p : PState} (h : PReachable p) :
    LReachable p.r1 ∧ LReachable p.r2 ∧
    ∀ second ev p', pstep p second ev = some p' →
      (second = true → p'.r1 = p.r1) ∧ (second = false → p'.r2 = p.r2) :=
  ⟨(reloaders_independent h).1, (reloaders_independent h).2, fun _ _ _ hs => pstep_leaves_other hs⟩

example : ∃ p, PReachable p ∧ p.r1.base.flag = true ∧ p.r2.base.flag = false ∧ p.r2.base.creates = 1 :=
  ⟨prun ⟨linit [.reqIdle], linit [.acqIdle {}]⟩
     ((false, .thread 0) :: List.replicate 8 (true, LEv.thread 0)),
   preachable_run (.init _ _ (by decide) (by decide)) _, by decide⟩


/-! ## `watch_path` from several threads (`MJ/Model/WatcherReg.lean`: `with_fs_watcher` at lock granularity) -/

/-- **concurrent registrations share one watcher**: in every reachable state of any number of `watch_path`
    threads and reloads that take the watcher out, under every interleaving: the watchers ever created are
    at most 1 + the reloads that took one out (the look-up and the installation are ONE critical section:
    `get_or_insert_with` under the notifier mutex) — and while no reload has taken it out (persistent_watch,
    fast reload) there is at most one watcher and EVERY registration made so far sits on the installed one:
    no `watch_path` call is lost, whichever thread created the watcher. -/
theorem concurrent_watch_paths_share_one_watcher {σ : MJ.WatcherReg.WState} (h : MJ.WatcherReg.WReachable σ) :
    σ.next ≤ 1 + σ.drops ∧
    (σ.drops = 0 → σ.next ≤ 1 ∧ ∀ r ∈ σ.regs, σ.slot = some r.1) := by
  have hi := MJ.WatcherReg.winv_of_reachable h
  refine ⟨?_, ?_⟩
  · have h1 := hi.count; have h2 := hi.dle
    split at h1 <;> omega
  · intro h0
    have hd : σ.dropped = [] := List.eq_nil_of_length_eq_zero (by have := hi.dle; omega)
    refine ⟨?_, ?_⟩
    · have h1 := hi.count; simp [hd] at h1; split at h1 <;> omega
    · intro r hr
      rcases hi.regs r hr with h | h
      · exact h
      · simp [hd] at h

/-- **a registration is lost only to a reload that took the watcher out** between the caller's look-up and
    now (the documented "when the environment is reloaded the watcher is cleared out, watch_path must be
    invoked again") -/
theorem registration_lost_only_by_reload {σ : MJ.WatcherReg.WState} (h : MJ.WatcherReg.WReachable σ) :
    ∀ r ∈ σ.regs, σ.slot = some r.1 ∨ r.1 ∈ σ.dropped :=
  (MJ.WatcherReg.winv_of_reachable h).regs

/-- non-vacuity: three threads register concurrently (all look the watcher up before any registers): one
    watcher, three registrations on it -/
example : ∃ σ, MJ.WatcherReg.WReachable σ ∧ σ.drops = 0 ∧ σ.next = 1 ∧ σ.regs.length = 3 ∧ σ.slot = some 0 :=
  ⟨MJ.WatcherReg.wrun (MJ.WatcherReg.winit [.wIdle 1, .wIdle 2, .wIdle 3]) [2, 0, 1, 1, 0, 2],
   MJ.WatcherReg.wreachable_run (.init _ (by decide)) _, by decide⟩

/-- the NOT promised part, as a reachable state: a `watch_path` from outside that races with a full reload
    registers on the watcher the reload has just thrown away — the path is not watched afterwards -/
example : ∃ σ, MJ.WatcherReg.WReachable σ ∧ σ.regs = [(0, 7)] ∧ σ.slot = none ∧ σ.dropped = [0] :=
  ⟨MJ.WatcherReg.wrun (MJ.WatcherReg.winit [.wIdle 7, .dIdle]) [0, 1, 0],
   MJ.WatcherReg.wreachable_run (.init _ (by decide)) _, by decide⟩

theorem C20_holds : C20_full := by
  intro σ h
  unfold C20_at
  refine ⟨fun r hr a ha hlt => (no_lost_request h r hr a ha hlt).1, request_before_check h, ?_,
    no_spurious_create h, fun c hc hp => flag_kept_during_build h hc hp,
    unserved_request_is_pending h, panic_never_serves_stale h,
    ⟨fun a ha => ((check_under_lock h).2.1 a ha).1, (check_under_lock h).2.2.1⟩,
    ⟨(request_served_at_most_once h).1, (request_served_at_most_once h).2.1⟩⟩
  intro c hc hp
  exact guard_excludes_replace h hc hp


/-! ## the served-request clause over the reloader's whole lifetime -/

/-- the served-request clause, with the guards' lock times below the clock -/
def LifeOk (σ : State) : Prop :=
  (∀ a ∈ σ.acqLog, a.lockedAt < σ.now) ∧
  (∀ r ∈ σ.reqLog, ∀ a ∈ σ.acqLog, r.retAt < a.lockedAt → r.setAt < a.env.freshAt)

theorem lifeOk_of_reachable {σ : State} (h : Reachable σ) : LifeOk σ :=
  ⟨fun a ha => by have := (check_under_lock h).2.1 a ha; omega,
   fun r hr a ha hlt => (no_lost_request h r hr a ha hlt).1⟩

theorem lifeOk_stepDead {σ σ' : State} {i : Nat} (h : LifeOk σ) (hs : stepDead σ i = some σ') : LifeOk σ' := by
  obtain ⟨h1, h2⟩ := h
  unfold stepDead at hs
  split at hs
  all_goals first
    | (cases hs; done)
    | (cases hs
       refine ⟨fun a ha => by have := h1 a ha; simp only; omega, ?_⟩
       intro r hr a ha hlt
       first
         | exact h2 r hr a ha hlt
         | (simp only [List.mem_cons] at hr
            rcases hr with hr | hr
            · subst hr; have := h1 a ha; simp only at hlt; omega
            · exact h2 r hr a ha hlt))

/-- **no request is lost over the whole lifetime**: the served-request clause holds in every state reachable
    in the lifetime model — before the drop (it is the protocol), and after it (no guard is handed out any
    more; a request that finishes late returns after every guard's lock) -/
theorem lifetime_no_lost_request {l : LState} (h : LReachable l) :
    ∀ r ∈ l.base.reqLog, ∀ a ∈ l.base.acqLog, r.retAt < a.lockedAt → r.setAt < a.env.freshAt := by
  suffices hs : LifeOk l.base from hs.2
  induction h with
  | init ths h0 => exact lifeOk_of_reachable (.init ths h0)
  | step ev hprev hs ih =>
    rename_i l0 l1
    cases hal : l1.alive with
    | true => exact lifeOk_of_reachable (alive_base_reachable (.step ev hprev hs) hal)
    | false =>
      cases ev with
      | drop =>
        simp only [lstep] at hs
        split at hs
        · cases hs
          exact ⟨fun a ha => by have := ih.1 a ha; simp only; omega, ih.2⟩
        · cases hs
      | thread i =>
        cases hal0 : l0.alive with
        | true =>
          simp only [lstep, hal0, if_true] at hs
          cases hb : step l0.base i with
          | none => simp [hb] at hs
          | some σ' => simp [hb] at hs; cases hs; simp [hal0] at hal
        | false =>
          simp only [lstep, hal0] at hs
          cases hb : stepDead l0.base i with
          | none => simp [hb] at hs
          | some σ' => simp [hb] at hs; cases hs; exact lifeOk_stepDead ih hb


/-! ## `C20_main`: what is proved, and the gap to the code as named hypotheses -/

/-- the code, seen as a transition system: states, the step of thread `i` from one lock acquisition to
    the next, and the abstraction to the model's state.  (The harness realises `step` with the
    `verif_hooks` yield points and a deterministic scheduler; `abs` is what it observes.) -/
structure RealSystem where
  S : Type
  start : List Thread → S
  step : S → Nat → Option S
  abs : S → State

inductive RealReachable (R : RealSystem) : R.S → Prop where
  | init (ths : List Thread) (h : ∀ t ∈ ths, t.initial = true) : RealReachable R (R.start ths)
  | step {s s' : R.S} (i : Nat) (h : RealReachable R s) (hs : R.step s i = some s') : RealReachable R s'

/-- the ties to the source that are DISCHARGED on every run by theorems over regenerated tables -/
structure SourceTies : Prop where
  /-- every access to shared state in lib.rs, per function, in order, is what the model's steps assume -/
  accesses : MJ.Gen.reloaderAccesses = assumedAccesses
  /-- the watcher-drop condition of `prepare_and_mark_reload` is `dropWatcher` -/
  dropCond : ∀ p f, (MJ.Gen.watcherDropCond.lookup (p, f)) = some (dropWatcher p f)
  /-- every file-change event kind of the vendored notify requests a reload -/
  fsFilter : ∀ p ∈ MJ.Gen.fsEventFilter, fsChangesFiles p.1 = true → fsThread p.2 = Thread.reqIdle
  /-- `clear_templates` empties every container field of the template store; the store has the model's fields -/
  storeFields : MJ.Gen.loaderStoreFields.map (·.1) = MJ.LoaderStore.modelledFields ∧
    (∀ f ∈ storeContainerFields, (f, "clear") ∈ (MJ.Gen.loaderStoreUses.lookup "clear").getD []) ∧
    MJ.Gen.envClearTemplatesCalls = ["templates.clear"]
  /-- one strong notifier handle per reloader, made by the private constructor only -/
  handles : MJ.Gen.notifierHandleSites.filter (fun s => s.2.2 == "makeStrong") = [("Notifier::new", "priv", "makeStrong")]

theorem source_ties_hold : SourceTies :=
  ⟨accesses_as_modelled, drop_cond_as_modelled.2, fs_change_is_requester,
   ⟨clear_empties_every_lookup_cache.1, clear_empties_every_lookup_cache.2.1, clear_empties_every_lookup_cache.2.2.2.1⟩,
   one_strong_handle_per_reloader.1⟩

/-- **C20_main.**  For ANY system that refines the model — hypotheses `H_start`, `H_refines`: the two facts
    about the Rust code that are NOT proved but validated on every run (schedule replay of all / sampled
    model schedules on the real `AutoReloader` at hook granularity, mutual-exclusion pokes, probes; they
    presuppose that `std::sync::Mutex` excludes and that a hook-to-hook segment has one critical section,
    which `SourceTies.accesses` re-checks against the source) — every reachable state of the code satisfies
    every clause of the property.  `ties` is discharged by `source_ties_hold`; the user-visible meaning of
    "cleared" is `cleared_env_consults_loader` (all inputs) under the store correspondence stream; a
    notifier that outlives its reloader, and several reloaders, are `dead_notifier_does_nothing` /
    `several_reloaders_independent`. -/
theorem C20_main (R : RealSystem) (_ties : SourceTies)
    (H_start : ∀ ths, R.abs (R.start ths) = init ths)
    (H_refines : ∀ s i s', R.step s i = some s' → step (R.abs s) i = some (R.abs s')) :
    ∀ s, RealReachable R s → Reachable (R.abs s) ∧ C20_at (R.abs s) := by
  intro s hs
  have hr : Reachable (R.abs s) := by
    induction hs with
    | init ths h => rw [H_start]; exact .init ths h
    | step i _ hstep ih => exact .step i ih (H_refines _ _ _ hstep)
  exact ⟨hr, C20_holds _ hr⟩

/-- non-vacuity of `C20_main`: the model itself is such a system (identity abstraction), and a state with a
    pending obligation is reachable in it -/
example : ∃ s, RealReachable ⟨State, init, step, id⟩ s ∧ s.reqLog ≠ [] ∧ s.acqLog.length = 2 := by
  refine ⟨run (init [.acqIdle {}, .reqIdle, .acqIdle {}]) [0, 0, 0, 0, 0, 0, 0, 0, 1, 1, 2, 2, 2, 2, 2, 2, 2, 2], ?_, by decide⟩
  have key : ∀ (sched : List Nat) (σ : State), RealReachable ⟨State, init, step, id⟩ σ →
      RealReachable ⟨State, init, step, id⟩ (run σ sched) := by
    intro sched
    induction sched with
    | nil => intro σ h; exact h
    | cons i is ih =>
      intro σ h
      simp only [run]
      cases hs : step σ i with
      | none => simpa using ih σ h
      | some σ' => exact ih σ' (RealReachable.step (R := ⟨State, init, step, id⟩) i h hs)
  exact key _ _ (RealReachable.init (R := ⟨State, init, step, id⟩) _ (by decide))

example : C20_main ⟨State, init, step, id⟩ source_ties_hold (fun _ => rfl) (fun _ _ _ h => h) =
    C20_main ⟨State, init, step, id⟩ source_ties_hold (fun _ => rfl) (fun _ _ _ h => h) := rfl

end MJ.C20
