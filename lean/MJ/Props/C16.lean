import MJ.Proofs.SerdeRT
import MJ.Proofs.SerdeHandles
import MJ.Proofs.JsonStr
import MJ.Proofs.JsonFull
import MJ.Proofs.JsonFloat
import MJ.Proofs.SerdeTotal
import MJ.Proofs.ValueSer
import MJ.Proofs.JsonSer
import MJ.Proofs.JsonBytes
import MJ.Proofs.SerdeValue
import MJ.Proofs.SerdeArg
import MJ.Proofs.SerdeMethods
import MJ.Proofs.SerdeBuf
import MJ.Proofs.SerdeDispatch
import MJ.Proofs.JsonFloatRT
import MJ.Proofs.SerdeContent
/-!
# C16 — values round-trip through serde; `tojson` emits valid, HTML-safe JSON

Model: `MJ/Model/Serde.lean` (ValueSerializer, Deserializer for Value, value-handle registry) and
`MJ/Model/Json.lean` (serde_json's writer with the engine's formatters, the `tojson`
post-processing, an independent strict JSON reader).  Tables (`MJ.Gen.tojsonReplacements`,
`MJ.Gen.jsonEscapeTable`, `MJ.Gen.jinja*Sep`) are regenerated from the sources on every run.
-/
namespace MJ.C16
open MJ.Serde MJ.Json MJ.ValueSer MJ.JsonSer

/-- The property, at full strength, about the model. -/
def C16_full : Prop :=
  -- (1) every well-formed datum of every shape deserialises from its serialisation to itself
  (∀ (s : Shape) (d : D), wf s d = true → de s (ser s d) = .ok d) ∧
  -- (2) embedded template values come back as the very same values, from any registry state,
  --     and the stateful serialiser agrees with the pure one everywhere
  (∀ (v : V) (st : HState), (serM .value (.val v) st).1 = v) ∧
  (∀ (s : Shape) (d : D) (st : HState), (serM s d st).1 = ser s d) ∧
  -- (3) the handle registry: insert-then-remove yields the value, leaves all other handles alone,
  --     and does not keep the handle
  (∀ (r : Registry) (h : Nat) (v : V), ((r.insert h v).remove h).1 = some v) ∧
  (∀ (r : Registry) (h h' : Nat) (v : V), h' ≠ h → ((r.insert h v).remove h).2.lookup h' = r.lookup h') ∧
  (∀ (r : Registry) (h : Nat) (v : V), r.lookup h = none → ((r.insert h v).remove h).2.lookup h = none) ∧
  (∀ (ops : List RegOp), (runReg ops Registry.empty).2 = (runMap ops (fun _ => none)).2) ∧
  -- (4) tojson output never contains < > & '   (for every text serde_json could have produced)
  (∀ (text : List Char) (c : Char), c ∈ tojson text → c ≠ '<' ∧ c ≠ '>' ∧ c ≠ '&' ∧ c ≠ '\'') ∧
  -- (5) every string, escaped by serde_json and post-processed by tojson (or not: auto-escaping),
  --     is read back exactly by a strict JSON string reader, wherever it occurs in the text
  (∀ (s rest : List Char), parseStrBody (tojson (escBody s) ++ '"' :: rest) = some (s, rest)) ∧
  (∀ (s rest : List Char), parseStrBody (escBody s ++ '"' :: rest) = some (s, rest)) ∧
  (∀ (s : List Char), parseJ (tojson (writeJ .jinja (.str s))) = some (.str s)) ∧
  (∀ (s : List Char), parseJ (writeJ .compact (.str s)) = some (.str s)) ∧
  -- (6) whole documents: for every value that has a JSON image (keys by string form, none / undefined /
  --     non-finite floats null, bytes as numbers, integers of every width, finite floats by their token),
  --     the text written by any of the engine's formatters — compact, Jinja separators, pretty with
  --     every indent — and post-processed by tojson (or not: auto-escaping) reads back as that image
  (∀ (v : V) (st : Style) (j : J), jsonOf v = .ok j →
      parseJ (tojson (writeJ st j)) = some j ∧ parseJ (writeJ st j) = some j) ∧
  -- (7) `de` decides every object-free value for every shape without embedded `Value`s
  (∀ (s : Shape) (v : V), valueFree s = true → objFree v = true → de s v ≠ .error .unmodelled) ∧
  -- (8) towards an external serializer (serde_json for tojson / auto-escaping) a value keeps serde's
  --     length contract: an announced `Some(n)` is exactly the number of elements / entries that
  --     follow, for every object whose iterator reports an honest size hint
  (∀ (lv : LV), Honest lv → ContractOK (serCalls lv)) ∧
  -- (9) end to end: the text serde_json (modelled on the call stream, with its `Some(0)` shortcut and the
  --     pretty formatter's indent counter) writes for a value — through tojson with any formatter or
  --     through auto-escaping — reads back as the value's JSON image
  (∀ (lv : LV) (st : Style) (j : J), Honest lv → jsonOf (toV false lv) = .ok j →
      ∃ t, writeCalls st (serCalls lv) = .ok t ∧ parseJ (tojson t) = some j ∧ parseJ t = some j) ∧
  -- (10) the internal-serialisation flag is restored by every conversion, nested and unwinding ones included
  (∀ (c : Conv) (flag : Bool), (runConv c flag).1 = flag) ∧
  -- (11) no *byte* of the UTF-8 encoding of tojson output is one of < > & '
  (∀ (text : List Char) (b : Nat), b ∈ utf8Encode (tojson text) → b ≠ 60 ∧ b ≠ 62 ∧ b ≠ 38 ∧ b ≠ 39) ∧
  -- (12) the round trip also holds through serde's buffering read path (untagged / internally tagged enums, flatten)
  --      and through a `Serde<T>` call argument
  (∀ (s : Shape) (d : D), wf s d = true → de s (normV (ser s d)) = .ok d) ∧
  (∀ (s : Shape) (d : D), wf s d = true → argConv s (.value (ser s d)) = .ok d) ∧
  -- (13) plain data read back into a `Value` keeps its JSON image
  (∀ (v w : V), cleanV v = true → reval v = .ok w → jsonOf w = jsonOf v)

/-! ## (1) round trip -/

/-- `T::deserialize(Value::from(Serde(x))) = x` for every shape of the serde data model
(bool, 8…64-bit integers in range, f32/f64 bit patterns except signalling f32 NaNs, char, string,
bytes, options of payloads that cannot themselves be `none`, unit, sequences, tuples, maps with
pairwise different float-free keys, unit/newtype/tuple/field structs, enums with
unit/newtype/tuple/struct variants and pairwise different names), nested arbitrarily. -/
theorem de_ser_roundtrip (s : Shape) (d : D) (h : wf s d = true) : de s (ser s d) = .ok d :=
  rt s d h

def exShape : Shape :=
  .struct ["id".toList, "tags".toList, "kind".toList, "pos".toList]
    [.int true 0 18446744073709551615,
     .seq (.opt .str),
     .enum ["A".toList, "B".toList, "C".toList, "D".toList]
       [.unit, .newtype (.map .char (.int false (-128) 127)), .tuple [.bool, .bytes],
        .struct ["x".toList] [.f64]],
     .tup [.f32, .nstruct .unit, .ustruct]]

def exData : D :=
  .list [.int 18446744073709551615,
         .list [.some (.str "<a>".toList), .none, .some (.str [])],
         .variant 1 (.map [(.char 'k', .int (-128)), (.char '<', .int 127)]),
         .list [.f32 2143289344, .unit, .unit]]

/-- the hypotheses are satisfiable by a deeply nested datum (u64::MAX, options, a newtype variant
holding a map with char keys, a quiet f32 NaN, units) -/
example : wf exShape exData = true := by decide
example : de exShape (ser exShape exData) = .ok exData := de_ser_roundtrip _ _ (by decide)

/-- why the statement only promises options of non-optional payloads: `Some(())` is `None` -/
example : de (.opt .unit) (ser (.opt .unit) (.some .unit)) = .ok .none := by rfl
/-- why signalling f32 NaNs are excluded: the conversion to f64 quiets them -/
example : narrow (widen 2139095041) = 2143289345 := by decide

/-- the f32 leg on its own: widening to f64 and narrowing back is the identity on bit patterns -/
theorem f32_roundtrip (b : Nat) (hb : b < 4294967296) (hq : isSNaN32 b = false) : narrow (widen b) = b :=
  narrow_widen b hb hq

example : isSNaN32 8388607 = false ∧ (8388607 : Nat) < 4294967296 := by decide  -- largest subnormal

/-! ## (2)–(3) embedded values and the handle registry -/

/-- An embedded `Value` (safe string, undefined, dynamic object, …) serialised inside any data
comes back as the very same value, whatever handles earlier (leaked) serialisations left in the
registry and wherever the wrapping handle counter stands. -/
theorem value_embedding_identity (v : V) (st : HState) : (serM .value (.val v) st).1 = v := by
  simp only [serM]
  exact serValueM_fst v st

/-- the same inside arbitrary surrounding data: the stateful serialiser computes `ser` -/
theorem value_embedding_in_context (s : Shape) (d : D) (st : HState) : (serM s d st).1 = ser s d :=
  serM_fst s d st

/-- a registry polluted by two leaked handles, counter about to wrap, handle collides with a leaked one -/
def exState : HState :=
  { last := 4294967295, reg := { single := none, overflow := [(0, .str "stale".toList false), (7, .undefined)] } }

example : (serM (.struct ["v".toList, "w".toList] [.value, .seq .value])
            (.list [.val (.str "<b>".toList true), .list [.val .undefined, .val (.obj 3)]]) exState).1
          = .map [(.str "v".toList false, .str "<b>".toList true),
                  (.str "w".toList false, .seq false [.undefined, .obj 3])] := by
  rw [value_embedding_in_context]; rfl

/-- insert-then-remove is the identity on the value … -/
theorem registry_remove_insert (r : Registry) (h : Nat) (v : V) : ((r.insert h v).remove h).1 = some v :=
  remove_insert r h v
/-- … does not disturb any other handle … -/
theorem registry_frame (r : Registry) (h h' : Nat) (v : V) (hne : h' ≠ h) :
    ((r.insert h v).remove h).2.lookup h' = r.lookup h' :=
  remove_insert_frame r h h' v hne
/-- … and does not keep the handle (no stale entry a later, wrapped-around handle could hit) -/
theorem registry_no_residue (r : Registry) (h : Nat) (v : V) (hfresh : r.lookup h = none) :
    ((r.insert h v).remove h).2.lookup h = none :=
  remove_insert_gone r h v hfresh

example : exState.reg.lookup 7 = some .undefined ∧ exState.reg.lookup 1 = none := ⟨by rfl, by rfl⟩

/-- The two-tier store (inline slot + overflow map; the fast-path condition of `insert` is
regenerated from the source as `MJ.Gen.registryInsertFastPath`) refines a finite map: for every
sequence of inserts and removes — any number of handles alive at once, resolved in any order, twice,
or never — each `remove` returns exactly what the map holds for that handle. -/
theorem registry_refines_map (ops : List RegOp) :
    (runReg ops Registry.empty).2 = (runMap ops (fun _ => none)).2 :=
  registry_refines_map_from_empty ops

/-- the general form: from any reachable registry, with the final states related as well -/
theorem registry_refines_map_from (ops : List RegOp) (r : Registry) (m : Nat → Option V) (hinv : r.Inv)
    (hm : ∀ k, r.lookup k = m k) :
    (runReg ops r).2 = (runMap ops m).2 ∧ (∀ k, (runReg ops r).1.lookup k = (runMap ops m).1 k) :=
  let h := MJ.Serde.registry_refines_map ops r m hinv hm
  ⟨h.1, h.2.1⟩

/-- three handles alive at once (what serde's buffering does), resolved first-to-last: all come back -/
example : (runReg [.ins 1 (.str "<b>".toList true), .ins 2 .undefined, .ins 3 (.obj 9), .rem 1, .rem 2, .rem 3, .rem 2]
    Registry.empty).2 = [some (.str "<b>".toList true), some .undefined, some (.obj 9), none] := by rfl

/-! ## (4) alphabet -/

theorem tojson_table_clean : replClean MJ.Gen.tojsonReplacements = true := by decide
theorem tojson_table_covers : replCovers MJ.Gen.tojsonReplacements = true := by decide

/-- `tojson` output contains none of `< > & '`, whatever text the JSON writer produced -/
theorem tojson_alphabet (text : List Char) (c : Char) (hc : c ∈ tojson text) :
    c ≠ '<' ∧ c ≠ '>' ∧ c ≠ '&' ∧ c ≠ '\'' := by
  have h := postT_alphabet MJ.Gen.tojsonReplacements tojson_table_clean tojson_table_covers text c hc
  simp only [forbidden, List.mem_cons, List.not_mem_nil, or_false, not_or] at h
  exact ⟨h.1, h.2.1, h.2.2.1, h.2.2.2⟩

example : tojson "<a href='x'>&".toList = "\\u003ca href=\\u0027x\\u0027\\u003e\\u0026".toList := by decide

/-! ## (5) strings parse back -/

theorem tojson_table_ok : TableOK MJ.Gen.tojsonReplacements := by
  constructor <;> decide

/-- every string — control characters, quotes, backslashes, literal `\ud800` text, U+2028/9, HTML
metacharacters — escaped by serde_json and made HTML-safe by `tojson` is read back exactly -/
theorem tojson_string_parses_back (s rest : List Char) :
    parseStrBody (tojson (escBody s) ++ '"' :: rest) = some (s, rest) :=
  parse_escaped MJ.Gen.tojsonReplacements tojson_table_ok s rest

/-- the same for JSON auto-escaping (no post-processing) -/
theorem autoescape_string_parses_back (s rest : List Char) :
    parseStrBody (escBody s ++ '"' :: rest) = some (s, rest) := by
  have := parse_escaped [] tableOK_nil s rest
  rwa [postT_nil] at this

example : escBody ['\x00', '"', '\\', '<', ' ', 'é'] = "\\u0000\\\"\\\\< é".toList := by decide

theorem tojson_writeStr (s : List Char) : tojson (writeStr s) = '"' :: (tojson (escBody s) ++ ['"']) := by
  have q : replOf '"' MJ.Gen.tojsonReplacements = ['"'] := by decide
  simp only [tojson, htmlSafe, writeStr, List.flatMap_cons, List.flatMap_append, List.flatMap_nil, q,
    List.append_nil, List.cons_append, List.nil_append]

/-- `{{ s|tojson }}` for a string is a JSON document that reads back as that string -/
theorem tojson_parses_back (s : List Char) : parseJ (tojson (writeJ .jinja (.str s))) = some (.str s) := by
  simp only [writeJ, writeAt, tojson_writeStr]
  unfold parseJ
  simp only [List.length_cons, pValue, skipWs]
  have hws : isWs '"' = false := by decide
  simp only [hws, Bool.false_eq_true, if_false]
  rw [tojson_string_parses_back s []]
  simp [skipWs]

/-- `{{ s }}` under JSON auto-escaping likewise -/
theorem autoescape_parses_back (s : List Char) : parseJ (writeJ .compact (.str s)) = some (.str s) := by
  simp only [writeJ, writeAt, writeStr]
  unfold parseJ
  simp only [List.length_cons, pValue, skipWs]
  have hws : isWs '"' = false := by decide
  simp only [hws, Bool.false_eq_true, if_false]
  rw [autoescape_string_parses_back s []]
  simp [skipWs]

example : parseJ (tojson (writeJ .jinja (.str "</script>\\ud800\n".toList))) = some (.str "</script>\\ud800\n".toList) :=
  tojson_parses_back _

/-! ## (6) whole documents -/

/-- any JSON value whose number tokens are well-formed, written in any style and made HTML-safe,
reads back as itself -/
theorem document_parses_back (st : Style) (j : J) (hj : NumOK j) :
    parseJ (tojson (writeJ st j)) = some j ∧ parseJ (writeJ st j) = some j := by
  refine ⟨parseJ_postT_writeJ MJ.Gen.tojsonReplacements tojson_table_ok structOK_tojson st j hj, ?_⟩
  have := parseJ_postT_writeJ [] tableOK_nil structOK_nil st j hj
  rwa [postT_nil] at this

/-- `{{ v|tojson }}`, `{{ v|tojson(indent) }}` for every indent, and `{{ v }}` under JSON
auto-escaping: for every value without finite floats the emitted text parses back to the value's
JSON image (nested arrays / objects, non-string keys by their string form, none / undefined /
non-finite floats null, bytes as numbers, integers of every width incl. 128 bit) -/
theorem tojson_parses_back_full (v : V) (st : Style) (j : J) (hff : floatFreeV v = true)
    (hj : jsonOf v = .ok j) : parseJ (tojson (writeJ st j)) = some j ∧ parseJ (writeJ st j) = some j :=
  document_parses_back st j
    (jsonOf_numOK v (fun _ => false) j (by intro b hb; simp at hb) hff hj)

/-- with finite floats as well: the float printer (`f64Text`, ryu's shortest round-trip text laid
out by `format64`) always yields a JSON number token, so the document reads back with that very
token.  (That the token *denotes* the same double is checked bit-exactly by the differential run
against Python's correctly rounded reader; proved since session 4: `float_token_roundtrip` below.) -/
theorem float_text_is_json_number (bits : Nat) : tokOK (f64Text bits) := tokOK_f64Text bits

theorem tojson_parses_back_all (v : V) (st : Style) (j : J) (hj : jsonOf v = .ok j) :
    parseJ (tojson (writeJ st j)) = some j ∧ parseJ (writeJ st j) = some j :=
  document_parses_back st j
    (jsonOf_numOK v (fun _ => true) j (fun b _ _ => tokOK_f64Text b) (floatsAll_true v) hj)

/-- the iteration order of the BTreeMap build only permutes the members -/
theorem map_order_is_permutation (kvs : List (V × V)) : (sortEntries kvs).Perm kvs := by
  have hins : ∀ (p : V × V) (l : List (V × V)), (insertSorted p l).Perm (p :: l) := by
    intro p l
    induction l with
    | nil => simp [insertSorted]
    | cons q qs ih =>
      simp only [insertSorted]
      split
      · exact List.Perm.refl _
      · exact (List.Perm.cons q ih).trans (List.Perm.swap p q qs)
  induction kvs with
  | nil => simp [sortEntries]
  | cons p ps ih =>
    simp only [sortEntries, List.foldr_cons] at ih ⊢
    exact (hins p _).trans (List.Perm.cons p ih)

def exValue : V :=
  .map [(.str "k<".toList false, .seq false [.int true 18446744073709551615, .none, .bool true, .undefined]),
        (.int false (-1), .map [(.bool true, .str "</script>'&".toList true), (.str [] false, .bytes [0, 255])]),
        (.int true 340282366920938463463374607431768211455, .seq true []),
        (.str "nan".toList false, .f64 9221120237041090560)]

example : floatFreeV exValue = true := by decide
example : ∃ j, jsonOf exValue = .ok j := ⟨_, rfl⟩

/-! ## (7) the deserializer model decides everything but objects -/

/-- for every shape without embedded `Value` fields and every value without dynamic objects, `de`
returns `ok d` or the error class `err` (never the `unmodelled` marker): serde's lenient conversions
(integer ranges, integer → float, bytes ↔ string ↔ sequence, identifiers by name / index / bytes,
unit from none / undefined) are all inside the model -/
theorem de_total_classification (s : Shape) (v : V) (hs : valueFree s = true) (hv : objFree v = true) :
    de s v ≠ .error .unmodelled :=
  decided_de s v hs hv

example : valueFree exShape = true ∧ objFree (ser exShape exData) = true := ⟨by decide, by rfl⟩

/-! ## (8) the serde length contract of `impl Serialize for Value` -/

/-- every sequence-like object (lists, tuples, one-shot iterators, `make_iterable` adapters, custom
objects with any `Enumerator` answer) announces `Some(n)` to the external serializer only when
exactly `n` elements follow; maps announce nothing -/
theorem serialize_contract (lv : LV) (h : Honest lv) : ContractOK (serCalls lv) := contract_serCalls lv h

theorem announced_len_exact (en : En) (xs : List LV) (h : Honest (.lazy en xs)) (n : Nat) (elems : List Call)
    (hc : serCalls (.lazy en xs) = .seq (some n) elems) : elems.length = n :=
  MJ.ValueSer.announced_len_exact en xs h n elems hc

/-- a one-shot iterator (hint `(0, None)`) with three items inside a list: nothing is announced for it -/
example : serCalls (.list false [.lazy (.hinted 0 none) [.leaf (.int false 1), .leaf (.int false 2), .leaf (.int false 3)]])
    = .seq (some 1) [.seq none [.int 1, .int 2, .int 3]] := rfl
example : Honest (.list false [.lazy (.hinted 0 none) [.leaf (.int false 1), .leaf (.int false 2), .leaf (.int false 3)]]) := by
  simp [Honest, HonestList, enHonest, isScalarV]

/-! ## (9) from the value's objects to the parsed text -/

/-- `impl Serialize for Value` → serde_json's serializer (modelled call by call, including the
`len == Some(0)` shortcut and `PrettyFormatter`'s indent counter) → `tojson` post-processing → a
strict JSON reader: the value's JSON image comes back, for every formatter, for every value whose
objects report honest lengths -/
theorem engine_json_end_to_end (lv : LV) (st : Style) (j : J) (h : Honest lv) (hj : jsonOf (toV false lv) = .ok j) :
    ∃ t, writeCalls st (serCalls lv) = .ok t ∧ parseJ (tojson t) = some j ∧ parseJ t = some j := by
  refine ⟨writeJ st j, writeCalls_value st lv j h hj, ?_⟩
  exact tojson_parses_back_all (toV false lv) st j hj

/-- why the length contract matters: an announced `Some(0)` followed by an element makes serde_json
write an already closed array (compact) or underflow its indent counter (pretty) -/
example : writeCalls .jinja (.seq (some 0) [.bool true]) = .ok "[], true]".toList := by rfl
example : writeCalls (.pretty 2) (.seq (some 0) [.int 1]) = .panic := by rfl
example : writeCalls (.pretty 2) (.seq none [.unit, .seq (some 0) []]) = .ok "[\n  null,\n  []\n]".toList := by rfl

/-! ## (10) the internal-serialisation flag -/

/-- every `Value::from(Serde(x))` leaves `INTERNAL_SERIALIZATION` as it found it, whatever is nested
inside and whether or not the serialisation panics (the guard's `drop` runs while unwinding) -/
theorem serialization_flag_restored (c : Conv) (flag : Bool) : (runConv c flag).1 = flag :=
  runConv_restores c flag

example : runConv (.conv [.conv [] false, .conv [.conv [] true] false, .conv [] false] false) false = (false, true) := by
  decide

/-! ## tie to the sources

The facts of the sources the models above transcribe, regenerated from /repo (and from the locked
serde_json) on every run by `lib/tables/c16.py`; if one of them changes, this theorem — or the
extraction — fails and the tie is reported broken. -/

theorem source_tie :
    -- `impl Serialize for Value`: sequences announce `o.enumerator_len()`, maps announce nothing
    MJ.Gen.valueSerSeqLen = "o.enumerator_len()" ∧ MJ.Gen.valueSerMapLen = "None" ∧
    -- `Enumerator::query_len` (= `enLen`)
    MJ.Gen.enumeratorQueryLen =
      [("Empty", "zero"), ("Iter", "exact_hint"), ("KeyValueIter", "exact_hint"), ("NonEnumerable", "none"),
       ("RevIter", "exact_hint"), ("RevKeyValueIter", "exact_hint"), ("Seq", "n"), ("Str", "len"), ("Values", "len")] ∧
    -- serde_json: the `len == Some(0)` shortcut and the pretty formatter's counters (= `wCall`, `endC`)
    MJ.Gen.serdeJsonEmptyShortcut = true ∧ MJ.Gen.serdeJsonPrettyCounter = true ∧
    -- value handles are u32 (= `serValueM`), the flag guard restores the previous flag (= `runConv`)
    MJ.Gen.valueHandleBits = 32 ∧ MJ.Gen.serializationGuardRestores = true := by
  refine ⟨by decide, by decide, by decide, rfl, rfl, rfl, rfl⟩

/-! ## second generation: bytes of the output, `Value` as a target, call arguments, the method tables -/

/-- what reaches an HTML parser is the UTF-8 encoding of the filter's output: none of its *bytes* is
`<`, `>`, `&` or `'` (all bytes of a multi-byte sequence are ≥ 0x80) -/
theorem tojson_alphabet_bytes (text : List Char) (b : Nat) (hb : b ∈ utf8Encode (tojson text)) :
    b ≠ 60 ∧ b ≠ 62 ∧ b ≠ 38 ∧ b ≠ 39 := by
  have h := postT_alphabet_bytes MJ.Gen.tojsonReplacements tojson_table_clean tojson_table_covers text b hb
  simp only [forbiddenBytes, List.mem_cons, List.not_mem_nil, or_false, not_or] at h
  exact ⟨h.1, h.2.1, h.2.2.1, h.2.2.2⟩

example : utf8Encode (tojson "é<€'𝄞".toList) =
    [195, 169, 92, 117, 48, 48, 51, 99, 226, 130, 172, 92, 117, 48, 48, 50, 55, 240, 157, 132, 158] := by decide

/-- map keys that have no JSON string form — none, undefined, bytes, sequences, maps, invalid values,
non-finite floats — make the serialiser refuse (the filter fails, nothing is emitted); every other
object-free key has one: strings as they are, integers and finite floats by their digits, booleans
`true` / `false` -/
theorem key_string_forms (k : V) (hk : objFree k = true) :
    (keyOf k = .refuse ↔
      (k = .none ∨ k = .undefined ∨ k = .invalid ∨ (∃ b, k = .bytes b) ∨ (∃ t xs, k = .seq t xs) ∨ (∃ kvs, k = .map kvs) ∨
       (∃ b, k = .f64 b ∧ f64Finite b = false))) ∧
    (keyOf k ≠ .unmodelled) := by
  cases k with
  | f64 b =>
    by_cases hf : f64Finite b = true
    · simp [keyOf, hf]
    · simp only [Bool.not_eq_true] at hf
      simp [keyOf, hf]
  | obj i => simp [objFree] at hk
  | _ => simp [keyOf]

def keyIs (k : V) (t : String) : Bool :=
  match keyOf k with
  | .ok s => s == t.toList
  | _ => false

example : keyIs (.int true 18446744073709551615) "18446744073709551615" = true ∧ keyIs (.bool true) "true" = true ∧
    keyIs (.f64 4609434218613702656) "1.5" = true ∧ keyIs (.int false (-7)) "-7" = true := by
  refine ⟨by decide +kernel, by decide +kernel, by decide +kernel, by decide +kernel⟩
example : keyOf (.seq true [.int false 1]) = .refuse ∧ keyOf .none = .refuse := ⟨rfl, rfl⟩

/-- `Value` itself as the target (`Value::deserialize(v)`, a `Value` field of a derived type, owned and
borrowed): plain data — no dynamic objects, no invalid values — reads back as its normal form
(`undefined` as `none`, strings without the safe flag, tuples as lists), nothing else changes -/
theorem value_target_reads_data (v : V) (h : cleanV v = true) : reval v = .ok (normV v) :=
  reval_clean v h

/-- … and the normal form has the same JSON image: reading a value back into a `Value` and
printing it with `tojson` gives the text the original would have given -/
theorem value_target_keeps_json_image (v w : V) (h : cleanV v = true) (hw : reval v = .ok w) :
    jsonOf w = jsonOf v := by
  rw [reval_clean v h] at hw
  injection hw with hw
  rw [← hw]
  exact jsonOf_normV v

example : cleanV exValue = true := by decide
example : reval (.seq true [.undefined, .str "<b>".toList true, .int true 18446744073709551615]) =
    .ok (.seq false [.none, .str "<b>".toList false, .int true 18446744073709551615]) := by rfl
example : reval (.seq false [.obj 1]) = .error .unmodelled ∧ reval (.map [(.str [] false, .invalid)]) = .error .err :=
  ⟨rfl, rfl⟩

/-- serde's buffering read path — untagged and internally tagged enums, `#[serde(flatten)]` — first
copies the value into serde's own `Content` tree by `deserialize_any` (which forgets exactly what
`normV` forgets: undefined vs none, the safe flag, tuple vs list) and then drives the visitor of the
type from that copy.  `de` cannot tell a value from its normal form … -/
theorem buffered_read_same (s : Shape) (v : V) : de s (normV v) = de s v := de_normV s v

/-- … hence the round trip also holds through the buffer -/
theorem buffered_roundtrip (s : Shape) (d : D) (h : wf s d = true) : de s (normV (ser s d)) = .ok d :=
  buffered_rt s d h

/-- (the copy differs from the value: the tuple inside became a list) -/
example : normV (.seq true [.undefined]) = .seq false [.none] := rfl
example : de exShape (normV (ser exShape exData)) = .ok exData := buffered_roundtrip _ _ (by decide)

/-! ### member order of the two map implementations -/

/-- `preserve_order` build (IndexMap): a new key goes to the end … -/
theorem indexmap_new_key_goes_last (m : List (V × V)) (k v : V) (h : ∀ p ∈ m, keyEq p.1 k = false) :
    mapInsert m k v = m ++ [(k, v)] :=
  mapInsert_fresh m k v h

/-- … an existing key keeps its position and takes the new value … -/
theorem indexmap_existing_key_keeps_position (pre post : List (V × V)) (k k' v v' : V)
    (hpre : ∀ p ∈ pre, keyEq p.1 k = false) (hk : keyEq k' k = true) :
    mapInsert (pre ++ (k', v') :: post) k v = pre ++ (k', v) :: post := by
  induction pre with
  | nil => simp [mapInsert, hk]
  | cons p ps ih =>
    obtain ⟨a, b⟩ := p
    have h1 : keyEq a k = false := hpre (a, b) (by simp)
    have h2 := ih (fun q hq => hpre q (by simp [hq]))
    simp only [List.cons_append, mapInsert, h1, Bool.false_eq_true, if_false, h2]

/-- … so entries with pairwise different keys are listed (and printed by `tojson`) in insertion order;
the default build (BTreeMap) lists a permutation of them (`map_order_is_permutation`), the one
`Value::cmp` sorts them into, which the correspondence run predicts member by member -/
theorem indexmap_insertion_order (kvs : List (V × V)) (h : distinctKeys (kvs.map Prod.fst) = true) :
    buildMap kvs = kvs :=
  buildMap_distinct kvs h

example : buildMap [(.str "b".toList false, .int false 1), (.str "a".toList false, .int false 2), (.str "b".toList true, .int false 3)]
    = [(.str "b".toList false, .int false 3), (.str "a".toList false, .int false 2)] := by rfl

/-- `Serde<T>` as the type of a function / filter / test / method parameter: a serialised datum
handed to the call arrives as the original datum -/
theorem arg_roundtrip (s : Shape) (d : D) (h : wf s d = true) : argConv s (.value (ser s d)) = .ok d :=
  MJ.Serde.arg_roundtrip s d h

/-- a `Serde<T>` parameter is never filled from the keyword arguments or from nothing -/
theorem arg_needs_value (s : Shape) :
    argConv s .missing = .error .missingArgument ∧ argConv s .kwargs = .error .invalidOperation :=
  MJ.Serde.arg_needs_value s

/-- `Option<Serde<T>>`: `none` means "not given", so the round trip holds for every `T` that cannot
serialise to `none` -/
theorem arg_opt_roundtrip (s : Shape) (d : D) (hs : mayBeNone s = false) (h : wf s d = true) :
    argConvOpt s (.value (ser s d)) = .ok (some d) :=
  MJ.Serde.arg_opt_roundtrip s d hs h

example : argConv exShape (.value (ser exShape exData)) = .ok exData := arg_roundtrip _ _ (by decide)
example : mayBeNone exShape = false := by decide
example : argConvOpt (.opt .bool) (.value (ser (.opt .bool) .none)) = .ok none := by rfl

/-- Every method of serde's `Serializer` and `Deserializer` traits (regenerated from the locked
serde_core) is accounted for: `ValueSerializer` implements exactly the methods `MJ.Serde.ser`
transcribes; `impl Deserializer for Value` answers `deserialize_any`, `_option`, `_enum`,
`_unit_struct`, `_newtype_struct` itself, forwards the 24 other hints to `deserialize_any` and leaves
`deserialize_i128` / `_u128` to the trait's provided body (an error: 128-bit integers cannot be
deserialised); the borrowed deserializer implements the same five methods by delegating to the
owned one -/
theorem all_serde_methods_modelled :
    (MJ.Gen.serdeSerializerTrait.map (·.1) = MJ.SerdeMethods.serModel.map (·.1)) ∧
    (MJ.Gen.valueSerializerMethods = MJ.SerdeMethods.serModel.map (·.1)) ∧
    (MJ.Gen.valueCompoundSerializers = MJ.SerdeMethods.compoundModel) ∧
    (MJ.Gen.serdeDeserializerTrait.map (fun p => (p.1, MJ.SerdeMethods.disp p.1)) = MJ.SerdeMethods.deModel) ∧
    (MJ.Gen.refValueDeserializerExplicit = MJ.Gen.valueDeserializerExplicit ∧ MJ.Gen.refValueDeserializerDelegates = true) ∧
    -- no impl overrides anything else of the traits (`is_human_readable`, `collect_str`, …)
    (MJ.Gen.valueSerdeImplOtherFns = []) :=
  MJ.SerdeMethods.all_serde_methods_modelled

/-- the method a type of shape `s` calls has a body of its own exactly for options, unit structs,
newtype structs and enums (and `Value`); every other hint is ignored, which is why `de` may decide
by the value alone -/
theorem shape_dispatch (s : Shape) :
    MJ.SerdeMethods.disp (MJ.SerdeMethods.methodOfShape s) =
      (if MJ.SerdeMethods.ownArm s then .explicit else .forwardAny) :=
  MJ.SerdeMethods.shape_dispatch s

example : MJ.SerdeMethods.methodOfShape exShape = "deserialize_struct" ∧
    MJ.SerdeMethods.disp "deserialize_i128" = .unsupported := ⟨rfl, by decide⟩

/-- `deserialize_ignored_any` is forwarded like every other hint: an entry that names no field is
still walked, so an invalid value (or a plain object) inside it fails the whole struct -/
theorem ignored_fields_are_walked (names : List Str) (ss : List Shape) (kvs : List (V × V)) (e : Err)
    (hk : allStrKeys kvs = true) (h : ignoredOK names kvs = .error e) :
    de (.struct names ss) (.map kvs) = .error e := by
  simp only [de, hk, if_true, h, guardR]

example : de (.struct ["a".toList] [.int true 0 255])
    (.map [(.str "a".toList false, .int true 1), (.str "z".toList false, .seq false [.int true 2, .invalid])]) = .error .err := by rfl
example : de (.struct ["a".toList] [.int true 0 255])
    (.map [(.str "a".toList false, .int true 1), (.str "z".toList false, .seq false [.int true 2, .undefined])]) = .ok (.list [.int 1]) := by rfl

/-- the scalar arms of `ValueSerializer`, the arms of `deserialize_any`, the bodies of the four other
explicit methods and the arms of `impl Serialize for Value` towards an external serializer, as the
sources have them now, are the ones `ser`, `de`, `serCalls` / `jsonOf` transcribe -/
theorem serde_arms_as_modelled :
    MJ.Gen.valueSerializerPrimArms = MJ.SerdeMethods.primArmsModel ∧
    MJ.Gen.valueDeserializeAnyArms = MJ.SerdeMethods.anyArmsModel ∧
    MJ.Gen.valueDeserializeOptionAsModelled = true ∧
    MJ.Gen.valueDeserializeUnitStruct = "self.deserialize_unit(visitor)" ∧
    MJ.Gen.valueDeserializeNewtypeStruct = "visitor.visit_newtype_struct(self)" ∧
    MJ.Gen.valueSerializeExternalArms = MJ.SerdeMethods.externalArmsModel :=
  MJ.SerdeMethods.serde_arms_as_modelled

/-- `impl ArgType for Serde<T>` (keyword arguments refused, nothing = missing argument, otherwise
`T::deserialize(value)`) and `impl ArgType for Option<T>` (nothing / none / undefined = `None`) read as
`argConv` / `argConvOpt` transcribe them -/
theorem arg_conversion_as_modelled :
    MJ.Gen.serdeArgTypeAsModelled = true ∧ MJ.Gen.optionArgTypeAsModelled = true := ⟨rfl, rfl⟩

/-! ## (14) the deserializer looks at the value, not at its storage -/

open MJ.SerdeDispatch in
/-- `deserialize_any`, `_option`, `_enum`, `_unit_struct`, `_newtype_struct` and the four variant accesses
(`unit_variant`, `newtype_variant_seed`, `tuple_variant`, `struct_variant`), read arm by arm from
deserialize.rs as it is now (`SERDE_DE_DISPATCH`: a Rust `match` takes the first arm whose pattern
selects the source), do on each of the 16 representations — and on the absent payload of a variant —
exactly what the dispatch written by kind (`spec`) says; `Value::kind()` knows every representation and
gives representations of one serde-visible kind one kind.  An arm keyed on `SmallStr` without `String`,
on `U64` without … or guarded by anything but the object's `repr()` fails this. -/
theorem deserializer_dispatch_as_modelled :
    (∀ fn ∈ valueFns, ∀ r : Repr, resolve (armsOf fn) (.val r) = spec fn (some r.skind)) ∧
    (∀ fn ∈ variantFns, ∀ s : Src, resolve (armsOf fn) s = spec fn s.skind) ∧
    (∀ r : Repr, (kindName r).isSome = true) ∧ kindsMatch = true :=
  ⟨value_fn_resolves, variant_fn_resolves, kind_total, kinds_match⟩

open MJ.SerdeDispatch in
/-- two representations of one kind — a small string and a heap or safe string, none and undefined — are
dispatched alike by every function of deserialize.rs that matches on its source -/
theorem deserializer_dispatch_is_by_kind (fn : String) (h : fn ∈ valueFns ++ variantFns) (r1 r2 : Repr)
    (hk : r1.skind = r2.skind) : resolve (armsOf fn) (.val r1) = resolve (armsOf fn) (.val r2) :=
  dispatch_by_kind fn h r1 r2 hk

open MJ.SerdeDispatch in
example : resolve (armsOf "Value::deserialize_enum") (.val .smallStr) = some "variant_is_self" ∧
    resolve (armsOf "Value::deserialize_enum") (.val .string) = some "variant_is_self" ∧
    resolve (armsOf "Value::deserialize_enum") (.val .u64) = some "err" ∧
    resolve (armsOf "Variant::tuple_variant") (.val .objIterable) = some "err" ∧
    resolve (armsOf "Variant::tuple_variant") (.val .objSeq) = some "seq_any" ∧
    resolve (armsOf "Variant::unit_variant") .absent = some "ok_unit" := by decide +kernel

open MJ.SerdeDispatch in
/-- the probe model (every trait method on every kind, run against the real code by the `rk` stream): a unit
variant named by a string of either storage, a tuple variant from a single-entry map, an option from none -/
example : probe "enum:unit" Repr.smallStr.skind (.str "Ab".toList false) = some "enum(str:4162;unit:ok)" ∧
    probe "enum:unit" Repr.string.skind (.str "Ab".toList false) = some "enum(str:4162;unit:ok)" ∧
    probe "enum:tuple" .map (.map [(.str "V".toList false, .seq false [.int true 1, .none])]) = some "enum(str:56;seq[u64:1,unit])" ∧
    probe "option" .unit .undefined = some "unit" ∧ probe "u8" .i128 (.int false 4) = some "i128:4" ∧
    probe "i128" .i64 (.int false 4) = none := by decide +kernel

/-! ## (15) the digits of a float token lie in the double's rounding interval -/

/-- `shortestDec` (the digits and exponent `f64Text` lays out) is, for EVERY finite non-zero double, a decimal
inside the rounding interval of the double — between the midpoints to its neighbours, the lower one at half
distance for a power of two, end points included exactly when the significand is even — so a correctly rounded
(round-to-nearest-even) reader of `d·10^k` gives the double back.  (The exact search always stops at a
candidate: `f64Found_all`.) -/
theorem float_digits_read_back (bits : Nat) (hfin : f64Finite bits = true)
    (hnz : bits % 9223372036854775808 ≠ 0) : ReadsBack bits (shortestDec bits).1 (shortestDec bits).2 :=
  shortestDec_reads_back_all bits hfin hnz

/-- the digit search never runs out of steps -/
theorem float_digit_search_terminates (bits : Nat) (hfin : f64Finite bits = true)
    (hnz : bits % 9223372036854775808 ≠ 0) : f64Found bits = true := by
  apply f64Found_all
  · simpa [f64Finite] using hfin
  · omega

-- 0.1, 2^-1074 (the smallest subnormal), the largest double, 2^53: the search stops, and the digits are the known ones
example : f64Found 4591870180066957722 = true ∧ shortestDec 4591870180066957722 = (1, -1) ∧
    f64Found 1 = true ∧ shortestDec 1 = (5, -324) ∧
    f64Found 9218868437227405311 = true ∧ shortestDec 9218868437227405311 = (17976931348623157, 292) ∧
    f64Found 4845873199050653696 = true ∧ shortestDec 4845873199050653696 = (9007199254740992, 0) := by
  decide +kernel

-- 0.3 is not in the rounding interval of the double 0.1 + 0.2 (bits 4599075939470750516): the statement is not vacuous
example : ¬ ReadsBack 4599075939470750516 3 (-1) ∧ ReadsBack 4599075939470750516 30000000000000004 (-17) := by
  decide +kernel

/-- **the printed float token denotes the same double** (all finite doubles, ±0 included): `f64Text bits` is the
double's sign followed by a body that an independent digit-by-digit reader (`readTok`: integer part, fraction,
exponent) evaluates to a decimal inside the double's rounding interval — so every correctly rounded reader
returns the double (`float_token_reads_back`).  Rests on the transcription of ryu's output into `shortestDec` /
`layoutF` (validated: every float text is predicted character for character), no longer on a reader run. -/
theorem float_token_roundtrip (bits : Nat) (hfin : f64Finite bits = true) :
    ∃ body, f64Text bits = (if bits / 9223372036854775808 % 2 = 1 then ['-'] else []) ++ body ∧
      ((bits % 9223372036854775808 ≠ 0 ∧
          ∃ d k, sameDec (readTok body).1 (readTok body).2 d k ∧ ReadsBack bits d k) ∨
        (bits % 9223372036854775808 = 0 ∧ (readTok body).1 = 0)) :=
  f64Text_denotes bits hfin

-- 0.1 + 0.2 prints as 0.30000000000000004, which the reader evaluates to 30000000000000004·10^-17; 1e21 prints
-- with an exponent; -0.0 keeps its sign
example : f64Text 4599075939470750516 = "0.30000000000000004".toList ∧
    readTok "0.30000000000000004".toList = (30000000000000004, -17) ∧
    f64Text 4921056587992461136 = "1e21".toList ∧ readTok "1e21".toList = (1, 21) ∧
    readTok "1.7976931348623157e308".toList = (17976931348623157, 292) ∧
    f64Text 9223372036854775808 = "-0.0".toList := by decide +kernel

/-! ## (16) serde's `Content` buffer -/

open MJ.SerdeDispatch in
/-- whatever `Content::deserialize(value)` (untagged / internally / adjacently tagged enums, flatten) manages to
buffer — every value without invalid values, dynamic objects and 128-bit integers, dispatched by kind like
`deserialize_any` — shows a later visitor exactly the normal form `normV` of the value: none for undefined, no
safe flag, lists for tuples -/
theorem content_buffer_is_normal_form (v : V) (c : Content) (h : toContent v = some c) : ofContent c = normV v :=
  ofContent_toContent v c h

open MJ.SerdeDispatch in
/-- so a datum comes back through the buffer: reading the buffered copy of its serialisation with the visitor of
its shape gives the datum -/
theorem content_buffer_roundtrip (s : Shape) (d : D) (c : Content) (hwf : wf s d = true)
    (h : toContent (ser s d) = some c) : de s (ofContent c) = .ok d := by
  rw [ofContent_toContent _ c h]
  exact buffered_roundtrip s d hwf

open MJ.SerdeDispatch in
example : toContent (.map [(.str "a".toList true, .seq true [.undefined, .int true 7])]) =
      some (.map [(.str "a".toList, .seq [.unit, .u64 7])]) ∧
    ofContent (.map [(.str "a".toList, .seq [.unit, .u64 7])]) =
      .map [(.str "a".toList false, .seq false [.none, .int true 7])] ∧
    toContent (.seq false [.int false 170141183460469231731687303715884105727]) = none :=
  ⟨by rfl, by rfl, by rfl⟩

/-- the full statement holds for the model -/
theorem c16_full : C16_full :=
  ⟨de_ser_roundtrip, value_embedding_identity, value_embedding_in_context, registry_remove_insert,
   registry_frame, registry_no_residue, registry_refines_map, tojson_alphabet, tojson_string_parses_back,
   autoescape_string_parses_back, tojson_parses_back, autoescape_parses_back,
   tojson_parses_back_all, de_total_classification, serialize_contract, engine_json_end_to_end,
   serialization_flag_restored, tojson_alphabet_bytes, buffered_roundtrip, arg_roundtrip,
   value_target_keeps_json_image⟩

/-! ## the property about the code, with the gap between it and the model named

`c16_full` is about the model.  What the property says about `/repo` follows from it under the ties below,
each of which names how the check establishes it (a regenerated table with a theorem over it, a
correspondence stream, or validation only). -/

/-- the entry points the property observes, as functions of the code under test -/
structure Impl where
  /-- `Value::from(Serde(x))` for `x` of a type of shape `s` holding `d` -/
  toValue : Shape → D → V
  /-- `T::deserialize(value)` (owned or borrowed) for a type of shape `s` -/
  fromValue : Shape → V → R D
  /-- the text `{{ v|tojson }}` / `tojson(indent)` renders in a formatter style (`none`: the filter fails) -/
  tojsonText : Style → V → Option (List Char)
  /-- the text `{{ v }}` renders under JSON auto-escaping -/
  autoescapeText : V → Option (List Char)

/-- what ties the code to the model -/
structure Ties (I : Impl) : Prop where
  /-- `ValueSerializer` builds what `ser` builds.  Checked: streams `rt` / `x` / `buf` / `arg` compare the
  serialised value of every case with `ser`; tables `SERDE_METHODS`, `SERDE_ARMS` (`all_serde_methods_modelled`,
  `serde_arms_as_modelled`). -/
  ser_as_model : ∀ s d, wf s d = true → I.toValue s d = ser s d
  /-- the deserializer, driven by the visitor serde derives for the shape, answers what `de` answers on
  serialised data.  Checked: streams `rt` / `x` / `lde` / `rk` (every trait method on every representation);
  tables `SERDE_DE_DISPATCH` (`deserializer_dispatch_as_modelled`), `SERDE_METHODS`, `SERDE_ARMS`. -/
  de_as_model : ∀ s d, wf s d = true → I.fromValue s (ser s d) = de s (ser s d)
  /-- serde_json's writer with the engine's formatter, post-processed by the filter, emits `tojson (writeJ st j)`
  for a value with JSON image `j`.  Checked: stream `json` predicts every emitted text character for character
  (29 entry points, both map builds); tables `TOJSON_REPLACEMENTS`, `JINJA_JSON_SEPARATORS`, `SERDE_JSON_ESCAPE`,
  `SERDE_JSON_COMPOUND`, `VALUE_SERIALIZE_LENGTHS` (`source_tie`). -/
  tojson_as_model : ∀ st v j, jsonOf v = .ok j → I.tojsonText st v = some (tojson (writeJ st j))
  /-- JSON auto-escaping emits the compact text unprocessed.  Checked: stream `json`, modes `auto_*`. -/
  autoescape_as_model : ∀ v j, jsonOf v = .ok j → I.autoescapeText v = some (writeJ .compact j)

/-- **C16 about the code.**  Under the ties: (a) every well-formed datum of every shape comes back from its
template value; (b) `tojson`, in every formatter style, emits text that an independent strict JSON reader reads
back as the value's JSON image, and the text contains none of `< > & '`; (c) so does JSON auto-escaping (apart
from the alphabet); (d) with a correctly rounded reader of number tokens, a finite double printed inside any
such text is read as the same double (`CorrectlyRounded` is the specification of the reader, which is not part
of the engine: sign, then a body whose digits denote a decimal inside the double's rounding interval). -/
theorem C16_main (I : Impl) (T : Ties I) (readNumber : List Char → Option Nat)
    (hreader : CorrectlyRounded readNumber) :
    (∀ s d, wf s d = true → I.fromValue s (I.toValue s d) = .ok d) ∧
    (∀ st v j, jsonOf v = .ok j → ∃ t, I.tojsonText st v = some t ∧ parseJ t = some j ∧
        ∀ c ∈ t, c ≠ '<' ∧ c ≠ '>' ∧ c ≠ '&' ∧ c ≠ '\'') ∧
    (∀ v j, jsonOf v = .ok j → ∃ t, I.autoescapeText v = some t ∧ parseJ t = some j) ∧
    (∀ bits, bits < 18446744073709551616 → f64Finite bits = true →
        ∃ t, jsonOf (.f64 bits) = .ok (.num t) ∧ readNumber t = some bits) := by
  refine ⟨?_, ?_, ?_, ?_⟩
  · intro s d h
    rw [T.ser_as_model s d h, T.de_as_model s d h]
    exact de_ser_roundtrip s d h
  · intro st v j hj
    exact ⟨_, T.tojson_as_model st v j hj, (tojson_parses_back_all v st j hj).1,
      fun c hc => tojson_alphabet _ c hc⟩
  · intro v j hj
    exact ⟨_, T.autoescape_as_model v j hj, (tojson_parses_back_all v .compact j hj).2⟩
  · intro bits hlt hb
    exact ⟨f64Text bits, by simp only [jsonOf, hb, if_true], float_token_reads_back readNumber hreader bits hlt hb⟩

/-- the model itself is an implementation that satisfies the ties (they are not contradictory) -/
def modelImpl : Impl where
  toValue := ser
  fromValue := de
  tojsonText st v := match jsonOf v with
    | .ok j => some (tojson (writeJ st j))
    | _ => none
  autoescapeText v := match jsonOf v with
    | .ok j => some (writeJ .compact j)
    | _ => none

example : Ties modelImpl :=
  ⟨fun _ _ _ => rfl, fun _ _ _ => rfl,
   fun st v j hj => by simp only [modelImpl, hj], fun v j hj => by simp only [modelImpl, hj]⟩

end MJ.C16
