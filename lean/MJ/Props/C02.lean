import MJ.Proofs.SafeFrag
/-!
# C02 — HTML auto-escaping is sound: unsafe data is escaped exactly once

Property theorems only (helper lemmas: `MJ/Proofs/Safe.lean`, `MJ/Proofs/SafeInv.lean`; model:
`MJ/Model/Safe.lean`).

Every execution of a template is a sequence of the primitive steps of `MJ.Safe.Step`: values enter
as `data` (context strings, string literals), template text is written by `raw`, expressions are
written by `emit`, captures (`set`/`filter`/`call` blocks, `super()`, recursive `loop(…)`) are
`beginCapture … endCapture`, macro and call-block results are `beginCapture … macroReturn`, and
every operator or filter is `apply g` for its model `g`.  The safe-marking-free fragment of the
property is: every `emit` happens in Html mode and every applied `g` preserves the invariant —
which is *proved* for the model of every operator and filter except `safe` and `tojson`, and which
for the class-only filters (`forward`, `normal`) follows from the class predicate that the harness
checks on the real filters.
-/
namespace MJ.C02
open MJ MJ.Safe

/-- the invariant: a `Safe` value (recursively in containers) contains no `< > " '` that came from data -/
abbrev Inv (v : V) : Prop := v.Inv

/-- Full-strength statement: whatever sequence of steps a template of the fragment performs —
    through operators, filters, loops, macros, call blocks, captured blocks, includes and blocks —
    the rendered output contains no `< > " '` that came from context data or string literals. -/
def C02_full : Prop :=
  ∀ (steps : List Step) (st : St), (∀ s ∈ steps, StepOk s) → run steps {} = some st → Clean st.out

/-- `HtmlEscape` leaves no metacharacter at all — re-proved against the table and the range
    pre-filter regenerated from `utils.rs` -/
theorem escape_kills_meta (s : TStr) : ∀ ch ∈ htmlEscape s, isMeta ch.c = false :=
  htmlEscape_noMeta s

/-- so does the string path of `write_with_html_escaping` with its own pre-filter
    `needs_html_escaping` (a string it lets through verbatim contains no metacharacter) -/
theorem write_string_kills_meta (s : TStr) : ∀ ch ∈ escapeStr s, isMeta ch.c = false :=
  escapeStr_noMeta s

/-- `<`, `>`, `"`, `'` and `&` all lie inside the range pre-filter of `HtmlEscape`, have a table
    row, and are seen by `needs_html_escaping` — none is skipped -/
theorem meta_in_prefilter_range :
    ∀ c ∈ ['<', '>', '"', '\'', '&'], (escapeOf c).isSome = true ∧ needsChar c = true := by decide

/-- `write_escaped` in Html mode is sound for values of **every** kind: a value that is not a Safe
    string — unmarked string, bytes (valid UTF-8 or not), number, boolean, none, undefined, list,
    map, any other object — is written without a single `< > " '` -/
theorem write_escaped_kills_meta_all_kinds (v : V) (h : ∀ s, v ≠ .str s true) :
    ∀ ch ∈ writeEscaped .html v, isMeta ch.c = false := by
  have : writeEscaped .html v = writeHtml v := by
    unfold writeEscaped
    split
    · rename_i s; exact absurd rfl (h s)
    · rfl
  rw [this]
  exact writeHtml_noMeta_nonstr v

/-- the decision structure of `write_escaped` / `write_with_html_escaping` regenerated from
    `utils.rs` (safe bypass first, mode dispatch, the integer / boolean fast paths, the string path
    `as_str` → pre-filter or escaper, `Undefined | None | Bool | Number` → Display, everything else →
    escaper on `to_string()`) is the one the model transcribes -/
theorem write_escaped_dispatch_matches : Gen.c02WriteEscapedDispatch = modelDispatch := by decide

/-- `Value::as_str` gives text for strings and for valid UTF-8 bytes only, as the model assumes -/
theorem as_str_arms_match : Gen.c02AsStrArms = modelAsStrArms := by decide

/-- every `ValueRepr` variant (regenerated from `value/mod.rs` together with its `ValueKind`) is
    classed: "no metacharacter by construction" or "escaped via its text" -/
theorem all_value_reprs_classified : ∀ v ∈ Gen.c02ValueReprKinds, (reprClass v).isSome = true := by decide

/-- each primitive step of the fragment maps a state satisfying the invariant (all registers `Inv`,
    every capture buffer and the output free of data-tainted metacharacters) to such a state -/
theorem step_preserves_inv (s : Step) (st st' : St) (hok : StepOk s) (h : StInv st)
    (hr : s.run st = some st') : StInv st' := Safe.step_preserves_inv s st st' hok h hr

theorem run_preserves_inv (steps : List Step) (st st' : St) (hok : ∀ s ∈ steps, StepOk s) (h : StInv st)
    (hr : run steps st = some st') : StInv st' := Safe.run_preserves_inv steps st st' hok h hr

/-- **the property**: for every sequence of steps of the fragment from the initial state, nothing
    data-tainted is written raw (and every register and every open capture satisfies the invariant) -/
theorem no_raw_tainted_meta : C02_full := by
  intro steps st hok hr
  exact (run_preserves_inv steps {} st hok stInv_init hr).out_clean

/-- the same for the state reached from any state satisfying the invariant (e.g. a context that
    already holds captured values), including registers and open captures -/
theorem no_raw_tainted_meta_from (steps : List Step) (st st' : St) (hok : ∀ s ∈ steps, StepOk s)
    (h : StInv st) (hr : run steps st = some st') :
    Clean st'.out ∧ (∀ b ∈ st'.caps, Clean b) ∧ ∀ v ∈ st'.pool, Inv v :=
  let r := run_preserves_inv steps st st' hok h hr
  ⟨r.out_clean, r.2.1, r.1⟩

/-- **escaped once**: ending a capture in Html mode and printing the captured value in Html mode
    writes exactly the captured text into the enclosing target — byte for byte, nothing is escaped
    a second time (set-block, filter-block, `super()`, recursive loop call) -/
theorem escaped_once (st : St) (buf : TStr) (rest : List TStr) (hc : st.caps = buf.reverse :: rest) :
    run [.endCapture .html, .emit .html st.pool.size] st =
      some (({ st with caps := rest }.push (.str buf true)).write buf) := by
  have e : (Mode.html != Mode.none) = true := by decide
  simp [run, Step.run, hc, capturedValue, St.push_eq, writeEscaped, e]

/-- the same for the result of a macro or call block (`Macro::call`) -/
theorem escaped_once_macro (st : St) (buf : TStr) (rest : List TStr) (hc : st.caps = buf.reverse :: rest) :
    run [.macroReturn .html, .emit .html st.pool.size] st =
      some (({ st with caps := rest }.push (.str buf true)).write buf) := by
  have e : (Mode.html != Mode.none) = true := by decide
  simp [run, Step.run, hc, capturedValue, St.push_eq, writeEscaped, e]

/-- a capture taken while auto-escaping is off is *not* marked, so printing it in Html mode escapes
    it (it satisfies the invariant whatever was written into it) -/
theorem capture_in_none_mode_is_unmarked (buf : TStr) : capturedValue .none buf = .str buf false := rfl

/-- every operator and filter model the driver can run in Html mode and that belongs to the
    fragment preserves the invariant (so `StepOk (.apply g _)` holds for it) -/
theorem named_models_preserve_inv (name : String) (ps : List Nat) (g : Fn)
    (h : lookupBase name .html ps = some (g, true)) : InvPreserving g :=
  Safe.named_models_preserve_inv name ps g h

/-- … and so does `map` with any such filter -/
theorem named_models_preserve_inv_map (name : String) (ps : List Nat) (g : Fn)
    (h : lookupF name .html ps = some (g, true)) : InvPreserving g :=
  Safe.named_models_preserve_inv_map name ps g h

/-- class `preserve`: any filter of the shape `value.preserve_safety(g(value.as_str()))` whose `g`
    adds no data-tainted metacharacter (validated for the real `upper`/`lower`/`capitalize` over all
    Unicode scalar values by the harness) -/
theorem class_preserve (g : TStr → TStr) (hg : Reflects g) : InvPreserving (preserveF g) := preserveF_inv hg
/-- class `pieces`: pieces of a string inherit its bit (`split`, `lines`, `last`, contrib `random`) -/
theorem class_pieces (g : TStr → List TStr) (hg : SubPieces g) : InvPreserving (piecesF g) := piecesF_inv hg
/-- class `forward`: every `Safe` leaf of the result is a `Safe` leaf of an argument -/
theorem class_forward (g : Fn) (hg : Forwards g) : InvPreserving g := forwards_inv hg
/-- class `select`: every string leaf of the result, text and bit, is a leaf of an argument -/
theorem class_select (g : Fn) (hg : Selects g) : InvPreserving g := forwards_inv (selects_forwards hg)
/-- class `normal`: the result has no `Safe` leaf -/
theorem class_normal (g : Fn) (hg : NormalOut g) : InvPreserving g := normalOut_inv hg
/-- class `mapped`: `map(filter)` of an invariant-preserving filter -/
theorem class_mapped (g : Fn) (hg : InvPreserving g) : InvPreserving (mapF g) := mapF_inv hg

/-- every filter and global function registered by `minijinja` and `minijinja-contrib` and every
    pycompat method (names regenerated from `defaults.rs`, contrib `lib.rs`, `pycompat.rs`) has a class -/
theorem all_registered_names_classified :
    ∀ n ∈ Gen.builtinFilterNames ++ Gen.contribFilterNames ++ Gen.globalFunctionNames ++ Gen.pycompatMethodNames,
      (classOf n).isSome = true := by decide +kernel

/-- every program point of the two crates that constructs a `Safe` string or calls
    `preserve_safety` (file, function and number of occurrences regenerated from the sources) is
    accounted for in the model — a new call site breaks this theorem before any oracle case exists -/
theorem all_safe_producers_modelled :
    ∀ s ∈ Gen.safeProducerSites, s ∈ modelledSafeSites.map (·.1) := by decide

/-- every program point that *reads* the `Safe` bit (`is_safe()`, patterns on `StringType::Safe`),
    with its number of reads, is accounted for — a new reader is a new way to forward the bit -/
theorem all_safe_bit_readers_modelled :
    ∀ s ∈ Gen.safeBitReaderSites, s ∈ modelledReaderSites.map (·.1) := by decide

/-! ## programs (stage "programs": the theorem is stated over template programs)

`execProg strict p ctx` (`MJ/Model/SafeProg.lean`) is the big-step interpreter of template programs
(text, `{{ expr }}`, if, for/else/recursive, set, set-block, filter-block, with, macros and calls,
call blocks with `caller()`, include, block/extends/`super()`, `autoescape`; expressions: variables,
literals, `~ + *`, slice/index/attribute, filters by name, list/map literals, conditionals, `not`,
`loop.index/first`, `loop(…)`).  It drives the step machine above; the harness sends the AST of every
generated program to it and the engine output must be byte-equal. -/

/-- Full-strength statement over programs: a program of the safe-marking-free fragment
    (`HtmlOnlyP`: every template name selects Html by `default_auto_escape_callback`, every
    `autoescape` block is `true`/`"html"`, every filter is modelled and none is `safe`/`tojson`),
    rendered with any context, never writes a `< > " '` that came from context data or from a
    string literal. -/
def C02_programs : Prop :=
  ∀ (p : Prog) (ctx : List (String × CV)) (st : St), HtmlOnlyP p → execProg false p ctx = some st → Clean st.out

theorem program_no_raw_tainted_meta : C02_programs := by
  intro p ctx st hp h
  exact (execProg_frag_inv hp ctx st h).out_clean

/-- the same without any syntactic premise for the *guarded* interpreter, which refuses to emit or
    filter outside Html mode and to apply `safe`/`tojson` (this is the interpreter the driver runs on
    generated fragment programs, so a program leaving the fragment shows up as a disagreement) -/
theorem program_no_raw_tainted_meta_strict (p : Prog) (ctx : List (String × CV)) (st : St)
    (h : execProg true p ctx = some st) : Clean st.out :=
  (execProg_inv p ctx st h).out_clean

/-- every register and every open capture of the final state satisfies the invariant as well -/
theorem program_final_state_inv (p : Prog) (ctx : List (String × CV)) (st : St) (hp : HtmlOnlyP p)
    (h : execProg false p ctx = some st) : (∀ v ∈ st.pool, Inv v) ∧ ∀ b ∈ st.caps, Clean b :=
  let r := execProg_frag_inv hp ctx st h
  ⟨r.1, r.2.1⟩

/-! ## the hypotheses are necessary (the excluded constructs really break the invariant) -/

/-- `|safe` is not invariant preserving -/
theorem safe_breaks_inv : ¬ InvPreserving safeF := by
  intro h
  have := h [.str (ofData "<") false] (.str (ofData "<") true) (by intro a ha; simp at ha; subst ha; exact inv_str_false _) rfl
  exact absurd (clean_of_inv this) (by decide)

/-- `tojson` keeps `"` from the data inside a `Safe` string -/
theorem tojson_breaks_inv : ¬ InvPreserving tojsonF := by
  intro h
  have := h [.str (ofData "\"") false] _ (by intro a ha; simp at ha; subst ha; exact inv_str_false _) rfl
  exact absurd (clean_of_inv this) (by decide)

/-- outside Html mode the statement is false: a block captured under `autoescape "json"` is marked
    safe and printed raw under Html (`{% autoescape "json" %}{% set x %}{{ d }}{% endset %}{%
    endautoescape %}{{ x }}`) — this is the recorded finding about mixing escape formats -/
theorem json_capture_counterexample :
    ∃ st, run [.data "<", .beginCapture, .emit .json 0, .endCapture .json, .emit .html 1] {} = some st
      ∧ ¬ Clean st.out := by
  refine ⟨_, rfl, ?_⟩
  decide

/-- whereas a block captured under `autoescape false` is escaped when printed under Html -/
example : (run [.data "<", .beginCapture, .emit .none 0, .endCapture .none, .emit .html 1] {}).map
    (fun st => text st.out) = some "&lt;" := by decide

/-! ## Non-vacuity: the hypotheses are met by ordinary programs and the statements have content -/

/-- `{% set x %}{{ d }}{% endset %}{{ x }}{{ x ~ d }}{{ [x, d]|join(d) }}` with `d = <a>"'&` -/
def demo : List Step :=
  [.data "<a>\"'&", .beginCapture, .emit .html 0, .endCapture .html, .emit .html 1,
   .apply concatF [1, 0], .emit .html 2, .mkSeq [1, 0], .apply (joinF .html) [3, 0], .emit .html 4]

example : ∀ s ∈ demo, StepOk s := by
  intro s hs
  simp only [demo, List.mem_cons, List.not_mem_nil, or_false] at hs
  rcases hs with rfl | rfl | rfl | rfl | rfl | rfl | rfl | rfl | rfl | rfl <;>
    first | trivial | rfl | exact concatF_inv | exact joinF_inv

example : (run demo {}).map (fun st => text st.out) = some
    ("&lt;a&gt;&quot;&#x27;&amp;" ++ "&amp;lt;a&amp;gt;&amp;quot;&amp;#x27;&amp;amp;&lt;a&gt;&quot;&#x27;&amp;"
      ++ "&lt;a&gt;&quot;&#x27;&amp;&lt;a&gt;&quot;&#x27;&amp;&lt;a&gt;&quot;&#x27;&amp;") := by decide +kernel

example : text (htmlEscape (ofData "<a href=\"x\">'&/")) = "&lt;a href=&quot;x&quot;&gt;&#x27;&amp;&#x2f;" := by decide
example : ∃ st : St, StInv st ∧ st.caps = [ofData "a" ++ ofTmpl "&lt;"] := ⟨{ caps := [ofData "a" ++ ofTmpl "&lt;"] },
  ⟨fun v hv => (by simp [Array.mem_def] at hv), (by decide), Clean.nil⟩, rfl⟩
example : (replaceF .html [.str (ofData "<α>") false, .str (ofData "α") false, .str (ofTmpl "<b>") true]).map
    (fun v => v.display |> text) = some "&lt;<b>&gt;" := by decide
/-- `{% macro m(a) %}({{ a }}{{ caller() }}){% endmacro %}{% set x %}{{ d|upper }}{% endset %}{% call m(x) %}{% for c in [d, "'"] %}{{ c ~ x }}{% endfor %}{% endcall %}` in `t.html` -/
def demoProg : Prog :=
  { main := "t.html",
    templates := [{ name := "t.html", parent := none, macros := [{ name := "m", params := ["a"], body := [.text "(", .emit (.var "a"), .emit .caller, .text ")"] }], body := [.setBlock "x" none [.emit (.filt "upper" [] [.var "d"])], .callBlock "m" [.var "x"] [.forIn "c" (.list [.var "d", .lit "'"]) false [.emit (.cat (.var "c") (.var "x"))] []]] }] }

theorem filterOk_upper : FilterOk "upper" [] := by
  intro g ok h
  simp [lookupF, lookupBase] at h
  exact h.2

/-- non-vacuity of the program theorem: a concrete program of the fragment and its rendering -/
example : autoEscapeOfName "t.html" = .html := by decide
example : HtmlOnlyP demoProg := by
  intro t ht
  simp only [demoProg, List.mem_singleton] at ht
  subst ht
  refine ⟨by decide, ?_, ?_⟩
  · repeat (first | exact filterOk_upper | constructor)
  · intro md hmd
    simp only [List.mem_singleton] at hmd
    subst hmd
    repeat constructor

example : (execProg false demoProg [("d", .str "<a>")]).map (fun st => text st.out) = some "(&lt;A&gt;&lt;a&gt;&amp;lt;A&amp;gt;&#x27;&amp;lt;A&amp;gt;)" := by decide +kernel

example : Forwards (defaultF false) := by
  intro args r hr l hl
  unfold defaultF at hr
  split at hr
  · rename_i v
    cases hr
    split at hl
    · simp [V.safeLeaves] at hl
    · split at hl
      · simp [V.safeLeaves] at hl
      · simpa [V.safeLeavesL] using hl
  · rename_i v d
    cases hr
    split at hl
    · simp [V.safeLeavesL]; exact Or.inr hl
    · split at hl
      · simp [V.safeLeavesL]; exact Or.inr hl
      · simp [V.safeLeavesL]; exact Or.inl hl
  · cases hr

end MJ.C02
