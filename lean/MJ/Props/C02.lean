import MJ.Proofs.SafeOnce
import MJ.Proofs.SafeCheck
import MJ.Proofs.SafeCallables
import MJ.Model.SafeSites
/-!
# C02 — HTML auto-escaping is sound: unsafe data is escaped exactly once

Property theorems only (helper lemmas: `MJ/Proofs/Safe.lean`, `MJ/Proofs/SafeInv.lean`; model:
`MJ/Model/Safe.lean`).

Every execution of a template is a sequence of the primitive steps of `MJ.Safe.Step`: values enter
as `data` (context strings, string literals), template text is written by `raw`, expressions are
written by `emit`, captures (`set`/`filter`/`call` blocks, `super()`, recursive `loop(…)`) are
`beginCapture … endCapture`, macro and call-block results are `beginCapture … macroReturn`, and
every operator or filter is `apply g` for its model `g`.  The safe-marking-free fragment of the
property is: every `emit` happens in Html mode and every applied `g` preserves the invariant —
which is *proved* for the model of every operator and filter except `safe` and `tojson`, and which
for the class-only filters (`forward`, `normal`) follows from the class predicate that the harness
checks on the real filters.
-/
namespace MJ.C02
open MJ MJ.Safe

/-- the invariant: a `Safe` value (recursively in containers) contains no `< > " '` that came from data -/
abbrev Inv (v : V) : Prop := v.Inv

/-- Full-strength statement: whatever sequence of steps a template of the fragment performs —
    through operators, filters, loops, macros, call blocks, captured blocks, includes and blocks —
    the rendered output contains no `< > " '` that came from context data or string literals. -/
def C02_full : Prop :=
  ∀ (steps : List Step) (st : St), (∀ s ∈ steps, StepOk s) → run steps {} = some st → Clean st.out

/-- `HtmlEscape` leaves no metacharacter at all — re-proved against the table and the range
    pre-filter regenerated from `utils.rs` -/
theorem escape_kills_meta (s : TStr) : ∀ ch ∈ htmlEscape s, isMeta ch.c = false :=
  htmlEscape_noMeta s

/-- so does the string path of `write_with_html_escaping` with its own pre-filter
    `needs_html_escaping` (a string it lets through verbatim contains no metacharacter) -/
theorem write_string_kills_meta (s : TStr) : ∀ ch ∈ escapeStr s, isMeta ch.c = false :=
  escapeStr_noMeta s

/-- `<`, `>`, `"`, `'` and `&` all lie inside the range pre-filter of `HtmlEscape`, have a table
    row, and are seen by `needs_html_escaping` — none is skipped -/
theorem meta_in_prefilter_range :
    ∀ c ∈ ['<', '>', '"', '\'', '&'], (escapeOf c).isSome = true ∧ needsChar c = true := by decide

/-- `write_escaped` in Html mode is sound for values of **every** kind: a value that is not a Safe
    string — unmarked string, bytes (valid UTF-8 or not), number, boolean, none, undefined, list,
    map, any other object — is written without a single `< > " '` -/
theorem write_escaped_kills_meta_all_kinds (v : V) (h : ∀ s, v ≠ .str s true) :
    ∀ ch ∈ writeEscaped .html v, isMeta ch.c = false := by
  have : writeEscaped .html v = writeHtml v := by
    unfold writeEscaped
    split
    · rename_i s; exact absurd rfl (h s)
    · rfl
  rw [this]
  exact writeHtml_noMeta_nonstr v

/-- the decision structure of `write_escaped` / `write_with_html_escaping` regenerated from
    `utils.rs` (safe bypass first, mode dispatch, the integer / boolean fast paths, the string path
    `as_str` → pre-filter or escaper, `Undefined | None | Bool | Number` → Display, everything else →
    escaper on `to_string()`) is the one the model transcribes -/
theorem write_escaped_dispatch_matches : Gen.c02WriteEscapedDispatch = modelDispatch := by decide

/-- `Value::as_str` gives text for strings and for valid UTF-8 bytes only, as the model assumes -/
theorem as_str_arms_match : Gen.c02AsStrArms = modelAsStrArms := by decide

/-- every `ValueRepr` variant (regenerated from `value/mod.rs` together with its `ValueKind`) is
    classed: "no metacharacter by construction" or "escaped via its text" -/
theorem all_value_reprs_classified : ∀ v ∈ Gen.c02ValueReprKinds, (reprClass v).isSome = true := by decide

/-- each primitive step of the fragment maps a state satisfying the invariant (all registers `Inv`,
    every capture buffer and the output free of data-tainted metacharacters) to such a state -/
theorem step_preserves_inv (s : Step) (st st' : St) (hok : StepOk s) (h : StInv st)
    (hr : s.run st = some st') : StInv st' := Safe.step_preserves_inv s st st' hok h hr

theorem run_preserves_inv (steps : List Step) (st st' : St) (hok : ∀ s ∈ steps, StepOk s) (h : StInv st)
    (hr : run steps st = some st') : StInv st' := Safe.run_preserves_inv steps st st' hok h hr

/-- **the property**: for every sequence of steps of the fragment from the initial state, nothing
    data-tainted is written raw (and every register and every open capture satisfies the invariant) -/
theorem no_raw_tainted_meta : C02_full := by
  intro steps st hok hr
  exact (run_preserves_inv steps {} st hok stInv_init hr).out_clean

/-- the same for the state reached from any state satisfying the invariant (e.g. a context that
    already holds captured values), including registers and open captures -/
theorem no_raw_tainted_meta_from (steps : List Step) (st st' : St) (hok : ∀ s ∈ steps, StepOk s)
    (h : StInv st) (hr : run steps st = some st') :
    Clean st'.out ∧ (∀ b ∈ st'.caps, Clean b) ∧ ∀ v ∈ st'.pool, Inv v :=
  let r := run_preserves_inv steps st st' hok h hr
  ⟨r.out_clean, r.2.1, r.1⟩

/-- **escaped once**: ending a capture in Html mode and printing the captured value in Html mode
    writes exactly the captured text into the enclosing target — byte for byte, nothing is escaped
    a second time (set-block, filter-block, `super()`, recursive loop call) -/
theorem escaped_once (st : St) (buf : TStr) (rest : List TStr) (hc : st.caps = buf.reverse :: rest) :
    run [.endCapture .html, .emit .html st.pool.size] st =
      some (({ st with caps := rest }.push (.str buf true)).write buf) := by
  have e : (Mode.html != Mode.none) = true := by decide
  simp [run, Step.run, hc, capturedValue, St.push_eq, writeEscaped, e]

/-- the same for the result of a macro or call block (`Macro::call`) -/
theorem escaped_once_macro (st : St) (buf : TStr) (rest : List TStr) (hc : st.caps = buf.reverse :: rest) :
    run [.macroReturn .html, .emit .html st.pool.size] st =
      some (({ st with caps := rest }.push (.str buf true)).write buf) := by
  have e : (Mode.html != Mode.none) = true := by decide
  simp [run, Step.run, hc, capturedValue, St.push_eq, writeEscaped, e]

/-- a capture taken while auto-escaping is off is *not* marked, so printing it in Html mode escapes
    it (it satisfies the invariant whatever was written into it) -/
theorem capture_in_none_mode_is_unmarked (buf : TStr) : capturedValue .none buf = .str buf false := rfl

/-- every operator and filter model the driver can run in Html mode and that belongs to the
    fragment preserves the invariant (so `StepOk (.apply g _)` holds for it) -/
theorem named_models_preserve_inv (name : String) (ps : List Nat) (g : Fn)
    (h : lookupBase name .html ps = some (g, true)) : InvPreserving g :=
  Safe.named_models_preserve_inv name ps g h

/-- … and so does `map` with any such filter -/
theorem named_models_preserve_inv_map (name : String) (ps : List Nat) (g : Fn)
    (h : lookupF name .html ps = some (g, true)) : InvPreserving g :=
  Safe.named_models_preserve_inv_map name ps g h

/-- class `preserve`: any filter of the shape `value.preserve_safety(g(value.as_str()))` whose `g`
    adds no data-tainted metacharacter (validated for the real `upper`/`lower`/`capitalize` over all
    Unicode scalar values by the harness) -/
theorem class_preserve (g : TStr → TStr) (hg : Reflects g) : InvPreserving (preserveF g) := preserveF_inv hg
/-- class `pieces`: pieces of a string inherit its bit (`split`, `lines`, `last`, contrib `random`) -/
theorem class_pieces (g : TStr → List TStr) (hg : SubPieces g) : InvPreserving (piecesF g) := piecesF_inv hg
/-- class `forward`: every `Safe` leaf of the result is a `Safe` leaf of an argument -/
theorem class_forward (g : Fn) (hg : Forwards g) : InvPreserving g := forwards_inv hg
/-- class `select`: every string leaf of the result, text and bit, is a leaf of an argument -/
theorem class_select (g : Fn) (hg : Selects g) : InvPreserving g := forwards_inv (selects_forwards hg)
/-- class `normal`: the result has no `Safe` leaf -/
theorem class_normal (g : Fn) (hg : NormalOut g) : InvPreserving g := normalOut_inv hg
/-- class `mapped`: `map(filter)` of an invariant-preserving filter -/
theorem class_mapped (g : Fn) (hg : InvPreserving g) : InvPreserving (mapF g) := mapF_inv hg

/-- every filter and global function registered by `minijinja` and `minijinja-contrib` and every
    pycompat method (names regenerated from `defaults.rs`, contrib `lib.rs`, `pycompat.rs`) has a class -/
theorem all_registered_names_classified :
    ∀ n ∈ Gen.builtinFilterNames ++ Gen.contribFilterNames ++ Gen.globalFunctionNames ++ Gen.pycompatMethodNames,
      (classOf n).isSome = true := by decide +kernel

/-- every program point of the two crates that constructs a `Safe` string or calls
    `preserve_safety` (file, function and number of occurrences regenerated from the sources) is
    accounted for in the model — a new call site breaks this theorem before any oracle case exists -/
theorem all_safe_producer_sites_modelled :
    ∀ s ∈ Gen.safeProducerSites, s ∈ modelledSafeSites.map (·.1) := by decide

/-- **the safety-class table is complete**: for every callable registered by `minijinja` and
    `minijinja-contrib` — builtin filters, tests and functions (`defaults.rs`), contrib filters and
    functions (`add_to_environment`), pycompat methods (`unknown_method_callback`), with return type
    and body facts regenerated from the sources — that CAN construct a `Safe` string (its body calls
    `preserve_safety`, constructs one, or calls a registered implementation that does) there is an
    exact model `lookupBase ln`, which preserves the invariant for all numeric parameters unless the
    callable is outside the fragment (`safe`, `tojson`: class `markup`).  A newly registered callable
    with such a body, or an existing one that starts to mark strings, has no row in `producerModel`
    and breaks this theorem. -/
theorem all_safe_producers_modelled :
    ∀ c ∈ Gen.c02Callables, canProduceSafe c = true →
      ∃ ln, producerModel c.kind c.name = some ln ∧ (lookupBase ln .html []).isSome = true ∧
        (∀ ps g, lookupBase ln .html ps = some (g, true) → InvPreserving g) ∧
        (lookupBase ln .html [] |>.map (·.2)) ∈ [some true, if classOf c.name = some .markup then some false else some true] := by
  intro c hc hp
  have hrow := List.all_eq_true.mp producerRows_ok c hc
  simp only [producerRowOk, hp, Bool.not_true, Bool.false_or] at hrow
  cases hm : producerModel c.kind c.name with
  | none => simp [hm] at hrow
  | some ln =>
    simp only [hm, modelRowOk] at hrow
    refine ⟨ln, rfl, ?_, fun ps g h => Safe.named_models_preserve_inv ln ps g h, ?_⟩
    · cases hl : lookupBase ln .html [] with
      | none => simp [hl] at hrow
      | some p => rfl
    · cases hl : lookupBase ln .html [] with
      | none => simp [hl] at hrow
      | some p =>
        obtain ⟨g, ok⟩ := p
        simp only [hl] at hrow
        cases ok with
        | true => simp
        | false =>
          simp only [Bool.false_or, beq_iff_eq] at hrow
          simp [hrow]

/-- every other registered callable provably returns unmarked strings by its signature: a test
    returns a boolean; a callable whose Rust return type is `String`/`bool`/integer (conversion into a
    `Value` builds `StringType::Normal`, `Gen.c02FromStringIsNormal`) is in class `normal` or has an
    exact model; one returning `Value` without constructing `Safe` strings can only hand on argument
    values and is in one of the forwarding classes (`forward`, `select`, `mapped`, `normal`, or an exact
    model) -/
theorem non_producers_classified :
    ∀ c ∈ Gen.c02Callables, canProduceSafe c = false → nonProducerRowOk c = true ∧ Gen.c02FromStringIsNormal = true := by
  intro c hc _
  exact ⟨List.all_eq_true.mp nonProducerRows_ok c hc, rfl⟩

/-- every program point that marks a string lies in one of the four primitives (`from_safe_string`,
    `preserve_safety`, `end_capture`, `Macro::call`) or inside the body of a registered callable — there
    is no helper function through which a callable could mark strings unnoticed by the table -/
theorem producer_sites_attributed : ∀ s ∈ Gen.c02ProducerSiteRows, siteRowOk s = true :=
  fun s hs => List.all_eq_true.mp siteRows_ok s hs

/-- non-vacuity: the table is populated, has producers of every kind of callable, and non-producers -/
example : Gen.c02Callables.length ≥ 100 ∧ (Gen.c02Callables.filter canProduceSafe).length ≥ 15
    ∧ (Gen.c02Callables.filter fun c => canProduceSafe c && c.kind == "method").length ≥ 2
    ∧ (Gen.c02Callables.filter fun c => !canProduceSafe c && c.kind == "filter").length ≥ 30 := by decide +kernel
example : InvPreserving (randomF 1) := random_preserves_inv 1
example : (randomF 1 [.str (ofData "a<") true]).map (fun v => (text v.display, isSafeV v)) = some ("<", true) := by decide

/-- every program point that *reads* the `Safe` bit (`is_safe()`, patterns on `StringType::Safe`),
    with its number of reads, is accounted for — a new reader is a new way to forward the bit -/
theorem all_safe_bit_readers_modelled :
    ∀ s ∈ Gen.safeBitReaderSites, s ∈ modelledReaderSites.map (·.1) := by decide

/-- **every way text reaches an `Output` is accounted for**: the program points of crate `minijinja`
    that write to an `Output` directly, call `write_escaped`, call the environment's formatter or create
    a new sink (file, function, kind and number regenerated from ALL sources of the crate) are exactly
    the ones the model transcribes — the only raw write in the vm is `EmitRaw` (template text), values
    are written through `write_escaped` / the formatter only.  A new fast path that writes a value raw,
    or a new caller of `write_escaped` with a mode of its own, breaks this theorem. -/
theorem all_output_write_sites_modelled :
    (∀ s ∈ Gen.c02OutputWriteSites, s ∈ modelledWriteSites.map (·.1)) ∧
    (∀ s ∈ modelledWriteSites.map (·.1), s ∈ Gen.c02OutputWriteSites) := by decide +kernel

/-- non-vacuity: the vm's value path and the template-text path are both in the regenerated list -/
example : "minijinja/src/vm/mod.rs::eval_impl::escapedx1" ∈ Gen.c02OutputWriteSites
    ∧ "minijinja/src/vm/mod.rs::eval_impl::rawx1" ∈ Gen.c02OutputWriteSites ∧ Gen.c02OutputWriteSites.length ≥ 15 := by decide +kernel

/-- **where the mode of an execution comes from**: every program point of crate `minijinja` that
    supplies the auto-escape mode an execution starts in — the compiled template's flag
    (`default_auto_escape(name)` of the name it is compiled under), `Template::_eval` / `new_state`
    (that flag), `Expression::_eval` (`None`), include (the included template's OWN flag), blocks,
    `super()` and macros (the current mode) — and every call of `Output::end_capture` with the mode it
    passes (the current mode; `None` only for the discarded top level of a child template) is exactly
    the list the interpreter transcribes.  An
    include that asks the callback about the name as written, an entry point that starts in another
    mode, or a new call of `with_execution_state` breaks this theorem. -/
theorem all_mode_sources_modelled :
    (∀ s ∈ Gen.c02ModeSources, s ∈ modelledModeSources.map (·.1)) ∧
    (∀ s ∈ modelledModeSources.map (·.1), s ∈ Gen.c02ModeSources) := by decide +kernel

example : "minijinja/src/vm/mod.rs::perform_include::with_execution_state::tmpl.initial_auto_escape() x1" ∈ Gen.c02ModeSources
    ∧ Gen.c02ModeSources.length ≥ 10 := by decide +kernel

/-! ## programs (stage "programs": the theorems are stated over template programs)

`execProg strict p ctx` (`MJ/Model/SafeProg.lean`) is the big-step interpreter of template programs
(text, `{{ expr }}`, if, for/else/recursive, set, set-block, filter-block, with, macros and calls,
call blocks with `caller()`, include, import / from-import with aliases, modules, extends with blocks,
`super()` and child statements outside blocks, `autoescape` with every documented value, a custom
auto-escape callback, a custom formatter; expressions: variables, literals, `~ + *`,
slice/index/attribute, filters and pycompat methods by name, list/map literals, conditionals, `not`,
`loop.index/first`, `loop(…)`).  Template names select their own mode; macros run in the mode of the
call site.  It drives the step machine above; the harness sends the AST of every generated program to
it and the engine output must be byte-equal.  `execBlock` = `render_captured` + `State::render_block`,
`execExpr` = `Expression::eval`. -/

/-- Full-strength statement over programs: a program of the safe-marking-free fragment `ProgOk`
    (`MJ/Proofs/SafeFrag.lean`: the rendered template and the templates it includes outside captures
    select Html — by the default or a custom callback —, an expression is written only under Html or into
    a target that never becomes a `Safe` string, no Json, every filter is modelled and none is
    `safe`/`tojson`; libraries whose name selects another mode may be imported, `autoescape false` may
    enclose statements that do not write), rendered with any context, never writes a `< > " '` that came
    from context data or from a string literal. -/
def C02_programs : Prop :=
  ∀ (p : Prog) (ctx : List (String × CV)) (st : St), ProgOk p → execProg false p ctx = some st → Clean st.out

theorem program_no_raw_tainted_meta : C02_programs := by
  intro p ctx st hp h
  exact (execProg_inv (strict := false) (Or.inr hp) ctx st h).out_clean

/-- the syntactic class is decidable: `progOkB` (the driver evaluates it on every generated program) is sound -/
theorem program_no_raw_tainted_meta_checked (p : Prog) (ctx : List (String × CV)) (st : St) (hp : progOkB p = true)
    (h : execProg false p ctx = some st) : Clean st.out :=
  program_no_raw_tainted_meta p ctx st (progOkB_sound hp) h

/-- the same without any syntactic premise for the *guarded* interpreter, which refuses to write an
    expression outside Html mode unless the target is opaque, to enter Json mode and to apply
    `safe`/`tojson` (this is the interpreter the driver runs first on every generated program; a program
    it refuses is run unguarded and counted as outside the fragment) -/
theorem program_no_raw_tainted_meta_strict (p : Prog) (ctx : List (String × CV)) (st : St)
    (h : execProg true p ctx = some st) : Clean st.out :=
  (execProg_inv (strict := true) (Or.inl rfl) ctx st h).out_clean

/-- every register of the final state satisfies the invariant as well, and no capture is left open -/
theorem program_final_state_inv (p : Prog) (ctx : List (String × CV)) (st : St) (hp : ProgOk p)
    (h : execProg false p ctx = some st) : (∀ v ∈ st.pool, Inv v) ∧ st.caps = [] := by
  have r := execProg_inv (strict := false) (Or.inr hp) ctx st h
  refine ⟨r.1, ?_⟩
  have hc := r.2.1
  cases hcap : st.caps with
  | nil => rfl
  | cons b bs => rw [hcap] at hc; simp [CapsOk] at hc

/-- `Template::render_captured` + `State::render_block`: neither the rendered text nor the block
    rendered afterwards from the captured state contains a data-tainted metacharacter -/
theorem render_block_no_raw_tainted_meta (p : Prog) (block : String) (ctx : List (String × CV)) (st : St)
    (hp : ProgOk p) (h : execBlock false p block ctx = some st) : Clean st.out :=
  (execBlock_inv (strict := false) (Or.inr hp) block ctx st h).out_clean

theorem render_block_no_raw_tainted_meta_strict (p : Prog) (block : String) (ctx : List (String × CV)) (st : St)
    (h : execBlock true p block ctx = some st) : Clean st.out :=
  (execBlock_inv (strict := true) (Or.inl rfl) block ctx st h).out_clean

/-- `Expression::eval` (mode `None`): the value handed back to the host satisfies the invariant — a
    `Safe` string in it (from `|e`, `format`, `replace` with a safe argument …) holds no data-tainted
    metacharacter, so printing it under Html later is sound -/
theorem expression_eval_inv (e : Expr) (ctx : List (String × CV)) (v : V) (st : St) (he : OkE .none e)
    (h : execExpr false e ctx = some (v, st)) : Inv v :=
  (execExpr_inv (strict := false) (Or.inr he) ctx v st h).1

theorem expression_eval_inv_strict (e : Expr) (ctx : List (String × CV)) (v : V) (st : St)
    (h : execExpr true e ctx = some (v, st)) : Inv v :=
  (execExpr_inv (strict := true) (Or.inl rfl) ctx v st h).1

/-- the nine interpreter functions keep the (flagged) machine invariant, whatever the mode of the
    template they run: the induction behind the three theorems above, usable for any entry point -/
theorem interpreter_preserves_inv (strict : Bool) (fuel : Nat) (env : Env) (ss : List Stmt) (fl : List Bool)
    (hEnv : EnvInv strict env fl) (hs : strict = false → OkSs env.prog env.mode env.opaq ss) (st st' : St)
    (vars : List (String × Nat)) (h : StInvF fl st) (hr : execStmts strict fuel env ss st = some (vars, st')) : StInvF fl st' :=
  ((exec_ht strict fuel).2.2.2.2.2.1 env ss fl hEnv hs).apply h hr

/-! ### escaped once, for every capture construct of the program class

Printing a `Safe` string writes its text verbatim whatever template (and mode) produced it; each
capture construct under Html produces a `Safe` string that holds exactly the text its body wrote.  The
body is arbitrary: it may include templates whose name selects another mode, call macros imported from
such templates, run blocks — the statement only needs the mode at the *end* of the capture. -/

/-- a captured value prints verbatim (any mode, any origin — e.g. a variable imported from a template
    whose name selects another mode) -/
theorem escaped_once_print (strict : Bool) (env : Env) (r : Nat) (st : St) (s : TStr) (hw : env.writable = true)
    (hf : env.prog.fmt = .default) (hr : st.pool[r]? = some (.str s true)) :
    emitG strict env r st = some ((), st.write s) := print_safe_verbatim strict env r st s hw hf hr

/-- … also through the custom formatter -/
theorem escaped_once_print_custom_formatter (strict : Bool) (env : Env) (r : Nat) (st : St) (s : TStr)
    (hw : env.writable = true) (hf : env.prog.fmt = .noneAsUndef) (hr : st.pool[r]? = some (.str s true)) :
    emitG strict env r st = some ((), (st.push (.str s true)).write s) := print_safe_verbatim_fmt strict env r st s hw hf hr

/-- the value of a capture that ends in a mode other than `None`: a `Safe` string with exactly the
    text the body wrote into the capture -/
theorem escaped_once_capture_value {α : Type} (body : M α) (endS : Mode → Step) (hend : endS = .endCapture ∨ endS = .macroReturn)
    (m : Mode) (hm : m ≠ .none) (st st1 : St) (a : α) (buf : TStr) (rest : List TStr)
    (hb : body { st with caps := [] :: st.caps } = some (a, st1)) (hc : st1.caps = buf :: rest) :
    (stepM .beginCapture >>= fun _ => body >>= fun _ => pushM (endS m)) st =
      some (st1.pool.size, { st1 with caps := rest }.push (.str buf.reverse true)) :=
  capture_value body endS hend m hm st st1 a buf rest hb hc

/-- `{% set x %}body{% endset %}{{ x }}` -/
theorem escaped_once_set_block (strict : Bool) (n : Nat) (env : Env) (x : String) (body : List Stmt) (st st1 : St)
    (vs : List (String × Nat)) (buf : TStr) (rest : List TStr) (hm : env.mode = .html) (hf : env.prog.fmt = .default)
    (hb : execStmts strict (n + 2) env.inCapture body { st with caps := [] :: st.caps } = some (vs, st1))
    (hc : st1.caps = buf :: rest) :
    execStmts strict (n + 4) env [.setBlock x Option.none body, .emit (.var x)] st =
      some ((x, st1.pool.size) :: env.vars, ({ st1 with caps := rest }.push (.str buf.reverse true)).write buf.reverse) :=
  Safe.escaped_once_set_block strict n env x body st st1 vs buf rest hm hf hb hc

/-- `{% filter f %}body{% endfilter %}` -/
theorem escaped_once_filter_block (strict : Bool) (n : Nat) (env : Env) (name : String) (ps : List Nat) (body : List Stmt)
    (st st1 : St) (vs : List (String × Nat)) (buf : TStr) (rest : List TStr) (g : Fn) (v : V)
    (hm : env.mode = .html) (hf : env.prog.fmt = .default) (hl : lookupF name .html ps = some (g, true))
    (hg : g [.str buf.reverse true] = some v)
    (hb : execStmts strict (n + 2) env.inCapture body { st with caps := [] :: st.caps } = some (vs, st1))
    (hc : st1.caps = buf :: rest) :
    execStmt strict (n + 3) env (.filterBlock name ps body) st =
      some (env.vars, ((({ st1 with caps := rest }.push (.str buf.reverse true)).push v).write (writeEscaped .html v))) :=
  Safe.escaped_once_filter_block strict n env name ps body st st1 vs buf rest g v hm hf hl hg hb hc

/-- `{{ m(args) }}` — also for a macro imported from a template whose name selects another mode -/
theorem escaped_once_macro_call (strict : Bool) (n : Nat) (env : Env) (m g : String) (args : List Expr) (home : Tmpl) (md : MacroDef)
    (st sta stb st1 : St) (rs : List Nat) (params vs : List (String × Nat)) (buf : TStr) (rest : List TStr)
    (hm : env.mode = .html) (hf : env.prog.fmt = .default) (hvis : env.macros.lookup m = some g)
    (hfm : findMacro env.prog g = some (home, md))
    (hargs : evalArgs strict (n + 2) env args st = some (rs, sta))
    (hparams : bindParams md.params rs sta = some (params, stb))
    (hb : execStmts strict (n + 2) (env.forMacro home params Option.none) md.body { stb with caps := [] :: stb.caps } = some (vs, st1))
    (hc : st1.caps = buf :: rest) :
    execStmt strict (n + 5) env (.emit (.call m args)) st =
      some (env.vars, ({ st1 with caps := rest }.push (.str buf.reverse true)).write buf.reverse) :=
  Safe.escaped_once_macro_call strict n env m g args home md st sta stb st1 rs params vs buf rest hm hf hvis hfm hargs hparams hb hc

/-- `{% call m(args) %}inner{% endcall %}` -/
theorem escaped_once_call_block (strict : Bool) (n : Nat) (env : Env) (m g : String) (args : List Expr) (inner : List Stmt)
    (home : Tmpl) (md : MacroDef) (st sta stb st1 : St) (rs : List Nat) (params vs : List (String × Nat)) (buf : TStr) (rest : List TStr)
    (hm : env.mode = .html) (hf : env.prog.fmt = .default) (hvis : env.macros.lookup m = some g)
    (hfm : findMacro env.prog g = some (home, md))
    (hargs : evalArgs strict (n + 2) env args st = some (rs, sta))
    (hparams : bindParams md.params rs sta = some (params, stb))
    (hb : execStmts strict (n + 2) (env.forMacro home params (some { body := inner, vars := env.vars, macros := env.macros, mods := env.mods }))
            md.body { stb with caps := [] :: stb.caps } = some (vs, st1))
    (hc : st1.caps = buf :: rest) :
    execStmt strict (n + 4) env (.callBlock m args inner) st =
      some (env.vars, ({ st1 with caps := rest }.push (.str buf.reverse true)).write buf.reverse) :=
  Safe.escaped_once_call_block strict n env m g args inner home md st sta stb st1 rs params vs buf rest hm hf hvis hfm hargs hparams hb hc

/-- `{{ caller() }}` -/
theorem escaped_once_caller (strict : Bool) (n : Nat) (env : Env) (c : CallerCl) (st st1 : St) (vs : List (String × Nat))
    (buf : TStr) (rest : List TStr) (hm : env.mode = .html) (hf : env.prog.fmt = .default) (hcl : env.caller = some c)
    (hb : execStmts strict (n + 2) (env.forCaller c) c.body { st with caps := [] :: st.caps } = some (vs, st1))
    (hc : st1.caps = buf :: rest) :
    execStmt strict (n + 4) env (.emit .caller) st =
      some (env.vars, ({ st1 with caps := rest }.push (.str buf.reverse true)).write buf.reverse) :=
  Safe.escaped_once_caller strict n env c st st1 vs buf rest hm hf hcl hb hc

/-- `{{ super() }}` -/
theorem escaped_once_super (strict : Bool) (n : Nat) (env : Env) (b : List Stmt) (more : List (List Stmt)) (st st1 : St)
    (vs : List (String × Nat)) (buf : TStr) (rest : List TStr) (hm : env.mode = .html) (hf : env.prog.fmt = .default)
    (hsup : env.supers = b :: more)
    (hb : execStmts strict (n + 2) (env.forSuper more) b { st with caps := [] :: st.caps } = some (vs, st1))
    (hc : st1.caps = buf :: rest) :
    execStmt strict (n + 4) env (.emit .super) st =
      some (env.vars, ({ st1 with caps := rest }.push (.str buf.reverse true)).write buf.reverse) :=
  Safe.escaped_once_super strict n env b more st st1 vs buf rest hm hf hsup hb hc

/-- the side condition `st1.caps = buf :: rest` of the theorems above always holds for bodies of the
    interpreter: captures are balanced (the flags of the invariant have the length of the capture stack) -/
theorem escaped_once_capture_open (strict : Bool) (fuel : Nat) (env : Env) (body : List Stmt) (fl : List Bool)
    (hEnv : EnvInv strict env fl) (hok : strict = false → OkSs env.prog env.mode (env.mode != .html) body)
    (st st1 : St) (vs : List (String × Nat)) (hs : StInvF fl st)
    (hb : execStmts strict fuel env.inCapture body { st with caps := [] :: st.caps } = some (vs, st1)) :
    ∃ buf rest, st1.caps = buf :: rest :=
  capture_open ((exec_ht strict fuel).2.2.2.2.2.1 env.inCapture body _ hEnv.inCapture hok) hs hb

/-! ## the main theorem: the property of the ENGINE, the gap to what is proved as named hypotheses

Everything above is about the executable model.  `C02_main` states the property for the engine
itself, as far as the property observes it, and lists what separates the two:

* `Faithful E` (VALIDATED ONLY — streams P, W, T, K, M, N, B, R, E of the correspondence: the engine's
  text / value is byte-equal to the interpreter's on every generated program, through every entry
  point — `Template::render`, `render_captured`, `render_captured_to`, `Environment::render_named_str`,
  `new_state` + `render_block(_to_write)`, `State::call_macro` —, for templates registered or loaded,
  with any auto-escape callback, path-join callback and the documented formatter wrapper);
* that the interpreter's primitives are the engine's: tied by the regenerated tables
  (`write_escaped_dispatch_matches`, `as_str_arms_match`, `all_value_reprs_classified`,
  `all_safe_producers_modelled`, `non_producers_classified`, `producer_sites_attributed`,
  `all_safe_bit_readers_modelled`, `all_output_write_sites_modelled`, `all_mode_sources_modelled`) — theorems, not hypotheses;
* the fragment (`ProgOk`, `OkE`): the safe-marking-free programs of the property's quantifier. -/

/-- what the engine computes, as far as the property observes it: the text a template program
    renders to (the program holds the RESOLVED template names, each selects its own mode), the text of
    `render_captured` + `State::render_block`, the value of `Expression::eval`; `none` = an error
    (nothing is observed) -/
structure Engine where
  render : Prog → List (String × CV) → Option TStr
  renderBlock : Prog → String → List (String × CV) → Option TStr
  eval : Expr → List (String × CV) → Option V

/-- hypothesis FAITHFUL: whatever the engine produces, the interpreter produces the same (validated
    differentially, not proved) -/
structure Faithful (E : Engine) : Prop where
  render : ∀ p ctx out, E.render p ctx = some out → ∃ st, execProg false p ctx = some st ∧ st.out = out
  renderBlock : ∀ p b ctx out, E.renderBlock p b ctx = some out → ∃ st, execBlock false p b ctx = some st ∧ st.out = out
  eval : ∀ e ctx v, E.eval e ctx = some v → ∃ st, execExpr false e ctx = some (v, st)

/-- the property, for an engine: over the safe-marking-free fragment nothing data-tainted is written
    raw by any entry point, and a value handed back to the host carries no `Safe` string with a
    data-tainted metacharacter (so it is not written raw later either) -/
def C02_engine (E : Engine) : Prop :=
  (∀ p ctx out, ProgOk p → E.render p ctx = some out → Clean out) ∧
  (∀ p b ctx out, ProgOk p → E.renderBlock p b ctx = some out → Clean out) ∧
  (∀ e ctx v, OkE .none e → E.eval e ctx = some v → Inv v)

theorem C02_main (E : Engine) (hF : Faithful E) : C02_engine E := by
  refine ⟨?_, ?_, ?_⟩
  · intro p ctx out hp h
    obtain ⟨st, hs, ho⟩ := hF.render p ctx out h
    exact ho ▸ program_no_raw_tainted_meta p ctx st hp hs
  · intro p b ctx out hp h
    obtain ⟨st, hs, ho⟩ := hF.renderBlock p b ctx out h
    exact ho ▸ render_block_no_raw_tainted_meta p b ctx st hp hs
  · intro e ctx v he h
    obtain ⟨st, hs⟩ := hF.eval e ctx v h
    exact expression_eval_inv e ctx v st he hs

/-- non-vacuity: the interpreter itself is a faithful engine, so `Faithful` is satisfiable and
    `C02_engine` holds of it; it renders the demo program below to escaped text -/
def modelEngine : Engine where
  render p ctx := (execProg false p ctx).map (·.out)
  renderBlock p b ctx := (execBlock false p b ctx).map (·.out)
  eval e ctx := (execExpr false e ctx).map (·.1)

theorem modelEngine_faithful : Faithful modelEngine where
  render := by
    intro p ctx out h
    simp only [modelEngine, Option.map_eq_some_iff] at h
    obtain ⟨st, hs, ho⟩ := h
    exact ⟨st, hs, ho⟩
  renderBlock := by
    intro p b ctx out h
    simp only [modelEngine, Option.map_eq_some_iff] at h
    obtain ⟨st, hs, ho⟩ := h
    exact ⟨st, hs, ho⟩
  eval := by
    intro e ctx v h
    simp only [modelEngine, Option.map_eq_some_iff] at h
    obtain ⟨⟨v', st⟩, hs, ho⟩ := h
    exact ⟨st, by simpa [← ho] using hs⟩

example : C02_engine modelEngine := C02_main modelEngine modelEngine_faithful

/-! ## the hypotheses are necessary (the excluded constructs really break the invariant) -/

/-- `|safe` is not invariant preserving -/
theorem safe_breaks_inv : ¬ InvPreserving safeF := by
  intro h
  have := h [.str (ofData "<") false] (.str (ofData "<") true) (by intro a ha; simp at ha; subst ha; exact inv_str_false _) rfl
  exact absurd (clean_of_inv this) (by decide)

/-- `tojson` keeps `"` from the data inside a `Safe` string -/
theorem tojson_breaks_inv : ¬ InvPreserving tojsonF := by
  intro h
  have := h [.str (ofData "\"") false] _ (by intro a ha; simp at ha; subst ha; exact inv_str_false _) rfl
  exact absurd (clean_of_inv this) (by decide)

/-- outside Html mode the statement is false: a block captured under `autoescape "json"` is marked
    safe and printed raw under Html (`{% autoescape "json" %}{% set x %}{{ d }}{% endset %}{%
    endautoescape %}{{ x }}`) — this is the recorded finding about mixing escape formats -/
theorem json_capture_counterexample :
    ∃ st, run [.data "<", .beginCapture, .emit .json 0, .endCapture .json, .emit .html 1] {} = some st
      ∧ ¬ Clean st.out := by
  refine ⟨_, rfl, ?_⟩
  decide

/-- whereas a block captured under `autoescape false` is escaped when printed under Html -/
example : (run [.data "<", .beginCapture, .emit .none 0, .endCapture .none, .emit .html 1] {}).map
    (fun st => text st.out) = some "&lt;" := by decide

/-! ## Non-vacuity: the hypotheses are met by ordinary programs and the statements have content -/

/-- `{% set x %}{{ d }}{% endset %}{{ x }}{{ x ~ d }}{{ [x, d]|join(d) }}` with `d = <a>"'&` -/
def demo : List Step :=
  [.data "<a>\"'&", .beginCapture, .emit .html 0, .endCapture .html, .emit .html 1,
   .apply concatF [1, 0], .emit .html 2, .mkSeq [1, 0], .apply (joinF .html) [3, 0], .emit .html 4]

example : ∀ s ∈ demo, StepOk s := by
  intro s hs
  simp only [demo, List.mem_cons, List.not_mem_nil, or_false] at hs
  rcases hs with rfl | rfl | rfl | rfl | rfl | rfl | rfl | rfl | rfl | rfl <;>
    first | trivial | rfl | exact concatF_inv | exact joinF_inv

example : (run demo {}).map (fun st => text st.out) = some
    ("&lt;a&gt;&quot;&#x27;&amp;" ++ "&amp;lt;a&amp;gt;&amp;quot;&amp;#x27;&amp;amp;&lt;a&gt;&quot;&#x27;&amp;"
      ++ "&lt;a&gt;&quot;&#x27;&amp;&lt;a&gt;&quot;&#x27;&amp;&lt;a&gt;&quot;&#x27;&amp;") := by decide +kernel

example : text (htmlEscape (ofData "<a href=\"x\">'&/")) = "&lt;a href=&quot;x&quot;&gt;&#x27;&amp;&#x2f;" := by decide
example : ∃ st : St, StInv st ∧ st.caps = [ofData "a" ++ ofTmpl "&lt;"] := ⟨{ caps := [ofData "a" ++ ofTmpl "&lt;"] },
  ⟨fun v hv => (by simp [Array.mem_def] at hv), (by decide), Clean.nil⟩, rfl⟩
example : (replaceF .html [.str (ofData "<α>") false, .str (ofData "α") false, .str (ofTmpl "<b>") true]).map
    (fun v => v.display |> text) = some "&lt;<b>&gt;" := by decide
/-- A program with three template modes.

  `lib.txt` (its name selects **no** escaping):
      `{% set t %}[{{ d }}]{% endset %}{% macro m(a) %}({{ a }}{{ caller() }}{{ t }}){% endmacro %}`
  `t.html` (Html):
      `{% from "lib.txt" import m as mk, t %}{% set x %}{{ d|upper }}{% endset %}`
      `{% call mk(x) %}{% for c in [d, "'"] %}{{ c ~ x }}{% endfor %}{% endcall %}{{ t }}`
      `{% autoescape false %}{% set o %}{{ d }}{% endset %}{% endautoescape %}{{ o }}` -/
def demoProg : Prog :=
  { main := "t.html",
    templates := [
      { name := "lib.txt", parent := none, pre := [.setBlock "t" none [.text "[", .emit (.var "d"), .text "]"]],
        macros := [{ name := "m", params := ["a"], body := [.text "(", .emit (.var "a"), .emit .caller, .emit (.var "t"), .text ")"] }], body := [] },
      { name := "t.html", parent := none, imports := [.names "lib.txt" [("m", "mk"), ("t", "t")]], macros := [],
        body := [.setBlock "x" none [.emit (.filt "upper" [] [.var "d"])],
                 .callBlock "mk" [.var "x"] [.forIn "c" (.list [.var "d", .lit "'"]) false [.emit (.cat (.var "c") (.var "x"))] []],
                 .emit (.var "t"),
                 .auto .fals [.setBlock "o" none [.emit (.var "d")]], .emit (.var "o")] }] }

theorem filterOk_upper : FilterOk "upper" [] := by
  intro m g ok h
  simp [lookupF, lookupBase] at h
  exact h.2

theorem allows_html (k : Bool) : allows .html k := Or.inl rfl
theorem allows_none_opaque : allows .none true := Or.inr ⟨rfl, rfl⟩

/-- non-vacuity of the program theorems: a concrete program of the fragment — a library whose name
    selects no escaping, imported (with an alias) into an Html template, a call block, `autoescape false`
    around a capture — and its rendering: the variable captured unescaped in `lib.txt` and the capture made
    under `autoescape false` are escaped when printed, the Html captures are printed once -/
example : modeOf demoProg "t.html" = .html ∧ modeOf demoProg "lib.txt" = .none := by decide
example : ProgOk demoProg := by
  have hlib : modeOf demoProg "lib.txt" = .none := by decide
  have hmain : modeOf demoProg "t.html" = .html := by decide
  have mbody : Poly demoProg [.text "(", .emit (.var "a"), .emit .caller, .emit (.var "t"), .text ")"] := by
    constructor <;>
      repeat (first | exact allows_html _ | exact allows_none_opaque | constructor)
  have main_body : OkSs demoProg .html false (demoProg.templates[1]!).body := by
    simp only [demoProg]
    refine .cons (.setBlock "x" (.cons (.emit (allows_html _) (.filt filterOk_upper (.cons (.var _) .nil))) .nil)) ?_
    refine .cons (.callBlock "mk" (allows_html _) (.cons (.var _) .nil) ?_ ?_) ?_
    · exact .cons (.forIn "c" (.list (.cons (.var _) (.cons (.lit _) .nil))) (.cons (.emit (allows_html _) (.cat (.var _) (.var _))) .nil) .nil) .nil
    · exact .cons (.forIn "c" (.list (.cons (.var _) (.cons (.lit _) .nil))) (.cons (.emit allows_none_opaque (.cat (.var _) (.var _))) .nil) .nil) .nil
    refine .cons (.emit (allows_html _) (.var _)) ?_
    refine .cons (.auto (m' := .none) rfl (.cons (.setBlock "o" (.cons (.emit allows_none_opaque (.var _)) .nil)) .nil)) ?_
    exact .cons (.emit (allows_html _) (.var _)) .nil
  refine ⟨?_, hmain, ?_⟩
  · intro t ht
    simp only [demoProg, List.mem_cons, List.not_mem_nil, or_false] at ht
    rcases ht with rfl | rfl
    · refine ⟨by rw [hlib]; simp, ?_, ?_, ?_⟩
      · rw [hlib]
        exact .cons (.setBlock "t" (.cons (.text _) (.cons (.emit allows_none_opaque (.var _)) (.cons (.text _) .nil)))) .nil
      · exact .nil
      · intro md hmd
        simp only [List.mem_singleton] at hmd
        subst hmd
        exact mbody
    · refine ⟨by rw [hmain]; simp, .nil, ?_, ?_⟩
      · rw [hmain]; exact main_body
      · intro md hmd; cases hmd
  · intro t ht
    have hchain : inheritChain demoProg (demoProg.templates.length + 1) demoProg.main = [demoProg.templates[1]!] := by
      simp [inheritChain, findTmpl, demoProg]
    rw [hchain] at ht
    simp only [List.mem_singleton] at ht
    subst ht
    exact ⟨.nil, main_body⟩

example : (execProg false demoProg [("d", .str "<a>")]).map (fun st => text st.out) =
    some "(&lt;A&gt;&lt;a&gt;&amp;lt;A&amp;gt;&#x27;&amp;lt;A&amp;gt;[&lt;a&gt;])[&lt;a&gt;]&lt;a&gt;" := by decide +kernel

example : progOkB demoProg = true := by decide +kernel
/-- the guarded interpreter accepts it too (it stays inside the fragment) -/
example : (execProg true demoProg [("d", .str "<a>")]).isSome = true := by decide +kernel

/-- `render_block` and `Expression::eval` have content as well -/
example : (execExpr true (.filt "replace" [] [.filt "escape" [] [.var "d"], .lit "a", .var "d"]) [("d", .str "<a>")]).map
    (fun r => (text r.1.display, isSafeV r.1)) = some ("&lt;<a>&gt;", false) := by decide +kernel

/-! non-vacuity of the program-level `escaped_once` theorems: their hypotheses are met by a concrete
capture (the body runs and leaves exactly its buffer on top), and the conclusion has content -/
def env0 : Env :=
  { mode := .html, initMode := .html, vars := [("d", 0)], globals := [], prog := { templates := [], main := "" },
    caller := Option.none, loopIdx := Option.none, recLoop := Option.none, supers := [], chains := [] }
def st0 : St := { pool := #[.str (ofData "<a>") false] }

example : ((execStmts true 5 env0.inCapture [.text "(", .emit (.var "d")] { st0 with caps := [] :: st0.caps }).map
    fun r => r.2.caps.map fun b => text b.reverse) = some ["(&lt;a&gt;"] := by decide +kernel
example : ((execStmts true 7 env0 [.setBlock "x" Option.none [.text "(", .emit (.var "d")], .emit (.var "x"), .emit (.var "x")] st0).map
    fun r => text r.2.out) = some "(&lt;a&gt;(&lt;a&gt;" := by decide +kernel
example : ((execStmt true 6 env0 (.filterBlock "upper" [] [.text "(", .emit (.var "d")]) st0).map fun r => text r.2.out) =
    some "(&LT;A&GT;" := by decide +kernel
example : env0.writable = true ∧ env0.prog.fmt = .default := by decide
def oneTmpl (name : String) (body : List Stmt) : Tmpl := { name := name, parent := Option.none, macros := [], body := body }
/-- a value captured in a template of another mode and imported: printed once (`lib.html` into `m.xml`),
    escaped when the library's name selects no escaping (`lib.txt`) -/
def crossProg (lib : String) : Prog :=
  { main := "m.xml",
    templates := [{ oneTmpl lib [] with pre := [.setBlock "x" Option.none [.text "(", .emit (.var "d"), .text ")"]] },
                  { oneTmpl "m.xml" [.emit (.var "y")] with imports := [.names lib [("x", "y")]] }] }
example : (execProg true (crossProg "lib.html") [("d", .str "<a>&")]).map (fun st => text st.out) = some "(&lt;a&gt;&amp;)" := by decide +kernel
example : (execProg true (crossProg "lib.txt") [("d", .str "<a>&")]).map (fun st => text st.out) = some "(&lt;a&gt;&amp;)" := by decide +kernel
/-- `render_block` -/
example : (execBlock true { main := "b.html", templates := [oneTmpl "b.html" [.text "T", .block "hi" [.text "[", .emit (.var "d"), .text "]"]]] }
    "hi" [("d", .str "<")]).map (fun st => text st.out) = some "T[&lt;][&lt;]" := by decide +kernel
/-- the custom formatter prints `none` as nothing and strings as the default one does -/
def fmtProg : Prog :=
  { main := "f.html", fmt := .noneAsUndef, templates := [oneTmpl "f.html" [.emit .none, .emit (.var "d"), .setBlock "x" Option.none [.emit (.var "d")], .emit (.var "x")]] }
example : (execProg true fmtProg [("d", .str "<")]).map (fun st => text st.out) = some "&lt;&lt;" := by decide +kernel
/-- a custom auto-escape callback: `page.tpl` is declared Html -/
example : (execProg true { main := "page.tpl", modes := [("page.tpl", .html)], templates := [oneTmpl "page.tpl" [.emit (.var "d")]] }
    [("d", .str "<")]).map (fun st => text st.out) = some "&lt;" := by decide +kernel
/-- … without it the guarded interpreter refuses (the name selects no escaping) and the unguarded one writes raw -/
example : (execProg true { main := "page.tpl", templates := [oneTmpl "page.tpl" [.emit (.var "d")]] } [("d", .str "<")]).isNone = true := by
  decide +kernel
example : (execProg false { main := "page.tpl", templates := [oneTmpl "page.tpl" [.emit (.var "d")]] } [("d", .str "<")]).map
    (fun st => text st.out) = some "<" := by decide +kernel

example : Forwards (defaultF false) := by
  intro args r hr l hl
  unfold defaultF at hr
  split at hr
  · rename_i v
    cases hr
    split at hl
    · simp [V.safeLeaves] at hl
    · split at hl
      · simp [V.safeLeaves] at hl
      · simpa [V.safeLeavesL] using hl
  · rename_i v d
    cases hr
    split at hl
    · simp [V.safeLeavesL]; exact Or.inr hl
    · split at hl
      · simp [V.safeLeavesL]; exact Or.inr hl
      · simp [V.safeLeavesL]; exact Or.inl hl
  · cases hr

end MJ.C02
