import MJ.Proofs.EvalFrame
import MJ.Proofs.StmtSim
import MJ.Proofs.DiscardSim
import MJ.Proofs.C03Tables
import MJ.Proofs.ArgBind
import MJ.Model.VmM
/-!
# C03 — core constructs render according to the documented semantics

Stage 3: `vm_refines_eval` — the model VM running the code of the model code generator refines the
reference semantics on the fragment `MJ.Compile.CoreFragment`: text, `{{ e }}`, `set` (with
unpacking), set-blocks and filter-blocks with filter chains, `if`/`elif`/`else`, `with`,
`for … if … else` with unpacking targets and loop filter, `break` and `continue` (also out of
`with` / capture scopes), **macro declarations** (at any depth: in loops, in `with`, in macro bodies;
the closure machinery `Enclose` / `GetClosure` / `BuildMacro` with its write-through cells against the
by-reference scoping of the reference semantics) with **parameter defaults**, **macro calls with
positional and keyword arguments** (`Macro::prepare_args`, the `Kwargs` bundle, the callee's fresh
context, its captured output), **call blocks** and the **`caller`** of a macro (the hidden keyword
argument, `caller(args)` with positional and keyword arguments, call blocks with parameters and
defaults); expressions with constant folding, short-circuit `and`/`or`, conditional expressions,
filters, tests, attribute/item access, list and map literals, chained comparisons.  What the
fragment still excludes (`wfStmt` / `wfExpr` say it precisely): parameter defaults that contain a
call or read a parameter (`wfDefault`; the engine binds parameters back to front, the reference
semantics front to back), macros used as values (`{{ m }}`, a macro passed as an argument: macro names
are only called or tested with `is defined` / `is undefined`), an explicit `caller=` keyword argument, calls of names that
are not declared macros, reads inside a macro body that `find_macro_closure` does not enclose.
`C03_full` states the theorem for everything the model generator compiles, on the extended model VM
`MJ.VmM` (the live loop object); beyond the fragment it is *checked* on every generated program
(model VMs vs. `exec` vs. the engine, model code vs. the real instruction stream) but not proved.

Stage 1: laws of the reference semantics `MJ.Eval.exec` (`MJ/Model/Eval.lean`).  Each law is an
unbounded theorem (all programs / bodies / lists / states / fuel values) and is followed by an
`example` that exhibits a concrete, non-trivial instance (checked by kernel evaluation).

The engine (`/repo`) is tied to `exec` by the differential oracle of `lib/props/c03.py`
(`harness/src/bin/c03.rs`): the theorems say what `exec` guarantees, the oracle checks that
`Template::render` agrees with `exec` on generated programs.
-/
namespace MJ.C03
open MJ.Eval

/-- the items a loop walks: all of them, or those that pass the loop filter (the engine counts the
latter with checked `i128` arithmetic) -/
def keptItems (n : Nat) (ctx : Scope) (heap : Heap) (stack : List Nat) (target : Target)
    (flt : Option Expr) (xs : List Val) : Res (List Val) :=
  match flt with
  | none => .ok xs
  | some c => (filterItems n ctx heap stack target c xs).bind fun ks =>
      if (ks.length : Int) ≤ i128Max then .ok ks else .error .invalidOp

def loopSized (flt : Option Expr) (v : Val) : Bool :=
  match flt with
  | none => isSized v
  | some _ => true

/-- **for/else**: the `else` branch runs iff the (filtered) sequence is empty, in which case nothing
else runs; otherwise the body runs once per (filtered) item with `loopInfos` of exactly that
sequence and the `else` branch does not run. -/
theorem for_else_iff_empty (n : Nat) (ctx : Scope) (stack : List Nat) (σ : State) (target : Target)
    (iter : Expr) (flt : Option Expr) (body els : List Stmt) :
    exec (n + 1) ctx stack σ (.forS target iter flt body els) =
      (evalExpr n ctx σ.heap stack iter).bind fun v =>
      (iterate v).bind fun xs =>
      (keptItems n ctx σ.heap stack target flt xs).bind fun kept =>
        if kept = [] then execBlock n ctx stack σ els
        else (execIters n ctx stack σ target body (kept.zip (loopInfos (loopSized flt v) kept))).bind
          fun σ' => .ok (σ', .normal) := by
  simp only [exec, bind, Except.bind, keptItems, loopSized]
  cases evalExpr n ctx σ.heap stack iter with
  | error e => rfl
  | ok v =>
    simp only
    cases iterate v with
    | error e => rfl
    | ok xs =>
      cases flt with
      | none => cases xs <;> simp
      | some c =>
        simp only
        cases filterItems n ctx σ.heap stack target c xs with
        | error e => rfl
        | ok kept =>
          by_cases hk : (kept.length : Int) ≤ i128Max
          · simp only [if_pos hk]; cases kept <;> simp
          · simp only [if_neg hk]


/-- **Assignments inside a loop are invisible outside**: a `for` (without `else` branch), whatever
its body does (`set`, nested loops, macro declarations, …), leaves every scope cell as it was. -/
theorem set_in_loop_invisible {fuel ctx stack σ target iter flt body σ' fl}
    (h : exec fuel ctx stack σ (.forS target iter flt body []) = .ok (σ', fl)) :
    σ'.heap = σ.heap := by
  cases fuel with
  | zero => simp [exec] at h
  | succ n =>
    rw [for_else_iff_empty] at h
    simp only [Except.bind] at h
    split at h
    · simp at h
    · split at h
      · simp at h
      · split at h
        · simp at h
        · split at h
          · rw [(execBlock_nil h).1]
          · split at h
            · simp at h
            · rename_i σ2 hit
              simp at h; rw [← h.1]; exact execIters_heap hit

/-- the general form: with an `else` branch only the innermost visible cell can change (the `else`
branch runs in the enclosing scope, like the branch of an `if`) -/
theorem for_frame {fuel ctx stack σ target iter flt body els σ' fl}
    (h : exec fuel ctx stack σ (.forS target iter flt body els) = .ok (σ', fl)) :
    Frame stack σ.heap σ'.heap := exec_frame h

/-- **Assignments inside `with` are invisible outside.** -/
theorem set_in_with_invisible {fuel ctx stack σ binds body σ' fl}
    (h : exec fuel ctx stack σ (.withS binds body) = .ok (σ', fl)) : σ'.heap = σ.heap := by
  cases fuel with
  | zero => simp [exec] at h
  | succ n =>
    simp only [exec, bind, Except.bind] at h
    split at h
    · simp at h
    · rename_i heap1 hw
      split at h
      · simp at h
      · rename_i r hr
        simp at h; rw [← h.1]
        have f1 := bindWith_frame _ _ _ _ _ _ hw
        have f2 := execBlock_frame hr
        simpa using take_of_frame σ.heap [] stack r.1.heap (f1.trans f2)

/-- **Assignments inside a macro are invisible outside** (1): evaluating an expression — including
any macro calls in it — cannot change a scope: `emit` only appends to the output. -/
theorem set_in_macro_invisible {fuel ctx stack σ e σ' fl}
    (h : exec fuel ctx stack σ (.emit e) = .ok (σ', fl)) :
    σ'.heap = σ.heap ∧ ∃ v, evalExpr (fuel - 1) ctx σ.heap stack e = .ok v ∧ σ'.out = σ.out ++ render v := by
  cases fuel with
  | zero => simp [exec] at h
  | succ n =>
    simp only [exec, bind, Except.bind] at h
    split at h
    · simp at h
    · rename_i v hv
      simp at h; rw [← h.1]; exact ⟨rfl, v, by simpa using hv, rfl⟩

/-- **Assignments inside a macro are invisible outside** (2): a call block (macro call with a
`caller` body) leaves every scope cell as it was. -/
theorem set_in_call_block_invisible {fuel ctx stack σ callee args params defaults body uc σ' fl}
    (h : exec fuel ctx stack σ (.callBlock callee args params defaults body uc) = .ok (σ', fl)) :
    σ'.heap = σ.heap := by
  cases fuel with
  | zero => simp [exec] at h
  | succ n =>
    simp only [exec, bind, Except.bind] at h
    repeat' (split at h)
    all_goals first
      | (simp at h; done)
      | (simp at h; rw [← h.1])


theorem exec_set_var {m ctx cell rest σ x e v}
    (he : evalExpr m ctx σ.heap (cell :: rest) e = .ok v) :
    exec (m + 1) ctx (cell :: rest) σ (.set (.var x) e) =
      .ok ({ σ with heap := heapSet σ.heap cell x v }, .normal) := by
  simp [exec, bind, Except.bind, he, bindTarget, topCell, heapSetAll]

/-- **Assignments at template level persist** (in fact: in whatever scope the `set` stands): the
statement succeeds, writes exactly the innermost visible cell, and a later lookup from that scope
finds the value; the output is untouched. -/
theorem set_toplevel_persists {m ctx cell rest σ x e v}
    (he : evalExpr m ctx σ.heap (cell :: rest) e = .ok v) (hcell : cell < σ.heap.length) :
    ∃ σ', exec (m + 1) ctx (cell :: rest) σ (.set (.var x) e) = .ok (σ', .normal) ∧
      lookup ctx σ'.heap (cell :: rest) x = some v ∧ σ'.out = σ.out ∧
      Frame (cell :: rest) σ.heap σ'.heap :=
  ⟨_, exec_set_var he, lookup_heapSet_same _ _ _ _ _ _ hcell, rfl, Frame.heapSet (by simp [topCell]) _ _ _⟩

/-- **`if` introduces no scope**: the chosen branch runs in the very same scope stack and state. -/
theorem if_no_scope (n : Nat) (ctx : Scope) (stack : List Nat) (σ : State) (c : Expr) (t f : List Stmt) :
    exec (n + 1) ctx stack σ (.ifS c t f) =
      (evalExpr n ctx σ.heap stack c).bind fun cv =>
        if truthy cv then execBlock n ctx stack σ t else execBlock n ctx stack σ f := by
  simp only [exec, bind, Except.bind]

/-- **Assignments inside an if-branch persist** after the `if`. -/
theorem set_in_if_persists {m ctx cell rest σ c x e els cv v}
    (hc : evalExpr (m + 3) ctx σ.heap (cell :: rest) c = .ok cv) (ht : truthy cv = true)
    (he : evalExpr (m + 1) ctx σ.heap (cell :: rest) e = .ok v) (hcell : cell < σ.heap.length) :
    ∃ σ', exec (m + 4) ctx (cell :: rest) σ (.ifS c [.set (.var x) e] els) = .ok (σ', .normal) ∧
      lookup ctx σ'.heap (cell :: rest) x = some v ∧ σ'.out = σ.out := by
  refine ⟨{ σ with heap := heapSet σ.heap cell x v }, ?_, lookup_heapSet_same _ _ _ _ _ _ hcell, rfl⟩
  rw [if_no_scope]
  simp [Except.bind, hc, ht, execBlock, exec_set_var he]


/-- The loop bookkeeping (running counter, carried previous item, peeked next item) describes the
sequence actually iterated: entry `i` is `⟨i, len, xs[i-1]?, xs[i+1]?⟩`. -/
theorem loopInfosFrom_getElem? (len : Option Nat) (xs : List Val) :
    ∀ (idx : Nat) (prev : Option Val) (i : Nat), i < xs.length →
      (loopInfosFrom len idx prev xs)[i]? =
        some { index0 := idx + i, length := len,
               prev := if i = 0 then prev else xs[i - 1]?, next := xs[i + 1]? } := by
  induction xs with
  | nil => intro idx prev i h; simp at h
  | cons x rest ih =>
    intro idx prev i h
    cases i with
    | zero => simp [loopInfosFrom, List.head?_eq_getElem?]
    | succ j =>
      have hj : j < rest.length := by simpa using h
      simp only [loopInfosFrom, List.getElem?_cons_succ]
      rw [ih (idx + 1) (some x) j hj]
      cases j with
      | zero => simp
      | succ k => simp <;> omega

theorem loopInfos_length (sized : Bool) (xs : List Val) : (loopInfos sized xs).length = xs.length := by
  unfold loopInfos
  generalize (if sized then some xs.length else none) = len
  generalize (0 : Nat) = idx
  generalize (none : Option Val) = prev
  induction xs generalizing idx prev with
  | nil => rfl
  | cons x rest ih => simp [loopInfosFrom, ih]

/-- **The loop object of iteration `i`** over any list `xs`:
`⟨i, xs.length, xs[i-1]?, xs[i+1]?⟩` (length unknown for a lazy iterator). -/
theorem loop_info (sized : Bool) (xs : List Val) (i : Nat) (h : i < xs.length) :
    (loopInfos sized xs)[i]? =
      some { index0 := i, length := if sized then some xs.length else none,
             prev := if i = 0 then none else xs[i - 1]?, next := xs[i + 1]? } := by
  simpa [loopInfos] using loopInfosFrom_getElem? _ xs 0 none i h

/-- what the template reads through `loop.<name>` -/
def loopAttr (l : LoopInfo) (name : String) : Res Val := getAttr (loopVal l) name

theorem loop_index (xs : List Val) (i : Nat) (h : i < xs.length) :
    ∃ l, (loopInfos true xs)[i]? = some l ∧
      loopAttr l "index" = .ok (.int (i + 1)) ∧ loopAttr l "index0" = .ok (.int i) := by
  refine ⟨_, loop_info true xs i h, ?_, ?_⟩ <;> simp [loopAttr, loopVal, getAttr, assocGet]

theorem loop_revindex (xs : List Val) (i : Nat) (h : i < xs.length) :
    ∃ l, (loopInfos true xs)[i]? = some l ∧
      loopAttr l "revindex" = .ok (.int (xs.length - i)) ∧
      loopAttr l "revindex0" = .ok (.int (xs.length - i - 1)) := by
  refine ⟨_, loop_info true xs i h, ?_, ?_⟩ <;> simp [loopAttr, loopVal, getAttr, assocGet]

theorem loop_first_last (xs : List Val) (i : Nat) (h : i < xs.length) :
    ∃ l, (loopInfos true xs)[i]? = some l ∧
      loopAttr l "first" = .ok (.bool (i == 0)) ∧
      loopAttr l "last" = .ok (.bool (i + 1 == xs.length)) := by
  refine ⟨_, loop_info true xs i h, ?_, ?_⟩ <;> simp [loopAttr, loopVal, getAttr, assocGet]

theorem loop_length (xs : List Val) (i : Nat) (h : i < xs.length) :
    ∃ l, (loopInfos true xs)[i]? = some l ∧ loopAttr l "length" = .ok (.int xs.length) := by
  refine ⟨_, loop_info true xs i h, ?_⟩; simp [loopAttr, loopVal, getAttr, assocGet]

theorem loop_prev_next (sized : Bool) (xs : List Val) (i : Nat) (h : i < xs.length) :
    ∃ l, (loopInfos sized xs)[i]? = some l ∧
      loopAttr l "previtem" = .ok (if i = 0 then .undef else (xs[i - 1]?).getD .undef) ∧
      loopAttr l "nextitem" = .ok ((xs[i + 1]?).getD .undef) := by
  refine ⟨_, loop_info sized xs i h, ?_, ?_⟩
  · by_cases h0 : i = 0 <;> simp [loopAttr, loopVal, getAttr, assocGet, h0]
  · simp [loopAttr, loopVal, getAttr, assocGet]

/-- a lazy iterator (the characters of a string): `length`, `revindex`, `revindex0` are undefined
and `last` is never true, as documented in `syntax.rs` -/
theorem loop_unsized (xs : List Val) (i : Nat) (h : i < xs.length) :
    ∃ l, (loopInfos false xs)[i]? = some l ∧ loopAttr l "length" = .ok .undef ∧
      loopAttr l "revindex" = .ok .undef ∧ loopAttr l "last" = .ok (.bool false) ∧
      loopAttr l "index" = .ok (.int (i + 1)) := by
  refine ⟨_, loop_info false xs i h, ?_, ?_, ?_, ?_⟩ <;> simp [loopAttr, loopVal, getAttr, assocGet]

/-- **Every iteration gets a scope of its own** holding the loop target(s) and `loop`; the scope is
dropped after the body; `break` ends the walk. -/
theorem iteration_scope (n : Nat) (ctx : Scope) (stack : List Nat) (σ : State) (target : Target)
    (body : List Stmt) (x : Val) (info : LoopInfo) (rest : List (Val × LoopInfo)) :
    execIters (n + 1) ctx stack σ target body ((x, info) :: rest) =
      (bindTarget target x).bind fun bs =>
      (execBlock n ctx (σ.heap.length :: stack)
        { σ with heap := σ.heap ++ [setAll [("loop", loopVal info)] bs] } body).bind fun r =>
        match r.2 with
        | .brk => .ok { r.1 with heap := r.1.heap.take σ.heap.length }
        | _ => execIters n ctx stack { r.1 with heap := r.1.heap.take σ.heap.length } target body rest := by
  simp only [execIters, Except.bind]
  cases bindTarget target x with
  | error e => rfl
  | ok bs =>
    simp only
    cases execBlock n ctx (σ.heap.length :: stack) { σ with heap := σ.heap ++ [setAll [("loop", loopVal info)] bs] } body with
    | error e => rfl
    | ok r => obtain ⟨σ2, fl⟩ := r; cases fl <;> rfl


/-! ## Argument binding of macros and call-block callers (`Macro::prepare_args`)

`bindArgs params usesCaller pos kw` is the binder of the reference semantics (`MJ/Model/Eval.lean`:
parameter names, positional values, keyword values → value of every parameter + hidden `caller`, or
`TooManyArguments`), `slotOf` decides between the bound value and the default.  `callValue` (a macro
call, a `caller(…)` call) goes through both.  The engine's binder is compared with them on the
exhaustive box of `harness/src/bin/c03_args.inc`. -/

/-- **An explicitly passed value — whatever it is, `none` included — is bound as it is**: when the
call is accepted, parameter `i` holds the positional value number `i` if there is one, else the
keyword value of its name; the value is not looked at. -/
theorem arg_explicit_value_bound_as_is {params uc pos kw bound c}
    (h : bindArgs params uc pos kw = .ok (bound, c)) (i : Nat) (p : String) (hp : params[i]? = some p) :
    (∀ v, pos[i]? = some v → bound[i]? = some (p, v)) ∧
    (∀ v, pos[i]? = none → assocGet p kw = some v → bound[i]? = some (p, v)) ∧
    (pos[i]? = none → assocGet p kw = none → bound[i]? = some (p, .undef)) := by
  simp only [bindArgs] at h
  split at h
  · simp at h
  · rename_i b hb
    split at h
    · simp at h
    · simp at h
      obtain ⟨rfl, _⟩ := h
      have := MJ.ArgBind.bindParams_getElem? params pos kw b hb i p hp
      refine ⟨fun v hv => ?_, fun v hn hk => ?_, fun hn hk => ?_⟩ <;>
        simp [MJ.ArgBind.boundValue, *] at this <;> exact this

/-- **The default is evaluated iff the parameter is missing or undefined**: the body sees the
default of a parameter exactly when the parameter is bound to `undef` (nothing passed, or an
undefined value passed) and has a default; `none`, `false`, `0`, `""`, `[]` are kept. -/
theorem arg_default_iff_missing_or_undefined (v : Val) (dflt : Option Expr) (d : Expr) :
    (slotOf v dflt = .dflt d ↔ v = .undef ∧ dflt = some d) ∧
    (v ≠ .undef → slotOf v dflt = .passed v) ∧ slotOf v none = .passed v :=
  ⟨MJ.ArgBind.slotOf_dflt_iff v dflt d, MJ.ArgBind.slotOf_passed_of_ne_undef v dflt, MJ.ArgBind.slotOf_no_default v⟩

/-- … and the default expression is evaluated (at call time, in the macro's scope) exactly in that
case: binding one parameter is "evaluate the default, store it" or "store the bound value". -/
theorem arg_default_evaluated_iff_used (n : Nat) (ctx : Scope) (heap : Heap) (cell : Nat) (st : List Nat)
    (params : List String) (defaults : List Expr) (i : Nat) (p : String) (v : Val) (rest : List (String × Val)) :
    bindDefaults (n + 1) ctx heap (cell :: st) params defaults i ((p, v) :: rest) =
      match slotOf v (defaultOf params defaults i) with
      | .dflt d => (evalExpr n ctx heap (cell :: st) d).bind fun dv =>
          bindDefaults n ctx (heapSet heap cell p dv) (cell :: st) params defaults (i + 1) rest
      | .passed w => bindDefaults n ctx (heapSet heap cell p w) (cell :: st) params defaults (i + 1) rest := by
  simp only [bindDefaults, topCell]
  cases slotOf v (defaultOf params defaults i) with
  | passed w => rfl
  | dflt d =>
    simp only [Except.bind]
    cases evalExpr n ctx heap (cell :: st) d <;> rfl

/-- **Positional and keyword passing of the same value bind the same**: one more positional value
`v` is the same call as `p=v` for the next free parameter `p`. -/
theorem arg_positional_eq_keyword (params : List String) (uc : Bool) (pos : List Val) (kw : List (String × Val))
    (p : String) (v : Val) (hnd : params.Nodup) (hp : params[pos.length]? = some p)
    (hk : assocGet p kw = none) (hc : p ≠ "caller") :
    bindArgs params uc (pos ++ [v]) kw = bindArgs params uc pos (kw ++ [(p, v)]) :=
  MJ.ArgBind.bindArgs_pos_eq_kw params uc pos kw p v hnd hp hk hc

/-- **Every keyword is either consumed or an error**: in an accepted call every keyword names a
parameter that was not filled by position, and that parameter holds the keyword's value — or it is
the hidden `caller` of a macro that refers to `caller`. -/
theorem arg_keyword_consumed_or_error {params uc pos kw bound c}
    (h : bindArgs params uc pos kw = .ok (bound, c)) (k : String) (v : Val) (hm : (k, v) ∈ kw) :
    (∃ i w, params[i]? = some k ∧ pos.length ≤ i ∧ assocGet k kw = some w ∧ bound[i]? = some (k, w)) ∨
      (uc = true ∧ k = "caller") :=
  MJ.ArgBind.bindArgs_keywords_consumed h k v hm

/-- the error cases, exactly: too many positional values, a parameter filled by position and named
by a keyword (duplicate — whatever the keyword's value), an unknown keyword -/
theorem arg_error_iff (params : List String) (uc : Bool) (pos : List Val) (kw : List (String × Val)) :
    bindArgs params uc pos kw = .error .tooManyArgs ↔
      (params.length < pos.length ∨ (∃ i p, i < pos.length ∧ params[i]? = some p ∧ (assocGet p kw).isSome) ∨
        ∃ k v, (k, v) ∈ kw ∧ k ∉ params ∧ ¬ (uc = true ∧ k = "caller")) :=
  MJ.ArgBind.bindArgs_error_iff params uc pos kw

/-- the model VM's `Macro::prepare_args` (`MJ.Vm.prepareArgs`: the last value of a call is the
keyword bundle) is the binder of the reference semantics -/
theorem vm_prepare_args_is_bindArgs (spec : List String) (cref : Bool) (pos : List Val) (kw : List (String × Val)) :
    MJ.Vm.prepareArgs spec cref (pos ++ [.kwargs kw]) =
      (bindArgs spec cref pos kw).map (fun r => (r.1.map (·.2), r.2)) ∧
    ((∀ kvs, pos.getLast? ≠ some (.kwargs kvs)) →
      MJ.Vm.prepareArgs spec cref pos = (bindArgs spec cref pos []).map (fun r => (r.1.map (·.2), r.2))) :=
  ⟨MJ.ArgBind.prepareArgs_kwargs spec cref pos kw, MJ.ArgBind.prepareArgs_positional spec cref pos⟩

/-! ## Refinement: compiled code on the VM vs. the reference semantics -/

/-- The full statement: for every template the model code generator compiles (macros, call blocks
and calls included) and every context, the extended model VM on the generated code renders what
the reference semantics renders.  Not proved (checked on every generated program). -/
def C03_full : Prop :=
  ∀ (prog : List Stmt) (ctx : Scope) (code : List MJ.Compile.Instr) (fuel : Nat) (out : String),
    MJ.Compile.compileTemplate prog = some code → renderTemplate fuel ctx prog = .ok out →
    ∃ k, ∀ j, MJ.VmM.renderCodeM (k + j) ctx code = .ok out

/-- **The refinement theorem.**  For every template of `MJ.Compile.CoreFragment` (see the head of this
file: everything but defaults that call or read parameters and macros used as values) and every render
context of plain data (`undefined`, `none`, booleans, integers, strings, lists, maps), whatever the
reference semantics renders, the model VM `MJ.Vm` renders on the code the model code generator emits —
macro declarations with closures and defaults, macro calls with positional and keyword arguments, call
blocks and `caller` included. -/
theorem vm_refines_eval (prog : List Stmt) (hfrag : MJ.Compile.CoreFragment prog) (ctx : Scope)
    (hctx : MJ.Vm.CtxPlain ctx)
    (code : List MJ.Compile.Instr) (hcode : MJ.Compile.compileTemplate prog = some code) (fuel : Nat)
    (out : String) (hev : renderTemplate fuel ctx prog = .ok out) :
    ∃ k, ∀ j, MJ.Vm.renderCode (k + j) ctx code = .ok out :=
  MJ.Vm.vm_refines_eval prog hfrag ctx hctx code hcode fuel out hev

/-- expressions: the code the back-patching generator appends for `e` makes the VM push the value
of `e` (constant folding, short-circuit `and` / `or`, `if` expressions, filters, tests, macro calls
with positional and keyword arguments, …); `E` = where the expression stands (cells, closures, what
may be read), `E.ok s` = the VM state mirrors it -/
theorem compileExpr_correct {n e v} (E : MJ.Vm.ECtx) (hev : evalExpr n E.K.ctx E.heap (E.loc ++ E.env) e = .ok v)
    (hwf : MJ.Compile.wfExpr E.K.M E.P E.A e = true) (g : MJ.Compile.CG) (post : List MJ.Compile.Instr)
    (hC : E.K.C = (MJ.Compile.cExpr e g).code ++ post)
    (hoof : (MJ.Compile.cExpr e g).oof = false) {s : MJ.Vm.VmState} (hpc : s.pc = g.next) (hok : E.ok s) :
    MJ.Vm.Pushed E s (MJ.Compile.cExpr e g).next (v :: s.stack) :=
  MJ.Vm.compileExpr_correct E hev hwf g post hC hoof hpc hok

/-- a macro call (`Macro::call`): for a macro value `w` of the reference semantics and the macro object
`u` of the VM that mirrors it, the VM binds the arguments with `prepare_args` (`ArgsRel`: the same plain
data, and — for a call block — corresponding `caller` macros), evaluates the defaults, runs the macro's
code in a fresh context up to its `Return`, and the captured output is the value of the call -/
theorem macro_call_correct (n : Nat) (K : MJ.Vm.Cfg) (G : MJ.Vm.Ghost) (heap : Heap) (cls : List Scope) (w u : Val)
    (as : List (Option String × Val)) (args : List Val) (v : Val)
    (hcall : callValue n K.ctx heap w as = .ok v) (hrel : MJ.Vm.MacroRel K G cls heap.length u w)
    (hargs : MJ.Vm.ArgsRel K G cls heap.length as args) (hinv : MJ.Vm.GInv K G heap cls)
    (hplain : PlainSt K.M K.ctx heap) :
    ∃ nm spec off clo cref vals caller s1, u = .vmMacro nm spec off clo cref ∧
      MJ.Vm.prepareArgs spec cref args = .ok (vals, caller) ∧
      MJ.Vm.Reach K.ctx K.C (MJ.Vm.calleeState off clo caller vals cls) s1 ∧ K.C[s1.pc]? = some .return_ ∧
      v = .str (s1.outs.getLast?.getD "") ∧ MJ.Vm.Ext cls s1.closures :=
  (MJ.Vm.all_sim n n (Nat.le_refl _)).2.1 K G heap cls w u as args v hcall hrel hargs hinv hplain

/-- the values that flow through expressions of the fragment are plain data (no macro, no keyword
bundle, no other engine object), provided the render context and the variables hold plain data: macro
values only sit in variables with macro names, which are only called -/
theorem expr_value_plain {M : List String} {ctx : Scope} {heap : Heap} {st : List Nat} (hp : PlainSt M ctx heap)
    {P A} (n : Nat) (e : Expr) (v : Val) (hwf : MJ.Compile.wfExpr M P A e = true)
    (hev : evalExpr n ctx heap st e = .ok v) : plain v = true :=
  evalExpr_plain hp n e v hwf hev

/-- … so that a positional argument of a call is never taken for the keyword-argument bundle of
`Value::call`'s calling convention -/
theorem plain_args_are_positional {as : List (Option String × Val)} (h : ∀ v, v ∈ (splitArgs as).1 → plain v = true) :
    callArgs as = ((splitArgs as).1, (splitArgs as).2) :=
  callArgs_plain h

/-- the other entry form: `prog` is the top level of a child template / of an imported module —
its output is discarded (`Output::begin_capture(Discard)`), its assignments and the macros it declares
persist — and `tail` the layout / importing template that reads / calls them (`renderAfter`).  The
model VM runs the code of `prog` with a discarding output and the rest with a fresh one; captures begun
under the discarding output (`{% set x %}…{% endset %}`, filter blocks, macro calls) still record what
is written into them. -/
theorem vm_refines_eval_discard (prog tail : List Stmt) (hfrag : MJ.Compile.CoreFragment (prog ++ tail)) (ctx : Scope)
    (hctx : MJ.Vm.CtxPlain ctx)
    (code : List MJ.Compile.Instr) (hcode : MJ.Compile.compileTemplate (prog ++ tail) = some code)
    (fuel : Nat) (out : String) (hev : renderAfter fuel ctx prog tail = .ok out) :
    ∃ codeP, MJ.Compile.compileTemplate prog = some codeP ∧
      ∃ k, ∀ j, MJ.Vm.renderCodeAfter (k + j) ctx code codeP.length = .ok out :=
  MJ.Vm.vm_refines_eval_discard prog tail hfrag ctx hctx code hcode fuel out hev

/-- a run with a discarding output goes through the same program counters, operand stacks, frames
and capture buffers (above the bottom entry) as the ordinary run -/
theorem discard_run_follows_run (ctx : Scope) (C : List MJ.Compile.Instr) (k : Nat) (s s' : MJ.Vm.VmState)
    (h : MJ.Vm.run ctx C k s = .ok s') :
    MJ.Vm.runD ctx C k (MJ.Vm.eraseBottom s) = .ok (MJ.Vm.eraseBottom s') :=
  MJ.Vm.run_erase ctx C k s s' h

/-- constant folding (`Expr::as_const`) never changes a value -/
theorem asConst_sound {e : Expr} {v : Val} (h : MJ.Compile.asConst e = .val v) (n : Nat) (ctx : Scope)
    (heap : Heap) (stack : List Nat) :
    evalExpr n ctx heap stack e = .ok v ∨ evalExpr n ctx heap stack e = .error .fuel :=
  MJ.Compile.asConst_sound h n ctx heap stack

/-- the back-patching generator (absolute targets patched through `pending`) emits exactly the
structured code with resolved targets — for the whole core fragment `coreBlock`: every statement form,
macro declarations (jump over the body, prologue with defaults, `Enclose` / `GetClosure` / `BuildMacro`)
and call blocks, calls with positional, static and dynamic keyword arguments included; inside a loop (`lc`) the `break` jumps of the block are
still placeholders that are recorded in the pending entry of the loop (`withBreaks`) — the loop
patches them when it ends (`relBlock_patched`) -/
theorem codegen_eq_structured (prog : List Stmt) (g : MJ.Compile.CG) (lc : Option MJ.Compile.LoopCtx)
    (h : MJ.Compile.coreBlock lc.isSome prog = true) (hc : MJ.Compile.Compat g.pending lc) :
    MJ.Compile.cBlock prog g =
      (g.extend (MJ.Compile.relBlock prog g.next g.aux (MJ.Compile.setExit 0 lc)).1).withBreaks
        (MJ.Compile.relBlock prog g.next g.aux (MJ.Compile.setExit 0 lc)).2 :=
  MJ.Compile.cBlock_eq_core prog g lc h hc

/-- a whole template: no placeholders are left -/
theorem codegen_eq_structured_top (prog : List Stmt) (h : MJ.Compile.coreBlock false prog = true) :
    MJ.Compile.cBlock prog {} = ({} : MJ.Compile.CG).extend (MJ.Compile.relBlock prog 0 {} none).1 := by
  have h' := MJ.Compile.cBlock_eq_core prog {} none h trivial
  rw [h', MJ.Compile.CG.withBreaks_eq]
  simp [MJ.Compile.foldl_addBreakJump_nil, MJ.Compile.CG.extend, MJ.Compile.CG.next, MJ.Compile.setExit]

/-! ## Non-vacuity: concrete instances, evaluated by the kernel -/

section Examples

private def ci (i : Int) : Expr := .const (.int i)
private def xs3 : Expr := .list [ci 10, ci 20, ci 30]
private def run (p : List Stmt) : Option String := (renderTemplate defaultFuel [] p).toOption

/-- `{% set y = 1 %}{% for a in [10,20,30] %}{% set y = a %}{{ y }},{% endfor %}{{ y }}`:
the loop body sees its own `y`, afterwards `y` is 1 again (`set_in_loop_invisible`) -/
example : run [.set (.var "y") (ci 1),
    .forS (.var "a") xs3 none [.set (.var "y") (.var "a"), .emit (.var "y"), .text ","] [],
    .emit (.var "y")] = some "10,20,30,1" := by decide +kernel

/-- `set` in a `with` body is dropped, `set` in an `if` branch and at top level persists -/
example : run [.withS [(.var "w", ci 5)] [.set (.var "y") (.var "w"), .emit (.var "y")],
    .emit (.test "defined" (.var "y") []),
    .ifS (.const (.bool true)) [.set (.var "z") (ci 7)] [],
    .emit (.var "z")] = some "5False7" := by decide +kernel

/-- a macro assigns a name of the enclosing scope: only the macro's own scope changes; a later
assignment in the declaring scope is seen by the macro (closure by reference) -/
example : run [.set (.var "v") (ci 1),
    .macroS "m" [] [] [.set (.var "v") (.binop .add (.var "v") (ci 1)), .emit (.var "v")] false,
    .emit (.call (.var "m") []), .text ";", .emit (.var "v"),
    .set (.var "v") (ci 5), .emit (.call (.var "m") [])] = some "2;16" := by decide +kernel

/-- the loop variable: index, revindex, first/last, length, previtem, nextitem -/
example : run [.forS (.var "a") xs3 none
    [.emit (.getattr (.var "loop") "index"), .emit (.getattr (.var "loop") "revindex0"),
     .emit (.getattr (.var "loop") "first"), .emit (.getattr (.var "loop") "last"),
     .emit (.getattr (.var "loop") "length"), .text "[", .emit (.getattr (.var "loop") "previtem"),
     .text "|", .emit (.getattr (.var "loop") "nextitem"), .text "] "] []] =
    some "12TrueFalse3[|20] 21FalseFalse3[10|30] 30FalseTrue3[20|] " := by decide +kernel

/-- loop filter: `loop` describes the filtered sequence; `else` runs iff it is empty, also when
the first iteration ends with `break` -/
example : run [.forS (.var "a") xs3 (some (.binop .ne (.var "a") (ci 20)))
      [.emit (.getattr (.var "loop") "index"), .text "/", .emit (.getattr (.var "loop") "length"), .text " "] [.text "E"],
    .forS (.var "a") xs3 (some (.binop .gt (.var "a") (ci 99))) [.emit (.var "a")] [.text "E"],
    .forS (.var "a") xs3 none [.breakS] [.text "E2"]] = some "1/2 2/2 E" := by decide +kernel

/-- macros: positional, default, keyword arguments; call block with `caller(arg)`; unpacking -/
example : run [
    .macroS "m" ["a", "b"] [ci 2] [.emit (.var "a"), .emit (.var "b"), .emit (.call (.var "caller") [(none, .var "a")])] true,
    .callBlock (.var "m") [(none, ci 1)] ["q"] [] [.text "<", .emit (.var "q"), .text ">"] false,
    .callBlock (.var "m") [(some "b", ci 9), (some "a", ci 3)] ["q"] [] [.emit (.binop .mul (.var "q") (ci 2))] false,
    .forS (.tuple [.var "k", .var "v"]) (.list [.list [ci 1, .const (.str "x")]]) none [.emit (.var "v"), .emit (.var "k")] []]
    = some "12<1>396x1" := by decide +kernel

/-- argument binding: `m(a=none)` binds `none` (no default), `m(none)` the same; `m(1, a=none)` is a
duplicate argument; an undefined keyword value takes the default; `caller` is a keyword of its own -/
example : bindArgs ["a", "b"] false [] [("a", .none)] = .ok ([("a", .none), ("b", .undef)], none) := by
  simp [bindArgs, bindParams, assocGet]
example : bindArgs ["a", "b"] false [.none] [] = bindArgs ["a", "b"] false [] [("a", .none)] := by
  simp [bindArgs, bindParams, assocGet]
example : bindArgs ["a", "b"] false [.int 1] [("a", .none)] = .error .tooManyArgs := by
  simp [bindArgs, bindParams, assocGet]
example : bindArgs ["a"] false [] [("zz", .int 1)] = .error .tooManyArgs := by
  simp [bindArgs, bindParams, assocGet]
example : bindArgs ["a"] true [] [("caller", .int 5)] = .ok ([("a", .undef)], some (.int 5)) := by
  simp [bindArgs, bindParams, assocGet]
example : slotOf .none (some (ci 1)) = .passed .none ∧ slotOf .undef (some (ci 1)) = .dflt (ci 1) ∧
    slotOf (.bool false) (some (ci 1)) = .passed (.bool false) := by simp [slotOf]
/-- hypotheses of `arg_positional_eq_keyword` / `arg_keyword_consumed_or_error` / `arg_explicit_value_bound_as_is` hold for … -/
example : bindArgs ["a", "b"] false ([.int 1] ++ [.none]) [] = bindArgs ["a", "b"] false [.int 1] ([] ++ [("b", .none)]) :=
  arg_positional_eq_keyword ["a", "b"] false [.int 1] [] "b" .none (by decide) (by decide) (by simp [assocGet]) (by decide)
example : bindArgs ["a", "b"] false [.int 1] [("b", .none)] = .ok ([("a", .int 1), ("b", .none)], none) := by
  simp [bindArgs, bindParams, assocGet]
example : ∃ i w, ["a", "b"][i]? = some "b" ∧ [Val.int 1].length ≤ i ∧ assocGet "b" [("b", Val.none)] = some w ∧
    [("a", Val.int 1), ("b", Val.none)][i]? = some ("b", w) := by
  have h : bindArgs ["a", "b"] false [.int 1] [("b", .none)] = .ok ([("a", .int 1), ("b", .none)], none) := by
    simp [bindArgs, bindParams, assocGet]
  simpa using arg_keyword_consumed_or_error h "b" .none (by simp)
/-- `{% macro m(a=1, b='x') %}[{{ a }}|{{ b }}]{% endmacro %}{{ m(a=none) }}{{ m(none, none) }}{{ m(2, b=none) }}{{ m(a=u) }}` -/
example : run [.macroS "m" ["a", "b"] [ci 1, .const (.str "x")] [.text "[", .emit (.var "a"), .text "|", .emit (.var "b"), .text "]"] false,
    .emit (.call (.var "m") [(some "a", .const .none)]), .emit (.call (.var "m") [(none, .const .none), (none, .const .none)]),
    .emit (.call (.var "m") [(none, ci 2), (some "b", .const .none)]), .emit (.call (.var "m") [(some "a", .var "u")])]
    = some "[None|x][None|None][2|None][1|x]" := by decide +kernel
/-- … and the model VM on the compiled code renders the same -/
example : ((MJ.Compile.compileTemplate [.macroS "m" ["a", "b"] [ci 1, .const (.str "x")] [.text "[", .emit (.var "a"), .text "|", .emit (.var "b"), .text "]"] false,
    .emit (.call (.var "m") [(some "a", .const .none)]), .emit (.call (.var "m") [(none, .const .none), (none, .const .none)]),
    .emit (.call (.var "m") [(none, ci 2), (some "b", .const .none)]), .emit (.call (.var "m") [(some "a", .var "u")])]).bind fun code =>
    (MJ.VmM.renderCodeM 1000 [] code).toOption) = some "[None|x][None|None][2|None][1|x]" := by decide +kernel

/-- an instance of the hypotheses of `set_in_if_persists` / `set_toplevel_persists` -/
example : ∃ σ', exec 6 [] [0] { heap := [[]], out := "" }
      (.ifS (.const (.bool true)) [.set (.var "x") (ci 3)] []) = .ok (σ', .normal) ∧
    lookup [] σ'.heap [0] "x" = some (.int 3) ∧ σ'.out = "" :=
  set_in_if_persists (m := 2) (cv := .bool true) (by rfl) (by rfl) (by rfl) (by decide)

/-- a template of the fragment with short-circuit operators, constant folding, an `if` expression,
`elif`, loop filters, `break` and `continue`: hypotheses of `vm_refines_eval` hold, and the VM indeed renders the same -/
private def fragProg : List Stmt :=
  [.set (.var "x") (.binop .add (ci 2) (ci 3)),
   .ifS (.binop .and (.var "x") (.binop .gt (.var "x") (ci 9))) [.text "big"]
     [.ifS (.binop .or (.var "nope") (.var "x")) [.emit (.ife (.var "x") (.filter "upper" (.const (.str "ok")) []) none)] [.text "no"]],
   .emit (.list [.var "x", .getattr (.var "m") "k"]),
   .withS [(.var "w", .binop .mul (.var "x") (ci 2))]
     [.forS (.var "a") (.list [.var "w", ci 7, .var "x"]) none
        [.set (.var "x") (.var "a"), .emit (.var "x"), .text ":", .emit (.getattr (.var "loop") "revindex"),
         .ifS (.getattr (.var "loop") "last") [.text "."] [.text ","]] []],
   .emit (.var "x"), .emit (.test "defined" (.var "w") []),
   .forS (.tuple [.var "k", .var "v"]) (.list [.list [ci 1, .const (.str "p")], .list [ci 2, .const (.str "q")]]) none
     [.emit (.var "v"), .emit (.var "k")] [.text "never"],
   .forS (.var "z") (.var "nothing") none [.text "never"] [.text "|empty|"],
   .setBlock "cap" [("upper", []), ("default", [(none, .const (.str "d"))])] [.text "ab", .emit (.var "x")],
   .set (.tuple [.var "p", .tuple [.var "q", .var "r"]]) (.list [ci 1, .list [ci 2, ci 3]]),
   .filterBlock [("lower", [])] [.emit (.var "cap"), .text "XY", .emit (.binop .add (.var "q") (.var "r"))],
   .emit (.cmp (ci 1) [(.lt, .var "q"), (.le, .var "r"), (.notin, .list [ci 4, .var "x"])]),
   .emit (.cmp (ci 1) [(.lt, .var "q"), (.gt, .var "r"), (.eq, .getattr (.var "nope") "boom")]),
   .forS (.var "f") (.list [ci 1, ci 2, ci 3, ci 4]) (some (.test "odd" (.var "f") []))
     [.emit (.var "f"), .emit (.getattr (.var "loop") "length")] [.text "none"],
   .forS (.var "f") (.list [ci 1, ci 2]) (some (.binop .gt (.var "f") (ci 9))) [.emit (.var "f")] [.text "none"],
   -- `continue` / `break` out of `if`, `with`, set-block and filter-block bodies
   .forS (.var "b") (.list [ci 1, ci 2, ci 3, ci 4, ci 5]) none
     [.ifS (.binop .eq (.var "b") (ci 2)) [.continueS] [],
      .withS [(.var "w2", .binop .mul (.var "b") (ci 10))]
        [.setBlock "cp" [("upper", [])] [.text "x", .ifS (.binop .eq (.var "b") (ci 4)) [.breakS] [], .emit (.var "w2")],
         .emit (.var "cp"), .text ";"],
      .filterBlock [("lower", [])] [.text "Q", .ifS (.getattr (.var "loop") "first") [.continueS] [], .emit (.var "b")]]
     [.text "never"],
   .forS (.var "b") (.list [ci 1, ci 2]) (some (.binop .gt (.var "b") (ci 1))) [.breakS] [.text "E"]]

example : MJ.Compile.CoreFragment fragProg := by decide +kernel
example : (MJ.Compile.compileTemplate fragProg).isSome = true := by decide +kernel
example : (renderTemplate defaultFuel [("m", .map [("k", .str "v")])] fragProg).toOption = some "OK[5, 'v']10:3,7:2,5:1.5Falsep1q2|empty|ab5xy5TrueFalse1232noneX10;X30;q3" := by
  decide +kernel
example : ((MJ.Compile.compileTemplate fragProg).bind fun code =>
    (MJ.Vm.renderCode 1000 [("m", .map [("k", .str "v")])] code).toOption) = some "OK[5, 'v']10:3,7:2,5:1.5Falsep1q2|empty|ab5xy5TrueFalse1232noneX10;X30;q3" := by
  decide +kernel

/-- macros with defaults and keyword arguments, a call block with `caller(arg)`, a closure: the program
is in the fragment of `codegen_eq_structured` and the structured code is the generated code -/
private def macroProg : List Stmt :=
  [.set (.var "v") (ci 1),
   .macroS "m" ["a", "b"] [ci 2] [.emit (.var "a"), .emit (.var "b"), .emit (.var "v"),
      .emit (.call (.var "caller") [(none, .var "a"), (some "k", .var "b")])] true,
   .callBlock (.var "m") [(none, ci 1), (some "b", .var "v")] ["q", "k"] [ci 0] [.text "<", .emit (.var "q"), .emit (.var "k"), .text ">"] false,
   .emit (.call (.var "m") [(some "a", ci 3), (some "caller", .const .none)])]
example : MJ.Compile.coreBlock false macroProg = true := by decide +kernel
example : (MJ.Compile.compileTemplate macroProg).map (·.length) =
    some (MJ.Compile.relBlock macroProg 0 {} none).1.1.length := by decide +kernel

/-- closures: `m` reads the template-level `v` (which changes after the declaration: the closure cell is
written through), `g` is declared in a loop body, encloses the loop variable and `m`, and calls `m` with
a keyword argument; arguments by position, by keyword (in any order), `none` passed explicitly, a
missing argument that gets its default — evaluated at call time, reading the enclosed `v`.  The hypotheses of `vm_refines_eval` hold, and the VM indeed renders the same:
`{% set v = 1 %}{% macro m(a, b=v + 100) %}[{{ a }}|{{ b }}|{{ v }}]{% endmacro %}{% for i in [1, 2] %}{% macro g(x) %}{{ x }}{{ i }}{{ m(x, b=i) }}{% endmacro %}{{ g(i * 10) }}{% set v = 5 %}{% endfor %}{{ m(b=2, a=none) }}{% set v = 7 %}{{ m(1) }}{{ g is defined }}{{ m is defined }}` -/
private def closProg : List Stmt :=
  [.set (.var "v") (ci 1),
   .macroS "m" ["a", "b"] [.binop .add (.var "v") (ci 100)] [.text "[", .emit (.var "a"), .text "|", .emit (.var "b"), .text "|", .emit (.var "v"), .text "]"] false,
   .forS (.var "i") (.list [ci 1, ci 2]) none
     [.macroS "g" ["x"] [] [.emit (.var "x"), .emit (.var "i"), .emit (.call (.var "m") [(none, .var "x"), (some "b", .var "i")])] false,
      .emit (.call (.var "g") [(none, .binop .mul (.var "i") (ci 10))]), .set (.var "v") (ci 5)] [],
   .emit (.call (.var "m") [(some "b", ci 2), (some "a", .const .none)]),
   .set (.var "v") (ci 7),
   .emit (.call (.var "m") [(none, ci 1)]),
   .emit (.test "defined" (.var "g") []), .emit (.test "defined" (.var "m") [])]
example : MJ.Compile.CoreFragment closProg := by decide +kernel
example : MJ.Vm.CtxPlain [] := by intro x v h; cases h
example : MJ.Vm.CtxPlain [("m", .map [("k", .str "v")]), ("xs", .list [.int 1, .none])] := by
  intro x v h; simp only [assocGet] at h; split at h
  · cases h; decide
  · split at h
    · cases h; decide
    · cases h
example : (MJ.Compile.compileTemplate closProg).map (·.length) = some 74 := by decide +kernel
example : (renderTemplate defaultFuel [] closProg).toOption = some "101[10|1|1]202[20|2|1][None|2|1][1|107|7]FalseTrue" := by
  decide +kernel
example : ((MJ.Compile.compileTemplate closProg).bind fun code =>
    (MJ.Vm.renderCode 1000 [] code).toOption) = some "101[10|1|1]202[20|2|1][None|2|1][1|107|7]FalseTrue" := by
  decide +kernel

example : callArgs [(none, .int 1), (none, .map [("a", .int 2)])] = ([.int 1, .map [("a", .int 2)]], []) :=
  plain_args_are_positional (by intro v hv; simp [splitArgs] at hv; rcases hv with rfl | rfl <;> decide)
/-- (a keyword bundle as last positional value — what a caller from Rust passes — *is* taken for the keyword arguments) -/
example : callArgs [(none, .int 1), (none, .kwargs [("a", .int 2)])] = ([.int 1], [("a", .int 2)]) := by
  simp [callArgs, splitArgs]

/-- call blocks and `caller`: `box` calls its `caller` with a positional and a keyword argument; the first
call block has two parameters, the second a parameter with a default and stands in a loop (its body reads
the loop variable: the `caller` macro is a closure); `w` is passed by default and by keyword:
`{% macro box(title, w=2) %}<{{ title }}:{{ w }}>{{ caller(title, k=w) }}</>{% endmacro %}{% set v = 3 %}{% call(t, k) box("a") %}[{{ t }}{{ k }}{{ v }}]{% endcall %}{% for i in [1, 2] %}{% call(t, k=9) box(i, w=i * 10) %}{{ t }}-{{ k }}-{{ i }}{% endcall %}{% endfor %}` -/
private def cbProg : List Stmt :=
  [.macroS "box" ["title", "w"] [ci 2]
     [.text "<", .emit (.var "title"), .text ":", .emit (.var "w"), .text ">",
      .emit (.call (.var "caller") [(none, .var "title"), (some "k", .var "w")]), .text "</>"] true,
   .set (.var "v") (ci 3),
   .callBlock (.var "box") [(none, .const (.str "a"))] ["t", "k"] [] [.text "[", .emit (.var "t"), .emit (.var "k"), .emit (.var "v"), .text "]"] false,
   .forS (.var "i") (.list [ci 1, ci 2]) none
     [.callBlock (.var "box") [(none, .var "i"), (some "w", .binop .mul (.var "i") (ci 10))] ["t", "k"] [ci 9]
        [.emit (.var "t"), .text "-", .emit (.var "k"), .text "-", .emit (.var "i")] false] []]
example : MJ.Compile.CoreFragment cbProg := by decide +kernel
example : (MJ.Compile.compileTemplate cbProg).map (·.length) = some 86 := by decide +kernel
example : (renderTemplate defaultFuel [] cbProg).toOption = some "<a:2>[a23]</><1:10>1-10-1</><2:20>2-20-2</>" := by
  decide +kernel
example : ((MJ.Compile.compileTemplate cbProg).bind fun code =>
    (MJ.Vm.renderCode 1000 [] code).toOption) = some "<a:2>[a23]</><1:10>1-10-1</><2:20>2-20-2</>" := by
  decide +kernel

/-- a macro declared at the top level of a "child template" (its own call there is discarded) is called
from the "layout", and sees the layout's later assignment -/
private def childM : List Stmt :=
  [.text "dropped", .set (.var "t") (.const (.str "T")), .macroS "hd" ["x"] [] [.text "<", .emit (.var "x"), .emit (.var "t"), .text ">"] false,
   .emit (.call (.var "hd") [(none, ci 0)])]
private def layoutM : List Stmt :=
  [.emit (.call (.var "hd") [(some "x", ci 1)]), .set (.var "t") (ci 2), .emit (.call (.var "hd") [(none, ci 3)])]
example : MJ.Compile.CoreFragment (childM ++ layoutM) := by decide +kernel
example : (renderAfter defaultFuel [] childM layoutM).toOption = some "<1T><32>" := by decide +kernel
example : ((MJ.Compile.compileTemplate (childM ++ layoutM)).bind fun code =>
    (MJ.Compile.compileTemplate childM).bind fun codeP =>
    (MJ.Vm.renderCodeAfter 1000 [] code codeP.length).toOption) = some "<1T><32>" := by decide +kernel

/-- a set-block at the top level of a "child template": its output is discarded, the captured value
reaches the "layout" — in the reference semantics and on the model VM -/
private def childProg : List Stmt :=
  [.text "dropped", .setBlock "title" [("upper", [])] [.text "Hello ", .emit (.var "name")],
   .ifS (.var "name") [.setBlock "sub" [] [.forS (.var "c") (.list [ci 1, ci 2]) none [.emit (.var "c")] []]] []]
private def layoutProg : List Stmt :=
  [.text "<", .emit (.var "title"), .text "|", .emit (.var "sub"), .text ">"]
example : (renderAfter defaultFuel [("name", .str "World")] childProg layoutProg).toOption = some "<HELLO WORLD|12>" := by
  decide +kernel
example : ((MJ.Compile.compileTemplate (childProg ++ layoutProg)).bind fun code =>
    (MJ.Compile.compileTemplate childProg).bind fun codeP =>
    (MJ.Vm.renderCodeAfter 1000 [("name", .str "World")] code codeP.length).toOption) = some "<HELLO WORLD|12>" := by
  decide +kernel

end Examples

/-! ## keyword arguments: static fast path = dynamic path -/

theorem assocGet_none_of_not_key {α : Type} (k : String) : ∀ (l : List (String × α)), k ∉ l.map (·.1) → assocGet k l = none
  | [], _ => by simp [assocGet]
  | (k1, v1) :: rest, h => by
    have h1 : ¬ k1 = k := fun e => h (by simp [e])
    have h2 : k ∉ rest.map (·.1) := fun m => h (by simp [m])
    simp [assocGet, h1, assocGet_none_of_not_key k rest h2]

/-- the constant bundle of the static fast path holds, under every name, the literal written for it -/
theorem staticKwargs_lits : ∀ (kws : List (String × Lit)), (kws.map (·.1)).Nodup →
    ∃ m, MJ.Compile.staticKwargs (kws.map fun p => (p.1, Expr.const p.2)) = some m ∧
      ∀ k, assocGet k m = assocGet k (kws.map fun p => (p.1, litVal p.2))
  | [], _ => ⟨[], by simp [MJ.Compile.staticKwargs], fun k => by simp [assocGet]⟩
  | (k0, l0) :: rest, hnd => by
    have hnd' : (rest.map (·.1)).Nodup := (List.nodup_cons.1 (by simpa using hnd)).2
    have hknot : k0 ∉ rest.map (·.1) := (List.nodup_cons.1 (by simpa using hnd)).1
    obtain ⟨m', hm', hget⟩ := staticKwargs_lits rest hnd'
    have hk0 : assocGet k0 m' = none := by
      rw [hget k0]
      exact assocGet_none_of_not_key k0 _ (by simpa [List.map_map, Function.comp_def] using hknot)
    refine ⟨mapInsert k0 (litVal l0) m', by simp [MJ.Compile.staticKwargs, hm', hk0], fun k => ?_⟩
    rw [MJ.Vm.assocGet_mapInsert]
    by_cases h : k = k0
    · subst h; simp [assocGet]
    · have : ¬ k0 = k := fun e => h e.symm
      simp [assocGet, h, this, hget k]

/-- **the static and the dynamic keyword-argument path of `compile_call_args` make the same call**: for
keyword arguments that are all literals (distinct names) the constant bundle of the fast path
(`LoadConst Kwargs{…}`, `MJ.Compile.staticKwargs`) and the bundle `BuildKwargs` builds from the
`LoadConst name; LoadConst literal` pairs of the slow path (`insertPairs`, what `MJ.Vm.step` runs) hold the
same value under every name — `Macro::prepare_args` (`bindArgs`) reads the bundle by name only.  (Call
blocks always take the slow path: `cStmt (.callBlock …)` has no static branch, and the regenerated
instruction streams are compared with it on every generated call block.) -/
theorem static_kwargs_eq_dynamic (kws : List (String × Lit)) (hnd : (kws.map (·.1)).Nodup) :
    ∃ m d, MJ.Compile.staticKwargs (kws.map fun p => (p.1, Expr.const p.2)) = some m ∧
      insertPairs (kws.map fun p => (Val.str p.1, litVal p.2)) [] = .ok d ∧
      ∀ k, assocGet k m = assocGet k d := by
  obtain ⟨m, hm, hget⟩ := staticKwargs_lits kws hnd
  have hnd2 : ((kws.map fun p => (p.1, litVal p.2)).map (·.1)).Nodup := by
    have e : (kws.map fun p => (p.1, litVal p.2)).map (·.1) = kws.map (·.1) := by simp [List.map_map, Function.comp_def]
    rw [e]; exact hnd
  obtain ⟨d, hd, hdget⟩ := MJ.Vm.insertPairs_kw (kws.map fun p => (p.1, litVal p.2)) [] hnd2 (fun k _ => by simp [assocGet])
  have e2 : ((kws.map fun p => (p.1, litVal p.2)).map fun p => (Val.str p.1, p.2)) = kws.map fun p => (Val.str p.1, litVal p.2) := by
    simp [List.map_map, Function.comp_def]
  rw [e2] at hd
  refine ⟨m, d, hm, hd, fun k => ?_⟩
  rw [hget k, hdget k]
  cases assocGet k (kws.map fun p => (p.1, litVal p.2)) <;> simp [assocGet]

example : ∃ m d, MJ.Compile.staticKwargs [("title", Expr.const (.str "x")), ("n", Expr.const (.int 2))] = some m ∧
    insertPairs [(Val.str "title", .str "x"), (Val.str "n", .int 2)] [] = .ok d ∧ ∀ k, assocGet k m = assocGet k d :=
  static_kwargs_eq_dynamic [("title", .str "x"), ("n", .int 2)] (by decide)

/-! ## neutral twins: statements that do nothing, in the reference semantics

The auto-escape streams of the check compare a program with its *neutral twin* under HTML / JSON
escaping (`harness/src/bin/c03_esc.inc`).  The rewrites that make a twin are laws of `exec` (the
driver also renders every pair and reports a pair that differs as broken): -/

/-- `{% if false %}…{% endif %}` does nothing, whatever its body is -/
theorem twin_if_false (n : Nat) (ctx : Scope) (st : List Nat) (σ : State) (t : List Stmt) :
    exec (n + 2) ctx st σ (.ifS (.const (.bool false)) t []) = .ok (σ, .normal) := by
  simp [exec, evalExpr, litVal, truthy, execBlock, bind, Except.bind]

/-- `{% if x %}{% endif %}` does nothing, whatever `x` is -/
theorem twin_if_empty (n : Nat) (ctx : Scope) (st : List Nat) (σ : State) (x : String) :
    exec (n + 2) ctx st σ (.ifS (.var x) [] []) = .ok (σ, .normal) := by
  simp [exec, evalExpr, execBlock, bind, Except.bind]

/-- `{% for x in [] %}…{% endfor %}` without an `else` does nothing -/
theorem twin_for_empty (n : Nat) (ctx : Scope) (st : List Nat) (σ : State) (x : String) (body : List Stmt) :
    exec (n + 3) ctx st σ (.forS (.var x) (.list []) none body []) = .ok (σ, .normal) := by
  simp [exec, evalExpr, evalList, iterate, execBlock, bind, Except.bind]

/-- `{% if true %}B{% endif %}` is `B` (an `if` opens no scope) -/
theorem twin_if_true (n : Nat) (ctx : Scope) (st : List Nat) (σ : State) (body : List Stmt) :
    exec (n + 2) ctx st σ (.ifS (.const (.bool true)) body []) = execBlock (n + 1) ctx st σ body := by
  simp [exec, evalExpr, litVal, truthy, bind, Except.bind]

/-- template data split in two prints the same -/
theorem twin_text_split (n : Nat) (ctx : Scope) (st : List Nat) (σ : State) (a b : String) (rest : List Stmt) :
    execBlock (n + 3) ctx st σ (.text a :: .text b :: rest) = execBlock (n + 1) ctx st { σ with out := σ.out ++ (a ++ b) } rest := by
  simp [execBlock, exec, String.append_assoc]

/-- a statement that does nothing in front of `rest` (costs one unit of fuel) -/
theorem twin_block_noop (n : Nat) (ctx : Scope) (st : List Nat) (σ : State) (s : Stmt) (rest : List Stmt)
    (h : exec (n + 2) ctx st σ s = .ok (σ, .normal)) :
    execBlock (n + 3) ctx st σ (s :: rest) = execBlock (n + 2) ctx st σ rest := by
  simp [execBlock, h]

example : (renderTemplate 50 [] [.text "a", .ifS (.const (.bool false)) [.text "x"] [], .forS (.var "zq") (.list []) none [] [],
      .ifS (.const (.bool true)) [.text "b"] []]).toOption = (renderTemplate 50 [] [.text "ab"]).toOption := by decide +kernel
example : exec 5 [] [0] { heap := [[]], out := "o" } (.ifS (.var "nope") [] []) = .ok ({ heap := [[]], out := "o" }, .normal) :=
  twin_if_empty 3 [] [0] _ "nope"

end MJ.C03
