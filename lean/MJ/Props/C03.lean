import MJ.Proofs.EvalFrame
import MJ.Proofs.StmtSim
import MJ.Proofs.DiscardSim
import MJ.Proofs.C03Tables
import MJ.Model.VmM
/-!
# C03 — core constructs render according to the documented semantics

Stage 3 (partial): `vm_refines_eval_partial` — the model VM running the code of the model code
generator refines the reference semantics on the fragment `Fragment`: text, `{{ e }}`, `set`
(with unpacking), set-blocks and filter-blocks with filter chains, `if`/`elif`/`else`, `with`,
`for … if … else` with unpacking targets and loop filter, `break` and `continue` (also out of
`with` / capture scopes); expressions with constant folding, short-circuit `and`/`or`, conditional
expressions, filters, tests, attribute/item access, list and map literals, chained comparisons —
every construct of the modelled language except macros, call blocks and calls.  `C03_full` states
the theorem for everything the model generator compiles, on the extended model VM `MJ.VmM` (macro
objects with closures, `prepare_args`, the live loop object); beyond the fragment it is *checked*
on every generated program (extended model VM vs. `exec` vs. the engine, model code vs. the real
instruction stream) but not proved.

Stage 1: laws of the reference semantics `MJ.Eval.exec` (`MJ/Model/Eval.lean`).  Each law is an
unbounded theorem (all programs / bodies / lists / states / fuel values) and is followed by an
`example` that exhibits a concrete, non-trivial instance (checked by kernel evaluation).

The engine (`/repo`) is tied to `exec` by the differential oracle of `lib/props/c03.py`
(`harness/src/bin/c03.rs`): the theorems say what `exec` guarantees, the oracle checks that
`Template::render` agrees with `exec` on generated programs.
-/
namespace MJ.C03
open MJ.Eval

/-- the items a loop walks: all of them, or those that pass the loop filter (the engine counts the
latter with checked `i128` arithmetic) -/
def keptItems (n : Nat) (ctx : Scope) (heap : Heap) (stack : List Nat) (target : Target)
    (flt : Option Expr) (xs : List Val) : Res (List Val) :=
  match flt with
  | none => .ok xs
  | some c => (filterItems n ctx heap stack target c xs).bind fun ks =>
      if (ks.length : Int) ≤ i128Max then .ok ks else .error .invalidOp

def loopSized (flt : Option Expr) (v : Val) : Bool :=
  match flt with
  | none => isSized v
  | some _ => true

/-- **for/else**: the `else` branch runs iff the (filtered) sequence is empty, in which case nothing
else runs; otherwise the body runs once per (filtered) item with `loopInfos` of exactly that
sequence and the `else` branch does not run. -/
theorem for_else_iff_empty (n : Nat) (ctx : Scope) (stack : List Nat) (σ : State) (target : Target)
    (iter : Expr) (flt : Option Expr) (body els : List Stmt) :
    exec (n + 1) ctx stack σ (.forS target iter flt body els) =
      (evalExpr n ctx σ.heap stack iter).bind fun v =>
      (iterate v).bind fun xs =>
      (keptItems n ctx σ.heap stack target flt xs).bind fun kept =>
        if kept = [] then execBlock n ctx stack σ els
        else (execIters n ctx stack σ target body (kept.zip (loopInfos (loopSized flt v) kept))).bind
          fun σ' => .ok (σ', .normal) := by
  simp only [exec, bind, Except.bind, keptItems, loopSized]
  cases evalExpr n ctx σ.heap stack iter with
  | error e => rfl
  | ok v =>
    simp only
    cases iterate v with
    | error e => rfl
    | ok xs =>
      cases flt with
      | none => cases xs <;> simp
      | some c =>
        simp only
        cases filterItems n ctx σ.heap stack target c xs with
        | error e => rfl
        | ok kept =>
          by_cases hk : (kept.length : Int) ≤ i128Max
          · simp only [if_pos hk]; cases kept <;> simp
          · simp only [if_neg hk]


/-- **Assignments inside a loop are invisible outside**: a `for` (without `else` branch), whatever
its body does (`set`, nested loops, macro declarations, …), leaves every scope cell as it was. -/
theorem set_in_loop_invisible {fuel ctx stack σ target iter flt body σ' fl}
    (h : exec fuel ctx stack σ (.forS target iter flt body []) = .ok (σ', fl)) :
    σ'.heap = σ.heap := by
  cases fuel with
  | zero => simp [exec] at h
  | succ n =>
    rw [for_else_iff_empty] at h
    simp only [Except.bind] at h
    split at h
    · simp at h
    · split at h
      · simp at h
      · split at h
        · simp at h
        · split at h
          · rw [(execBlock_nil h).1]
          · split at h
            · simp at h
            · rename_i σ2 hit
              simp at h; rw [← h.1]; exact execIters_heap hit

/-- the general form: with an `else` branch only the innermost visible cell can change (the `else`
branch runs in the enclosing scope, like the branch of an `if`) -/
theorem for_frame {fuel ctx stack σ target iter flt body els σ' fl}
    (h : exec fuel ctx stack σ (.forS target iter flt body els) = .ok (σ', fl)) :
    Frame stack σ.heap σ'.heap := exec_frame h

/-- **Assignments inside `with` are invisible outside.** -/
theorem set_in_with_invisible {fuel ctx stack σ binds body σ' fl}
    (h : exec fuel ctx stack σ (.withS binds body) = .ok (σ', fl)) : σ'.heap = σ.heap := by
  cases fuel with
  | zero => simp [exec] at h
  | succ n =>
    simp only [exec, bind, Except.bind] at h
    split at h
    · simp at h
    · rename_i heap1 hw
      split at h
      · simp at h
      · rename_i r hr
        simp at h; rw [← h.1]
        have f1 := bindWith_frame _ _ _ _ _ _ hw
        have f2 := execBlock_frame hr
        simpa using take_of_frame σ.heap [] stack r.1.heap (f1.trans f2)

/-- **Assignments inside a macro are invisible outside** (1): evaluating an expression — including
any macro calls in it — cannot change a scope: `emit` only appends to the output. -/
theorem set_in_macro_invisible {fuel ctx stack σ e σ' fl}
    (h : exec fuel ctx stack σ (.emit e) = .ok (σ', fl)) :
    σ'.heap = σ.heap ∧ ∃ v, evalExpr (fuel - 1) ctx σ.heap stack e = .ok v ∧ σ'.out = σ.out ++ render v := by
  cases fuel with
  | zero => simp [exec] at h
  | succ n =>
    simp only [exec, bind, Except.bind] at h
    split at h
    · simp at h
    · rename_i v hv
      simp at h; rw [← h.1]; exact ⟨rfl, v, by simpa using hv, rfl⟩

/-- **Assignments inside a macro are invisible outside** (2): a call block (macro call with a
`caller` body) leaves every scope cell as it was. -/
theorem set_in_call_block_invisible {fuel ctx stack σ callee args params defaults body uc σ' fl}
    (h : exec fuel ctx stack σ (.callBlock callee args params defaults body uc) = .ok (σ', fl)) :
    σ'.heap = σ.heap := by
  cases fuel with
  | zero => simp [exec] at h
  | succ n =>
    simp only [exec, bind, Except.bind] at h
    repeat' (split at h)
    all_goals first
      | (simp at h; done)
      | (simp at h; rw [← h.1])


theorem exec_set_var {m ctx cell rest σ x e v}
    (he : evalExpr m ctx σ.heap (cell :: rest) e = .ok v) :
    exec (m + 1) ctx (cell :: rest) σ (.set (.var x) e) =
      .ok ({ σ with heap := heapSet σ.heap cell x v }, .normal) := by
  simp [exec, bind, Except.bind, he, bindTarget, topCell, heapSetAll]

/-- **Assignments at template level persist** (in fact: in whatever scope the `set` stands): the
statement succeeds, writes exactly the innermost visible cell, and a later lookup from that scope
finds the value; the output is untouched. -/
theorem set_toplevel_persists {m ctx cell rest σ x e v}
    (he : evalExpr m ctx σ.heap (cell :: rest) e = .ok v) (hcell : cell < σ.heap.length) :
    ∃ σ', exec (m + 1) ctx (cell :: rest) σ (.set (.var x) e) = .ok (σ', .normal) ∧
      lookup ctx σ'.heap (cell :: rest) x = some v ∧ σ'.out = σ.out ∧
      Frame (cell :: rest) σ.heap σ'.heap :=
  ⟨_, exec_set_var he, lookup_heapSet_same _ _ _ _ _ _ hcell, rfl, Frame.heapSet (by simp [topCell]) _ _ _⟩

/-- **`if` introduces no scope**: the chosen branch runs in the very same scope stack and state. -/
theorem if_no_scope (n : Nat) (ctx : Scope) (stack : List Nat) (σ : State) (c : Expr) (t f : List Stmt) :
    exec (n + 1) ctx stack σ (.ifS c t f) =
      (evalExpr n ctx σ.heap stack c).bind fun cv =>
        if truthy cv then execBlock n ctx stack σ t else execBlock n ctx stack σ f := by
  simp only [exec, bind, Except.bind]

/-- **Assignments inside an if-branch persist** after the `if`. -/
theorem set_in_if_persists {m ctx cell rest σ c x e els cv v}
    (hc : evalExpr (m + 3) ctx σ.heap (cell :: rest) c = .ok cv) (ht : truthy cv = true)
    (he : evalExpr (m + 1) ctx σ.heap (cell :: rest) e = .ok v) (hcell : cell < σ.heap.length) :
    ∃ σ', exec (m + 4) ctx (cell :: rest) σ (.ifS c [.set (.var x) e] els) = .ok (σ', .normal) ∧
      lookup ctx σ'.heap (cell :: rest) x = some v ∧ σ'.out = σ.out := by
  refine ⟨{ σ with heap := heapSet σ.heap cell x v }, ?_, lookup_heapSet_same _ _ _ _ _ _ hcell, rfl⟩
  rw [if_no_scope]
  simp [Except.bind, hc, ht, execBlock, exec_set_var he]


/-- The loop bookkeeping (running counter, carried previous item, peeked next item) describes the
sequence actually iterated: entry `i` is `⟨i, len, xs[i-1]?, xs[i+1]?⟩`. -/
theorem loopInfosFrom_getElem? (len : Option Nat) (xs : List Val) :
    ∀ (idx : Nat) (prev : Option Val) (i : Nat), i < xs.length →
      (loopInfosFrom len idx prev xs)[i]? =
        some { index0 := idx + i, length := len,
               prev := if i = 0 then prev else xs[i - 1]?, next := xs[i + 1]? } := by
  induction xs with
  | nil => intro idx prev i h; simp at h
  | cons x rest ih =>
    intro idx prev i h
    cases i with
    | zero => simp [loopInfosFrom, List.head?_eq_getElem?]
    | succ j =>
      have hj : j < rest.length := by simpa using h
      simp only [loopInfosFrom, List.getElem?_cons_succ]
      rw [ih (idx + 1) (some x) j hj]
      cases j with
      | zero => simp
      | succ k => simp <;> omega

theorem loopInfos_length (sized : Bool) (xs : List Val) : (loopInfos sized xs).length = xs.length := by
  unfold loopInfos
  generalize (if sized then some xs.length else none) = len
  generalize (0 : Nat) = idx
  generalize (none : Option Val) = prev
  induction xs generalizing idx prev with
  | nil => rfl
  | cons x rest ih => simp [loopInfosFrom, ih]

/-- **The loop object of iteration `i`** over any list `xs`:
`⟨i, xs.length, xs[i-1]?, xs[i+1]?⟩` (length unknown for a lazy iterator). -/
theorem loop_info (sized : Bool) (xs : List Val) (i : Nat) (h : i < xs.length) :
    (loopInfos sized xs)[i]? =
      some { index0 := i, length := if sized then some xs.length else none,
             prev := if i = 0 then none else xs[i - 1]?, next := xs[i + 1]? } := by
  simpa [loopInfos] using loopInfosFrom_getElem? _ xs 0 none i h

/-- what the template reads through `loop.<name>` -/
def loopAttr (l : LoopInfo) (name : String) : Res Val := getAttr (loopVal l) name

theorem loop_index (xs : List Val) (i : Nat) (h : i < xs.length) :
    ∃ l, (loopInfos true xs)[i]? = some l ∧
      loopAttr l "index" = .ok (.int (i + 1)) ∧ loopAttr l "index0" = .ok (.int i) := by
  refine ⟨_, loop_info true xs i h, ?_, ?_⟩ <;> simp [loopAttr, loopVal, getAttr, assocGet]

theorem loop_revindex (xs : List Val) (i : Nat) (h : i < xs.length) :
    ∃ l, (loopInfos true xs)[i]? = some l ∧
      loopAttr l "revindex" = .ok (.int (xs.length - i)) ∧
      loopAttr l "revindex0" = .ok (.int (xs.length - i - 1)) := by
  refine ⟨_, loop_info true xs i h, ?_, ?_⟩ <;> simp [loopAttr, loopVal, getAttr, assocGet]

theorem loop_first_last (xs : List Val) (i : Nat) (h : i < xs.length) :
    ∃ l, (loopInfos true xs)[i]? = some l ∧
      loopAttr l "first" = .ok (.bool (i == 0)) ∧
      loopAttr l "last" = .ok (.bool (i + 1 == xs.length)) := by
  refine ⟨_, loop_info true xs i h, ?_, ?_⟩ <;> simp [loopAttr, loopVal, getAttr, assocGet]

theorem loop_length (xs : List Val) (i : Nat) (h : i < xs.length) :
    ∃ l, (loopInfos true xs)[i]? = some l ∧ loopAttr l "length" = .ok (.int xs.length) := by
  refine ⟨_, loop_info true xs i h, ?_⟩; simp [loopAttr, loopVal, getAttr, assocGet]

theorem loop_prev_next (sized : Bool) (xs : List Val) (i : Nat) (h : i < xs.length) :
    ∃ l, (loopInfos sized xs)[i]? = some l ∧
      loopAttr l "previtem" = .ok (if i = 0 then .undef else (xs[i - 1]?).getD .undef) ∧
      loopAttr l "nextitem" = .ok ((xs[i + 1]?).getD .undef) := by
  refine ⟨_, loop_info sized xs i h, ?_, ?_⟩
  · by_cases h0 : i = 0 <;> simp [loopAttr, loopVal, getAttr, assocGet, h0]
  · simp [loopAttr, loopVal, getAttr, assocGet]

/-- a lazy iterator (the characters of a string): `length`, `revindex`, `revindex0` are undefined
and `last` is never true, as documented in `syntax.rs` -/
theorem loop_unsized (xs : List Val) (i : Nat) (h : i < xs.length) :
    ∃ l, (loopInfos false xs)[i]? = some l ∧ loopAttr l "length" = .ok .undef ∧
      loopAttr l "revindex" = .ok .undef ∧ loopAttr l "last" = .ok (.bool false) ∧
      loopAttr l "index" = .ok (.int (i + 1)) := by
  refine ⟨_, loop_info false xs i h, ?_, ?_, ?_, ?_⟩ <;> simp [loopAttr, loopVal, getAttr, assocGet]

/-- **Every iteration gets a scope of its own** holding the loop target(s) and `loop`; the scope is
dropped after the body; `break` ends the walk. -/
theorem iteration_scope (n : Nat) (ctx : Scope) (stack : List Nat) (σ : State) (target : Target)
    (body : List Stmt) (x : Val) (info : LoopInfo) (rest : List (Val × LoopInfo)) :
    execIters (n + 1) ctx stack σ target body ((x, info) :: rest) =
      (bindTarget target x).bind fun bs =>
      (execBlock n ctx (σ.heap.length :: stack)
        { σ with heap := σ.heap ++ [setAll [("loop", loopVal info)] bs] } body).bind fun r =>
        match r.2 with
        | .brk => .ok { r.1 with heap := r.1.heap.take σ.heap.length }
        | _ => execIters n ctx stack { r.1 with heap := r.1.heap.take σ.heap.length } target body rest := by
  simp only [execIters, Except.bind]
  cases bindTarget target x with
  | error e => rfl
  | ok bs =>
    simp only
    cases execBlock n ctx (σ.heap.length :: stack) { σ with heap := σ.heap ++ [setAll [("loop", loopVal info)] bs] } body with
    | error e => rfl
    | ok r => obtain ⟨σ2, fl⟩ := r; cases fl <;> rfl


/-! ## Refinement: compiled code on the VM vs. the reference semantics -/

/-- The full statement: for every template the model code generator compiles (macros, call blocks
and calls included) and every context, the extended model VM on the generated code renders what
the reference semantics renders.  Not proved (checked on every generated program). -/
def C03_full : Prop :=
  ∀ (prog : List Stmt) (ctx : Scope) (code : List MJ.Compile.Instr) (fuel : Nat) (out : String),
    MJ.Compile.compileTemplate prog = some code → renderTemplate fuel ctx prog = .ok out →
    ∃ k, ∀ j, MJ.VmM.renderCodeM (k + j) ctx code = .ok out

/-- the proved part: templates of `MJ.Vm.Fragment` (everything but macros, call blocks and calls),
on the macro-free model VM `MJ.Vm` (the extended VM `MJ.VmM` agrees with it on every generated
program of the fragment) -/
theorem vm_refines_eval_partial (prog : List Stmt) (hfrag : MJ.Vm.Fragment prog) (ctx : Scope)
    (code : List MJ.Compile.Instr) (hcode : MJ.Compile.compileTemplate prog = some code) (fuel : Nat)
    (out : String) (hev : renderTemplate fuel ctx prog = .ok out) :
    ∃ k, ∀ j, MJ.Vm.renderCode (k + j) ctx code = .ok out :=
  MJ.Vm.vm_refines_eval_partial prog hfrag ctx code hcode fuel out hev

/-- expressions: the code the back-patching generator appends for `e` makes the VM push the value
of `e` (constant folding, short-circuit `and` / `or`, `if` expressions, filters, tests, …) -/
theorem compileExpr_correct {n e ctx heap stack v} (hev : evalExpr n ctx heap stack e = .ok v)
    (hs : MJ.Compile.simpleExpr e = true) (g : MJ.Compile.CG) (post : List MJ.Compile.Instr)
    (hoof : (MJ.Compile.cExpr e g).oof = false) {s : MJ.Vm.VmState} (hpc : s.pc = g.next)
    (henv : MJ.Vm.EnvRel ctx heap stack s.frames) :
    MJ.Vm.Reach ctx ((MJ.Compile.cExpr e g).code ++ post) s
      { s with pc := (MJ.Compile.cExpr e g).next, stack := v :: s.stack } :=
  MJ.Vm.compileExpr_correct hev hs g post hoof hpc henv

/-- the other entry form: `prog` is the top level of a child template / of an imported module —
its output is discarded (`Output::begin_capture(Discard)`), its assignments persist — and `tail` the
layout / importing template that reads them (`renderAfter`).  The model VM runs the code of `prog`
with a discarding output and the rest with a fresh one; captures begun under the discarding output
(`{% set x %}…{% endset %}`, filter blocks) still record what is written into them. -/
theorem vm_refines_eval_discard (prog tail : List Stmt) (hfrag : MJ.Vm.Fragment (prog ++ tail)) (ctx : Scope)
    (code : List MJ.Compile.Instr) (hcode : MJ.Compile.compileTemplate (prog ++ tail) = some code)
    (fuel : Nat) (out : String) (hev : renderAfter fuel ctx prog tail = .ok out) :
    ∃ codeP, MJ.Compile.compileTemplate prog = some codeP ∧
      ∃ k, ∀ j, MJ.Vm.renderCodeAfter (k + j) ctx code codeP.length = .ok out :=
  MJ.Vm.vm_refines_eval_discard prog tail hfrag ctx code hcode fuel out hev

/-- a run with a discarding output goes through the same program counters, operand stacks, frames
and capture buffers (above the bottom entry) as the ordinary run -/
theorem discard_run_follows_run (ctx : Scope) (C : List MJ.Compile.Instr) (k : Nat) (s s' : MJ.Vm.VmState)
    (h : MJ.Vm.run ctx C k s = .ok s') :
    MJ.Vm.runD ctx C k (MJ.Vm.eraseBottom s) = .ok (MJ.Vm.eraseBottom s') :=
  MJ.Vm.run_erase ctx C k s s' h

/-- constant folding (`Expr::as_const`) never changes a value -/
theorem asConst_sound {e : Expr} {v : Val} (h : MJ.Compile.asConst e = .val v) (n : Nat) (ctx : Scope)
    (heap : Heap) (stack : List Nat) :
    evalExpr n ctx heap stack e = .ok v ∨ evalExpr n ctx heap stack e = .error .fuel :=
  MJ.Compile.asConst_sound h n ctx heap stack

/-- the back-patching generator (absolute targets patched through `pending`) emits exactly the
structured code with resolved targets; inside a loop (`lc`) the `break` jumps of the block are
still placeholders that are recorded in the pending entry of the loop (`withBreaks`) — the loop
patches them when it ends (`relBlock_patched`) -/
theorem codegen_eq_structured (prog : List Stmt) (g : MJ.Compile.CG) (lc : Option MJ.Compile.LoopCtx)
    (h : MJ.Compile.simpleBlock lc.isSome prog = true) (hc : MJ.Compile.Compat g.pending lc) :
    MJ.Compile.cBlock prog g =
      (g.extend (MJ.Compile.relBlock prog g.next g.aux (MJ.Compile.setExit 0 lc)).1).withBreaks
        (MJ.Compile.relBlock prog g.next g.aux (MJ.Compile.setExit 0 lc)).2 :=
  MJ.Compile.cBlock_eq_rel prog g lc h hc

/-- a whole template: no placeholders are left -/
theorem codegen_eq_structured_top (prog : List Stmt) (h : MJ.Compile.simpleBlock false prog = true) :
    MJ.Compile.cBlock prog {} = ({} : MJ.Compile.CG).extend (MJ.Compile.relBlock prog 0 {} none).1 := by
  have h' := MJ.Compile.cBlock_eq_rel prog {} none h trivial
  rw [h', MJ.Compile.CG.withBreaks_eq]
  simp [MJ.Compile.foldl_addBreakJump_nil, MJ.Compile.CG.extend, MJ.Compile.CG.next, MJ.Compile.setExit]

/-! ## Non-vacuity: concrete instances, evaluated by the kernel -/

section Examples

private def ci (i : Int) : Expr := .const (.int i)
private def xs3 : Expr := .list [ci 10, ci 20, ci 30]
private def run (p : List Stmt) : Option String := (renderTemplate defaultFuel [] p).toOption

/-- `{% set y = 1 %}{% for a in [10,20,30] %}{% set y = a %}{{ y }},{% endfor %}{{ y }}`:
the loop body sees its own `y`, afterwards `y` is 1 again (`set_in_loop_invisible`) -/
example : run [.set (.var "y") (ci 1),
    .forS (.var "a") xs3 none [.set (.var "y") (.var "a"), .emit (.var "y"), .text ","] [],
    .emit (.var "y")] = some "10,20,30,1" := by decide +kernel

/-- `set` in a `with` body is dropped, `set` in an `if` branch and at top level persists -/
example : run [.withS [(.var "w", ci 5)] [.set (.var "y") (.var "w"), .emit (.var "y")],
    .emit (.test "defined" (.var "y") []),
    .ifS (.const (.bool true)) [.set (.var "z") (ci 7)] [],
    .emit (.var "z")] = some "5False7" := by decide +kernel

/-- a macro assigns a name of the enclosing scope: only the macro's own scope changes; a later
assignment in the declaring scope is seen by the macro (closure by reference) -/
example : run [.set (.var "v") (ci 1),
    .macroS "m" [] [] [.set (.var "v") (.binop .add (.var "v") (ci 1)), .emit (.var "v")] false,
    .emit (.call (.var "m") []), .text ";", .emit (.var "v"),
    .set (.var "v") (ci 5), .emit (.call (.var "m") [])] = some "2;16" := by decide +kernel

/-- the loop variable: index, revindex, first/last, length, previtem, nextitem -/
example : run [.forS (.var "a") xs3 none
    [.emit (.getattr (.var "loop") "index"), .emit (.getattr (.var "loop") "revindex0"),
     .emit (.getattr (.var "loop") "first"), .emit (.getattr (.var "loop") "last"),
     .emit (.getattr (.var "loop") "length"), .text "[", .emit (.getattr (.var "loop") "previtem"),
     .text "|", .emit (.getattr (.var "loop") "nextitem"), .text "] "] []] =
    some "12TrueFalse3[|20] 21FalseFalse3[10|30] 30FalseTrue3[20|] " := by decide +kernel

/-- loop filter: `loop` describes the filtered sequence; `else` runs iff it is empty, also when
the first iteration ends with `break` -/
example : run [.forS (.var "a") xs3 (some (.binop .ne (.var "a") (ci 20)))
      [.emit (.getattr (.var "loop") "index"), .text "/", .emit (.getattr (.var "loop") "length"), .text " "] [.text "E"],
    .forS (.var "a") xs3 (some (.binop .gt (.var "a") (ci 99))) [.emit (.var "a")] [.text "E"],
    .forS (.var "a") xs3 none [.breakS] [.text "E2"]] = some "1/2 2/2 E" := by decide +kernel

/-- macros: positional, default, keyword arguments; call block with `caller(arg)`; unpacking -/
example : run [
    .macroS "m" ["a", "b"] [ci 2] [.emit (.var "a"), .emit (.var "b"), .emit (.call (.var "caller") [(none, .var "a")])] true,
    .callBlock (.var "m") [(none, ci 1)] ["q"] [] [.text "<", .emit (.var "q"), .text ">"] false,
    .callBlock (.var "m") [(some "b", ci 9), (some "a", ci 3)] ["q"] [] [.emit (.binop .mul (.var "q") (ci 2))] false,
    .forS (.tuple [.var "k", .var "v"]) (.list [.list [ci 1, .const (.str "x")]]) none [.emit (.var "v"), .emit (.var "k")] []]
    = some "12<1>396x1" := by decide +kernel

/-- an instance of the hypotheses of `set_in_if_persists` / `set_toplevel_persists` -/
example : ∃ σ', exec 6 [] [0] { heap := [[]], out := "" }
      (.ifS (.const (.bool true)) [.set (.var "x") (ci 3)] []) = .ok (σ', .normal) ∧
    lookup [] σ'.heap [0] "x" = some (.int 3) ∧ σ'.out = "" :=
  set_in_if_persists (m := 2) (cv := .bool true) (by rfl) (by rfl) (by rfl) (by decide)

/-- a template of the fragment with short-circuit operators, constant folding, an `if` expression,
`elif`, loop filters, `break` and `continue`: hypotheses of `vm_refines_eval_partial` hold, and the VM indeed renders the same -/
private def fragProg : List Stmt :=
  [.set (.var "x") (.binop .add (ci 2) (ci 3)),
   .ifS (.binop .and (.var "x") (.binop .gt (.var "x") (ci 9))) [.text "big"]
     [.ifS (.binop .or (.var "nope") (.var "x")) [.emit (.ife (.var "x") (.filter "upper" (.const (.str "ok")) []) none)] [.text "no"]],
   .emit (.list [.var "x", .getattr (.var "m") "k"]),
   .withS [(.var "w", .binop .mul (.var "x") (ci 2))]
     [.forS (.var "a") (.list [.var "w", ci 7, .var "x"]) none
        [.set (.var "x") (.var "a"), .emit (.var "x"), .text ":", .emit (.getattr (.var "loop") "revindex"),
         .ifS (.getattr (.var "loop") "last") [.text "."] [.text ","]] []],
   .emit (.var "x"), .emit (.test "defined" (.var "w") []),
   .forS (.tuple [.var "k", .var "v"]) (.list [.list [ci 1, .const (.str "p")], .list [ci 2, .const (.str "q")]]) none
     [.emit (.var "v"), .emit (.var "k")] [.text "never"],
   .forS (.var "z") (.var "nothing") none [.text "never"] [.text "|empty|"],
   .setBlock "cap" [("upper", []), ("default", [(none, .const (.str "d"))])] [.text "ab", .emit (.var "x")],
   .set (.tuple [.var "p", .tuple [.var "q", .var "r"]]) (.list [ci 1, .list [ci 2, ci 3]]),
   .filterBlock [("lower", [])] [.emit (.var "cap"), .text "XY", .emit (.binop .add (.var "q") (.var "r"))],
   .emit (.cmp (ci 1) [(.lt, .var "q"), (.le, .var "r"), (.notin, .list [ci 4, .var "x"])]),
   .emit (.cmp (ci 1) [(.lt, .var "q"), (.gt, .var "r"), (.eq, .getattr (.var "nope") "boom")]),
   .forS (.var "f") (.list [ci 1, ci 2, ci 3, ci 4]) (some (.test "odd" (.var "f") []))
     [.emit (.var "f"), .emit (.getattr (.var "loop") "length")] [.text "none"],
   .forS (.var "f") (.list [ci 1, ci 2]) (some (.binop .gt (.var "f") (ci 9))) [.emit (.var "f")] [.text "none"],
   -- `continue` / `break` out of `if`, `with`, set-block and filter-block bodies
   .forS (.var "b") (.list [ci 1, ci 2, ci 3, ci 4, ci 5]) none
     [.ifS (.binop .eq (.var "b") (ci 2)) [.continueS] [],
      .withS [(.var "w2", .binop .mul (.var "b") (ci 10))]
        [.setBlock "cp" [("upper", [])] [.text "x", .ifS (.binop .eq (.var "b") (ci 4)) [.breakS] [], .emit (.var "w2")],
         .emit (.var "cp"), .text ";"],
      .filterBlock [("lower", [])] [.text "Q", .ifS (.getattr (.var "loop") "first") [.continueS] [], .emit (.var "b")]]
     [.text "never"],
   .forS (.var "b") (.list [ci 1, ci 2]) (some (.binop .gt (.var "b") (ci 1))) [.breakS] [.text "E"]]

example : MJ.Compile.simpleBlock false fragProg = true := by decide +kernel
example : (MJ.Compile.compileTemplate fragProg).isSome = true := by decide +kernel
example : (renderTemplate defaultFuel [("m", .map [("k", .str "v")])] fragProg).toOption = some "OK[5, 'v']10:3,7:2,5:1.5Falsep1q2|empty|ab5xy5TrueFalse1232noneX10;X30;q3" := by
  decide +kernel
example : ((MJ.Compile.compileTemplate fragProg).bind fun code =>
    (MJ.Vm.renderCode 1000 [("m", .map [("k", .str "v")])] code).toOption) = some "OK[5, 'v']10:3,7:2,5:1.5Falsep1q2|empty|ab5xy5TrueFalse1232noneX10;X30;q3" := by
  decide +kernel

/-- a set-block at the top level of a "child template": its output is discarded, the captured value
reaches the "layout" — in the reference semantics and on the model VM -/
private def childProg : List Stmt :=
  [.text "dropped", .setBlock "title" [("upper", [])] [.text "Hello ", .emit (.var "name")],
   .ifS (.var "name") [.setBlock "sub" [] [.forS (.var "c") (.list [ci 1, ci 2]) none [.emit (.var "c")] []]] []]
private def layoutProg : List Stmt :=
  [.text "<", .emit (.var "title"), .text "|", .emit (.var "sub"), .text ">"]
example : (renderAfter defaultFuel [("name", .str "World")] childProg layoutProg).toOption = some "<HELLO WORLD|12>" := by
  decide +kernel
example : ((MJ.Compile.compileTemplate (childProg ++ layoutProg)).bind fun code =>
    (MJ.Compile.compileTemplate childProg).bind fun codeP =>
    (MJ.Vm.renderCodeAfter 1000 [("name", .str "World")] code codeP.length).toOption) = some "<HELLO WORLD|12>" := by
  decide +kernel

end Examples

end MJ.C03
