import MJ.Proofs.BlocksMisc
import MJ.Proofs.BlocksAct
/-!
# C06 — inheritance, super(), include and import compose templates as specified

Property theorems only (helper lemmas: `MJ/Proofs/Blocks.lean`, `MJ/Proofs/BlocksMisc.lean`).

* `MJ.Blocks.evalImpl` / `render` (`MJ/Model/Blocks.lean`) is the model of the engine: per-name
  block stacks with a depth cursor, `LoadBlocks`, the switch to the parent's instructions at the
  end of the instructions, `call_block` (block tags, `self.name()`, required blocks),
  `perform_super` (emitted and captured), `perform_include`, import/from-import, loops, macro
  calls, variable frames, and the recursion limit (`outer_stack_depth` + frames, include and
  macro costs);
* `MJ.Blocks.specRender` (`MJ/Model/BlocksSpec.lean`) is the specification: no stacks, no
  cursor, no capture stack, no loaded set — `defs env chain n` lists the bodies of block `n` from
  the most- to the least-derived template, a block reference renders `(defs n)[0]`, `super()` at
  level `k` renders `(defs n)[k+1]`, statements behind an executed `extends` run silently and
  render no blocks, a repeated or missing parent is an error, an include is "the first existing
  template, as a chain of its own, on the includer's frames".
-/
namespace MJ.C06
open MJ.Blocks

/-- an empty render context, lenient undefined behaviour -/
abbrev c0 : Cfg := { rootCtx := [] }

/-- Full-strength statement: for every environment in the fragment `EnvOK` — layouts and block
    bodies made of text, variables, `set`, macros, block tags, `self.name()` (emitted or
    captured), `super()` (emitted or captured; **anywhere**: in block bodies, in macro bodies,
    and outside of blocks — where, in an included chain, the engine resolves it against the name
    of the block the include tag stands in), required blocks, conditional `extends` (executed or
    not, with anything in front of and behind it), `include` / `import` / `from … import` of
    **any argument value** (a name, a non-string scalar, a list / tuple / lazily evaluated
    iterable / one-shot iterator / map / enumerable object of candidates, an object that cannot
    be iterated; `ignore missing`), loops, `{% autoescape %}` blocks and macro calls (whose
    bodies may reference blocks and include / import like any other statement list); block
    references inside a block go to higher-numbered blocks (well-founded nesting) — for every render context,
    every template and **every amount of fuel** (so: chains and include nests of any depth,
    cyclic ones and runs that hit the recursion limit included) the driver returns exactly what
    the spec returns: the same output or the same error chain. -/
def C06_full : Prop :=
  ∀ (env : Env) (ctx : Cfg) (fuel main : Nat), EnvOK env →
    render env ctx fuel main = specRender env ctx fuel main

theorem blocks_refine_spec : C06_full := by
  intro env ctx fuel main henv
  unfold render specRender
  cases hT : env[main]? with
  | none => rfl
  | some T =>
    have hc := (hyp_all env ctx henv fuel).chain [main] T.layout (initSt T) none false 0 T.ae
      (initChainSt env main T hT (initSt T)) (henv.layout hT) (by simp)
    simp only []
    cases hL : T.loadErr with
    | some kk => rfl
    | none =>
    simp only []
    have hfr : (initSt T).frames = Vars.init := rfl
    rw [hfr] at hc
    rw [← hc]
    cases evalImpl env ctx fuel none false false 0 T.ae T.layout (initSt T) with
    | error e => rfl
    | ok r => rfl

/-! a three-level chain: the child overrides `b0` and calls `super()`, the middle template only
    defines the nested block `b1`, the root defines both -/
def exEnv : Env :=
  [ { layout := [.text "<pre0>", .extends true 1, .text "<post0>", .callBlock 0],
      blocks := [(0, [.text "<c0>", .super])] },
    { layout := [.extends true 2, .text "<post1>", .callBlock 1],
      blocks := [(1, [.text "<m1>"])] },
    { layout := [.text "<top>", .callBlock 0, .text "<end>"],
      blocks := [(0, [.text "<r0>", .callBlock 1]), (1, [.text "<r1>"])] } ]

example : EnvOK exEnv := by decide
example : render exEnv c0 10 0 = .ok ["<pre0>", "<top>", "<c0>", "<r0>", "<m1>", "<end>"] := by decide +kernel
example : specRender exEnv c0 10 0 = .ok ["<pre0>", "<top>", "<c0>", "<r0>", "<m1>", "<end>"] := by decide +kernel

/-! an include of a template that is an inheritance chain of its own and fills a required block;
    the includer's block `b0` does not leak into it -/
def exEnv2 : Env :=
  [ { layout := [.callBlock 0, .incl (.names [9, 1]) false], blocks := [(0, [.text "<a0>"])] },
    { layout := [.extends true 2, .callBlock 0], blocks := [(0, [.text "<i0>"])] },
    { layout := [.text "<q:", .callBlock 0, .text ">"], blocks := [(0, [.required])] } ]

example : EnvOK exEnv2 := by decide
example : render exEnv2 c0 8 0 = .ok ["<a0>", "<q:", "<i0>", ">"] := by decide +kernel
example : render exEnv2 c0 8 2 = .error [.invalidOperation] := by decide +kernel

/-- `call_block` (block tags and `self.name()`): whenever the engine is in a state that arises
    while rendering the definitions `D` (`Good`: stacks = `D`, cursor of the current block at its
    level, cursors of all blocks that can still be entered at 0), a block reference renders the
    **most-derived** definition `(D m)[0]` (`specBlock`: unknown block and a lone `required`
    definition are errors) and leaves block stacks, cursors and loaded set as they were. -/
theorem block_renders_most_derived (env : Env) (ctx : Cfg) (henv : EnvOK env)
    (D : Nat → List (List Item)) (hwf : WF D) (f : Nat) (cur : Option Nat) (k m : Nat)
    (disc : Bool) (outer : Nat) (ae : AE) (st : St) (hg : Good D cur true k st)
    (hm : ∀ n, cur = some n → n < m) :
    callBlock (evalImpl env ctx f) disc outer ae m st =
      liftS (specBlock (specAll env ctx f) D disc outer ae m st.frames) st :=
  callBlock_sim (hyp_all env ctx henv f) D hwf cur k m disc outer ae st hg hm

/-- `super()` inside the `k`-th definition of block `n` renders the `k+1`-st definition — the
    next one up the chain, skipping templates that do not define the block, since `defs` only
    lists definitions — wraps its errors in `EvalBlock`, and puts the cursor back; when there is
    no further definition it is an error, not empty output (`specSuper`). -/
theorem super_goes_one_up (env : Env) (ctx : Cfg) (henv : EnvOK env)
    (D : Nat → List (List Item)) (hwf : WF D) (f n k : Nat) (disc : Bool) (outer : Nat) (ae : AE) (st : St)
    (hg : Good D (some n) true k st) :
    performSuper (evalImpl env ctx f) (some n) disc outer ae st =
      liftS (specSuper (specAll env ctx f) D (some (n, k)) disc outer ae st.frames) st :=
  performSuper_sim (hyp_all env ctx henv f) D hwf n k disc outer ae st hg

example : WF (defs exEnv [0, 1, 2]) := WF_defs exEnv (by decide) [0, 1, 2]
example : Good (defs exEnv [0, 1, 2]) (some 0) true 0
    { blocks := defs exEnv [0, 1, 2], depth := fun _ => 0, loaded := [2, 1], frames := Vars.init } :=
  ⟨rfl, by intro n hn; cases hn; exact ⟨rfl, by decide⟩, fun _ _ _ => rfl⟩
example : defs exEnv [0, 1, 2] 0 = [[.text "<c0>", .super], [.text "<r0>", .callBlock 1]] := rfl

/-- the spec's answer for a block call as a plain result -/
def blockResult (r : SRes) : Except Err (List String) :=
  match r with
  | .ok (o, _) => .ok o
  | .error e => .error e

/-- `State::render_block` after `Template::render_captured` (the entry point that renders one
    block of a — possibly extending — template): when the render succeeded, the state it leaves
    behind holds the definitions of the whole chain `main :: more` that was followed, and
    `render_block(n)` renders the most-derived definition of `n` along that chain (`specBlock`:
    an unknown block or a lone `required` definition is an error). -/
theorem render_block_most_derived (env : Env) (cfg : Cfg) (henv : EnvOK env) (fuel main n : Nat)
    (T : Template) (o : List String) (st' : St) (hT : env[main]? = some T) (hL : T.loadErr = none)
    (hr : evalImpl env cfg fuel none false false 0 T.ae T.layout (initSt T) = .ok (o, st')) :
    ∃ more, renderThenBlock env cfg fuel main n =
      blockResult (specBlock (specAll env cfg fuel) (defs env (main :: more)) false 0 T.ae n st'.frames) := by
  obtain ⟨more, hst⟩ := final_chainSt env cfg henv fuel [main] T.layout (initSt T) none false 0 T.ae
    (initChainSt env main T hT (initSt T)) (henv.layout hT) (by simp) o st' hr
  refine ⟨more, ?_⟩
  have hg : Good (defs env ([main] ++ more)) none true 0 st' :=
    ⟨hst.blocks, (by intro k hk; cases hk), fun _ m _ => hst.depth m⟩
  have hc := callBlock_sim (hyp_all env cfg henv fuel) _ (WF_defs env henv ([main] ++ more)) none 0 n false 0
    T.ae st' hg (by intro k hk; cases hk)
  simp only [renderThenBlock, hT, hL, hr, hc, List.singleton_append]
  cases specBlock (specAll env cfg fuel) (defs env (main :: more)) false 0 T.ae n st'.frames with
  | error e => rfl
  | ok r => rfl

/-- `Template::new_state().render_block(n)`: on a fresh state only the template's own blocks are
    known — the block renders its own definition, `super()` inside it has no parent -/
theorem render_block_on_fresh_state (env : Env) (cfg : Cfg) (henv : EnvOK env) (fuel main n : Nat)
    (T : Template) (hT : env[main]? = some T) (hL : T.loadErr = none) :
    blockOnFreshState env cfg fuel main n =
      blockResult (specBlock (specAll env { cfg with rootCtx := [] } fuel) (defs env [main]) false 0 T.ae n Vars.empty) := by
  have hst := initChainSt env main T hT { initSt T with frames := Vars.empty }
  have hg : Good (defs env [main]) none true 0 { initSt T with frames := Vars.empty } :=
    ⟨hst.blocks, (by intro k hk; cases hk), fun _ m _ => hst.depth m⟩
  have hc := callBlock_sim (hyp_all env { cfg with rootCtx := [] } henv fuel) _ (WF_defs env henv [main]) none 0 n
    false 0 T.ae _ hg (by intro k hk; cases hk)
  simp only [blockOnFreshState, hT, hL, hc]
  cases specBlock (specAll env { cfg with rootCtx := [] } fuel) (defs env [main]) false 0 T.ae n Vars.empty with
  | error e => rfl
  | ok r => rfl

example : renderThenBlock exEnv c0 10 0 0 = .ok ["<c0>", "<r0>", "<m1>"] := by decide +kernel
example : blockOnFreshState exEnv c0 10 0 0 = .error [.invalidOperation] := by decide +kernel

theorem filterMap_head_eq_findSome {α β : Type} (g : α → Option β) (l : List α) :
    (l.filterMap g)[0]? = l.findSome? g := by
  induction l with
  | nil => rfl
  | cons a rest ih =>
    simp only [List.filterMap_cons, List.findSome?_cons]
    cases g a with
    | none => exact ih
    | some b => rfl

/-- a template that does not define block `n` contributes nothing to `defs`: the block falls
    through to the nearest ancestor that defines it -/
theorem untouched_falls_through (env : Env) (i : Nat) (chain : List Nat) (n : Nat)
    (h : blockOf env i n = none) :
    defs env (i :: chain) n = defs env chain n ∧
      (defs env (i :: chain) n)[0]? = chain.findSome? (fun j => blockOf env j n) := by
  have h1 : defs env (i :: chain) n = defs env chain n := by
    simp [defs, h]
  refine ⟨h1, ?_⟩
  rw [h1]
  exact filterMap_head_eq_findSome _ chain

example : blockOf exEnv 1 0 = none := rfl
example : (defs exEnv [1, 2] 0)[0]? = some [.text "<r0>", .callBlock 1] := rfl

/-- behind an executed `extends` tag everything outside blocks is discarded: text produces no
    output and block tags are skipped (they only *define*), whatever the reader, the callback
    and the state are -/
theorem child_text_discarded (rd : Rd) (rec : Rec) (p post : List Item) (st : St)
    (h : post.all Item.isPlain = true) :
    stepItems rd rec (some p) post st = .ok ([], st, some p) :=
  post_plain_silent rd rec p post st h

example : stepItems ⟨exEnv, c0, none, false, false, 0, .none⟩ (evalImpl exEnv c0 5) (some [])
    [.text "<post0>", .callBlock 0] (initSt exEnv[0]) = .ok ([], initSt exEnv[0], some []) :=
  child_text_discarded _ _ _ _ _ rfl

/-- `LoadBlocks` bookkeeping: a successful load adds a *new* existing template to the loaded set;
    the set therefore stays duplicate-free and bounded by the number of templates, and once it
    holds `|env|` templates every further `LoadBlocks` fails (with the cycle error or with
    template-not-found).  So a chain performs at most `|env|` successful `LoadBlocks` and the
    `|env|+1`-st attempt is an error. -/
theorem extends_terminates (env : Env) (t : Nat) (st : St)
    (hnd : st.loaded.Nodup) (hlt : ∀ x ∈ st.loaded, x < env.length) :
    (∀ st' l, loadBlocks env t st = .ok (st', l) →
        t ∉ st.loaded ∧ st'.loaded = t :: st.loaded ∧ st'.loaded.Nodup ∧
        (∀ x ∈ st'.loaded, x < env.length) ∧ st'.loaded.length ≤ env.length) ∧
    (env.length ≤ st.loaded.length →
        loadBlocks env t st = .error [.invalidOperation] ∨
        loadBlocks env t st = .error [.templateNotFound]) := by
  refine ⟨?_, loadBlocks_exhausted env t st hnd hlt⟩
  intro st' l h
  obtain ⟨h1, _, h3, _⟩ := loadBlocks_ok env t st st' l h
  obtain ⟨i1, i2, _, i4⟩ := loadBlocks_inv env t st st' l h hnd hlt
  exact ⟨h1, h3, i1, i2, i4⟩

example : ∃ st' l, loadBlocks exEnv 1 (initSt exEnv[0]) = .ok (st', l) ∧ st'.loaded = [1] :=
  ⟨_, _, rfl, rfl⟩

/-- rendering terminates on its own: the recursion limit (`outer_stack_depth` + frames against
    `recursion_limit`, an include costing `INCLUDE_RECURSION_COST ≥ 1`) bounds every nest of
    blocks, `super()`s, includes, imports, loops and macro calls, and an inheritance chain has at
    most `|env|` links; `{% autoescape %}` blocks nested directly in one another cost the engine no
    depth and the model one level of fuel each (followed up to `AE_NEST_MAX` deep); so with
    `renderFuel env = (LIMIT - 1)·(|env| + 3 + AE_NEST_MAX) + |env| + 2 + AE_NEST_MAX` levels of
    model fuel — or more — the fuel is never what stops a render: the result is the output or a genuine error
    (cycle, missing template, recursion limit, …). -/
theorem rendering_terminates (env : Env) (ctx : Cfg) (henv : EnvOK env) (main fuel : Nat)
    (hfuel : renderFuel env ≤ fuel) :
    ∀ e, render env ctx fuel main = .error e → Kind.recursion ∉ e := by
  rw [blocks_refine_spec env ctx fuel main henv]
  unfold specRender
  cases hT : env[main]? with
  | none => intro e he; cases he; simp
  | some T =>
    have hl : 0 + Vars.init.length ≤ LIMIT := by decide
    have := (term_all env ctx fuel).chain [main] none false 0 T.ae T.layout Vars.init (by simp) (by simp) (by simp) hl
      (by have : Vars.init.length = 1 := rfl; simpa [renderFuel, this] using hfuel)
    intro e he
    simp only [] at he
    cases hL : T.loadErr with
    | some kk => rw [hL] at he; cases he; cases kk <;> simp [loadErrKind]
    | none =>
    rw [hL] at he
    simp only [] at he
    cases hr : (specAll env ctx fuel).chain [main] none false 0 T.ae T.layout Vars.init with
    | error e' => rw [hr] at he; cases he; exact this.1 _ hr
    | ok r => rw [hr] at he; cases he

/-- every inheritance cycle ends in a *detected* error: if every template of the environment
    extends something (text, an executed `extends`, then text / block tags / `extends` tags),
    rendering any template with fuel for `|env| + 1` template activations — or any larger
    amount — is the cycle error or template-not-found; never success, never truncated output,
    and not the recursion limit. -/
theorem cycle_is_detected_error (env : Env) (ctx : Cfg) (henv : EnvOK env)
    (hall : ∀ T ∈ env, extendsAfterText T.layout = true) (hload : ∀ T ∈ env, T.loadErr = none)
    (main fuel : Nat) (hmain : main < env.length) (hfuel : env.length + 1 ≤ fuel) :
    render env ctx fuel main = .error [.invalidOperation] ∨
      render env ctx fuel main = .error [.templateNotFound] := by
  rw [blocks_refine_spec env ctx fuel main henv]
  unfold specRender
  have hT : env[main]? = some env[main] := List.getElem?_eq_getElem hmain
  rw [hT]
  simp only [hload _ (List.getElem_mem hmain)]
  have := cycle_detected_spec env ctx hall hload env.length fuel [main] none false 0 env[main].ae env[main].layout Vars.init
    (by simp) (by simp) (by simp) (by simp) hfuel (hall _ (List.getElem_mem hmain))
  rcases this with h | h <;> simp [h]

def cycEnv : Env :=
  [ { layout := [.text "<a>", .extends true 1, .callBlock 0], blocks := [(0, [.text "<a0>", .super])] },
    { layout := [.text "<b>", .extends true 0], blocks := [] } ]

example : EnvOK cycEnv := by decide
example : ∀ T ∈ cycEnv, extendsAfterText T.layout = true := by decide
example : render cycEnv c0 3 0 = .error [.invalidOperation] := by decide +kernel

/-- include cycles end in the recursion-limit error: if every template includes some existing
    template (text, then an unconditional `include`), rendering any template is an error for
    every fuel — `BadInclude` wrappers around the innermost error — and with the fuel of
    `rendering_terminates` that innermost error is the engine's `InvalidOperation` (recursion
    limit exceeded), not the model's fuel. -/
theorem include_cycle_errors (env : Env) (ctx : Cfg) (henv : EnvOK env)
    (hall : ∀ T ∈ env, includesAfterText env T.layout = true) (hload : ∀ T ∈ env, T.loadErr = none)
    (main fuel : Nat) (hmain : main < env.length) :
    (∃ e, render env ctx fuel main = .error e ∧ IncErr e) ∧
    (renderFuel env ≤ fuel →
      ∃ j, render env ctx fuel main = .error (List.replicate j Kind.badInclude ++ [.invalidOperation])) := by
  have hT : env[main]? = some env[main] := List.getElem?_eq_getElem hmain
  obtain ⟨e, he, hie⟩ := include_cycle_spec env ctx hall hload fuel main hmain _ hT none false 0 env[main].ae Vars.init
  have hr : render env ctx fuel main = .error e := by
    rw [blocks_refine_spec env ctx fuel main henv]
    unfold specRender
    rw [hT]; simp only [hload _ (List.getElem_mem hmain), he]
  refine ⟨⟨e, hr, hie⟩, ?_⟩
  intro hf
  obtain ⟨j, k, hjk, hk⟩ := hie
  have hno := rendering_terminates env ctx henv main fuel hf e hr
  rcases hk with rfl | rfl
  · exact ⟨j, by rw [hr, hjk]⟩
  · exact absurd (by rw [hjk]; simp) hno

def incCycEnv : Env :=
  [ { layout := [.text "<a>", .incl (.name 1) true, .text "<z>"], blocks := [] },
    { layout := [.incl (.name 0) false], blocks := [] } ]

example : EnvOK incCycEnv := by decide
example : ∀ T ∈ incCycEnv, includesAfterText incCycEnv T.layout = true := by decide

/-- once a template has executed an `extends`, a further executed `extends` in the same template
    is an error, whatever stands in between and whatever its target is -/
theorem double_extends_error (rd : Rd) (rec : Rec) (p mid post : List Item) (t : Nat)
    (hmid : mid.all Item.isPost = true) (st : St) :
    stepItems rd rec (some p) (mid ++ .extends true t :: post) st = .error [.invalidOperation] :=
  second_extends_error rd rec p mid post t hmid st

example : render
    [ { layout := [.extends true 1, .text "<x>", .extends true 1], blocks := [] },
      { layout := [.text "<p>"], blocks := [] } ] c0 10 0 = .error [.invalidOperation] := by decide +kernel

/-- missing templates are errors, not truncated output: `extends` of a missing name fails with
    template-not-found at the tag; an include list of which no name exists fails unless
    `ignore missing` is given (then it renders nothing and changes nothing) -/
theorem missing_is_error_not_truncation (rd : Rd) (rec : Rec) (st : St) :
    (∀ t rest, t ∉ st.loaded → rd.env.length ≤ t →
        stepItems rd rec none (.extends true t :: rest) st = .error [.templateNotFound]) ∧
    (∀ cur disc ign outer (names : List Nat), (∀ m ∈ names, rd.env[m]? = none) →
        performInclude rd.env rec cur disc ign outer (names.map some) false st =
          if !names.isEmpty && !ign then .error [.templateNotFound] else .ok ([], st)) := by
  refine ⟨fun t rest h1 h2 => extends_missing_error rd rec t rest st h1 h2, ?_⟩
  intro cur disc ign outer names h
  rw [performInclude_all_missing rd.env rec cur disc ign outer names h false st]
  simp

example : render [ { layout := [.text "<a>", .extends true 7], blocks := [] } ] c0 10 0
    = .error [.templateNotFound] := by decide +kernel
example : render [ { layout := [.text "<a>", .incl (.names [7, 8]) false, .text "<z>"], blocks := [] } ] c0 10 0
    = .error [.templateNotFound] := by decide +kernel
example : render [ { layout := [.text "<a>", .incl (.names [7, 8]) true, .text "<z>"], blocks := [] } ] c0 10 0
    = .ok ["<a>", "<z>"] := by decide +kernel

/-- an include renders the **first existing** name of its list: missing names in front of it are
    skipped, the names behind it are irrelevant, `ignore missing` plays no role.  The template is
    rendered as a chain of its own (fresh block table, empty loaded set) on the includer's frames
    (= with the includer's current variables) at `INCLUDE_RECURSION_COST` more depth (an error
    when that exceeds the recursion limit); afterwards the includer's block stacks, cursors and
    loaded set are back; an error inside it is wrapped in `BadInclude` — never swallowed.  The
    closure of the includer's frame is detached while the included template runs (its assignments
    do not reach the includer's macros, its own macros get a closure of their own) and attached
    again afterwards. -/
theorem include_first_existing (env : Env) (rec : Rec) (cur : Option Nat) (disc ign : Bool) (outer : Nat)
    (missing : List Nat) (more : List Cand) (t : Nat) (T : Template)
    (hmiss : ∀ m ∈ missing, env[m]? = none) (hT : env[t]? = some T) (hL : T.loadErr = none) (st : St) :
    performInclude env rec cur disc ign outer (missing.map some ++ some t :: more) false st =
      if outer + INCLUDE_COST + st.frames.length > LIMIT then .error [.invalidOperation]
      else
        match rec cur disc false (outer + INCLUDE_COST) T.ae T.layout
            { st with blocks := prepare T.blocks, depth := fun _ => 0, loaded := [],
                      frames := st.frames.setTopClosure none } with
        | .error e => .error (.badInclude :: e)
        | .ok (o, st') =>
          .ok (o, { blocks := st.blocks, depth := st.depth, loaded := st.loaded,
                    frames := (st'.frames.take st.frames.length).setTopClosure st.frames.topClosure }) :=
  performInclude_first env rec cur disc ign outer missing more t T hmiss hT hL false st

/-- the auto-escape mode across template boundaries: an included template runs in the mode its
    own name selects (`T.ae` in `include_first_existing`), not in the includer's current mode —
    an html page escapes `{{ v0 }}` itself while the text note it includes does not, a text mail
    including an html card gets the card escaped, and an `{% autoescape %}` block around the
    include tag does not leak into the included template -/
example : render [ { layout := [.emitVar 0, .incl (.name 1) false], blocks := [], ae := .html },
                   { layout := [.emitVar 0], blocks := [], ae := .none } ] { rootCtx := [(0, .str "a<b")] } 8 0
    = .ok ["a&lt;b", "a<b"] := by decide +kernel
example : render [ { layout := [.emitVar 0, .incl (.name 1) false], blocks := [], ae := .none },
                   { layout := [.emitVar 0], blocks := [], ae := .html } ] { rootCtx := [(0, .str "a<b")] } 8 0
    = .ok ["a<b", "a&lt;b"] := by decide +kernel
example : render [ { layout := [.autoesc .html [.emitVar 0, .incl (.name 1) false]], blocks := [], ae := .none },
                   { layout := [.emitVar 0], blocks := [], ae := .json } ] { rootCtx := [(0, .str "a<b")] } 8 0
    = .ok ["a&lt;b", "\"a<b\""] := by decide +kernel
/-- … whereas the parent's layout reached through `extends`, block bodies and `super()` keep the
    mode of the template that was rendered -/
example : render [ { layout := [.extends true 1, .callBlock 0], blocks := [(0, [.emitVar 0, .super])], ae := .none },
                   { layout := [.emitVar 0, .callBlock 0], blocks := [(0, [.emitVar 0])], ae := .html } ]
    { rootCtx := [(0, .str "a<b")] } 8 0 = .ok ["a<b", "a<b", "a<b"] := by decide +kernel

/-- `ignore missing` forgives only *missing* names.  A name that exists but cannot be loaded —
    the template does not compile, the loader returns an error — is not missing: the lookup
    error (with its own kind; a syntax error names the broken template) is the result of the
    include, with or without `ignore missing`, whatever names precede (missing ones) or follow
    it; the next candidate is *not* tried and nothing is rendered as a success. -/
theorem include_ignore_missing_forgives_only_missing (env : Env) (rec : Rec) (cur : Option Nat)
    (disc ign : Bool) (outer : Nat) (missing : List Nat) (more : List Cand) (t : Nat) (T : Template) (k : LoadErr)
    (hmiss : ∀ m ∈ missing, env[m]? = none) (hT : env[t]? = some T) (hL : T.loadErr = some k) (st : St) :
    performInclude env rec cur disc ign outer (missing.map some ++ some t :: more) false st = .error [loadErrKind t k] :=
  performInclude_load_error env rec cur disc ign outer missing more t T k hmiss hT hL false st

/-- `broken` exists but does not compile, `fallback` is fine: with and without `ignore missing`
    the include is the syntax error of `broken`; a broken parent of `extends` and a broken
    `import` likewise -/
def brokenEnv : Env :=
  [ { layout := [.text "<a>", .incl (.names [9, 1, 2]) true, .text "<z>"], blocks := [] },
    { layout := [], blocks := [], loadErr := some .syntax },
    { layout := [.text "<fallback>"], blocks := [] },
    { layout := [.extends true 1], blocks := [] },
    { layout := [.importAs (.name 1) 5], blocks := [] } ]

example : render brokenEnv c0 8 0 = .error [.syntaxError 1] := by decide +kernel
example : render brokenEnv c0 8 3 = .error [.syntaxError 1] := by decide +kernel
example : render brokenEnv c0 8 4 = .error [.syntaxError 1] := by decide +kernel
example : render brokenEnv c0 8 1 = .error [.syntaxError 1] := by decide +kernel

def incEnv : Env :=
  [ { layout := [.setVar 1 "L", .incl (.names [9, 1, 2]) false], blocks := [] },
    { layout := [.text "<x:", .emitVar 1, .text ">"], blocks := [] },
    { layout := [.text "<y>"], blocks := [] } ]

example : render incEnv c0 10 0 = .ok ["<x:", "L", ">"] := by decide +kernel

/-- `import` / `from … import` expose exactly the imported template's top-level assignments.
    The argument `a` may be a name or any iterable of candidates (`hc`, `hmiss`: `t` is its first
    existing candidate).  For a module template (text, `set`, macro definitions at top level —
    `assigns` lists what they leave behind): `{% import t as v %}` binds `v` to a module whose entries are exactly
    those assignments, `{% from t import name as alias %}` binds `alias` to the module's value of
    `name` and to *undefined* when the module does not assign `name` — independently of the
    importer's frames and render context — and neither changes anything else in the state.
    (`hd`: the import stays below the recursion limit.) -/
theorem import_exports_toplevel (env : Env) (ctx : Cfg) (f : Nat) (cur : Option Nat) (d0 e0 : Bool)
    (outer : Nat) (ae : AE) (parent : Option (List Item)) (a : Arg) (missing : List Nat) (more : List Cand)
    (t : Nat) (T : Template) (hc : a.cands = missing.map some ++ some t :: more)
    (hmiss : ∀ m ∈ missing, env[m]? = none) (hT : env[t]? = some T)
    (hL : T.loadErr = none) (hs : T.layout.all Item.isAssign = true) (rest : List Item) (st : St)
    (hwf : st.frames.WF) (hd : outer + INCLUDE_COST + (st.frames.length + 1) ≤ LIMIT) :
    (∀ v, stepItems ⟨env, ctx, cur, d0, e0, outer, ae⟩ (evalImpl env ctx (f + 1)) parent (.importAs a v :: rest) st =
        stepItems ⟨env, ctx, cur, d0, e0, outer, ae⟩ (evalImpl env ctx (f + 1)) parent rest
          { st with frames := store st.frames v (.module (dedupKeys (assigns T.layout []))) }) ∧
    (∀ name alias,
        stepItems ⟨env, ctx, cur, d0, e0, outer, ae⟩ (evalImpl env ctx (f + 1)) parent (.fromImport a name alias :: rest) st =
        stepItems ⟨env, ctx, cur, d0, e0, outer, ae⟩ (evalImpl env ctx (f + 1)) parent rest
          { st with frames := store st.frames alias ((lookupVal name (assigns T.layout [])).getD .undef) }) ∧
    (∀ name, T.layout.all (fun it => !assignsVar name it) = true →
        lookupVal name (assigns T.layout []) = none) := by
  refine ⟨fun v => importAs_step env ctx f cur d0 e0 outer ae parent a missing more t v T hc hmiss hT hL hs rest st hwf hd,
    fun name alias => fromImport_step env ctx f cur d0 e0 outer ae parent a missing more t name alias T hc hmiss hT hL hs rest st hwf hd, ?_⟩
  intro name h
  rw [lookup_assigns_other name T.layout [] h]
  rfl

/-- importing a template that itself *extends*: for a child `pre ++ [extends p] ++ post` and a
    parent `p` made of top-level assignments, `{% import child as v %}` binds `v` to the module
    of the child's assignments in front of and behind the `extends` tag followed by the parent's
    (a later assignment of the same name wins) — the imported template is rendered as an
    inheritance chain of its own into the fresh frame. -/
theorem import_of_extending_template (env : Env) (ctx : Cfg) (henv : EnvOK env) (f : Nat)
    (cur : Option Nat) (d0 e0 : Bool) (outer : Nat) (ae : AE) (parent : Option (List Item))
    (a : Arg) (t p v : Nat) (T P : Template) (pre post : List Item) (hc : a.cands = [some t])
    (hT : env[t]? = some T) (hP : env[p]? = some P) (hLT : T.loadErr = none) (hLP : P.loadErr = none)
    (hl : T.layout = pre ++ .extends true p :: post)
    (hpre : pre.all Item.isAssign = true) (hpost : post.all Item.isAssign = true)
    (hpl : P.layout.all Item.isAssign = true) (rest : List Item) (st : St) (hwf : st.frames.WF)
    (hd : outer + INCLUDE_COST + (st.frames.length + 1) ≤ LIMIT) :
    stepItems ⟨env, ctx, cur, d0, e0, outer, ae⟩ (evalImpl env ctx (f + 2)) parent (.importAs a v :: rest) st =
      stepItems ⟨env, ctx, cur, d0, e0, outer, ae⟩ (evalImpl env ctx (f + 2)) parent rest
        { st with frames := (store st.frames v
            (Val.module (dedupKeys (assigns P.layout (assigns post (assigns pre [])))))) } :=
  importAs_extending_step env ctx henv f cur d0 e0 outer ae parent a t p v T P pre post hc hT hP hLT hLP hl hpre hpost hpl
    rest st hwf hd

example : render
    [ { layout := [.importAs (.name 1) 8, .emitAttr 8 2, .emitAttr 8 3, .emitAttr 8 4], blocks := [] },
      { layout := [.setVar 2 "c2", .extends true 2, .setVar 3 "c3"], blocks := [] },
      { layout := [.setVar 4 "p4", .setVar 2 "p2"], blocks := [] } ] c0 10 0
    = .ok ["p2", "c3", "p4"] := by decide +kernel

def modT : Template :=
  { layout := [.text "<m>", .setVar 2 "a", .defMacro 4 "<mac>", .setVar 2 "b"], blocks := [] }

/-- the importer's own `v3` (local and in the render context) is not what `m.v3` or
    `from m import v3` yield; the module's last assignment of `v2` and its macro are -/
example : render [ { layout := [.setVar 3 "mine", .importAs (.name 1) 8, .emitAttr 8 3, .text "|", .emitAttr 8 2],
                     blocks := [] }, modT ] { rootCtx := [(3, .str "ctx")] } 10 0 = .ok ["|", "b"] := by decide +kernel
example : render [ { layout := [.fromImport (.name 1) 3 7, .text "[", .emitVar 7, .text "]"], blocks := [] }, modT ]
    { rootCtx := [(3, .str "ctx")] } 10 0 = .ok ["[", "]"] := by decide +kernel
example : render [ { layout := [.fromImport (.name 1) 4 6, .callVar 6], blocks := [] }, modT ]
    { rootCtx := [(3, .str "ctx")] } 10 0 = .ok ["<mac>"] := by decide +kernel

/-- Macro closures across an include (`Context::take_closure` … `reset_closure` in
    `perform_include`).  Every frame has a closure slot; a macro with free variables captures the
    closure of the frame that defines it (`Enclose`, `GetClosure`), an assignment in a frame is
    written through to that frame's closure, and a macro body looks its free variables up in the
    closure it captured.  An include runs the included file in the includer's frame — so the
    two files would share one closure — and the engine keeps them apart by detaching the frame's
    closure for the duration.  For every environment of the proven fragment, every amount of
    fuel and every successful include (`hwf`, `hcl`: the state is well formed — every frame has
    its slot and the slot on top points into the closure heap — as in every state `render`
    reaches):

    1. whatever the included file (and everything it includes, imports or extends) assigned,
       every closure that existed before the include — the includer's own and those captured by
       any macro defined so far — holds what it held before: the includer's macros do not
       observe the included file's assignments;
    2. the includer's closure is attached again afterwards (the part C05 states as "state
       restored after the construct");
    3. vice versa: the closures the included file opened for its own macros (the heap slots that
       did not exist before) are not reached by anything the includer assigns or encloses
       afterwards. -/
theorem include_keeps_closures_apart (env : Env) (ctx : Cfg) (fuel : Nat) (henv : EnvOK env)
    (cur : Option Nat) (disc ign : Bool) (outer : Nat) (names : List Cand) (tried : Bool)
    (st st' : St) (o : List String) (hwf : st.frames.WF)
    (hcl : ∀ c, st.frames.topClosure = some c → c < st.frames.heap.length)
    (h : performInclude env (evalImpl env ctx fuel) cur disc ign outer names tried st = .ok (o, st')) :
    (∀ c w, c < st.frames.heap.length →
        lookupVal w (st'.frames.heap[c]?.getD []) = lookupVal w (st.frames.heap[c]?.getD [])) ∧
    st'.frames.topClosure = st.frames.topClosure ∧
    (∀ i, st.frames.heap.length ≤ i → i < st'.frames.heap.length →
        (∀ v x, (store st'.frames v x).heap[i]? = st'.frames.heap[i]?) ∧
        (∀ w, (enclose ctx.rootCtx st'.frames w).heap[i]? = st'.frames.heap[i]?)) := by
  rw [include_sim (hyp_all env ctx henv fuel) henv] at h
  cases hs : specInclude env (specAll env ctx fuel) cur disc ign outer names tried st.frames with
  | error e => rw [hs] at h; cases h
  | ok q =>
    obtain ⟨o', b⟩ := q
    rw [hs] at h
    obtain ⟨hold, htop, _, _, _⟩ := specInclude_apart env ctx fuel cur disc ign outer names tried st.frames b o' hwf hs
    simp only [liftS] at h
    cases h
    refine ⟨fun c w hc => by rw [hold c hc], htop, ?_⟩
    intro i hi hlt
    have hne : ∀ c, b.topClosure = some c → i ≠ c := by
      intro c hc
      rw [htop] at hc
      have := hcl c hc
      omega
    exact ⟨fun v x => store_heap_other b v x i hne, fun w => enclose_heap_other ctx.rootCtx b w i hlt hne⟩

/-- the hypotheses hold at the start of every render, and the conclusion is not vacuous: -/
example : (initSt { layout := [], blocks := [] }).frames.WF ∧
    ∀ c, (initSt { layout := [], blocks := [] }).frames.topClosure = some c →
      c < (initSt { layout := [], blocks := [] }).frames.heap.length := by
  refine ⟨rfl, ?_⟩
  intro c hc; cases hc

/-- the included file reassigns `v1`: the includer's macro `v5` (free variable `v1`) still sees
    the includer's value, although the includer itself now sees the new one -/
example : render [ { layout := [.setVar 1 "a", .defMacroV 5 1, .incl (.name 1) false, .callVar 5, .emitVar 1], blocks := [] },
                   { layout := [.setVar 1 "b"], blocks := [] } ] c0 10 0
    = .ok ["<m5:a>", "b"] := by decide +kernel
/-- vice versa: the included file's macro `v6` keeps seeing the included file's value when the
    includer reassigns `v1` after the include -/
example : render [ { layout := [.incl (.name 1) false, .setVar 1 "c", .callVar 6, .emitVar 1], blocks := [] },
                   { layout := [.setVar 1 "b", .defMacroV 6 1], blocks := [] } ] c0 10 0
    = .ok ["<m6:b>", "c"] := by decide +kernel
/-- both at once, with calls on both sides of the tag: inside the included file each macro sees
    its own file's `v1`; after the include the includer's closure is attached again, so its own
    later assignment does reach its own macro -/
example : render [ { layout := [.setVar 1 "a", .defMacroV 5 1, .incl (.name 1) false, .setVar 1 "c", .callVar 5, .callVar 6],
                     blocks := [] },
                   { layout := [.setVar 1 "b", .defMacroV 6 1, .callVar 5, .callVar 6], blocks := [] } ] c0 10 0
    = .ok ["<m5:a>", "<m6:b>", "<m5:c>", "<m6:b>"] := by decide +kernel

/-! ## the argument of `include` / `import` / `from … import`

`perform_include` receives the *value* of the expression behind the tag (`Arg`): a string, some
other primitive, or an object — a list literal, a tuple, a `Vec` from the context (`ObjectRepr::Seq`),
a slice, `|reverse`, `Value::make_iterable`, a one-shot iterator, a repeated list
(`ObjectRepr::Iterable`), a map (`ObjectRepr::Map`: its keys), a function or plain object that
cannot be iterated.  The candidates, the selection among them and what happens when nothing is
selected are functions of the model (`choices`, `select`, `includeTemplate`); `choices` and the
tail condition follow tables regenerated from `vm/mod.rs`. -/

/-- The candidates are read off the value of the argument: a value that can be iterated yields
    its elements in iteration order **whatever kind of object carries them**; a value that is
    not an object is one name; an object that cannot be iterated is one name too (which is not
    a string, hence an error) — it is never "no candidates".  `choices` interprets the shape of
    the Rust expression as the extractor read it off the sources (which `ObjectRepr`s reach
    `try_iter()`, what the fallback arm is): an added filter on the object kind makes this
    theorem false.  The model's `ORepr` covers exactly the variants of `ObjectRepr`. -/
theorem include_candidates_any_iterable :
    (∀ (r : ORepr) (items : List Cand), choices (.object r (some items)) = items) ∧
    (∀ c, choices (.single c) = [c]) ∧
    (∀ r, choices (.object r none) = [none]) ∧
    (∀ a, choices a = a.cands) ∧
    MJ.Gen.c06ObjectReprs = ORepr.all.map ORepr.name := by
  refine ⟨fun r items => choices_eq_cands (.object r (some items)), fun c => choices_eq_cands (.single c),
    fun r => choices_eq_cands (.object r none), choices_eq_cands, by decide⟩

example : choices (.object .iterable (some [some 7, none, some 1])) = [some 7, none, some 1] := rfl
example : choices (.object .map (some [some 1])) = choices (.object .seq (some [some 1])) := rfl

/-- `perform_include` is "select, then act": walk the candidates in iteration order (`select`:
    a missing name is skipped, the first name that exists decides, a candidate that is not a
    string is an error where it is reached) and then render the selected template
    (`includeTemplate`), return its load error, or — when no candidate exists — raise
    `TemplateNotFound` exactly if something was looked up and `ignore missing` was not given
    (the condition as extracted from the sources). -/
theorem include_follows_selection (env : Env) (rec : Rec) (cur : Option Nat) (disc ign : Bool) (outer : Nat)
    (cands : List Cand) (tried : Bool) (st : St) :
    performInclude env rec cur disc ign outer cands tried st =
      match select env cands tried with
      | .render _ T => includeTemplate rec cur disc outer T st
      | .loadError t k => .error [loadErrKind t k]
      | .notAString => .error [.invalidOperation]
      | .nothing tr => if tr && !ign then .error [.templateNotFound] else .ok ([], st) :=
  performInclude_select env rec cur disc ign outer cands tried st

/-- the selected template is the **first candidate that exists, in iteration order**, for every
    kind of object that carries the candidates; conversely whatever is selected has only
    missing names in front of it. -/
theorem selection_is_first_existing (env : Env) :
    (∀ (r : ORepr) (missing : List Nat) (more : List Cand) (t : Nat) (T : Template) (tried : Bool),
      (∀ m ∈ missing, env[m]? = none) → env[t]? = some T → T.loadErr = none →
      select env (choices (.object r (some (missing.map some ++ some t :: more)))) tried = .render t T) ∧
    (∀ (cands : List Cand) (tried : Bool) (t : Nat) (T : Template), select env cands tried = .render t T →
      ∃ (missing : List Nat) (more : List Cand), cands = missing.map some ++ some t :: more ∧
        (∀ m ∈ missing, env[m]? = none) ∧ env[t]? = some T ∧ T.loadErr = none) := by
  refine ⟨?_, fun cands tried t T h => select_render_inv env cands tried t T h⟩
  intro r missing more t T tried hmiss hT hL
  rw [choices_eq_cands]
  exact select_first env missing more t T hmiss hT hL tried

/-- the statement: `{% include arg %}` with an argument of **any** iterable kind whose first
    existing candidate is `t` renders `t` (and continues with the rest of the statements) —
    `ignore missing`, the candidates behind `t` and the object kind play no role. -/
theorem include_renders_first_existing (rd : Rd) (rec : Rec) (parent : Option (List Item)) (r : ORepr)
    (missing : List Nat) (more : List Cand) (t : Nat) (T : Template) (ign : Bool) (rest : List Item) (st : St)
    (hmiss : ∀ m ∈ missing, rd.env[m]? = none) (hT : rd.env[t]? = some T) (hL : T.loadErr = none) :
    stepItems rd rec parent (.incl (.object r (some (missing.map some ++ some t :: more))) ign :: rest) st =
      (includeTemplate rec rd.cur (rd.disc0 || parent.isSome) rd.outer T st).andThen
        (fun st' => stepItems rd rec parent rest st') := by
  simp only [stepItems]
  rw [performInclude_select, (selection_is_first_existing rd.env).1 r missing more t T false hmiss hT hL]

/-- one environment, the same candidates `[t9 (missing), t1, t2]` carried by a list, a lazily
    evaluated iterable, the keys of a map and an enumerable plain object: always `t1` -/
def argEnv (a : Arg) (ign : Bool) : Env :=
  [ { layout := [.text "<a>", .incl a ign, .text "<z>"], blocks := [] },
    { layout := [.text "<one>"], blocks := [] },
    { layout := [.text "<two>"], blocks := [] } ]

example : render (argEnv (.object .seq (some [some 9, some 1, some 2])) false) c0 8 0 = .ok ["<a>", "<one>", "<z>"] := by decide +kernel
example : render (argEnv (.object .iterable (some [some 9, some 1, some 2])) false) c0 8 0 = .ok ["<a>", "<one>", "<z>"] := by decide +kernel
example : render (argEnv (.object .map (some [some 9, some 1, some 2])) true) c0 8 0 = .ok ["<a>", "<one>", "<z>"] := by decide +kernel
example : render (argEnv (.object .plain (some [some 9, some 2, some 1])) false) c0 8 0 = .ok ["<a>", "<two>", "<z>"] := by decide +kernel
/-- a candidate that is not a string is an error where it is reached, not before -/
example : render (argEnv (.object .iterable (some [some 9, none, some 1])) true) c0 8 0 = .error [.invalidOperation] := by decide +kernel
example : render (argEnv (.object .iterable (some [some 1, none])) false) c0 8 0 = .ok ["<a>", "<one>", "<z>"] := by decide +kernel
/-- a value that is neither a string nor iterable is not a template name -/
example : render (argEnv (.object .plain none) true) c0 8 0 = .error [.invalidOperation] := by decide +kernel
example : render (argEnv (.single none) true) c0 8 0 = .error [.invalidOperation] := by decide +kernel

/-- if **no candidate exists and something was asked for** — the argument yields at least one
    candidate and all of them are names of missing templates — the include is
    `TemplateNotFound`, unless `ignore missing` was given (then it renders nothing and changes
    nothing); whatever kind of value carried the candidates. -/
theorem include_nothing_exists (env : Env) (rec : Rec) (cur : Option Nat) (disc ign : Bool) (outer : Nat)
    (a : Arg) (st : St) (hne : a.cands ≠ [])
    (hall : ∀ c ∈ a.cands, ∃ m, c = some m ∧ env[m]? = none) :
    performInclude env rec cur disc ign outer (choices a) false st =
      if ign then .ok ([], st) else .error [.templateNotFound] := by
  rw [choices_eq_cands, performInclude_select, select_all_missing env a.cands false hall]
  have : a.cands.isEmpty = false := by
    cases h : a.cands with
    | nil => exact absurd h hne
    | cons _ _ => rfl
  cases ign <;> simp [this]

example : render (argEnv (.object .iterable (some [some 9, some 8])) false) c0 8 0 = .error [.templateNotFound] := by decide +kernel
example : render (argEnv (.object .iterable (some [some 9, some 8])) true) c0 8 0 = .ok ["<a>", "<z>"] := by decide +kernel
example : render (argEnv (.name 9) false) c0 8 0 = .error [.templateNotFound] := by decide +kernel

/-- **an include never succeeds without either rendering a candidate or being entitled to
    skip.**  Whenever `perform_include` returns `Ok` for an argument `a`, one of three things is
    the case: (1) a candidate was selected — the argument's candidates are missing names, then
    the name of an existing, loadable template `t` — and the result *is* the result of rendering
    `t`; (2) nothing was asked for: the argument is an iterable that yields no candidate (the
    empty list), nothing is rendered, nothing changes; (3) `ignore missing` was given and every
    candidate is the name of a missing template.  In particular an argument that yields
    candidates is never skipped silently. -/
theorem include_never_silently_skips (env : Env) (rec : Rec) (cur : Option Nat) (disc ign : Bool) (outer : Nat)
    (a : Arg) (st st' : St) (o : List String)
    (h : performInclude env rec cur disc ign outer (choices a) false st = .ok (o, st')) :
    (∃ (missing : List Nat) (more : List Cand) (t : Nat) (T : Template),
        a.cands = missing.map some ++ some t :: more ∧ (∀ m ∈ missing, env[m]? = none) ∧
        env[t]? = some T ∧ T.loadErr = none ∧ includeTemplate rec cur disc outer T st = .ok (o, st')) ∨
    (a.cands = [] ∧ o = [] ∧ st' = st) ∨
    (ign = true ∧ a.cands ≠ [] ∧ (∀ c ∈ a.cands, ∃ m, c = some m ∧ env[m]? = none) ∧ o = [] ∧ st' = st) := by
  rw [choices_eq_cands, performInclude_select] at h
  cases hs : select env a.cands false with
  | render t T =>
    rw [hs] at h
    obtain ⟨missing, more, h1, h2, h3, h4⟩ := select_render_inv env a.cands false t T hs
    exact Or.inl ⟨missing, more, t, T, h1, h2, h3, h4, h⟩
  | loadError t k => rw [hs] at h; cases h
  | notAString => rw [hs] at h; cases h
  | nothing tr =>
    rw [hs] at h
    obtain ⟨h1, h2⟩ := select_nothing_inv env a.cands false tr hs
    simp only [Bool.false_or] at h2
    cases hc : a.cands with
    | nil =>
      rw [hc] at h2
      subst h2
      simp only [List.isEmpty_nil, Bool.not_true, Bool.false_and, Bool.false_eq_true, if_false,
        Except.ok.injEq, Prod.mk.injEq] at h
      exact Or.inr (Or.inl ⟨rfl, h.1.symm, h.2.symm⟩)
    | cons c cs =>
      rw [hc] at h2
      subst h2
      cases ign with
      | false => simp at h
      | true =>
        simp only [Bool.not_true, Bool.and_false, Bool.false_eq_true, if_false, Except.ok.injEq, Prod.mk.injEq] at h
        exact Or.inr (Or.inr ⟨rfl, by simp, by rw [← hc]; exact h1, h.1.symm, h.2.symm⟩)

/-- all three alternatives occur -/
example : render (argEnv (.object .iterable (some [])) false) c0 8 0 = .ok ["<a>", "<z>"] := by decide +kernel
example : render (argEnv (.object .iterable (some [some 9])) true) c0 8 0 = .ok ["<a>", "<z>"] := by decide +kernel
example : render (argEnv (.object .iterable (some [some 9, some 2])) false) c0 8 0 = .ok ["<a>", "<two>", "<z>"] := by decide +kernel

/-- `import` / `from … import` take the same kinds of argument (they compile to the same
    `Include` instruction): the module is the one of the first existing candidate -/
example : render [ { layout := [.importAs (.object .iterable (some [some 9, some 1])) 8, .emitAttr 8 2, .text "|",
                                .fromImport (.object .map (some [some 7, some 1])) 4 6, .callVar 6], blocks := [] }, modT ]
    c0 10 0 = .ok ["b", "|", "<mac>"] := by decide +kernel
example : render [ { layout := [.importAs (.object .iterable (some [some 9, some 7])) 8], blocks := [] }, modT ]
    c0 10 0 = .error [.templateNotFound] := by decide +kernel

/-! ## which variables an include / import sees and changes -/

/-- **An include renders the template with the includer's current variables.**  The included
    template runs on the includer's own frame stack (only the macro-closure slot of the top
    frame is detached, which no lookup goes through: `load` does not depend on it).  Made
    concrete for an included template that consists of `{{ v }}`: it prints exactly what a
    lookup of `v` *at the include tag* finds — frames from the top down (loop variable, block
    frame, every `set` made so far), then the render context —, formatted in the included
    template's own auto-escape mode, and leaves the state as it was. -/
theorem include_sees_includer_variables (env : Env) (ctx : Cfg) (f : Nat) (cur : Option Nat) (disc : Bool)
    (outer : Nat) (T : Template) (v : Nat) (st : St) (hl : T.layout = [.emitVar v]) (hwf : st.frames.WF)
    (hd : outer + INCLUDE_COST + st.frames.length ≤ LIMIT) :
    (∀ c w, load ctx.rootCtx (st.frames.setTopClosure c) w = load ctx.rootCtx st.frames w) ∧
    includeTemplate (evalImpl env ctx (f + 1)) cur disc outer T st =
      match emitVarOut ctx disc T.ae (load ctx.rootCtx st.frames v) with
      | .ok o => .ok (o, st)
      | .error e => .error (.badInclude :: e) :=
  ⟨fun c w => load_setTopClosure ctx.rootCtx st.frames c w,
   includeTemplate_emitVar env ctx f cur disc outer T v st hl hwf hd⟩

/-- the includer's variables as the included template sees them: a `set` made before the tag, the
    loop variable of the enclosing loop (each iteration its own), a variable of the render
    context; a `set` made *after* the tag is not visible, a shadowing loop variable wins -/
def visEnv : Env :=
  [ { layout := [.setVar 1 "early", .incl (.name 1) false, .setVar 2 "late",
                 .loop 1 ["i1", "i2"] [.incl (.object .iterable (some [some 9, some 1])) false],
                 .incl (.name 1) false],
      blocks := [] },
    { layout := [.text "<", .emitVar 1, .text "|", .emitVar 2, .text "|", .emitVar 0, .text ">"], blocks := [] } ]

example : render visEnv { rootCtx := [(0, .str "ctx")] } 10 0 =
    .ok ["<", "early", "|", "|", "ctx", ">",
         "<", "i1", "|", "late", "|", "ctx", ">", "<", "i2", "|", "late", "|", "ctx", ">",
         "<", "early", "|", "late", "|", "ctx", ">"] := by decide +kernel

/-- **An include assigns into the includer's current frame only.**  Whatever the included
    template (and everything it includes, imports or extends) does, a successful include returns
    the same number of frames, and every frame *below* the current one holds exactly what it
    held: `set`s of the included template land in the frame the include tag runs in (they are
    visible to the includer afterwards, and gone when that frame — a loop iteration, a block —
    ends), never further down. -/
theorem include_assigns_into_current_frame_only (env : Env) (ctx : Cfg) (fuel : Nat) (henv : EnvOK env)
    (cur : Option Nat) (disc ign : Bool) (outer : Nat) (a : Arg) (st st' : St) (o : List String)
    (hwf : st.frames.WF)
    (h : performInclude env (evalImpl env ctx fuel) cur disc ign outer (choices a) false st = .ok (o, st')) :
    st'.frames.stack.length = st.frames.stack.length ∧
      ∀ i, i + 1 < st.frames.stack.length → st'.frames.stack[i]? = st.frames.stack[i]? :=
  include_frames env ctx fuel henv cur disc ign outer (choices a) false st st' o hwf h

/-- the included template sets `v6`: visible to the includer after the tag; set inside a loop
    iteration it is gone after the loop -/
example : render [ { layout := [.incl (.name 1) false, .emitVar 6, .text "|",
                                .loop 1 ["a"] [.incl (.name 2) false, .emitVar 7], .text "|", .emitVar 7], blocks := [] },
                   { layout := [.setVar 6 "six"], blocks := [] },
                   { layout := [.setVar 7 "seven"], blocks := [] } ] c0 10 0
    = .ok ["six", "|", "seven", "|"] := by decide +kernel

/-- **An import changes nothing in the importer's variables except the name it binds.**
    `{% import a as v %}` / `{% from a import n as x %}` run the imported template in a *fresh*
    frame on top of the importer's frames; when that succeeds there is exactly one frame more
    and *all* of the importer's frames — the current one included — hold exactly what they
    held.  The statement then drops the fresh frame, binding `v` to the module made of exactly
    that frame's locals (`dedupKeys (topFrame …)`, the imported template's top-level `set`s and
    macros: `import_exports_toplevel`) resp. `x` to that frame's value of `n` — nothing of the
    importer's own variables is in the module, nothing the imported template assigns reaches
    the importer. -/
theorem import_leaves_importer_variables (env : Env) (ctx : Cfg) (fuel : Nat) (henv : EnvOK env)
    (cur : Option Nat) (d0 e0 : Bool) (outer : Nat) (ae : AE) (parent : Option (List Item))
    (a : Arg) (rest : List Item) (st stI : St) (o1 : List String) (hwf : st.frames.WF)
    (hpf : pushFails outer st.frames = false) (disc : Bool)
    (hinc : performInclude env (evalImpl env ctx fuel) cur disc false outer (choices a) false
              { st with frames := st.frames.push [[]] } = .ok (o1, stI)) :
    stI.frames.length = st.frames.length + 1 ∧
    (stI.frames.take st.frames.length).stack = st.frames.stack ∧
    (disc = false → ∀ v,
      stepItems ⟨env, ctx, cur, d0, e0, outer, ae⟩ (evalImpl env ctx fuel) parent (.importAs a v :: rest) st =
        stepItems ⟨env, ctx, cur, d0, e0, outer, ae⟩ (evalImpl env ctx fuel) parent rest
          { stI with frames := store (stI.frames.take st.frames.length) v (.module (dedupKeys (topFrame stI.frames))) }) ∧
    (disc = true → ∀ n x,
      stepItems ⟨env, ctx, cur, d0, e0, outer, ae⟩ (evalImpl env ctx fuel) parent (.fromImport a n x :: rest) st =
        stepItems ⟨env, ctx, cur, d0, e0, outer, ae⟩ (evalImpl env ctx fuel) parent rest
          { stI with frames := store (stI.frames.take st.frames.length) x ((lookupVal n (topFrame stI.frames)).getD .undef) }) := by
  obtain ⟨h1, h2⟩ := import_frames env ctx fuel henv cur disc false outer (choices a) false st stI o1 hwf hinc
  refine ⟨h1, h2, ?_, ?_⟩
  · intro hd v
    subst hd
    simp only [stepItems, hpf, Bool.false_eq_true, if_false, hinc, andThen_nil]
  · intro hd n x
    subst hd
    simp only [stepItems, hpf, Bool.false_eq_true, if_false, hinc, andThen_nil]

/-- the importer's own `v3` is neither exported nor changed by the module's assignment of `v3`;
    the module's `v2` does not become a variable of the importer -/
example : render [ { layout := [.setVar 3 "mine", .importAs (.name 1) 8, .emitVar 3, .text "|", .emitAttr 8 3, .text "|",
                                .emitVar 2, .text "|", .emitKeys 8], blocks := [] },
                   { layout := [.setVar 3 "theirs", .setVar 2 "m2"], blocks := [] } ] c0 10 0
    = .ok ["mine", "|", "theirs", "|", "|", "v2,v3"] := by decide +kernel

/-! ## `super()` outside of blocks, block references in macro bodies -/

/-- `super()` outside of blocks.  In the template that is rendered it is an error (there is no
    current block).  In an *included* template the engine's `current_block` still names the block
    the include tag stands in, and `super()` is resolved against the included template's **own**
    block table (`BlockState::Replace`) — never against the includer's definitions: at the top
    level of an included template that has not executed an `extends`, every block has at most
    one definition, so `super()` is the error "no parent block exists", whatever the includer's
    chain looks like.  (Behind an executed `extends` of the included template the table holds the
    included chain's definitions; `blocks_refine_spec` covers that case through `specChain`'s
    `inh`: the recorded finding `super-inherited`.) -/
theorem super_outside_blocks (rec : Rec) (disc : Bool) (outer : Nat) (ae : AE) (st : St) :
    performSuper rec none disc outer ae st = .error [.invalidOperation] ∧
    (∀ (n : Nat) (T : Template),
      performSuper rec (some n) disc outer ae
        { st with blocks := prepare T.blocks, depth := fun _ => 0, loaded := [] } = .error [.invalidOperation]) := by
  refine ⟨rfl, ?_⟩
  intro n T
  have hl : (prepare T.blocks n).length ≤ 1 := by
    simp only [prepare]; cases lookupBlock n T.blocks <;> simp
  simp only [performSuper]
  have : ¬ (0 + 1 < (prepare T.blocks n).length) := by omega
  simp [this]

/-- the includer's block `b0` has a parent definition, the included template calls `super()` at
    its top level: an error, wrapped in `BadInclude` (not the includer's parent block) -/
example : render [ { layout := [.extends true 2, .callBlock 0], blocks := [(0, [.text "<c0>", .incl (.name 1) false])] },
                   { layout := [.text "<inc>", .super], blocks := [] },
                   { layout := [.callBlock 0], blocks := [(0, [.text "<p0>"])] } ] c0 10 0
    = .error [.badInclude, .invalidOperation] := by decide +kernel

/-- the recorded finding: the include stands in `b0`, the included template extends a parent, both
    define `b0`, and `{% set v5 = super() %}` runs behind the `extends` tag — the parent's `b0` is
    what `super()` yields; driver and specification agree on it and the environment lies in the
    proven fragment -/
def superInhEnv : Env :=
  [ { layout := [.callBlock 0], blocks := [(0, [.text "<T0:b0>", .incl (.name 1) false])] },
    { layout := [.extends true 2, .setSuper 5, .callBlock 0], blocks := [(0, [.text "(", .emitVar 5, .text ")"])] },
    { layout := [.text "<T2>", .callBlock 0], blocks := [(0, [.text "<T2:b0>"])] } ]

example : EnvOK superInhEnv := by decide
example : render superInhEnv c0 10 0 = .ok ["<T0:b0>", "<T2>", "(", "<T2:b0>", ")"] := by decide +kernel
example : specRender superInhEnv c0 10 0 = .ok ["<T0:b0>", "<T2>", "(", "<T2:b0>", ")"] := by decide +kernel

/-- `{% autoescape %}` blocks nested directly in one another: each `endautoescape` gives the
    enclosing block's mode back; an include inside them still runs in the included template's
    own mode.  Inside the fragment of `blocks_refine_spec` and of `rendering_terminates`. -/
def aeNestEnv : Env :=
  [ { layout := [.autoesc .html [.emitVar 0, .autoesc .json [.emitVar 0, .autoesc .none [.emitVar 0, .incl (.name 1) false],
                                                             .emitVar 0], .emitVar 0], .emitVar 0],
      blocks := [] },
    { layout := [.text "<", .emitVar 0, .text ">"], blocks := [], ae := .html } ]

example : EnvOK aeNestEnv := by decide
example : render aeNestEnv { rootCtx := [(0, .str "a<b")] } (renderFuel aeNestEnv) 0 =
    .ok ["a&lt;b", "\"a<b\"", "a<b", "<", "a&lt;b", ">", "\"a<b\"", "a&lt;b", "a<b"] := by decide +kernel

/-- block references from inside a macro body: a macro call keeps the block table and its
    cursors (`BlockState::Isolate` restores them afterwards), `current_block` is `None` inside —
    `self.b1()` renders the most-derived `b1`, `super()` is an error there.  Both lie in the
    fragment of `blocks_refine_spec`. -/
def macroBlockEnv : Env :=
  [ { layout := [.extends true 1, .callBlock 0, .callBlock 1],
      blocks := [(0, [.text "<c0>", .inMacro 9 1 "a" [.text "[", .callBlock 1, .text "]"]]), (1, [.text "<c1>"])] },
    { layout := [.text "<p>", .callBlock 0], blocks := [(0, [.text "<p0>"]), (1, [.text "<p1>"])] } ]

example : EnvOK macroBlockEnv := by decide
example : render macroBlockEnv c0 12 0 = .ok ["<p>", "<c0>", "[", "<c1>", "]"] := by decide +kernel
example : render [ { layout := [.callBlock 0], blocks := [(0, [.inMacro 9 1 "a" [.super]])] } ] c0 12 0
    = .error [.invalidOperation] := by decide +kernel

/-! ## The state of the activation across the switch to the parent template

`MJ/Model/BlocksAct.lean`: streams name their filters / tests by per-stream local ids, the
activation caches what it resolved per id, the end-of-instructions arm re-targets the activation to
the parent's stream.  Tables `MJ.Gen.c06ActivationLocals` / `c06StateAtParentSwitch` are regenerated
from `vm/mod.rs` / `vm/state.rs` on every run. -/
section Activation
open MJ.BlocksAct

/-- A cache that is wiped at every switch is transparent: whatever the extending template and its
    parents (any number of switches, any streams) used before, every use resolves the name the
    *current* stream gives the id — the specification has no cache at all. -/
theorem wiped_cache_is_transparent (wipe : Cache → Bool) (hw : ∀ c, wipe c = true)
    (s : Stream) (evs : List Ev) : run wipe s Cache.empty evs = runSpec s evs :=
  run_eq_spec_of_coherent wipe hw evs s _ (coherent_empty s)

/-- The tie to the code: every local of `eval_impl` that is indexed by local ids (the table finds
    them as the first argument of `get_or_lookup_local(&mut x, *local_id, …)`) is assigned
    unconditionally in the end-of-instructions arm — and therefore, for every chain of parent
    switches, behaves like no cache.  A reset moved under a condition makes the table say
    `conditional`, and this theorem stops building. -/
theorem parent_switch_resets_per_template_state :
    idIndexed ≠ [] ∧
    ∀ row ∈ idIndexed, ∀ (s : Stream) (evs : List Ev),
      run (wipeOf row.2.2) s Cache.empty evs = runSpec s evs := by
  refine ⟨by decide, ?_⟩
  intro row hrow s evs
  have h : row.2.2 = "reset" := by
    have : ∀ r ∈ idIndexed, r.2.2 = "reset" := by decide
    exact this row hrow
  exact wiped_cache_is_transparent _ (by intro c; simp [wipeOf, h]) s evs

example : idIndexed.map (·.1) = ["loaded_filters", "loaded_tests"] := by decide

/-- The whole render: block bodies, `super()` definitions, included / imported templates and
    macro bodies are activations of their own (`call` / `ret`), each of which may switch to parents
    of its own; callers are suspended with their caches and resume on their own stream.  With
    the treatment the table reports for the id-indexed locals, every use in every activation
    resolves the name its own current stream gives the id: nothing id-indexed survives a parent
    switch, an include, an import, a block call or a `super()`. -/
theorem every_activation_resolves_its_own_names :
    ∀ row ∈ idIndexed, ∀ (s : Stream) (evs : List Ev2),
      run2 (wipeOf row.2.2) s Cache.empty [] evs = runSpec2 s [] evs := by
  intro row hrow s evs
  have h : row.2.2 = "reset" := by
    have : ∀ r ∈ idIndexed, r.2.2 = "reset" := by decide
    exact this row hrow
  exact run2_eq_spec _ (by intro c; simp [wipeOf, h]) evs s _ [] (coherent_empty s) (by simp)

/-- a child that fills slot 1 only, calls a block (own numbering), switches to its parent, which
    includes a template that extends another one: every use names its own stream's id -/
example : run2 (wipeOf "reset") ["pprint", "lower"] Cache.empty []
      [.use 1, .call ["title"], .use 0, .ret, .use 1, .switch ["upper", "trim"], .use 1,
       .call ["first", "last"], .use 1, .switch ["min", "max"], .use 1, .use 0, .ret, .use 0]
    = [some "lower", some "title", some "lower", some "trim", some "last", some "max", some "min", some "upper"] := by
  decide

/-- Why the reset has to be unconditional: a cache that is carried (a `conditional` row whose
    condition does not hold) answers with the child's name for the parent's id. -/
theorem carried_cache_is_wrong :
    ∃ (s : Stream) (evs : List Ev), run (wipeOf "conditional") s Cache.empty evs ≠ runSpec s evs :=
  ⟨["lower", "odd"], [.use 1, .switch ["upper", "defined"], .use 1], by decide⟩

/-- … and the "cheap" variant — wipe only when slot 0 is filled, ids being handed out in order —
    is wrong as well: ids are handed out in *source* order, slots are filled in *execution* order
    (the first filter of the child sits in a macro body or in a branch that is not taken). -/
theorem wipe_if_slot0_is_wrong :
    ∃ (s : Stream) (evs : List Ev), run wipeIfSlot0 s Cache.empty evs ≠ runSpec s evs :=
  ⟨["pprint", "lower"], [.use 1, .switch ["upper", "title"], .use 1], by decide⟩

/-- with slot 0 filled the cheap variant happens to work on the same streams (the situation of
    the engine's own regression tests) — the defect needs the hidden first use -/
example : run wipeIfSlot0 ["pprint", "lower"] Cache.empty [.use 0, .use 1, .switch ["upper", "title"], .use 1]
    = runSpec ["pprint", "lower"] [.use 0, .use 1, .switch ["upper", "title"], .use 1] := by decide

/-- Classification of everything that is live across the switch.  Locals of the activation: the
    id-indexed ones are reset, `pc` is reset, `parent_instructions` is taken (so a template
    extends once per switch), everything else — operand stack, auto-escape stack, loop recursion
    state — is carried and is *not* id-indexed.  Fields of `State`: exactly `instructions` is
    re-targeted; block table, loaded set, current block, auto-escape mode, context frames,
    closures and macro tables are carried (which is what `MJ.Blocks.evalImpl` models: the parent
    runs on the child's frames, in the child's mode, with the merged block stacks). -/
theorem activation_state_classified :
    (∀ r ∈ MJ.Gen.c06ActivationLocals, r.2.2 ∈ ["reset", "taken", "carried"]) ∧
    (∀ r ∈ MJ.Gen.c06ActivationLocals, r.2.2 = "carried" → r.2.1 = false) ∧
    treatment "pc" = some (false, "reset") ∧
    treatment "parent_instructions" = some (false, "taken") ∧
    MJ.Gen.c06StateAtParentSwitch.filter (·.2 != "carried") = [("instructions", "retargeted")] ∧
    (∀ f ∈ ["blocks", "loaded_templates", "current_block", "auto_escape", "ctx"],
      (f, "carried") ∈ MJ.Gen.c06StateAtParentSwitch) := by
  decide

end Activation

end MJ.C06
