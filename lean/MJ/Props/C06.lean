import MJ.Proofs.BlocksMisc
/-!
# C06 — inheritance, super(), include and import compose templates as specified

Property theorems only (helper lemmas: `MJ/Proofs/Blocks.lean`, `MJ/Proofs/BlocksMisc.lean`).

* `MJ.Blocks.evalImpl` / `render` (`MJ/Model/Blocks.lean`) is the model of the engine: per-name
  block stacks with a depth cursor, `LoadBlocks`, the switch to the parent's instructions at the
  end of the instructions, `call_block`, `perform_super`, `perform_include`, import/from-import;
* `MJ.Blocks.specRender` (`MJ/Model/BlocksSpec.lean`) is the specification: no stacks, no
  cursor, no capture — `defs env chain n` lists the bodies of block `n` from the most- to the
  least-derived template, a block reference renders `(defs n)[0]`, `super()` at level `k` renders
  `(defs n)[k+1]`, text before an `extends` tag is emitted, everything outside blocks behind it
  is dropped, a repeated or missing parent is an error.
-/
namespace MJ.C06
open MJ.Blocks

/-- Full-strength statement: for every environment of the core fragment (layouts: text / block
    references, optionally an executed `extends` followed by text / blocks / further `extends`
    tags; block bodies: text / nested blocks / `super()`, with well-founded nesting), every render
    context, every template and **every amount of fuel** (so: for chains of any length, including
    cyclic ones and runs that are cut off) the driver returns exactly what the spec returns —
    the same output or the same error chain. -/
def C06_full : Prop :=
  ∀ (env : Env) (ctx : Frame) (fuel main : Nat), CoreEnv env →
    render env ctx fuel main = specRender env fuel main

theorem blocks_refine_spec : C06_full := by
  intro env ctx fuel main hcore
  unfold render specRender
  cases hT : env[main]? with
  | none => rfl
  | some T =>
    have hok : layoutOK T.layout = true := by
      have := hcore T (List.mem_of_getElem? hT)
      simp only [templateOK, Bool.and_eq_true] at this
      exact this.1
    have hst : ChainSt env [main] (initSt T) :=
      ⟨prepare_eq_defs env main T hT, fun _ => rfl, fun t => by simp [initSt]⟩
    have := sim_template env ctx hcore fuel [main] T.layout (initSt T) hst hok (by simp)
    simp only []
    rw [← this]
    cases evalImpl env ctx fuel none false T.layout (initSt T) with
    | error e => rfl
    | ok r => rfl

/-! a three-level chain: the child overrides `b0` and calls `super()`, the middle template only
    defines the nested block `b1`, the root defines both -/
def exEnv : Env :=
  [ { layout := [.text "<pre0>", .extends true 1, .text "<post0>", .callBlock 0],
      blocks := [(0, [.text "<c0>", .super])] },
    { layout := [.extends true 2, .text "<post1>", .callBlock 1],
      blocks := [(1, [.text "<m1>"])] },
    { layout := [.text "<top>", .callBlock 0, .text "<end>"],
      blocks := [(0, [.text "<r0>", .callBlock 1]), (1, [.text "<r1>"])] } ]

example : CoreEnv exEnv := by decide
example : render exEnv [] 10 0 = .ok ["<pre0>", "<top>", "<c0>", "<r0>", "<m1>", "<end>"] := by decide
example : specRender exEnv 10 0 = .ok ["<pre0>", "<top>", "<c0>", "<r0>", "<m1>", "<end>"] := by decide

/-- `call_block`: whenever the engine is in a state that arises while rendering the definitions
    `D` (`Good`: stacks = `D`, cursor of the current block at its level, cursors of all blocks
    that can still be entered at 0), a block reference renders the **most-derived** definition
    `(D m)[0]` and leaves block stacks, cursors, loaded set and frames as they were. -/
theorem block_renders_most_derived (env : Env) (ctx : Frame) (D : Nat → List (List Item))
    (hwf : WF D) (f : Nat) (cur : Option Nat) (k m : Nat) (st : St) (hg : Good D cur k st)
    (hm : ∀ n, cur = some n → n < m) :
    callBlock (evalImpl env ctx f) false m st =
      if (D m).isEmpty then .error [.unknownBlock] else lift2 (specBody D f m 0) st :=
  callBlock_good env ctx D f (sim_body env ctx D hwf f) cur k m st hg hm

/-- `super()` inside the `k`-th definition of block `n` renders the `k+1`-st definition — the
    next one up the chain, skipping templates that do not define the block, since `defs` only
    lists definitions — wraps its errors in `EvalBlock`, and puts the cursor back; when there is
    no further definition it is an error, not empty output. -/
theorem super_goes_one_up (env : Env) (ctx : Frame) (D : Nat → List (List Item))
    (hwf : WF D) (f n k : Nat) (st : St) (hg : Good D (some n) k st) :
    performSuper (evalImpl env ctx f) (some n) false st =
      if k + 1 < (D n).length then lift2 (liftErr .evalBlock (specBody D f n (k + 1))) st
      else .error [.invalidOperation] :=
  performSuper_good env ctx D f (sim_body env ctx D hwf f) n k st hg

/-- `Good` states exist and `WF` holds for the definitions of a core environment -/
example : WF (defs exEnv [0, 1, 2]) := WF_defs exEnv (by decide) [0, 1, 2]
example : Good (defs exEnv [0, 1, 2]) (some 0) 0
    { blocks := defs exEnv [0, 1, 2], depth := fun _ => 0, loaded := [2, 1], frames := [[]] } :=
  ⟨rfl, by intro n hn; cases hn; exact ⟨rfl, by decide⟩, fun _ _ => rfl⟩
example : defs exEnv [0, 1, 2] 0 = [[.text "<c0>", .super], [.text "<r0>", .callBlock 1]] := rfl

theorem filterMap_head_eq_findSome {α β : Type} (g : α → Option β) (l : List α) :
    (l.filterMap g)[0]? = l.findSome? g := by
  induction l with
  | nil => rfl
  | cons a rest ih =>
    simp only [List.filterMap_cons, List.findSome?_cons]
    cases g a with
    | none => exact ih
    | some b => rfl

/-- a template that does not define block `n` contributes nothing to `defs`: the block falls
    through to the nearest ancestor that defines it -/
theorem untouched_falls_through (env : Env) (i : Nat) (chain : List Nat) (n : Nat)
    (h : blockOf env i n = none) :
    defs env (i :: chain) n = defs env chain n ∧
      (defs env (i :: chain) n)[0]? = chain.findSome? (fun j => blockOf env j n) := by
  have h1 : defs env (i :: chain) n = defs env chain n := by
    simp [defs, h]
  refine ⟨h1, ?_⟩
  rw [h1]
  exact filterMap_head_eq_findSome _ chain

example : blockOf exEnv 1 0 = none := rfl
example : (defs exEnv [1, 2] 0)[0]? = some [.text "<r0>", .callBlock 1] := rfl

/-- behind an executed `extends` tag everything outside blocks is discarded: text produces no
    output and block references are skipped (they only *define*), whatever the reader, the
    callback and the state are -/
theorem child_text_discarded (rd : Rd) (rec : Rec) (p post : List Item) (st : St)
    (h : post.all Item.isPlain = true) :
    stepItems rd rec (some p) post st = .ok ([], st, some p) := by
  have hpost : post.all Item.isPost = true := by
    rw [List.all_eq_true] at h ⊢
    intro it hit
    have := h it hit
    cases it <;> simp_all [Item.isPlain, Item.isPost]
  have hno : hasExecExtends post = false := by
    clear hpost
    induction post with
    | nil => rfl
    | cons it rest ih =>
      simp only [List.all_cons, Bool.and_eq_true] at h
      cases it with
      | «extends» exec t =>
        cases exec with
        | true => simp [Item.isPlain] at h
        | false => exact ih h.2
      | _ => first | exact ih h.2 | simp [Item.isPlain] at h
  rw [post_silent rd rec p post hpost st, hno]
  rfl

example : stepItems ⟨exEnv, [], none, false⟩ (evalImpl exEnv [] 5) (some [])
    [.text "<post0>", .callBlock 0] (initSt exEnv[0]) = .ok ([], initSt exEnv[0], some []) :=
  child_text_discarded _ _ _ _ _ rfl

/-- `LoadBlocks` bookkeeping: a successful load adds a *new* existing template to the loaded set;
    the set therefore stays duplicate-free and bounded by the number of templates, and once it
    holds `|env|` templates every further `LoadBlocks` fails (with the cycle error or with
    template-not-found).  So a chain performs at most `|env|` successful `LoadBlocks` and the
    `|env|+1`-st attempt is an error. -/
theorem extends_terminates (env : Env) (t : Nat) (st : St)
    (hnd : st.loaded.Nodup) (hlt : ∀ x ∈ st.loaded, x < env.length) :
    (∀ st' l, loadBlocks env t st = .ok (st', l) →
        t ∉ st.loaded ∧ st'.loaded = t :: st.loaded ∧ st'.loaded.Nodup ∧
        (∀ x ∈ st'.loaded, x < env.length) ∧ st'.loaded.length ≤ env.length) ∧
    (env.length ≤ st.loaded.length →
        loadBlocks env t st = .error [.invalidOperation] ∨
        loadBlocks env t st = .error [.templateNotFound]) := by
  refine ⟨?_, loadBlocks_exhausted env t st hnd hlt⟩
  intro st' l h
  obtain ⟨h1, _, h3, _⟩ := loadBlocks_ok env t st st' l h
  obtain ⟨i1, i2, _, i4⟩ := loadBlocks_inv env t st st' l h hnd hlt
  exact ⟨h1, h3, i1, i2, i4⟩

example : ∃ st' l, loadBlocks exEnv 1 (initSt exEnv[0]) = .ok (st', l) ∧ st'.loaded = [1] :=
  ⟨_, _, rfl, rfl⟩

/-- every inheritance cycle ends in a *detected* error: if every template of a core environment
    extends something (text, then an executed `extends`), rendering any template with fuel for
    `|env| + 1` template activations — or any larger amount — is the cycle error or
    template-not-found; never success, never truncated output, and not the recursion limit. -/
theorem cycle_is_detected_error (env : Env) (ctx : Frame) (hcore : CoreEnv env)
    (hall : ∀ T ∈ env, extendsAfterText T.layout = true) (main fuel : Nat)
    (hmain : main < env.length) (hfuel : env.length + 1 ≤ fuel) :
    render env ctx fuel main = .error [.invalidOperation] ∨
      render env ctx fuel main = .error [.templateNotFound] := by
  rw [blocks_refine_spec env ctx fuel main hcore]
  unfold specRender
  have hT : env[main]? = some env[main] := List.getElem?_eq_getElem hmain
  rw [hT]
  exact cycle_detected_spec env hall env.length fuel [main] _ (by simp) (by simp) (by simp)
    (by simp) hfuel (hall _ (List.getElem_mem hmain))

def cycEnv : Env :=
  [ { layout := [.text "<a>", .extends true 1, .callBlock 0], blocks := [(0, [.text "<a0>", .super])] },
    { layout := [.text "<b>", .extends true 0], blocks := [] } ]

example : CoreEnv cycEnv := by decide
example : ∀ T ∈ cycEnv, extendsAfterText T.layout = true := by decide
example : render cycEnv [] 3 0 = .error [.invalidOperation] := by decide
example : render cycEnv [] 50 0 = .error [.invalidOperation] := by decide

/-- rendering terminates on its own: for a core environment whose block names are below `B`,
    nesting fuel of `|env| + B·(|env|+2) + |env| + 3` is never exhausted, whatever the template —
    the result is the rendered output or a genuine error (cycle, missing template, `super()`
    without parent, …), never the recursion limit.  Inheritance cycles included. -/
theorem rendering_terminates (env : Env) (ctx : Frame) (hcore : CoreEnv env) (B : Nat)
    (hB : ∀ T ∈ env, ∀ p ∈ T.blocks, p.1 < B) (main fuel : Nat)
    (hfuel : env.length + (B * (env.length + 2) + (env.length + 1)) + 2 ≤ fuel) :
    noRec (render env ctx fuel main) := by
  rw [blocks_refine_spec env ctx fuel main hcore]
  unfold specRender
  cases hT : env[main]? with
  | none => intro e he; cases he; simp
  | some T =>
    have hok : layoutOK T.layout = true := by
      have := hcore T (List.mem_of_getElem? hT)
      simp only [templateOK, Bool.and_eq_true] at this
      exact this.1
    exact specTemplate_noRec env hcore B hB fuel [main] T.layout (by simp) (by simp) (by simp)
      (by simpa using hfuel) hok

example : ∀ T ∈ exEnv, ∀ p ∈ T.blocks, p.1 < 2 := by decide
example : ∀ T ∈ cycEnv, ∀ p ∈ T.blocks, p.1 < 1 := by decide

/-- once a template has executed an `extends`, a further executed `extends` in the same template
    is an error, whatever stands in between and whatever its target is -/
theorem double_extends_error (rd : Rd) (rec : Rec) (p mid post : List Item) (t : Nat)
    (hmid : mid.all Item.isPost = true) (st : St) :
    stepItems rd rec (some p) (mid ++ .extends true t :: post) st = .error [.invalidOperation] :=
  second_extends_error rd rec p mid post t hmid st

example : render
    [ { layout := [.extends true 1, .text "<x>", .extends true 1], blocks := [] },
      { layout := [.text "<p>"], blocks := [] } ] [] 10 0 = .error [.invalidOperation] := by decide

/-- missing templates are errors, not truncated output: `extends` of a missing name fails with
    template-not-found at the tag; an include list of which no name exists fails unless
    `ignore missing` is given (then it renders nothing and changes nothing) -/
theorem missing_is_error_not_truncation (rd : Rd) (rec : Rec) (st : St) :
    (∀ t rest, t ∉ st.loaded → rd.env.length ≤ t →
        stepItems rd rec none (.extends true t :: rest) st = .error [.templateNotFound]) ∧
    (∀ cur disc ign names, (∀ m ∈ names, rd.env[m]? = none) →
        performInclude rd.env rec cur disc ign names false st =
          if !names.isEmpty && !ign then .error [.templateNotFound] else .ok ([], st)) := by
  refine ⟨fun t rest h1 h2 => extends_missing_error rd rec t rest st h1 h2, ?_⟩
  intro cur disc ign names h
  rw [performInclude_all_missing rd.env rec cur disc ign names h false st]
  simp

example : render [ { layout := [.text "<a>", .extends true 7], blocks := [] } ] [] 10 0
    = .error [.templateNotFound] := by decide
example : render [ { layout := [.text "<a>", .incl [7, 8] false, .text "<z>"], blocks := [] } ] [] 10 0
    = .error [.templateNotFound] := by decide
example : render [ { layout := [.text "<a>", .incl [7, 8] true, .text "<z>"], blocks := [] } ] [] 10 0
    = .ok ["<a>", "<z>"] := by decide

/-- an include renders the **first existing** name of its list: missing names in front of it are
    skipped, the names behind it are irrelevant, `ignore missing` plays no role.  The template is
    rendered as a chain of its own (fresh block table, empty loaded set) on the includer's frames
    (= with the includer's current variables); afterwards the includer's block stacks, cursors
    and loaded set are back; an error inside it is wrapped in `BadInclude` — never swallowed. -/
theorem include_first_existing (env : Env) (rec : Rec) (cur : Option Nat) (disc ign : Bool)
    (missing more : List Nat) (t : Nat) (T : Template)
    (hmiss : ∀ m ∈ missing, env[m]? = none) (hT : env[t]? = some T) (st : St) :
    performInclude env rec cur disc ign (missing ++ t :: more) false st =
      match rec cur disc T.layout { st with blocks := prepare T.blocks, depth := fun _ => 0, loaded := [] } with
      | .error e => .error (.badInclude :: e)
      | .ok (o, st') =>
        .ok (o, { blocks := st.blocks, depth := st.depth, loaded := st.loaded,
                  frames := st'.frames.take st.frames.length }) :=
  performInclude_first env rec cur disc ign missing more t T hmiss hT false st

def incEnv : Env :=
  [ { layout := [.setVar 1 "L", .incl [9, 1, 2] false], blocks := [] },
    { layout := [.text "<x:", .emitVar 1, .text ">"], blocks := [] },
    { layout := [.text "<y>"], blocks := [] } ]

example : render incEnv [] 10 0 = .ok ["<x:", "L", ">"] := by decide

/-- `import` / `from … import` expose exactly the imported template's top-level assignments.
    For a module template (text, `set`, macro definitions at top level — `assigns` lists what
    they leave behind): `{% import t as v %}` binds `v` to a module whose entries are exactly
    those assignments, `{% from t import name as alias %}` binds `alias` to the module's value of
    `name` and to *undefined* when the module does not assign `name` — independently of the
    importer's frames and render context — and neither changes anything else in the state. -/
theorem import_exports_toplevel (env : Env) (ctx : Frame) (f : Nat) (cur : Option Nat) (d0 : Bool)
    (parent : Option (List Item)) (t : Nat) (T : Template) (hT : env[t]? = some T)
    (hs : T.layout.all Item.isAssign = true) (rest : List Item) (st : St) :
    (∀ v, stepItems ⟨env, ctx, cur, d0⟩ (evalImpl env ctx (f + 1)) parent (.importAs t v :: rest) st =
        stepItems ⟨env, ctx, cur, d0⟩ (evalImpl env ctx (f + 1)) parent rest
          { st with frames := store st.frames v (.module (dedupKeys (assigns T.layout []))) }) ∧
    (∀ name alias,
        stepItems ⟨env, ctx, cur, d0⟩ (evalImpl env ctx (f + 1)) parent (.fromImport t name alias :: rest) st =
        stepItems ⟨env, ctx, cur, d0⟩ (evalImpl env ctx (f + 1)) parent rest
          { st with frames := store st.frames alias ((lookupVal name (assigns T.layout [])).getD .undef) }) ∧
    (∀ name, T.layout.all (fun it => !assignsVar name it) = true →
        lookupVal name (assigns T.layout []) = none) := by
  refine ⟨fun v => importAs_step env ctx f cur d0 parent t v T hT hs rest st,
    fun name alias => fromImport_step env ctx f cur d0 parent t name alias T hT hs rest st, ?_⟩
  intro name h
  rw [lookup_assigns_other name T.layout [] h]
  rfl

def modT : Template :=
  { layout := [.text "<m>", .setVar 2 "a", .defMacro 4 "<mac>", .setVar 2 "b"], blocks := [] }

/-- the importer's own `v3` (local and in the render context) is not what `m.v3` or
    `from m import v3` yield; the module's last assignment of `v2` and its macro are -/
example : render [ { layout := [.setVar 3 "mine", .importAs 1 8, .emitAttr 8 3, .text "|", .emitAttr 8 2],
                     blocks := [] }, modT ] [(3, .str "ctx")] 10 0 = .ok ["|", "b"] := by decide
example : render [ { layout := [.fromImport 1 3 7, .text "[", .emitVar 7, .text "]"], blocks := [] }, modT ]
    [(3, .str "ctx")] 10 0 = .ok ["[", "]"] := by decide
example : render [ { layout := [.fromImport 1 4 6, .callVar 6], blocks := [] }, modT ]
    [(3, .str "ctx")] 10 0 = .ok ["<mac>"] := by decide

end MJ.C06
