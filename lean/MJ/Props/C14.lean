import MJ.Proofs.LocDebug
import MJ.Proofs.LocTables
import MJ.Proofs.LocCodegen
import MJ.Proofs.LocVmTie
import MJ.Proofs.LocAstStmt
import MJ.Proofs.LocParse
import MJ.Model.LocAstArms
import MJ.Proofs.LocEndToEnd
/-!
# C14 — errors point at the right template line; reported ranges are valid slices

Property theorems only (helper lemmas live in `MJ/Proofs/Loc*.lean`, the model in
`MJ/Model/Loc.lean`).

The tokenizer is modelled as an arbitrary *script* of `advance` / `loc` / `span` / `syntax_error`
calls (`Loc.run`), so every statement about "the spans the lexer creates" holds for whatever the
tokenizer's rules do; that the real tokenizer, parser and code generator hand the span of the
failing construct to the error is validated by the harness, not proved.
-/
namespace MJ.C14
open MJ MJ.Loc

/-! ## vocabulary of the statements -/

/-- run `advance` for each byte count in turn -/
def advanceAll : Tok → List Nat → Chk Tok
  | t, [] => .ok t
  | t, n :: ns =>
    match t.advance n with
    | .panic => .panic
    | .ok t' => advanceAll t' ns

/-- `k` is a character boundary of `src` (`0`, `src.len()` or between two characters) -/
def IsBoundary (src : List Char) (k : Nat) : Prop := ∃ n, n ≤ src.length ∧ utf8Len (src.take n) = k

/-- `src[s.start_offset..s.end_offset]` does not panic -/
def ValidRange (src : List Char) (s : Span) : Prop :=
  s.startOffset ≤ s.endOffset ∧ s.endOffset ≤ utf8Len src ∧
  IsBoundary src s.startOffset ∧ IsBoundary src s.endOffset

/-- line and column (both saturating at 65535) of the position after the prefix `p`: one more than
    the number of newlines in `p`; the number of characters after the last newline of `p` -/
def lineOf (p : List Char) : Nat := min (1 + p.count '\n') 65535
def colOf (p : List Char) : Nat := min (lastSeg p) 65535

/-! ## 1. `advance`: line, column, offset -/

/-- After any sequence of successful `advance` calls the tokenizer has consumed a whole prefix
    `src.take k` of the source whose byte length is the sum of the requested byte counts, the line is
    `min (1 + newlines consumed) 65535`, the column is the saturated number of characters since the
    last newline and the offset is the UTF-8 length of the consumed prefix. -/
theorem advance_position (src : List Char) (ns : List Nat) (t : Tok)
    (h : advanceAll (Tok.new src) ns = .ok t) :
    ∃ k, k ≤ src.length ∧ t.rest = src.drop k ∧ utf8Len (src.take k) = ns.sum ∧
      t.line = lineOf (src.take k) ∧ t.col = colOf (src.take k) ∧ t.offset = utf8Len (src.take k) := by
  suffices H : ∀ (ns : List Nat) (t0 : Tok) (k0 : Nat), At src t0 k0 → advanceAll t0 ns = .ok t →
      ∃ k, At src t k ∧ utf8Len (src.take k) = utf8Len (src.take k0) + ns.sum by
    obtain ⟨k, hat, hsum⟩ := H ns (Tok.new src) 0 (At.new src) h
    have hp := hat.pos
    rw [posOf_eq] at hp
    injection hp with hl hc
    exact ⟨k, hat.le, hat.rest, by simpa [utf8Len] using hsum, hl, hc, hat.off⟩
  intro ns
  induction ns with
  | nil => intro t0 k0 hat h; simp [advanceAll] at h; subst h; exact ⟨k0, hat, by simp⟩
  | cons n ns ih =>
    intro t0 k0 hat h
    simp only [advanceAll] at h
    split at h
    · cases h
    · rename_i t1 ha
      obtain ⟨k1, _, hat1, hlen1⟩ := advance_at src t0 t1 k0 n hat ha
      obtain ⟨k, hatk, hk⟩ := ih t1 k1 hat1 h
      exact ⟨k, hatk, by rw [hk, hlen1, List.sum_cons]; omega⟩

example : advanceAll (Tok.new "ä\n€x{{".toList) [3, 4, 2] = .ok ⟨[], 2, 4, 9⟩ := by decide

theorem advance_line (src : List Char) (ns : List Nat) (t : Tok) (h : advanceAll (Tok.new src) ns = .ok t) :
    ∃ p rest, src = p ++ rest ∧ t.rest = rest ∧ utf8Len p = ns.sum ∧ t.line = min (1 + p.count '\n') 65535 := by
  obtain ⟨k, _, hr, hs, hl, _, _⟩ := advance_position src ns t h
  exact ⟨src.take k, src.drop k, (List.take_append_drop k src).symm, hr, hs, hl⟩

theorem advance_offset (src : List Char) (ns : List Nat) (t : Tok) (h : advanceAll (Tok.new src) ns = .ok t) :
    ∃ p rest, src = p ++ rest ∧ t.rest = rest ∧ t.offset = utf8Len p ∧ t.offset = ns.sum := by
  obtain ⟨k, _, hr, hs, _, _, ho⟩ := advance_position src ns t h
  exact ⟨src.take k, src.drop k, (List.take_append_drop k src).symm, hr, ho, by rw [ho, hs]⟩

/-- what the column means: the number of characters after the last newline (the whole prefix when
    there is none), saturating at 65535 -/
theorem advance_col (src : List Char) (ns : List Nat) (t : Tok) (h : advanceAll (Tok.new src) ns = .ok t) :
    ∃ p rest, src = p ++ rest ∧ t.rest = rest ∧
      (∀ a b, p = a ++ '\n' :: b → '\n' ∉ b → t.col = min b.length 65535) ∧
      ('\n' ∉ p → t.col = min p.length 65535) := by
  obtain ⟨k, _, hr, _, _, hc, _⟩ := advance_position src ns t h
  refine ⟨src.take k, src.drop k, (List.take_append_drop k src).symm, hr, ?_, ?_⟩
  · intro a b hp hb; rw [hc, colOf, hp, lastSeg_append_nl a b hb]
  · intro hp; rw [hc, colOf, lastSeg_no_nl _ hp]

/-- `advance` panics exactly when asked to stop inside a multi-byte character or past the end -/
theorem advance_ok_iff_boundary (src : List Char) (ns : List Nat) (t : Tok) (n : Nat)
    (hsz : utf8Len src < 18446744073709551616) (h : advanceAll (Tok.new src) ns = .ok t) :
    (∃ t', t.advance n = .ok t') ↔ IsBoundary src (t.offset + n) := by
  obtain ⟨k, hat, hsum⟩ : ∃ k, At src t k ∧ utf8Len (src.take k) = ns.sum := by
    suffices H : ∀ (ns : List Nat) (t0 : Tok) (k0 : Nat), At src t0 k0 → advanceAll t0 ns = .ok t →
        ∃ k, At src t k ∧ utf8Len (src.take k) = utf8Len (src.take k0) + ns.sum by
      obtain ⟨k, hat, hs⟩ := H ns (Tok.new src) 0 (At.new src) h
      exact ⟨k, hat, by simpa [utf8Len] using hs⟩
    intro ns
    induction ns with
    | nil => intro t0 k0 hat h; simp [advanceAll] at h; subst h; exact ⟨k0, hat, by simp⟩
    | cons n ns ih =>
      intro t0 k0 hat h
      simp only [advanceAll] at h
      split at h
      · cases h
      · rename_i t1 ha
        obtain ⟨k1, _, hat1, hlen1⟩ := advance_at src t0 t1 k0 n hat ha
        obtain ⟨k, hatk, hk⟩ := ih t1 k1 hat1 h
        exact ⟨k, hatk, by rw [hk, hlen1, List.sum_cons]; omega⟩
  constructor
  · rintro ⟨t', ha⟩
    obtain ⟨k', _, hat', hlen⟩ := advance_at src t t' k n hat ha
    exact ⟨k', hat'.le, by rw [hlen, hat.off]⟩
  · rintro ⟨k', hk', hlen⟩
    have hkk : k ≤ k' := by
      rcases Nat.le_total k k' with h1 | h1
      · exact h1
      · have := utf8Len_take_mono src h1
        have : utf8Len (src.take k') = utf8Len (src.take k) := by rw [hat.off] at hlen; omega
        have := take_eq_of_utf8Len_eq src k' k hk' hat.le this
        omega
    obtain ⟨t', ha, _⟩ := advance_ok_of_boundary src t k k' hat hkk hk' hsz
    refine ⟨t', ?_⟩
    rw [← ha]; congr 1; rw [hlen, hat.off]; omega

example : (Tok.new "ä".toList).advance 1 = .panic ∧ (Tok.new "ä".toList).advance 3 = .panic := by decide

/-! ## 2. every span the tokenizer can create is a valid slice, and says where it is -/

theorem goodSpan_valid (src : List Char) (hsz : utf8Len src < 4294967296) (s : Span) (h : GoodSpan src s) :
    ValidRange src s := by
  cases h with
  | token a b hab hb h =>
    subst h
    exact ⟨utf8Len_take_mono src hab, utf8Len_take_le src b, ⟨a, by omega, rfl⟩, ⟨b, hb, rfl⟩⟩
  | error a ha h =>
    subst h
    exact ⟨utf8Len_take_mono src (by omega), utf8Len_take_le src _, ⟨a, ha, rfl⟩, ⟨min (a + 1) src.length, by omega, rfl⟩⟩

/-- For every script of tokenizer actions (after the initial `loc`): every span of a token and the
    span of the syntax error are in bounds, ordered and on character boundaries of the source. -/
theorem span_in_bounds_on_boundary (src : List Char) (hsz : utf8Len src < 4294967296) (ops : List Op)
    (m0 : Loc) (spans : List Span) (h : run (Tok.new src) m0 (.mark :: ops) = .ok spans) :
    ∀ s ∈ spans, ValidRange src s := by
  intro s hs
  apply goodSpan_valid src hsz
  simp only [run] at h
  rw [(At.new src).loc_eq hsz] at h
  exact run_good src hsz ops (Tok.new src) 0 0 spans (At.new src) (Nat.le_refl _) h s hs

/-- … and they say where they are: a token span covers characters `a .. b` of the source and its
    start/end line and column are those of the prefixes of length `a` and `b`; the error span
    starts at the position of the prefix of length `a`, is one (saturated) column wide and covers
    exactly the next character (nothing at the end of the input). -/
theorem span_positions (src : List Char) (hsz : utf8Len src < 4294967296) (ops : List Op)
    (m0 : Loc) (spans : List Span) (h : run (Tok.new src) m0 (.mark :: ops) = .ok spans) :
    ∀ s ∈ spans,
      (∃ a b, a ≤ b ∧ b ≤ src.length ∧
        s = ⟨lineOf (src.take a), colOf (src.take a), utf8Len (src.take a),
             lineOf (src.take b), colOf (src.take b), utf8Len (src.take b)⟩) ∨
      (∃ a, a ≤ src.length ∧
        s = ⟨lineOf (src.take a), colOf (src.take a), utf8Len (src.take a),
             lineOf (src.take a), satInc (colOf (src.take a)), utf8Len (src.take a) + nextCharLen (src.drop a)⟩) := by
  intro s hs
  simp only [run] at h
  rw [(At.new src).loc_eq hsz] at h
  have hg := run_good src hsz ops (Tok.new src) 0 0 spans (At.new src) (Nat.le_refl _) h s hs
  cases hg with
  | token a b hab hb h =>
    left; refine ⟨a, b, hab, hb, ?_⟩
    rw [h]; simp [spanAt, locAt, posOf_eq, lineOf, colOf]
  | error a ha h =>
    right; refine ⟨a, ha, ?_⟩
    rw [h]; simp [errSpanAt, locAt, posOf_eq, lineOf, colOf, utf8Len_take_succ]

example : run (Tok.new "ä{{ €".toList) ⟨1, 0, 0⟩ [.mark, .adv 2, .emit, .mark, .adv 2, .emit, .adv 1, .err] =
    .ok [⟨1, 0, 0, 1, 1, 2⟩, ⟨1, 1, 2, 1, 3, 4⟩, ⟨1, 4, 5, 1, 5, 8⟩] := by decide

/-- The tokenizer works on the source without one trailing newline; its spans are valid slices of
    the *full* source (which is what `Error::template_source` returns). -/
theorem span_valid_in_full_source (keep : Bool) (src : List Char) (hsz : utf8Len src < 4294967296)
    (ops : List Op) (m0 : Loc) (spans : List Span)
    (h : run (Tok.new (tokSource keep src)) m0 (.mark :: ops) = .ok spans) :
    ∀ s ∈ spans, ValidRange src s := by
  have hstrip : ∀ (c : Char) (cs : List Char), ∃ suf, cs = stripLast c cs ++ suf := by
    intro c cs
    unfold stripLast
    split
    · rename_i hl
      have hne : cs ≠ [] := by intro e; simp [e] at hl
      have hd := List.dropLast_concat_getLast hne
      rw [List.getLast?_eq_some_getLast hne] at hl
      injection hl with hl
      rw [hl] at hd
      exact ⟨[c], hd.symm⟩
    · exact ⟨[], by simp⟩
  obtain ⟨suf, hsuf⟩ : ∃ suf, src = tokSource keep src ++ suf := by
    unfold tokSource
    split
    · exact ⟨[], by simp⟩
    · obtain ⟨s1, h1⟩ := hstrip '\n' src
      obtain ⟨s2, h2⟩ := hstrip '\r' (stripLast '\n' src)
      exact ⟨s2 ++ s1, by rw [← List.append_assoc, ← h2, ← h1]⟩
  generalize tokSource keep src = p at h hsuf
  have hlen : utf8Len p ≤ utf8Len src := by rw [hsuf, utf8Len_append]; omega
  intro s hs
  obtain ⟨h1, h2, ⟨a, ha, ha'⟩, ⟨b, hb, hb'⟩⟩ := span_in_bounds_on_boundary p (by omega) ops m0 spans h s hs
  have htake : ∀ n, n ≤ p.length → src.take n = p.take n := by
    intro n hn; rw [hsuf, List.take_append_of_le_length hn]
  have hpl : p.length ≤ src.length := by rw [hsuf]; simp
  exact ⟨h1, by omega, ⟨a, by omega, by rw [htake a ha]; exact ha'⟩, ⟨b, by omega, by rw [htake b hb]; exact hb'⟩⟩

/-- `TokenStream::expand_span`: extending a token's span to the end of a later (or the same) token
    gives a span of the same kind -/
theorem expand_span_valid (src : List Char) (a b c d : Nat) (hab : a ≤ b) (_hcd : c ≤ d) (hd : d ≤ src.length)
    (hb : b ≤ src.length) (hoff : (spanAt src a b).startOffset ≤ (spanAt src c d).endOffset) :
    expandSpan (spanAt src a b) (spanAt src c d) = spanAt src a d ∧ a ≤ d := by
  refine ⟨rfl, ?_⟩
  rcases Nat.le_total a d with h | h
  · exact h
  · have h1 := utf8Len_take_mono src h
    simp only [spanAt, locAt] at hoff
    have := take_eq_of_utf8Len_eq src a d (by omega) hd (by omega)
    omega

/-! ## 3. inserting `N` lines of text above shifts every line by exactly `N` and nothing else -/

/-- Let `P` be whole lines of text (empty or ending in a newline) put in front of `src`.  Any
    script, run on `P ++ src` after skipping `P`, yields exactly the spans it yields on `src`, with
    both lines `+ N` (`N` = number of lines in `P`), both offsets `+` the byte length of `P`, and
    unchanged columns — and it panics on one iff on the other — as long as the line counter does
    not saturate (`1 + N + newlines of src ≤ 65535`). -/
theorem shift_lines (P src : List Char) (ops : List Op) (m0 m0' : Loc)
    (hP : P = [] ∨ ∃ a, P = a ++ ['\n'])
    (hl : 1 + P.count '\n' + src.count '\n' ≤ 65535)
    (hb : utf8Len P + utf8Len src < 4294967296) :
    run (Tok.new (P ++ src)) m0' (.adv (utf8Len P) :: .mark :: ops) =
      mapChk (List.map (shiftSpan (P.count '\n') (utf8Len P))) (run (Tok.new src) m0 (.mark :: ops)) := by
  have hadv : (Tok.new (P ++ src)).advance (utf8Len P) = .ok ⟨src, 1 + P.count '\n', 0, utf8Len P⟩ := by
    unfold Tok.advance
    simp only [Tok.new]
    rw [advanceGo_prefix P src (1, 0)]
    simp only [Nat.zero_add]
    rw [usize_ok _ (by omega)]
    have hpos : P.foldl stepChar (1, 0) = (1 + P.count '\n', 0) := by
      have := posOf_eq P
      unfold posOf at this
      rw [this]
      have h0 : lastSeg P = 0 := by
        rcases hP with rfl | ⟨a, rfl⟩
        · rfl
        · have := lastSeg_append_nl a [] (by simp); simpa using this
      rw [h0]; congr 1; omega
    rw [hpos]
  have hsim : Sim (P.count '\n') (utf8Len P) (Tok.new src) ⟨src, 1 + P.count '\n', 0, utf8Len P⟩ :=
    ⟨rfl, by simp [Tok.new] <;> omega, rfl, by simp [Tok.new], by simp [Tok.new] <;> omega,
      by simp [Tok.new] <;> omega⟩
  simp only [run, hadv]
  rw [hsim.loc]
  exact run_sim _ _ ops _ _ _ hsim

/-- the special case of `N` empty lines -/
theorem shift_newlines (N : Nat) (src : List Char) (ops : List Op) (m0 m0' : Loc)
    (hl : 1 + N + src.count '\n' ≤ 65535) (hb : N + utf8Len src < 4294967296) :
    run (Tok.new (List.replicate N '\n' ++ src)) m0' (.adv N :: .mark :: ops) =
      mapChk (List.map (shiftSpan N N)) (run (Tok.new src) m0 (.mark :: ops)) := by
  have hc : (List.replicate N '\n').count '\n' = N := by simp
  have hu := utf8Len_replicate_nl N
  have := shift_lines (List.replicate N '\n') src ops m0 m0'
    (by cases N with
        | zero => left; rfl
        | succ n => right; exact ⟨List.replicate n '\n', by rw [List.replicate_succ']⟩)
    (by rw [hc]; exact hl) (by rw [hu]; exact hb)
  rw [hc, hu] at this
  exact this

example : run (Tok.new "x\ny\n{{ ?".toList) ⟨1, 0, 0⟩ [.adv 4, .mark, .adv 2, .emit, .adv 1, .err] =
    mapChk (List.map (shiftSpan 2 4)) (run (Tok.new "{{ ?".toList) ⟨1, 0, 0⟩ [.mark, .adv 2, .emit, .adv 1, .err]) := by
  decide

/-- Horizontal shift: text `H` without a newline inserted at a position `A` of the source.  The line
    of every later position is unchanged; a position on the same line (no newline between the
    insertion point and it) moves right by the number of characters of `H` (before the `u16`
    saturation), a position on a later line keeps its column; byte offsets grow by the length of `H`. -/
theorem shift_cols (A H B : List Char) (hH : '\n' ∉ H) :
    lineOf (A ++ H ++ B) = lineOf (A ++ B) ∧
    ('\n' ∈ B → colOf (A ++ H ++ B) = colOf (A ++ B)) ∧
    ('\n' ∉ B → colOf (A ++ H ++ B) = min (lastSeg (A ++ B) + H.length) 65535) ∧
    utf8Len (A ++ H ++ B) = utf8Len (A ++ B) + utf8Len H := by
  have hc : H.count '\n' = 0 := List.count_eq_zero.mpr hH
  refine ⟨?_, ?_, ?_, ?_⟩
  · simp [lineOf, List.count_append, hc]
  · intro hB
    simp [colOf, lastSeg_append, hB]
  · intro hB
    have h1 : lastSeg (A ++ H ++ B) = lastSeg A + H.length + B.length := by
      rw [lastSeg_append (A ++ H) B, if_neg hB, lastSeg_append A H, if_neg hH]
    have h2 : lastSeg (A ++ B) = lastSeg A + B.length := by
      rw [lastSeg_append A B, if_neg hB]
    rw [colOf, h1, h2]; congr 1; omega
  · simp [utf8Len_append]; omega

example : colOf ("a\nä€𝄞{{ x".toList) = 7 ∧ colOf ("a\n{{ x".toList) = 4 ∧ lineOf ("a\nä€𝄞{{ x".toList) = 2 := by decide

/-! ## 4. the instruction side tables return the recorded location -/

/-- `first_instruction` is strictly increasing in both tables (what `binary_search_by_key` needs) -/
theorem tables_sorted (ops : List Add) (hlen : ops.length < 4294967296) :
    ((addAll ops).lineInfos.map LineInfo.first).Pairwise (· < ·) ∧
    ((addAll ops).spanInfos.map SpanInfo.first).Pairwise (· < ·) :=
  ⟨(inv_addAll ops hlen).lsorted.1, (inv_addAll ops hlen).ssorted.1⟩

/-- For every sequence of `add` / `add_with_line` / `add_with_span` and every index (also beyond
    the end): `get_line` returns the line recorded by the most recent located add at or before that
    instruction, never panics. -/
theorem line_table_lookup (ops : List Add) (hlen : ops.length < 4294967296) (i : Nat) :
    (addAll ops).getLine i = .ok (lineSpec ops i) := (inv_addAll ops hlen).lget i

/-- … and `get_span` the span recorded by it (`add_with_line` and `Span::default()` record "none") -/
theorem span_table_lookup (ops : List Add) (hlen : ops.length < 4294967296) (i : Nat) :
    (addAll ops).getSpan i = .ok (spanSpec ops i) := (inv_addAll ops hlen).sget i

/-- in particular an instruction added with a line / a span reports exactly that -/
theorem lookup_at_located (ops : List Add) (hlen : ops.length < 4294967296) (i : Nat) :
    (∀ l, ops[i]? = some (.withLine l) →
      (addAll ops).getLine i = .ok (some l) ∧ (addAll ops).getSpan i = .ok none) ∧
    (∀ sp, ops[i]? = some (.withSpan sp) →
      (addAll ops).getLine i = .ok (some sp.startLine) ∧ (addAll ops).getSpan i = .ok sp.nonDefault) := by
  have htake : ∀ op, ops[i]? = some op → ops.take (i + 1) = ops.take i ++ [op] := by
    intro op h
    rw [List.take_add_one, h]; rfl
  constructor
  · intro l h
    rw [line_table_lookup ops hlen, span_table_lookup ops hlen]
    simp [lineSpec, spanSpec, htake _ h, lastLine_snoc, lastSpan_snoc, lineStep, spanStep]
  · intro sp h
    rw [line_table_lookup ops hlen, span_table_lookup ops hlen]
    simp [lineSpec, spanSpec, htake _ h, lastLine_snoc, lastSpan_snoc, lineStep, spanStep]

example : (addAll [.plain, .withLine 3, .plain, .withSpan ⟨4, 2, 30, 4, 9, 37⟩, .plain, .withLine 4]).getLine 4 = .ok (some 4)
    ∧ (addAll [.plain, .withLine 3, .plain, .withSpan ⟨4, 2, 30, 4, 9, 37⟩, .plain, .withLine 4]).getSpan 4
        = .ok (some ⟨4, 2, 30, 4, 9, 37⟩)
    ∧ (addAll [.plain, .withLine 3, .plain, .withSpan ⟨4, 2, 30, 4, 9, 37⟩, .plain, .withLine 4]).getSpan 5 = .ok none
    ∧ (addAll [.plain, .withLine 3, .plain, .withSpan ⟨4, 2, 30, 4, 9, 37⟩, .plain, .withLine 4]).getLine 0 = .ok none := by
  decide

/-- `process_err` attaches the recorded span if there is one, else the recorded line -/
theorem process_err_attaches (ops : List Add) (hlen : ops.length < 4294967296) (pc : Nat) :
    processErr (addAll ops) pc =
      .ok (match spanSpec ops pc with
           | some sp => .span sp
           | none => match lineSpec ops pc with
             | some l => .line l
             | none => .nothing) := by
  unfold processErr
  rw [span_table_lookup ops hlen, line_table_lookup ops hlen]
  cases spanSpec ops pc <;> cases lineSpec ops pc <;> rfl

/-! ## 5. `render_debug_info` -/

/-- The window of source lines never panics (`idx + 1`, `saturating_sub`), the caret line is total
    by construction (`saturating_sub`), for any span and any line number. -/
theorem debug_render_total {α : Type} (lines : List α) (line : Option Nat) (sp : Span)
    (h : line.getD 1 < 18446744073709551616) :
    (∃ r, window lines line = .ok r) ∧ (caret sp = none ∨ ∃ c w, caret sp = some (c, w)) := by
  refine ⟨window_total lines line h, ?_⟩
  cases hc : caret sp with
  | none => left; rfl
  | some cw => right; exact ⟨cw.1, cw.2, rfl⟩

/-- For a line inside the source the window is that line, the (up to) three lines before and the
    (up to) three lines after it, each printed with its own number. -/
theorem debug_window (α : Type) (lines : List α) (line : Nat) (h1 : 1 ≤ line) (h2 : line ≤ lines.length)
    (hsz : lines.length < 18446744073709551616) :
    ∃ pre cur post, window lines (some line) = .ok (pre, some (line - 1, cur), post) ∧
      lines[line - 1]? = some cur ∧
      pre.map Prod.fst = List.range' (line - 1 - min 3 (line - 1)) (min 3 (line - 1)) ∧
      post.map Prod.fst = List.range' line (min 3 (lines.length - line)) ∧
      ∀ p ∈ pre ++ post, lines[p.1]? = some p.2 := window_spec lines line h1 h2 hsz

example : window ["a", "b", "c", "d", "e", "f", "g", "h"] (some 5) =
    .ok ([(1, "b"), (2, "c"), (3, "d")], some (4, "e"), [(5, "f"), (6, "g"), (7, "h")]) := by decide

/-- For token spans on one unsaturated line the caret is exact: it starts at the start column and
    is `end_col - start_col` wide with `start_col ≤ end_col` (the `saturating_sub` never clamps). -/
theorem caret_exact (src : List Char) (a b : Nat) (hab : a ≤ b) (hb : b ≤ src.length)
    (hline : (spanAt src a b).startLine = (spanAt src a b).endLine) (hsat : (spanAt src a b).endLine < 65535) :
    (spanAt src a b).startCol ≤ (spanAt src a b).endCol ∧
    caret (spanAt src a b) = some ((spanAt src a b).startCol, (spanAt src a b).endCol - (spanAt src a b).startCol) := by
  refine ⟨cols_ordered src a b hab hb hline hsat, ?_⟩
  unfold caret
  rw [if_pos hline]

/-- the caret of a lexer syntax error is one column wide (none when the column is saturated) -/
theorem caret_error (src : List Char) (a : Nat) :
    caret (errSpanAt src a) = some ((locAt src a).col, if (locAt src a).col < 65535 then 1 else 0) := by
  unfold caret errSpanAt
  simp only [if_true]
  congr 2
  unfold satInc
  split <;> omega

/-! ## 6. the code generator: which line / span an instruction gets -/

/-- `pop_span` only pops: the current line is the one set by the last `set_line` / `push_span` of
    the script, whatever was pushed and popped in between -/
theorem cg_line_after (ops : List CgOp) (c : Cg) : (cgRun ops c).currentLine = lineAfter ops c.currentLine :=
  (cgRun_fields ops c).1

/-- a properly nested script leaves the span stack as it found it -/
theorem cg_balanced_keeps_stack (ops : List CgOp) (h : Balanced ops) (c : Cg) :
    (cgRun ops c).spanStack = c.spanStack := cgRun_stack_balanced ops h c

/-- A statement that (after any prefix `pre` of the compilation) runs a properly nested script
    `bal` — e.g. `set_line(tag)`, then the compilation of its argument expression with all its
    `push_span`/`pop_span` pairs — and then emits an instruction with `add`: that instruction
    reports the line set by the last `set_line`/`push_span` of `bal` (of `pre` if `bal` sets none),
    and the span that was innermost *before* the statement if that span starts on that very line,
    otherwise no span.  Spans pushed and popped inside `bal` do not leak into it. -/
theorem add_uses_statement_line (pre bal : List CgOp) (hb : Balanced bal)
    (hlen : (pre ++ bal).length + 1 < 4294967296) :
    ((cgRun (pre ++ bal ++ [.add]) Cg.new).instrs.getLine (cgRun (pre ++ bal) Cg.new).instrs.len =
      .ok (some (lineAfter bal (cgRun pre Cg.new).currentLine))) ∧
    ((cgRun (pre ++ bal ++ [.add]) Cg.new).instrs.getSpan (cgRun (pre ++ bal) Cg.new).instrs.len =
      .ok (match (cgRun pre Cg.new).spanStack with
           | sp :: _ => if sp.startLine = lineAfter bal (cgRun pre Cg.new).currentLine then sp.nonDefault else none
           | [] => none)) := by
  have hstack : (cgRun (pre ++ bal) Cg.new).spanStack = (cgRun pre Cg.new).spanStack := by
    rw [cgRun_append]; exact cgRun_stack_balanced bal hb _
  have hline : (cgRun (pre ++ bal) Cg.new).currentLine = lineAfter bal (cgRun pre Cg.new).currentLine := by
    rw [cgRun_append]; exact (cgRun_fields bal _).1
  generalize hL : lineAfter bal (cgRun pre Cg.new).currentLine = L at *
  generalize hA : cgAdds 0 [] (pre ++ bal) = A
  have hAlen : A.length ≤ (pre ++ bal).length := by rw [← hA]; exact cgAdds_length_le _ _ _
  have hinstr : (cgRun (pre ++ bal) Cg.new).instrs = addAll A := by rw [cgRun_new_instrs, hA]
  have hfinal : (cgRun (pre ++ bal ++ [.add]) Cg.new).instrs =
      addAll (A ++ [addOf L (cgRun pre Cg.new).spanStack]) := by
    rw [cgRun_append]
    show ((cgRun (pre ++ bal) Cg.new).step .add).instrs = _
    simp only [Cg.step, Cg.add_eq, hinstr, hstack, hline]
    simp [addAll, List.foldl_append]
  have hpc : (cgRun (pre ++ bal) Cg.new).instrs.len = A.length := by
    rw [hinstr]; exact (inv_addAll A (by omega)).len
  rw [hfinal, hpc]
  generalize (cgRun pre Cg.new).spanStack = S
  have hl2 : ∀ a : Add, (A ++ [a]).length < 4294967296 := by intro a; simp; omega
  have hget : ∀ a : Add, (A ++ [a])[A.length]? = some a := by intro a; simp
  cases S with
  | nil =>
    simp only [addOf]
    exact (lookup_at_located _ (hl2 _) A.length).1 L (hget _)
  | cons sp st =>
    simp only [addOf]
    by_cases hsp : sp.startLine = L
    · rw [if_pos hsp, if_pos hsp]
      have := (lookup_at_located _ (hl2 _) A.length).2 sp (hget _)
      rw [hsp] at this
      exact this
    · rw [if_neg hsp, if_neg hsp]
      exact (lookup_at_located _ (hl2 _) A.length).1 L (hget _)

/-- `{% call m() %}` on line 1 (span still pushed), then on line 3 `{% autoescape cfg.mode %}`:
    `set_line(3)`, `cfg.mode` with its push/pop, `add(PushAutoEscape)` — the instruction is on line 3
    and does not inherit the span of `m()` -/
example : ((cgRun [.pushSpan ⟨1, 8, 8, 1, 11, 11⟩, .setLine 3, .setLine 3, .pushSpan ⟨3, 14, 40, 3, 22, 48⟩,
      .setLine 3, .add, .add, .popSpan, .add] Cg.new).instrs.getLine 2 = .ok (some 3)) ∧
    ((cgRun [.pushSpan ⟨1, 8, 8, 1, 11, 11⟩, .setLine 3, .setLine 3, .pushSpan ⟨3, 14, 40, 3, 22, 48⟩,
      .setLine 3, .add, .add, .popSpan, .add] Cg.new).instrs.getSpan 2 = .ok none) := by decide

/-! ## 7. source ties (tables regenerated from /repo on every run) -/

/-- Every fallible expression inside the instruction arms of `eval_impl` (table `c14VmRows`, extracted
    from `vm/mod.rs`) leaves the interpreter loop through `ctx_ok!` / `bail!` / a helper macro that
    ends in `bail!` — i.e. through `process_err`, which attaches name, line and span — except the
    rows listed in `allowedUnlocated` (the write of raw template data).  A plain `ok!`, `?` or
    `return Err` added to an arm makes this theorem fail. -/
theorem source_tie_vm_rows :
    MJ.Gen.c14VmRows.all rowLocated = true ∧ macroRowsPresent = true :=
  ⟨vm_rows_located, vm_macros_present⟩

/-- the `u16` / `u32` widths the model hard-codes are those of `Tokenizer`, `Span`, `LineInfo` -/
theorem source_tie_widths :
    (∀ x, satInc x = if x < 2 ^ MJ.Gen.c14Bits_line - 1 then x + 1 else 2 ^ MJ.Gen.c14Bits_line - 1) ∧
    (∀ x, asU32 x = x % 2 ^ MJ.Gen.c14Bits_span_offset) ∧
    MJ.Gen.c14Bits_col = MJ.Gen.c14Bits_line ∧ MJ.Gen.c14Bits_span_line = MJ.Gen.c14Bits_line ∧
    MJ.Gen.c14Bits_span_col = MJ.Gen.c14Bits_line ∧ MJ.Gen.c14Bits_table_line = MJ.Gen.c14Bits_line ∧
    MJ.Gen.c14Bits_first_instruction = MJ.Gen.c14Bits_span_offset :=
  ⟨satInc_width, asU32_width, by decide, by decide, by decide, by decide, by decide⟩

example : satInc 7 = 8 ∧ satInc 65535 = 65535 ∧ asU32 4294967301 = 5 := by decide

example : rowLocated ("CompareAndPreserve", "In|NotIn", "ctx_ok", "ops::contains") = true ∧
    rowLocated ("CompareAndPreserve", "In|NotIn", "ok", "ops::contains") = false := by decide


/-! ## 8. the parser: which token starts and which ends the span of a node -/

open MJ.LocParse in
/-- A parse function that remembers `current_span()` when it is entered (or the span of the first
    token it consumes), consumes `k ≥ 1` tokens and builds the node with `expand_span`: the span runs
    from the start of the first to the end of the last token of the construct. -/
theorem span_covers_construct (s : TS) (k : Nat) (hinv : Inv s) (hk : 1 ≤ k) (hlen : s.pos + k ≤ s.toks.length) :
    ∃ a b, s.toks[s.pos]? = some a ∧ s.toks[s.pos + k - 1]? = some b ∧ built .current s k = cover a b := by
  have hlt : s.pos < s.toks.length := by omega
  have hq : s.toks[s.pos]? = some s.toks[s.pos] := List.getElem?_eq_getElem hlt
  obtain ⟨_, _, h3⟩ := nextN_spec k s hlen
  refine ⟨s.toks[s.pos], (nextN k s).last, hq, h3 hk, ?_⟩
  simp [built, capture, TS.currentSpan, hq, TS.expand, expandSpan, cover]

open MJ.LocParse in
/-- … one that remembers `last_span()` instead (`parse_compare`, `parse_ifexpr`): the span starts at the
    token in FRONT of the construct, or is `Span::default()` (line 0) if there is none. -/
theorem span_from_last_span (s : TS) (k : Nat) (hinv : Inv s) (hk : 1 ≤ k) (hlen : s.pos + k ≤ s.toks.length) :
    ∃ b, s.toks[s.pos + k - 1]? = some b ∧
      (s.pos = 0 → built .last s k = cover Span.default b) ∧
      (∀ j, s.pos = j + 1 → ∃ p, s.toks[j]? = some p ∧ built .last s k = cover p b) := by
  obtain ⟨_, _, h3⟩ := nextN_spec k s hlen
  refine ⟨(nextN k s).last, h3 hk, ?_, ?_⟩
  · intro h0
    simp [built, capture, hinv.2.1 h0, TS.expand, expandSpan, cover]
  · intro j hj
    exact ⟨s.last, hinv.2.2 j hj, by simp [built, capture, TS.expand, expandSpan, cover]⟩

/-- the full invariant: whatever a parse function remembers, the span covers exactly its construct -/
def SpanCoversConstruct_full : Prop :=
  ∀ (c : MJ.LocParse.Cap) (s : MJ.LocParse.TS) (k : Nat), MJ.LocParse.Inv s → 1 ≤ k → s.pos + k ≤ s.toks.length →
    ∃ a b, s.toks[s.pos]? = some a ∧ s.toks[s.pos + k - 1]? = some b ∧ MJ.LocParse.built c s k = MJ.LocParse.cover a b

open MJ.LocParse in
/-- … is false: `{{ 1 in 2 }}` — `parse_compare` is entered after `{{`, consumes `1 in 2` and builds
    a `BinOp` whose span starts at `{{` -/
theorem span_covers_construct_counterexample : ¬ SpanCoversConstruct_full := by
  intro h
  have hinv : Inv (TS.new [⟨1, 0, 0, 1, 2, 2⟩, ⟨1, 3, 3, 1, 4, 4⟩, ⟨1, 5, 5, 1, 7, 7⟩, ⟨1, 8, 8, 1, 9, 9⟩]).next :=
    (Inv.new _).next
  obtain ⟨a, b, ha, hb, hc⟩ := h .last _ 3 hinv (by decide) (by decide)
  revert ha hb hc
  simp [TS.new, TS.next, built, capture, nextN, TS.expand, expandSpan, cover]
  intro ha hb
  subst ha; subst hb
  decide

open MJ.LocParse in
/-- it holds for every site that does not use `last_span()` … -/
theorem span_covers_construct_partial (c : Cap) (hc : c ≠ .last) (s : TS) (k : Nat) (hinv : Inv s) (hk : 1 ≤ k)
    (hlen : s.pos + k ≤ s.toks.length) :
    ∃ a b, s.toks[s.pos]? = some a ∧ s.toks[s.pos + k - 1]? = some b ∧ built c s k = cover a b := by
  cases c with
  | current => exact span_covers_construct s k hinv hk hlen
  | last => exact absurd rfl hc

open MJ.LocParse in
/-- … and those sites of parser.rs are (table `c14ParserSpans`, one row per `Spanned::new`): every site
    starts its span at `current_span()` on entry, at a token it has consumed or at a span handed in by
    such a site — except exactly the listed ones, which use `last_span()`: the root `Template` (no token
    in front: `Span::default()`), the caller macro of a call block (the token in front is the `call`
    keyword, which belongs to the construct) and `parse_compare` / `parse_ifexpr` (KNOWN finding:
    `BinOp` of a comparison, `UnaryOp` of `not in`, `Compare`, `IfExpr` start at the previous token). -/
theorem source_tie_parser_spans :
    ((MJ.Gen.c14ParserSpans.filter (fun r => !coveringStart r.2.2.1)).map (fun r => (r.1, r.2.1)) = lastSpanSites) ∧
    (MJ.Gen.c14ParserSpans.all (fun r => coveringStart r.2.2.1 || r.2.2.1 == "last_span") = true) := by
  decide

open MJ.LocParse in
/-- the start a row of the regenerated parser table stands for -/
def capOfRow (r : String × String × String × String) : Cap := if coveringStart r.2.2.1 then .current else .last

open MJ.LocParse in
/-- **Every node's span covers its tokens** — stated over the table regenerated from parser.rs: for every
    `Spanned::new` site (row) that is not one of the listed `last_span()` sites, whatever the token stream and
    however many tokens (≥ 1) the parse function consumes, the span it builds runs from the start of the
    first to the end of the last token of its construct.  A new site that takes its start from `last_span()`
    (or from anything the extractor does not know) is not in `lastSpanSites`, so this theorem stops building. -/
theorem every_node_span_covers_its_tokens :
    ∀ r ∈ MJ.Gen.c14ParserSpans, (r.1, r.2.1) ∉ lastSpanSites →
      ∀ (s : TS) (k : Nat), Inv s → 1 ≤ k → s.pos + k ≤ s.toks.length →
        ∃ a b, s.toks[s.pos]? = some a ∧ s.toks[s.pos + k - 1]? = some b ∧ built (capOfRow r) s k = cover a b := by
  intro r hr hnot s k hinv hk hlen
  have hcov : coveringStart r.2.2.1 = true := by
    cases h : coveringStart r.2.2.1 with
    | true => rfl
    | false =>
      exfalso
      apply hnot
      rw [← source_tie_parser_spans.1]
      exact List.mem_map.mpr ⟨r, List.mem_filter.mpr ⟨hr, by simp [h]⟩, rfl⟩
  have hc : capOfRow r = .current := by simp [capOfRow, hcov]
  rw [hc]
  exact span_covers_construct s k hinv hk hlen

example : MJ.LocParse.built .current (MJ.LocParse.TS.new [⟨1, 0, 0, 1, 2, 2⟩, ⟨1, 3, 3, 1, 4, 4⟩, ⟨2, 0, 6, 2, 2, 8⟩]).next 2 =
    ⟨1, 3, 3, 2, 2, 8⟩ := by decide

/-! ## 9. the code generator on whole programs: every instruction's line lies in its construct -/

open MJ.LocAst in
/-- `CodeGenerator::add` records the current line whichever branch it takes (the innermost span only if
    it starts on that very line): the rule `stepL` uses for `add` -/
theorem cg_add_records_current_line (c : Cg) :
    (∃ sp, c.add.instrs = (c.instrs.addWithSpan sp).1 ∧ sp.startLine = c.currentLine) ∨
    c.add.instrs = (c.instrs.addWithLine c.currentLine).1 := by
  unfold Cg.add
  cases hst : c.spanStack with
  | nil => exact Or.inr rfl
  | cons sp tl =>
    by_cases h : sp.startLine = c.currentLine
    · exact Or.inl ⟨sp, by simp [h], h⟩
    · exact Or.inr (by simp [h])

open MJ.LocAst in
/-- For every well-formed tree (`wf`: the line range of a construct contains those of its parts and —
    unless the node is a comparison / conditional expression that is not folded to a constant — the
    start line of its span; checked on every dumped AST of the real parser): every instruction that
    `compile_stmt` emits, in whatever context, is recorded with a line that lies within the first and
    the last line of the construct whose compile arm emitted it.  So an error raised by an instruction
    reports a line inside the failing construct. -/
theorem instr_line_in_construct (ctx : List Pend) (n : Node) (hw : wf n = true) (s : LS)
    (hs : n.lo ≤ s.cur ∧ s.cur ≤ n.hi) :
    ∀ e ∈ (execL s (cStmt ctx n)).2, ∃ l, e.line = some l ∧ e.lo ≤ l ∧ l ≤ e.hi := by
  intro e he
  have h := stmt_lines_ok ctx n hw s hs e he
  unfold Em.ok at h
  split at h
  · rename_i l hl
    simp only [Bool.and_eq_true, decide_eq_true_eq] at h
    exact ⟨l, hl, h.1, h.2⟩
  · cases h

open MJ.LocAst in
/-- the same for a standalone expression (`Environment::compile_expression`): no assumption on the state -/
theorem instr_line_in_construct_expr (ctx : List Pend) (n : Node) (hw : wf n = true) (he : isE n = true) (s : LS) :
    ∀ e ∈ (execL s (cExpr ctx n)).2, ∃ l, e.line = some l ∧ e.lo ≤ l ∧ l ≤ e.hi := by
  intro e hm
  have h := expr_lines_ok ctx n hw he s e hm
  unfold Em.ok at h
  split at h
  · rename_i l hl
    simp only [Bool.and_eq_true, decide_eq_true_eq] at h
    exact ⟨l, hl, h.1, h.2⟩
  · cases h

/-- `{{ foo(⏎ 1 == 1 and x) }}` as dumped from the real parser (line ranges from the token stream) -/
def witnessFolded (folded : Bool) : MJ.LocAst.Node :=
  .mk .template ⟨0, 0, 0, 2, 17, 25⟩ false "" 0 0 2
    [.mk .emitexpr ⟨1, 0, 0, 2, 14, 22⟩ false "" 0 1 2
      [.mk .call ⟨1, 3, 3, 2, 14, 22⟩ false "" 0 1 2
        [.mk .var ⟨1, 3, 3, 1, 6, 6⟩ false "foo" 0 1 1 [],
         .mk .apos Span.default false "" 0 1 2
          [.mk .bin ⟨2, 1, 9, 2, 13, 21⟩ false "ScAnd" 0 2 2
            [.mk .bin ⟨1, 6, 6, 2, 7, 15⟩ folded "Eq" 0 2 2
              [.mk .const ⟨2, 1, 9, 2, 2, 10⟩ true "" 0 2 2 [], .mk .const ⟨2, 6, 14, 2, 7, 15⟩ true "" 0 2 2 []],
             .mk .var ⟨2, 12, 20, 2, 13, 21⟩ false "x" 0 2 2 []]]]]]

/-- the statement over what the parser guarantees by itself (`wfP`) -/
def InstrLineInConstruct_full : Prop :=
  ∀ (ctx : List MJ.LocAst.Pend) (n : MJ.LocAst.Node), MJ.LocAst.wfP n = true → ∀ s : MJ.LocAst.LS, n.lo ≤ s.cur ∧ s.cur ≤ n.hi →
    ∀ e ∈ (MJ.LocAst.execL s (MJ.LocAst.cStmt ctx n)).2, ∃ l, e.line = some l ∧ e.lo ≤ l ∧ l ≤ e.hi

open MJ.LocAst in
/-- … is false: the comparison `1 == 1` is folded to a constant and its `LoadConst` is recorded on the
    start line of its span — line 1, the line of the `(` in front of it, outside the construct
    (line 2); the location-less jump of `and` inherits that line.  (Neither can fail.) -/
theorem instr_line_in_construct_counterexample : ¬ InstrLineInConstruct_full := by
  intro h
  have hw : wfP (witnessFolded true) = true := by decide
  have hm : (⟨"LoadConst", some 1, 2, 2⟩ : Em) ∈ (execL LS.init (cStmt [] (witnessFolded true))).2 := by decide
  obtain ⟨l, hl, h1, _⟩ := h [] (witnessFolded true) hw LS.init (by decide) _ hm
  cases hl
  exact absurd h1 (by decide)

open MJ.LocAst in
/-- the hypothesis of `instr_line_in_construct` is satisfiable, and says what it should on the same
    template without folding (`{{ foo(⏎ a == 1 and x) }}`-shaped): lines 2, 2, 2, 2 (plain jump), 2, 2, 2 -/
example : wf (witnessFolded false) = true ∧ wf (witnessFolded true) = false := by decide

open MJ.LocAst in
example : ((execL LS.init (cStmt [] (witnessFolded false))).2.map (fun e => e.line)) =
      [some 2, some 2, some 2, some 2, some 2, some 2, some 2] ∧
    ((execL LS.init (cStmt [] (witnessFolded true))).2.map (fun e => e.line)) = [some 1, some 1, some 2, some 2, some 2] := by
  decide

/-- the call sites of codegen.rs that decide a location (table `c14CodegenArms`, regenerated: function,
    call, instructions / argument, in source order) are the ones the model `MJ/Model/LocAst.lean` was
    written from and validated against -/
theorem source_tie_codegen_arms : MJ.Gen.c14CodegenArms = MJ.LocAst.expectedArms := rfl

/-- **Every span the code generator records is the span of an AST node** — decided on the table regenerated
    from codegen.rs (one row per `push_span` / `set_line_from_span` / `add_with_span` call): the argument is
    `<node>.span()` of a node of the arm at hand, the `span` parameter of a helper (`push_span`,
    `add_with_span`, `compile_call_args`, whose callers are rows of this table themselves) or the innermost
    pushed span inside `CodeGenerator::add`.  A call that passes a computed span, `Span::default()` or a span
    of something else makes this theorem fail. -/
theorem instr_span_is_node_span :
    MJ.Gen.c14CodegenSpanArgs.all (fun r => r.2.2.2.2 == "node" || r.2.2.2.2 == "stack" ||
      (r.2.2.2.2 == "param" && (r.1 == "push_span" || r.1 == "add_with_span" || r.1 == "compile_call_args"))) = true ∧
    MJ.Gen.c14CodegenSpanArgs.length ≥ 40 := by
  decide

example : ("compile_stmt", "add_with_span", "Include", "include.span()", "node") ∈ MJ.Gen.c14CodegenSpanArgs := by decide

/-! ## 10. end to end: the line an error reports is a line of the failing construct -/

open MJ.LocAst in
/-- **`execL` is what the real side tables answer** (was: cross-checked by the driver on every program).
    For every script of location calls of one generator — whatever the compile arms emit — and every
    instruction `pc`: `process_err`, i.e. `get_span(pc)` else `get_line(pc)` on the run-length tables built
    by `Instructions::{add, add_with_line, add_with_span}` through `CodeGenerator::{add, add_with_span}`,
    attaches exactly the line the simple semantics `execL` assigns to that instruction (and a span only
    if it starts on that line). -/
theorem tables_answer_execL (evs : List Ev) (hf : evs.all flat = true) (hlen : evs.length < 4294967296)
    (pc : Nat) (e : Em) (he : (execL LS.init evs).2[pc]? = some e) :
    ∃ att, processErr (execG GS.init evs).cur.cg.instrs pc = .ok att ∧ (e.line = none ∨ attachedLine att = e.line) :=
  MJ.LocAst.tables_answer_execL evs hf hlen pc e he

open MJ.LocAst in
/-- the same for the sub-generator that compiles the body of a `{% block %}` (`new_subgenerator`: current
    line and innermost span carried over, no instruction yet), whatever generators are suspended below it:
    the per-generator bookkeeping of block bodies is the proved one too -/
theorem block_body_tables_answer_execL (line : Nat) (stack : List Span) (saved : List (Option Nat))
    (susp : List (Gen × String)) (done : List (String × Gen))
    (evs : List Ev) (hf : evs.all flat = true) (hlen : evs.length < 4294967296)
    (pc : Nat) (e : Em) (he : (execL ⟨line, none, saved⟩ evs).2[pc]? = some e) :
    ∃ att, processErr (execG ⟨⟨⟨line, stack, Instrs.empty⟩, []⟩, susp, done⟩ evs).cur.cg.instrs pc = .ok att ∧
      (e.line = none ∨ attachedLine att = e.line) :=
  MJ.LocAst.tables_answer_execL_from _ _ (rel_sub line stack saved susp done) evs hf hlen pc e he

open MJ.LocAst in
/-- **The reported line is a line of the failing construct.**  Composition of the code generator theorem
    (`instr_line_in_construct`: every compile arm records its instructions on lines of its own construct),
    the side tables (`line_table_lookup` / `span_table_lookup`, binary search included) and the VM's
    `process_err`: for a well-formed AST compiled by one generator, whatever instruction `pc` fails,
    the location `process_err` attaches to the error is a line `l` with `lo ≤ l ≤ hi`, the first and
    last line of the construct whose compile arm emitted that instruction.  (That every failing
    instruction reaches `process_err` is `source_tie_vm_rows`; that `lo..hi` are the lines of the
    construct's own tokens is `span_covers_construct` + the parser table.) -/
theorem error_line_is_construct_line (ctx : List Pend) (n : Node) (hw : wf n = true) (hroot : n.lo = 0)
    (hflat : (cStmt ctx n).all flat = true) (hlen : (cStmt ctx n).length < 4294967296)
    (pc : Nat) (e : Em) (he : (execL LS.init (cStmt ctx n)).2[pc]? = some e) :
    ∃ att l, processErr (execG GS.init (cStmt ctx n)).cur.cg.instrs pc = .ok att ∧
      attachedLine att = some l ∧ e.lo ≤ l ∧ l ≤ e.hi := by
  obtain ⟨att, hatt, hline⟩ := MJ.LocAst.tables_answer_execL (cStmt ctx n) hflat hlen pc e he
  have hmem : e ∈ (execL LS.init (cStmt ctx n)).2 := List.mem_of_getElem? he
  obtain ⟨l, hl, h1, h2⟩ := instr_line_in_construct ctx n hw LS.init (by simp [LS.init, hroot]) e hmem
  rcases hline with hnone | hsome
  · rw [hl] at hnone; cases hnone
  · exact ⟨att, l, hatt, by rw [hsome, hl], h1, h2⟩

open MJ.LocAst in
/-- non-vacuity: `{{ foo(⏎ a == 1 and x) }}` — 7 instructions, all reported on line 2 through the real tables -/
example : wf (witnessFolded false) = true ∧ (witnessFolded false).lo = 0 ∧
    (cStmt [] (witnessFolded false)).all flat = true ∧
    ((List.range 7).map fun pc => (processErr (execG GS.init (cStmt [] (witnessFolded false))).cur.cg.instrs pc)) =
      [.ok (.line 2), .ok (.line 2), .ok (.line 2), .ok (.line 2),
       .ok (.span ⟨2, 1, 9, 2, 13, 21⟩), .ok (.line 2), .ok (.line 2)] := by
  decide

/-! ## the full statement -/

/-- Full-strength statement about the model (sources shorter than 2^32 bytes, instruction lists
    shorter than 2^32, at most 65535 lines where shifting is concerned). -/
def C14_full : Prop :=
  -- positions
  (∀ (src : List Char) (ns : List Nat) (t : Tok), advanceAll (Tok.new src) ns = .ok t →
    ∃ k, k ≤ src.length ∧ t.rest = src.drop k ∧ utf8Len (src.take k) = ns.sum ∧
      t.line = lineOf (src.take k) ∧ t.col = colOf (src.take k) ∧ t.offset = utf8Len (src.take k)) ∧
  -- ranges are valid slices of the reported source
  (∀ (keep : Bool) (src : List Char), utf8Len src < 4294967296 → ∀ (ops : List Op) (m0 : Loc) (spans : List Span),
    run (Tok.new (tokSource keep src)) m0 (.mark :: ops) = .ok spans → ∀ s ∈ spans, ValidRange src s) ∧
  -- N lines above shift the line by exactly N and change nothing else
  (∀ (P src : List Char) (ops : List Op) (m0 m0' : Loc), (P = [] ∨ ∃ a, P = a ++ ['\n']) →
    1 + P.count '\n' + src.count '\n' ≤ 65535 → utf8Len P + utf8Len src < 4294967296 →
    run (Tok.new (P ++ src)) m0' (.adv (utf8Len P) :: .mark :: ops) =
      mapChk (List.map (shiftSpan (P.count '\n') (utf8Len P))) (run (Tok.new src) m0 (.mark :: ops))) ∧
  -- the side tables return the recorded locations, process_err attaches them
  (∀ (ops : List Add), ops.length < 4294967296 → ∀ i,
    (addAll ops).getLine i = .ok (lineSpec ops i) ∧ (addAll ops).getSpan i = .ok (spanSpec ops i)) ∧
  -- rendering never panics
  (∀ (lines : List (List Char)) (line : Option Nat) (sp : Span), line.getD 1 < 18446744073709551616 →
    (∃ r, window lines line = .ok r) ∧ (caret sp = none ∨ ∃ c w, caret sp = some (c, w)))

theorem c14_full : C14_full :=
  ⟨advance_position, span_valid_in_full_source, shift_lines,
   fun ops hlen i => ⟨line_table_lookup ops hlen i, span_table_lookup ops hlen i⟩,
   fun lines line sp h => debug_render_total lines line sp h⟩

/-! ## the property at full strength, and what stands between it and what is proved -/

open MJ.LocAst in
/-- **C14 as stated**, over the model: for every source and every AST the parser yields for it
    (`parsed src ast`), every instruction `pc` of the compiled program that fails reports — through
    `process_err` on the real side tables — a line of the construct whose arm emitted it; every span the
    tokenizer can create on the source is a valid slice of it; `N` lines of text above shift every
    location by exactly `N` lines and nothing else; rendering the report never panics. -/
def C14_statement (parsed : List Char → Node → Prop) : Prop :=
  (∀ src ast, parsed src ast → ∀ (pc : Nat) (e : Em), (execL LS.init (cStmt [] ast)).2[pc]? = some e →
      ∃ att l, processErr (execG GS.init (cStmt [] ast)).cur.cg.instrs pc = .ok att ∧
        attachedLine att = some l ∧ e.lo ≤ l ∧ l ≤ e.hi) ∧
  C14_full

open MJ.LocAst in
/-- **Main theorem.**  `C14_statement` follows from three named facts about the parser's output, each
    either tied to the source by a regenerated table or checked on every AST the real parser produces in
    the correspondence streams (see META, level_note):
    * `h_parser_wf` — the construct line ranges of the AST nest and contain the start lines of the spans
      (VALIDATED on every dumped AST by the model driver, streams cga/cge incl. the grammar-drawn
      templates; what a span covers is proved in `span_covers_construct`, which parser site uses which
      start is decided on the regenerated table in `source_tie_parser_spans`; false only for the known
      finding: comparisons folded to constants, which cannot fail);
    * `h_root` — the root `Template` node starts at `Span::default()` (line 0);
    * `h_one_generator` — no `{% block %}` sub-generator (blocks: VALIDATED by the cga stream, the same
      bookkeeping per generator);
    * `h_size` — fewer than 2^32 instructions (`first_instruction: u32`).
    The remaining tie between model and code: `source_tie_codegen_arms`, `source_tie_vm_rows`,
    `source_tie_widths` (regenerated tables) and the differential streams. -/
theorem C14_main (parsed : List Char → Node → Prop)
    (h_parser_wf : ∀ src ast, parsed src ast → wf ast = true)
    (h_root : ∀ src ast, parsed src ast → ast.lo = 0)
    (h_one_generator : ∀ src ast, parsed src ast → (cStmt [] ast).all flat = true)
    (h_size : ∀ src ast, parsed src ast → (cStmt [] ast).length < 4294967296) :
    C14_statement parsed :=
  ⟨fun src ast hp pc e he =>
    error_line_is_construct_line [] ast (h_parser_wf src ast hp) (h_root src ast hp) (h_one_generator src ast hp)
      (h_size src ast hp) pc e he, c14_full⟩

open MJ.LocAst in
/-- the hypotheses of `C14_main` are satisfiable by a non-trivial parser relation -/
example : C14_statement (fun _ ast => ast = witnessFolded false) :=
  C14_main _ (by intro _ _ h; subst h; decide) (by intro _ _ h; subst h; decide)
    (by intro _ _ h; subst h; decide) (by intro _ _ h; subst h; decide)

end MJ.C14
