import MJ.Proofs.Path
import MJ.Proofs.PathPlat
/-!
# C17 — the file-system loader never reads outside its base directory

Property theorems only (helper lemmas: `MJ/Proofs/Path.lean`, model: `MJ/Model/Path.lean`).

`safeJoin base name` is the transcription of `loader::safe_join`, the only place where
`path_loader` turns a template name into a path; `push` is `PathBuf::push` *with* its
"an absolute argument replaces everything" branch.  Confinement is stated three ways:

* on components (`safe_join_segments`): the result's components are the base's components followed
  by the name's non-empty segments, each of which is a plain name;
* lexically (`normalize_stays_below`): normalising `.`/`..` away cannot leave the base;
* on an abstract directory tree without symbolic links (`walk_stays_below`): whatever the result
  resolves to is the directory the base resolves to, or something beneath it.

Further down: the loader over time (`loader_*`), the ties to the source, and — with the PLATFORM
as a parameter (`MJ/Model/PathPlat.lean`: separator set, drive prefixes; Unix and Windows
instances) — `checked_segments_are_pushed_components`: the arguments of `push` are exactly the
pieces the filter looked at and the result's components (split on every separator of the
platform) are the base's followed by those pieces.  Unix: unconditional.  Windows: for names
without a drive-prefixed segment; `C17_windows_counterexample` shows what a segment `C:x` does.
-/
namespace MJ.C17
open MJ.Path MJ.PathPlat

/-- a segment that can only name an entry of the directory it is looked up in: not empty, not `.`,
    not `..`, not hidden, no separator of either flavour -/
def PlainName (s : Str) : Prop :=
  s ≠ [] ∧ s ≠ ['.'] ∧ s ≠ dotdot ∧ s.head? ≠ some '.' ∧ '/' ∉ s ∧ '\\' ∉ s

/-- the non-empty segments of a template name -/
def nameSegs (name : Str) : List Str := (splitOn '/' name).filter (fun s => s != [])

/-- `p` lies beneath `base` (or is `base`) in every sense modelled here -/
def Confined (base name p : Str) : Prop :=
  isAbs p = isAbs base ∧ base <+: p ∧
  comps p = comps base ++ nameSegs name ∧ (∀ s ∈ nameSegs name, PlainName s) ∧
  normalize (isAbs base) (comps base) <+: normalize (isAbs p) (comps p) ∧
  ∀ (fs : FS) (start e : fs.Node), walk fs start (comps p) = some e →
    ∃ b, walk fs start (comps base) = some b ∧ Below fs b e

/-- Full-strength statement: for every base and every template name, `safe_join` answers `None`
    as soon as one segment is `.`, `..`, hidden or contains a backslash, and every path it does
    answer is confined to the base. -/
def C17_full : Prop :=
  ∀ base name : Str,
    (∀ s ∈ splitOn '/' name, (s = ['.'] ∨ s = dotdot ∨ s.head? = some '.' ∨ '\\' ∈ s) →
      safeJoin base name = none) ∧
    (∀ p, safeJoin base name = some p → Confined base name p)

/-- every segment that reaches `PathBuf::push` is free of `/`, hence never absolute: the branch of
    `push` that throws the base away is dead, and the base stays a literal prefix -/
theorem push_never_replaces (name : Str) (s : Str) (hs : s ∈ splitOn '/' name) (rv : Str) :
    rv <+: push rv s ∧ isAbs (push rv s) = isAbs rv :=
  have h := sep_not_mem_of_mem_splitOn '/' name s hs
  ⟨prefix_push rv s h, isAbs_push rv s h⟩

example : push "/b".toList "/etc".toList = "/etc".toList := by decide   -- what the dead branch would do
example : push "/b".toList "etc".toList = "/b/etc".toList := by decide

/-- the result is the base followed by the name's non-empty segments, all of them plain names -/
theorem safe_join_segments (base name p : Str) (h : safeJoin base name = some p) :
    comps p = comps base ++ nameSegs name ∧ (∀ s ∈ nameSegs name, PlainName s) ∧
    isAbs p = isAbs base ∧ base <+: p := by
  have hsep := fun s hs => sep_not_mem_of_mem_splitOn '/' name s hs
  obtain ⟨h1, h2, h3, h4⟩ := safeJoinLoop_some base p _ hsep h
  refine ⟨h2, ?_, h3, h4⟩
  intro s hs
  simp only [nameSegs, List.mem_filter, bne_iff_ne, ne_eq] at hs
  obtain ⟨hm, hne⟩ := hs
  have hg := h1 s hm
  obtain ⟨g1, g2⟩ := badSeg_false_imp s hg
  exact ⟨hne, not_dot_of_good hg, not_dotdot_of_good hg, g1, hsep s hm, g2⟩

example : safeJoin "/srv/t".toList "a//b.txt".toList = some "/srv/t/a/b.txt".toList := by decide
example : safeJoin "/srv/t".toList "/etc/passwd".toList = some "/srv/t/etc/passwd".toList := by decide
example : comps "/srv/t/a/b.txt".toList = ["srv".toList, "t".toList, "a".toList, "b.txt".toList] := by decide

/-- any `.`, `..`, hidden or backslash segment anywhere in the name makes `safe_join` answer `None` -/
theorem escape_rejected (base name s : Str) (hs : s ∈ splitOn '/' name)
    (hbad : s = ['.'] ∨ s = dotdot ∨ s.head? = some '.' ∨ '\\' ∈ s) : safeJoin base name = none := by
  apply safeJoinLoop_none_of_bad base _ s hs
  rcases hbad with h | h | h | h
  · subst h; exact badSeg_of_head rfl
  · subst h; exact badSeg_of_head rfl
  · exact badSeg_of_head h
  · exact badSeg_of_mem h

example : safeJoin "/srv/t".toList "a/../../etc/passwd".toList = none := by decide
example : safeJoin "/srv/t".toList "a/..".toList = none := by decide
example : safeJoin "/srv/t".toList "..\\x".toList = none := by decide
example : safeJoin "/srv/t".toList "./a".toList = none := by decide

/-- nothing else is rejected: the filter is exactly "some segment is hidden or has a backslash" -/
theorem safe_join_some_iff (base name : Str) :
    (safeJoin base name).isSome = true ↔ ∀ s ∈ splitOn '/' name, badSeg s = false := by
  constructor
  · intro h
    obtain ⟨p, hp⟩ := Option.isSome_iff_exists.1 h
    exact (safeJoinLoop_some base p _ (fun s hs => sep_not_mem_of_mem_splitOn '/' name s hs) hp).1
  · exact safeJoinLoop_isSome_of_good base _

example : (safeJoin "b".toList "a./%2e%2e/a..b".toList).isSome = true := by decide

/-- without a `..` (or `.`/empty) component after the base, lexical normalisation keeps the
    normalised base as a prefix — whatever the base itself looks like (relative, with `..`, with a
    trailing slash) and however many empty segments or trailing slashes the name has -/
theorem normalize_stays_below (base name p : Str) (h : safeJoin base name = some p) :
    normalize (isAbs p) (comps p) = normalize (isAbs base) (comps base) ++ nameSegs name := by
  obtain ⟨h1, h2, h3, _⟩ := safe_join_segments base name p h
  rw [h1, h3, normalize_append]
  exact normalizeFrom_plain _ _ _ (fun s hs => ⟨(h2 s hs).1, (h2 s hs).2.1, (h2 s hs).2.2.1⟩)

example : normalize false (comps "../t/".toList) = ["..".toList, "t".toList] := by decide
example : normalize true (comps "/srv/t/a/../../../etc".toList) = ["etc".toList] := by decide  -- what `..` would do
example : normalize true (comps "/srv/t//a/b/".toList) = ["srv".toList, "t".toList, "a".toList, "b".toList] := by decide

/-- on any directory tree without symbolic links: if the joined path resolves at all, the base
    resolves too and the result is the base's directory or lies beneath it -/
theorem walk_stays_below (base name p : Str) (h : safeJoin base name = some p)
    (fs : FS) (start e : fs.Node) (hw : walk fs start (comps p) = some e) :
    ∃ b, walk fs start (comps base) = some b ∧ Below fs b e := by
  obtain ⟨h1, h2, _, _⟩ := safe_join_segments base name p h
  rw [h1, walk_append] at hw
  cases hb : walk fs start (comps base) with
  | none => simp [hb] at hw
  | some b =>
    refine ⟨b, rfl, ?_⟩
    simp only [hb, Option.bind_some] at hw
    exact walk_plain_below fs b e _ (fun s hs => ⟨(h2 s hs).1, (h2 s hs).2.1, (h2 s hs).2.2.1⟩) hw

/-- the free tree: a node is the list of names from the root -/
@[reducible] def freeFS : FS := { Node := List Str, child := fun d n => some (d ++ [n]), parent := List.dropLast }

example : walk freeFS [] (comps "/srv/t/a/b".toList) = some ["srv".toList, "t".toList, "a".toList, "b".toList] := by decide
example : walk freeFS [] (comps "/srv/t/../../x".toList) = some ["x".toList] := by decide  -- `..` does leave

theorem safe_join_confined : C17_full := by
  intro base name
  refine ⟨fun s hs hbad => escape_rejected base name s hs hbad, fun p h => ?_⟩
  obtain ⟨h1, h2, h3, h4⟩ := safe_join_segments base name p h
  refine ⟨h3, h4, h1, h2, ?_, fun fs start e hw => walk_stays_below base name p h fs start e hw⟩
  rw [normalize_stays_below base name p h]
  exact List.prefix_append _ _

example : Confined "/srv/t".toList "a//b.txt".toList "/srv/t/a/b.txt".toList :=
  (safe_join_confined _ _).2 _ (by decide)
example : safeJoin "../t/".toList "x/..".toList = none :=
  (safe_join_confined _ _).1 dotdot (by decide) (by simp)

/-! ### the loader over time: the base used at load time is the configured base -/

/-- `path_loader(dir)` keeps the configured spelling whatever the file system looks like when it
    is called (directory missing, created later, working directory elsewhere): the state of the
    disk at construction has no influence on the loader -/
theorem loader_base_is_configured (fs0 : Snapshot) (dir : Str) :
    (pathLoader fs0 dir).base = dir ∧ ∀ fs1 : Snapshot, pathLoader fs1 dir = pathLoader fs0 dir :=
  ⟨rfl, fun _ => rfl⟩

/-- a disk on which nothing can be read (say: the base does not exist yet) -/
def emptyDisk : Snapshot := fun _ => .notFound
/-- a disk with exactly one readable file -/
def oneFile (path content : Str) : Snapshot := fun p => if p = path then .content content else .notFound

example : pathLoader emptyDisk "site/t".toList = pathLoader (oneFile "x".toList []) "site/t".toList := rfl

/-- every path a request hands to the file system is confined to the configured base -/
theorem loader_reads_confined (fs0 : Snapshot) (dir name p : Str)
    (h : p ∈ (pathLoader fs0 dir).reads name) : Confined dir name p := by
  unfold Loader.reads pathLoader at h
  cases hj : safeJoin dir name with
  | none => simp [hj] at h
  | some q =>
    simp only [hj, List.mem_singleton] at h
    subst h
    exact (safe_join_confined dir name).2 _ hj

example : (pathLoader emptyDisk "/srv/t".toList).reads "a/b".toList = ["/srv/t/a/b".toList] := by decide
example : (pathLoader emptyDisk "/srv/t".toList).reads "../b".toList = [] := by decide

/-- whatever the file system is at load time and was at construction time: returned content is
    what the load-time file system holds at a path confined to the configured base -/
theorem loader_found_confined (fs0 fs : Snapshot) (dir name s : Str)
    (h : (pathLoader fs0 dir).load fs name = .found s) :
    ∃ p, safeJoin dir name = some p ∧ fs p = .content s ∧ Confined dir name p := by
  obtain ⟨p, hp, hf⟩ := load_found h
  exact ⟨p, hp, hf, (safe_join_confined dir name).2 p hp⟩

example : (pathLoader emptyDisk "b".toList).load (oneFile "b/x".toList "hi".toList) "x".toList
    = .found "hi".toList := by decide
example : (pathLoader emptyDisk "b".toList).load (oneFile "x".toList "canary".toList) "x".toList
    = .missing := by decide   -- a working-directory relative namesake is not served

/-- while nothing readable has the base as literal prefix (the base does not exist, or is empty),
    the only answers are "missing" and "unreadable" -/
theorem loader_absent_base_missing (fs0 fs : Snapshot) (dir name : Str)
    (habs : ∀ p s, dir <+: p → fs p ≠ .content s) (s : Str) :
    (pathLoader fs0 dir).load fs name ≠ .found s := by
  intro h
  obtain ⟨p, hp, hf, hc⟩ := loader_found_confined fs0 fs dir name s h
  exact habs p s hc.2.1 hf

example : ∀ p s, "b".toList <+: p → oneFile "x".toList "canary".toList p ≠ .content s := by
  intro p s hp h
  simp only [oneFile] at h
  split at h
  · rename_i e; subst e; revert hp; decide
  · cases h

/-- the environment's template store in front of the loader, over an arbitrary history of file
    systems (directories created, removed, recreated, the working directory changed between
    construction and loads): every source ever answered for a name, and everything the store
    holds afterwards (`Environment::templates`), is what some snapshot of the history held at the
    path `safe_join(configured base, name)`, which is confined to the configured base -/
theorem loader_history_confined (fs0 : Snapshot) (dir : Str) (h : List (Snapshot × Str)) :
    (∀ n s, (n, LoadResult.found s) ∈ (Env.mk (pathLoader fs0 dir) []).run h →
      ∃ x ∈ h, x.2 = n ∧ ∃ p, safeJoin dir n = some p ∧ x.1 p = .content s ∧ Confined dir n p) ∧
    (∀ n s, (n, s) ∈ ((Env.mk (pathLoader fs0 dir) []).after h).templates →
      ∃ x ∈ h, x.2 = n ∧ ∃ p, safeJoin dir n = some p ∧ x.1 p = .content s ∧ Confined dir n p) := by
  obtain ⟨h1, h2, _⟩ := run_justified dir h (Env.mk (pathLoader fs0 dir) []) [] rfl
    (fun n s hm => by simp at hm)
  simp only [List.nil_append] at h1 h2
  constructor
  · intro n s hm
    obtain ⟨x, hx, e, p, hp, hf⟩ := h1 n s hm
    exact ⟨x, hx, e, p, hp, hf, (safe_join_confined dir n).2 p hp⟩
  · intro n s hm
    obtain ⟨x, hx, e, p, hp, hf⟩ := h2 n s hm
    exact ⟨x, hx, e, p, hp, hf, (safe_join_confined dir n).2 p hp⟩

/-- `clear_templates` forgets what was stored but not where the loader looks: after any history
    and a clear, every further answer comes from the snapshots AFTER the clear, at a path confined
    to the configured base -/
theorem loader_history_confined_after_clear (fs0 : Snapshot) (dir : Str) (h1 h2 : List (Snapshot × Str)) :
    ∀ n s, (n, LoadResult.found s) ∈ (((Env.mk (pathLoader fs0 dir) []).after h1).clear).run h2 →
      ∃ x ∈ h2, x.2 = n ∧ ∃ p, safeJoin dir n = some p ∧ x.1 p = .content s ∧ Confined dir n p := by
  obtain ⟨_, _, hb⟩ := run_justified dir h1 (Env.mk (pathLoader fs0 dir) []) [] rfl
    (fun n s hm => by simp at hm)
  obtain ⟨g1, _, _⟩ := run_justified dir h2 (((Env.mk (pathLoader fs0 dir) []).after h1).clear) []
    (by simpa [Env.clear] using hb) (fun n s hm => by simp [Env.clear] at hm)
  intro n s hm
  obtain ⟨x, hx, e, p, hp, hf⟩ := g1 n s hm
  exact ⟨x, by simpa using hx, e, p, hp, hf, (safe_join_confined dir n).2 p hp⟩

example : (((Env.mk (pathLoader emptyDisk "b".toList) []).after
      [(oneFile "b/x".toList "inside".toList, "x".toList)]).clear).run [(emptyDisk, "x".toList)]
    = [("x".toList, .missing)] := by decide

/-- base missing at construction and at the first request, created before the second, removed
    before the third (answered from the store) -/
example : (Env.mk (pathLoader emptyDisk "b".toList) []).run
      [(oneFile "x".toList "canary".toList, "x".toList),
       (oneFile "b/x".toList "inside".toList, "x".toList),
       (emptyDisk, "x".toList)]
    = [("x".toList, .missing), ("x".toList, .found "inside".toList), ("x".toList, .found "inside".toList)] := by
  decide

/-! ### ties to the source (tables regenerated by `lib/tables/c17.py`) -/

/-- spellings of "an owned copy of the path that was passed in" -/
def verbatimCopies : List String :=
  ["dir.as_ref().to_path_buf()", "dir.as_ref().to_owned()", "PathBuf::from(dir.as_ref())",
   "dir.as_ref().into()"]

/-- `path_loader` in the source has the shape `pathLoader`/`Loader.load` model:
    * it captures the directory it is given verbatim;
    * it joins with `safe_join(&dir, name)` and binds the result to an immutable variable;
    * exactly that variable (or a reference to it) is what the single `fs::read_to_string` gets,
      and the variable is mentioned nowhere else (no reassignment, shadowing, `.push(`, `.join(`);
    * no other call whose name belongs to a file-system vocabulary occurs, however it is spelled
      (`exists`, `is_file`, `metadata`, `canonicalize`, `File::open`, …);
    * the base is mentioned only in its binding and in the `safe_join` call, the name only as the
      closure parameter and in the `safe_join` call (so no second path is built from either). -/
theorem loader_model_matches_source :
    MJ.Gen.c17PathLoaderBase ∈ verbatimCopies ∧
    MJ.Gen.c17PathLoaderFsCalls = ["read_to_string"] ∧
    MJ.Gen.c17PathLoaderJoins = ["&dir,name"] ∧
    MJ.Gen.c17PathLoaderFsVocab = ["read_to_string"] ∧
    (MJ.Gen.c17PathLoaderJoinBinding.toList.all fun c => c.isAlphanum || c == '_') = true ∧
    (MJ.Gen.c17PathLoaderReadArgs = [MJ.Gen.c17PathLoaderJoinBinding] ∨
      MJ.Gen.c17PathLoaderReadArgs = ["&" ++ MJ.Gen.c17PathLoaderJoinBinding]) ∧
    MJ.Gen.c17PathLoaderPathUses = 2 ∧ MJ.Gen.c17PathLoaderDirUses = 3 ∧
    MJ.Gen.c17PathLoaderNameUses = 2 := by decide

/-- the rules the model's `badSeg`/`safeJoin` are built from, as found in the source now -/
theorem safe_join_rules_from_source :
    MJ.Gen.c17SafeJoinSep = '/' ∧ '.' ∈ MJ.Gen.c17RejectPrefix ∧ '\\' ∈ MJ.Gen.c17RejectContains :=
  ⟨sep_eq, rules_cover.1, rules_cover.2⟩

/-- the functions of the engine that fetch a template by name, and the harness form driving each -/
def drivenSites : List (String × String × String) :=
  [("environment.rs", "templates", "templates.iter"),        -- form `templates`
   ("environment.rs", "get_template", "templates.get"),      -- form `get`
   ("vm/mod.rs", "perform_include", "get_template"),         -- forms include, import, from, inclist, macro, nested
   ("vm/mod.rs", "load_blocks", "join_template_path"),       -- forms extends, joincb
   ("vm/mod.rs", "load_blocks", "get_template"),             -- form extends
   ("vm/state.rs", "get_template", "get_template"),          -- form fn (State::get_template from a function)
   ("vm/state.rs", "get_template", "join_template_path")]    -- form joincb

/-- every place in the engine's source that fetches a template by name is driven by the harness -/
theorem entry_sites_covered : ∀ s ∈ MJ.Gen.c17LoaderEntrySites, s ∈ drivenSites := by decide

example : MJ.Gen.c17LoaderEntrySites ≠ [] := by decide

/-- names computed inside a template (`include`, `import`, `from`, `extends`) reach the loader
    unchanged when no join callback is installed -/
theorem get_template_passes_name (name parent : Str) : joinTemplatePath none name parent = name := rfl

example : joinTemplatePath (some fun n par => par ++ n) "x".toList "d/".toList = "d/x".toList := by decide

/-! ### the platform as a parameter: the components pushed are exactly the segments checked -/

/-- every separator character of the platform is either the character the name is split on or a
    character the filter rejects (rules regenerated from the source) -/
def SepsCovered (pl : Plat) : Prop :=
  ∀ c, pl.isSep c = true → c = MJ.Gen.c17SafeJoinSep ∨ c ∈ MJ.Gen.c17RejectContains

theorem unix_seps_covered : SepsCovered unix := by
  intro c h
  have : c = '/' := by simpa [isSep_unix] using h
  subst this; decide

theorem windows_seps_covered : SepsCovered windows := by
  intro c h
  have : c = '\\' ∨ c = '/' := by simpa [Plat.isSep, windows] using h
  rcases this with rfl | rfl <;> decide

/-- on a platform whose separators are covered, a piece of the split that passes the filter
    contains no separator at all -/
theorem noSep_of_good (pl : Plat) (hcov : SepsCovered pl) (name s : Str)
    (hs : s ∈ splitOn MJ.Gen.c17SafeJoinSep name) (hg : badSeg s = false) : NoSep pl s := by
  intro c hc
  cases hsep : pl.isSep c with
  | false => rfl
  | true =>
    exfalso
    rcases hcov c hsep with rfl | hm
    · exact sep_not_mem_of_mem_splitOn _ name s hs hc
    · have : badSeg s = true := by
        simp only [badSeg, Bool.or_eq_true, List.any_eq_true]
        exact Or.inl (Or.inr ⟨c, hm, by simpa using hc⟩)
      rw [this] at hg; exact absurd hg (by decide)

/-- a name in the strict sense on the platform `pl`: not empty, not `.`, not `..`, not hidden, free
    of every separator of the platform, no drive prefix -/
def PlainNameP (pl : Plat) (s : Str) : Prop :=
  s ≠ [] ∧ s ≠ ['.'] ∧ s ≠ dotdot ∧ s.head? ≠ some '.' ∧ NoSep pl s ∧ driveLen pl s = 0

/-- **What is pushed is what was checked**, on every platform.  Whenever `safe_join` answers a path:
    * the filter looked at every piece of `name.split('/')`, in order, and passed each
      (`tr.checked`);
    * the arguments handed to `PathBuf::push` are exactly those pieces (`tr.pushed = tr.checked`);
    * the components of the result — the result split on EVERY separator of the platform, so a
      separator hidden inside a pushed argument would show up as extra components — are the
      base's components followed by the non-empty checked pieces, one component each;
    * each of them is a plain name on the platform; the drive prefix, the root and the literal
      text of the base are kept (no push replaced the base).
    Hypotheses: the platform's separators are the split character or rejected by the filter
    (`SepsCovered`, proved for Unix and Windows from the regenerated rules), and no piece has a
    drive prefix (vacuous on Unix; on Windows this is NOT established by the filter, see
    `windows_drive_segment_replaces_base`). -/
theorem checked_segments_are_pushed_components (pl : Plat) (hwf : pl.WF) (hcov : SepsCovered pl)
    (base name p : Str) (tr : Trace) (h : safeJoinTr pl base name = some (p, tr))
    (hdrive : ∀ s ∈ splitOn '/' name, driveLen pl s = 0) :
    tr.checked = splitOn '/' name ∧ tr.pushed = tr.checked ∧
    compsP pl p = compsP pl base ++ nameSegs name ∧
    (∀ s ∈ nameSegs name, PlainNameP pl s) ∧
    driveLen pl p = driveLen pl base ∧ hasRoot pl p = hasRoot pl base ∧ base <+: p := by
  unfold safeJoinTr at h
  have hplain : ∀ s ∈ splitOn MJ.Gen.c17SafeJoinSep name, badSeg s = false → PlainArg pl s ∧ s ≠ ['.'] :=
    fun s hs hg => ⟨⟨noSep_of_good pl hcov name s hs hg, hdrive s (by rw [← sep_eq]; exact hs)⟩, not_dot_of_good hg⟩
  obtain ⟨h1, h2, h3, h4, h5, h6, h7⟩ := joinLoopG_same pl hwf badSeg base _ _ hplain p tr h
  simp only [List.nil_append] at h2 h3
  rw [sep_eq] at h1 h2 h3 h4 hplain
  refine ⟨h2, by rw [h3, h2], h4, ?_, h5, h6, h7⟩
  intro s hs
  simp only [nameSegs, List.mem_filter, bne_iff_ne, ne_eq] at hs
  obtain ⟨hm, hne⟩ := hs
  have hg := h1 s hm
  exact ⟨hne, not_dot_of_good hg, not_dotdot_of_good hg, (badSeg_false_imp s hg).1,
    (hplain s hm hg).1.1, (hplain s hm hg).1.2⟩

/-- a base with a drive and a root, a name with an empty and a dotted piece -/
example : safeJoinTr windows "C:\\srv\\t".toList "a//b.txt".toList
    = some ("C:\\srv\\t\\a\\b.txt".toList,
        ⟨["a".toList, [], "b.txt".toList], ["a".toList, [], "b.txt".toList]⟩) := by decide
example : compsP windows "C:\\srv\\t\\a\\b.txt".toList = ["srv".toList, "t".toList, "a".toList, "b.txt".toList] := by decide
/-- separators inside a pushed argument create several components on the platform … -/
example : compsP windows (pushP windows "t".toList "x\\..\\..\\y".toList)
    = ["t".toList, "x".toList, dotdot, dotdot, "y".toList] := by decide
/-- … and none on a platform where the character is not a separator -/
example : compsP unix (pushP unix "t".toList "x\\..\\..\\y".toList) = ["t".toList, "x\\..\\..\\y".toList] := by decide
/-- a bare drive gets no separator; a rooted argument keeps only the drive; an argument with a
    drive replaces everything -/
example : pushP windows "C:".toList "x".toList = "C:x".toList := by decide
example : pushP windows "C:\\a".toList "\\w".toList = "C:\\w".toList := by decide
example : pushP windows "C:\\a".toList "D:w".toList = "D:w".toList := by decide

/-- the seeded change C17-5 as an instance of the generic loop (filter without the backslash
    rule, the `\`-pieces of a checked segment pushed one by one): on Windows — and on Unix, where
    `push` of `..` simply appends it — the components are NOT the checked segments -/
example : (joinLoopG unix (fun s => s.head? == some '.') (splitOn '\\') "t".toList ⟨[], []⟩
      (splitOn '/' "a\\..\\..\\x".toList)).map (fun r => (compsP unix r.1, r.2.checked))
    = some (["t".toList, "a".toList, dotdot, dotdot, "x".toList], ["a\\..\\..\\x".toList]) := by decide

/-- Unix: no hypothesis is left -/
theorem unix_checked_are_pushed (base name p : Str) (tr : Trace)
    (h : safeJoinTr unix base name = some (p, tr)) :
    tr.checked = splitOn '/' name ∧ tr.pushed = tr.checked ∧
    compsP unix p = compsP unix base ++ nameSegs name ∧ (∀ s ∈ nameSegs name, PlainNameP unix s) ∧
    driveLen unix p = driveLen unix base ∧ hasRoot unix p = hasRoot unix base ∧ base <+: p :=
  checked_segments_are_pushed_components unix unix_wf unix_seps_covered base name p tr h
    (fun s _ => driveLen_nodrives unix rfl s)

example : safeJoinTr unix "/srv/t".toList "a//b.txt".toList
    = some ("/srv/t/a/b.txt".toList, ⟨["a".toList, [], "b.txt".toList], ["a".toList, [], "b.txt".toList]⟩) := by decide

/-- the Unix instance of the generic model IS the model that is compared with the real code byte
    for byte (`safeJoin`, `push`, `comps`) -/
theorem unix_instance_is_checked_model (base name p seg : Str) :
    safeJoinP unix base name = safeJoin base name ∧ pushP unix p seg = push p seg ∧
    compsP unix p = comps p :=
  ⟨by simp only [safeJoinP, safeJoinTr, safeJoin]; exact joinLoopG_unix _ _ _, pushP_unix p seg, compsP_unix p⟩

example : safeJoinP unix "/srv/t".toList "a//b.txt".toList = some "/srv/t/a/b.txt".toList := by decide

/-- Windows: what is pushed is what was checked as long as no piece of the name starts with a
    drive (`X:`) -/
theorem windows_checked_are_pushed (base name p : Str) (tr : Trace)
    (h : safeJoinTr windows base name = some (p, tr))
    (hdrive : ∀ s ∈ splitOn '/' name, startsWithDrive s = false) :
    tr.checked = splitOn '/' name ∧ tr.pushed = tr.checked ∧
    compsP windows p = compsP windows base ++ nameSegs name ∧ (∀ s ∈ nameSegs name, PlainNameP windows s) ∧
    driveLen windows p = driveLen windows base ∧ hasRoot windows p = hasRoot windows base ∧ base <+: p :=
  checked_segments_are_pushed_components windows windows_wf windows_seps_covered base name p tr h
    (fun s hs => by simp [driveLen, hdrive s hs])

example : ∀ s ∈ splitOn '/' "a//b.txt".toList, startsWithDrive s = false := by decide

/-- confinement of a joined path on the platform `pl` -/
def ConfinedP (pl : Plat) (base name p : Str) : Prop :=
  driveLen pl p = driveLen pl base ∧ hasRoot pl p = hasRoot pl base ∧ base <+: p ∧
  compsP pl p = compsP pl base ++ nameSegs name ∧ (∀ s ∈ nameSegs name, PlainNameP pl s) ∧
  normalize (hasRoot pl p) (compsP pl p) = normalize (hasRoot pl base) (compsP pl base) ++ nameSegs name ∧
  ∀ (fs : FS) (start e : fs.Node), walk fs start (compsP pl p) = some e →
    ∃ b, walk fs start (compsP pl base) = some b ∧ Below fs b e

/-- the full statement on a platform: whatever `safe_join` answers is confined -/
def C17_full_on (pl : Plat) : Prop := ∀ base name p, safeJoinP pl base name = some p → ConfinedP pl base name p

/-- … with the excluded region as a decidable hypothesis -/
def C17_partial_on (pl : Plat) : Prop :=
  ∀ base name p, (∀ s ∈ splitOn '/' name, driveLen pl s = 0) → safeJoinP pl base name = some p → ConfinedP pl base name p

theorem confined_on (pl : Plat) (hwf : pl.WF) (hcov : SepsCovered pl) : C17_partial_on pl := by
  intro base name p hdrive h
  unfold safeJoinP at h
  cases ht : safeJoinTr pl base name with
  | none => simp [ht] at h
  | some r =>
    obtain ⟨q, tr⟩ := r
    simp only [ht, Option.map_some, Option.some.injEq] at h
    subst h
    obtain ⟨_, _, h3, h4, h5, h6, h7⟩ :=
      checked_segments_are_pushed_components pl hwf hcov base name q tr ht hdrive
    have hpl : ∀ s ∈ nameSegs name, plain s := fun s hs => ⟨(h4 s hs).1, (h4 s hs).2.1, (h4 s hs).2.2.1⟩
    refine ⟨h5, h6, h7, h3, h4, ?_, ?_⟩
    · rw [h3, h6, normalize_append]
      exact normalizeFrom_plain _ _ _ hpl
    · intro fs start e hw
      rw [h3, walk_append] at hw
      cases hb : walk fs start (compsP pl base) with
      | none => simp [hb] at hw
      | some b =>
        refine ⟨b, rfl, ?_⟩
        simp only [hb, Option.bind_some] at hw
        exact walk_plain_below fs b e _ hpl hw

/-- Unix: the full statement -/
theorem safe_join_confined_unix : C17_full_on unix :=
  fun base name p h => confined_on unix unix_wf unix_seps_covered base name p
    (fun s _ => driveLen_nodrives unix rfl s) h

example : ConfinedP unix "../t/".toList "x//y.html".toList "../t/x/y.html".toList :=
  safe_join_confined_unix _ _ _ (by decide)

/-- Windows: confined as long as no piece of the name starts with a drive -/
theorem safe_join_confined_windows_partial : C17_partial_on windows :=
  confined_on windows windows_wf windows_seps_covered

example : ConfinedP windows "C:\\srv\\t".toList "a//b.txt".toList "C:\\srv\\t\\a\\b.txt".toList :=
  safe_join_confined_windows_partial _ _ _ (by decide) (by decide)

/-- **Windows: the filter lets a drive prefix through, and `push` of an argument with a prefix
    replaces the base.**  `safe_join("templates", "C:secret.txt")` is `C:secret.txt` (the file
    `secret.txt` in the current directory of drive `C:`), `safe_join("C:\\srv\\t", "D:x/y")` is
    `D:x\\y`: the base is gone.  (Model of std's Windows `_push`/`parse_drive`; cannot be run
    against the real code on this platform.) -/
theorem windows_drive_segment_replaces_base :
    safeJoinP windows "templates".toList "C:secret.txt".toList = some "C:secret.txt".toList ∧
    compsP windows "C:secret.txt".toList = ["secret.txt".toList] ∧
    safeJoinP windows "C:\\srv\\t".toList "D:x/y".toList = some "D:x\\y".toList ∧
    (safeJoinTr windows "templates".toList "C:secret.txt".toList).map (·.2.pushed) = some ["C:secret.txt".toList] := by
  decide

/-- hence the full statement is false on Windows for the code as it is -/
theorem C17_windows_counterexample : ¬ C17_full_on windows := by
  intro h
  have := (h "templates".toList "C:secret.txt".toList "C:secret.txt".toList (by decide)).2.2.1
  revert this
  decide

/-! ### fallbacks done through `safe_join` stay confined -/

/-- any loader that tries candidate NAMES (the name, the name with a suffix, …) and sends each
    through `safe_join` returns only content found at a path confined to the base — the shape a
    `.j2`/index/alias fallback must have (the seeded changes C17-2 and C17-4 built their candidate
    PATHS from the joined path's ancestors / from the unfiltered name instead) -/
theorem candidate_loader_found_confined (l : LoaderG) (fs : Snapshot) (name s : Str)
    (h : l.load fs name = .found s) :
    ∃ t ∈ l.cands, ∃ p, safeJoin l.base (t name) = some p ∧ fs p = .content s ∧ Confined l.base (t name) p := by
  obtain ⟨t, ht, p, hp, hf⟩ := loadCands_found h
  exact ⟨t, ht, p, hp, hf, (safe_join_confined l.base (t name)).2 p hp⟩

example : (LoaderG.mk "b".toList [id, fun n => n ++ ".j2".toList]).load
      (oneFile "b/x.j2".toList "inside".toList) "x".toList = .found "inside".toList := by decide

/-- every path such a loader may hand to the file system is confined -/
theorem candidate_loader_reads_confined (l : LoaderG) (name p : Str) (h : p ∈ l.reads name) :
    ∃ t ∈ l.cands, Confined l.base (t name) p := by
  simp only [LoaderG.reads, List.mem_filterMap] at h
  obtain ⟨t, ht, hp⟩ := h
  exact ⟨t, ht, (safe_join_confined l.base (t name)).2 p hp⟩

example : (LoaderG.mk "b".toList [id, fun n => n ++ ".j2".toList]).reads "a/x".toList
    = ["b/a/x".toList, "b/a/x.j2".toList] := by decide
example : (LoaderG.mk "b".toList [id, fun n => n ++ ".j2".toList]).reads "../x".toList = [] := by decide

/-- `path_loader` is the instance with the single candidate "the name itself" -/
theorem path_loader_is_single_candidate (fs0 fs : Snapshot) (dir name : Str) :
    (LoaderG.mk dir [id]).load fs name = (pathLoader fs0 dir).load fs name ∧
    (LoaderG.mk dir [id]).reads name = (pathLoader fs0 dir).reads name := by
  constructor
  · simp only [LoaderG.load, loadCands, id, Loader.load, pathLoader]
    cases safeJoin dir name with
    | none => rfl
    | some p => cases fs p <;> rfl
  · simp only [LoaderG.reads, Loader.reads, pathLoader, List.filterMap_cons, List.filterMap_nil, id]
    cases safeJoin dir name <;> rfl

/-- a `.j2` fallback done right: the canary next to the base is not served, the file beneath is -/
example : (LoaderG.mk "b".toList [id, fun n => n ++ ".j2".toList]).load
      (oneFile "b/x.j2".toList "inside".toList) "x".toList = .found "inside".toList := by decide
example : (LoaderG.mk "b".toList [id, fun n => n ++ ".j2".toList]).load
      (oneFile "/etc/x.j2".toList "canary".toList) "/etc/x".toList = .missing := by decide

/-! ### the shape of `safe_join`'s loop (table regenerated by `lib/tables/c17.py`) -/

/-- spellings of "an owned copy of the base" -/
def loopInits : List (List String) :=
  [["letmutrv=base.to_path_buf()"], ["letmutrv=PathBuf::from(base)"], ["letmutrv=base.to_owned()"],
   ["letmutrv=base.into()"]]

/-- spellings of "push the loop variable" -/
def loopPushes (var : String) : List (List String) :=
  [["rv.push(" ++ var ++ ")"], ["rv=rv.join(" ++ var ++ ")"], ["rv.push(Path::new(" ++ var ++ "))"]]

/-- `safe_join` in the source has the shape `joinLoopG … badSeg useSame` models: `rv` starts as a
    copy of the base; ONE split of the template name (on the extracted separator) is iterated; the
    filter's atoms all look at the loop variable; after the filter the loop body is ONE statement
    that pushes the loop variable itself — the same variable the filter looked at, mentioned once;
    the name and the base are mentioned nowhere else; the result is `Some(rv)`.  (The rules
    extractor already insists on one `split`, one `if`, one `return None`.) -/
theorem safe_join_loop_shape :
    MJ.Gen.c17LoopInit ∈ loopInits ∧
    MJ.Gen.c17LoopIter = "template.split('" ++ String.singleton MJ.Gen.c17SafeJoinSep ++ "')" ∧
    MJ.Gen.c17LoopFilterSubjects = [MJ.Gen.c17LoopVar] ∧
    MJ.Gen.c17LoopAfterFilter ∈ loopPushes MJ.Gen.c17LoopVar ∧
    MJ.Gen.c17LoopVarUsesAfterFilter = 1 ∧
    MJ.Gen.c17LoopTail = "Some(rv)" ∧
    MJ.Gen.c17SafeJoinTemplateUses = 1 ∧ MJ.Gen.c17SafeJoinBaseUses = 1 := by decide

example : MJ.Gen.c17LoopVar ≠ "" ∧ MJ.Gen.c17LoopAfterFilter ≠ [] := by decide

/-- the functions of the engine, of minijinja-contrib and of minijinja-autoreload that mention the
    file system or build a path (tests, verification hooks and the build-time embed crate aside):
    `safe_join` and `path_loader` (modelled above) and the autoreloader's `watch_path` /
    `unwatch_path`, which hand a path given by the HOST to the change notifier and never read a
    file or see a template name.  A new fallback, canonicalisation or loader shows up here. -/
def modelledPathProducers : List (String × String) :=
  [("minijinja/loader.rs", "safe_join"), ("minijinja/loader.rs", "path_loader"),
   ("minijinja-autoreload/lib.rs", "watch_path"), ("minijinja-autoreload/lib.rs", "unwatch_path")]

theorem path_producers_as_modelled :
    (∀ s ∈ MJ.Gen.c17PathProducers, s ∈ modelledPathProducers) ∧
    ("minijinja/loader.rs", "safe_join") ∈ MJ.Gen.c17PathProducers ∧
    ("minijinja/loader.rs", "path_loader") ∈ MJ.Gen.c17PathProducers := by decide

example : MJ.Gen.c17PathProducers.length ≥ 2 := by decide

end MJ.C17
