import MJ.Proofs.Path
import MJ.Proofs.PathPlat
import MJ.Proofs.PathRoutes
/-!
# C17 — the file-system loader never reads outside its base directory

Property theorems only (helper lemmas: `MJ/Proofs/Path.lean`, model: `MJ/Model/Path.lean`).

`safeJoin base name` is the transcription of `loader::safe_join`, the only place where
`path_loader` turns a template name into a path; `push` is `PathBuf::push` *with* its
"an absolute argument replaces everything" branch.  Confinement is stated three ways:

* on components (`safe_join_segments`): the result's components are the base's components followed
  by the name's non-empty segments, each of which is a plain name;
* lexically (`normalize_stays_below`): normalising `.`/`..` away cannot leave the base;
* on an abstract directory tree without symbolic links (`walk_stays_below`): whatever the result
  resolves to is the directory the base resolves to, or something beneath it.

Further down: the loader over time (`loader_*`), the ties to the source, and — with the PLATFORM
as a parameter (`MJ/Model/PathPlat.lean`: separator set, drive prefixes; Unix and Windows
instances) — `checked_segments_are_pushed_components`: the arguments of `push` are exactly the
pieces the filter looked at and the result's components (split on every separator of the
platform) are the base's followed by those pieces.  Unix: unconditional.  Windows: for names
without a drive-prefixed segment; `C17_windows_counterexample` shows what a segment `C:x` does.
At the end: the engine's ROUTES (`MJ/Model/PathRoutes.lean`: `Environment::get_template`,
`State::get_template` + `join_template_path` with an arbitrary callback, include / import /
from-import / extends, lists of include choices) with `every_loader_call_passes_through_safe_join`
and the row-by-row tie `name_flow_as_modelled`; the property's own statement `C17_full` over
histories of link-free worlds, proved for the model (`C17_model`); and `C17_main`, whose two
hypotheses (`AnswersAsModel`, `OsWalksTree`) are exactly what is not machine-checked about the code.
-/
namespace MJ.C17
open MJ.Path MJ.PathPlat

/-- a segment that can only name an entry of the directory it is looked up in: not empty, not `.`,
    not `..`, not hidden, no separator of either flavour -/
def PlainName (s : Str) : Prop :=
  s ≠ [] ∧ s ≠ ['.'] ∧ s ≠ dotdot ∧ s.head? ≠ some '.' ∧ '/' ∉ s ∧ '\\' ∉ s

/-- the non-empty segments of a template name -/
def nameSegs (name : Str) : List Str := (splitOn '/' name).filter (fun s => s != [])

/-- `p` lies beneath `base` (or is `base`) in every sense modelled here -/
def Confined (base name p : Str) : Prop :=
  isAbs p = isAbs base ∧ base <+: p ∧
  comps p = comps base ++ nameSegs name ∧ (∀ s ∈ nameSegs name, PlainName s) ∧
  normalize (isAbs base) (comps base) <+: normalize (isAbs p) (comps p) ∧
  ∀ (fs : FS) (start e : fs.Node), walk fs start (comps p) = some e →
    ∃ b, walk fs start (comps base) = some b ∧ Below fs b e

/-- The statement about `safe_join` alone: for every base and every template name, `safe_join`
    answers `None` as soon as one segment is `.`, `..`, hidden or contains a backslash, and every
    path it does answer is confined to the base.  (The property's own statement — every entry
    point, every history of file systems, "content of a file beneath the base" — is `C17_full`
    at the end of this file.) -/
def C17_safe_join_full : Prop :=
  ∀ base name : Str,
    (∀ s ∈ splitOn '/' name, (s = ['.'] ∨ s = dotdot ∨ s.head? = some '.' ∨ '\\' ∈ s) →
      safeJoin base name = none) ∧
    (∀ p, safeJoin base name = some p → Confined base name p)

/-- every segment that reaches `PathBuf::push` is free of `/`, hence never absolute: the branch of
    `push` that throws the base away is dead, and the base stays a literal prefix -/
theorem push_never_replaces (name : Str) (s : Str) (hs : s ∈ splitOn '/' name) (rv : Str) :
    rv <+: push rv s ∧ isAbs (push rv s) = isAbs rv :=
  have h := sep_not_mem_of_mem_splitOn '/' name s hs
  ⟨prefix_push rv s h, isAbs_push rv s h⟩

example : push "/b".toList "/etc".toList = "/etc".toList := by decide   -- what the dead branch would do
example : push "/b".toList "etc".toList = "/b/etc".toList := by decide

/-- the result is the base followed by the name's non-empty segments, all of them plain names -/
theorem safe_join_segments (base name p : Str) (h : safeJoin base name = some p) :
    comps p = comps base ++ nameSegs name ∧ (∀ s ∈ nameSegs name, PlainName s) ∧
    isAbs p = isAbs base ∧ base <+: p := by
  have hsep := fun s hs => sep_not_mem_of_mem_splitOn '/' name s hs
  obtain ⟨h1, h2, h3, h4⟩ := safeJoinLoop_some base p _ hsep h
  refine ⟨h2, ?_, h3, h4⟩
  intro s hs
  simp only [nameSegs, List.mem_filter, bne_iff_ne, ne_eq] at hs
  obtain ⟨hm, hne⟩ := hs
  have hg := h1 s hm
  obtain ⟨g1, g2⟩ := badSeg_false_imp s hg
  exact ⟨hne, not_dot_of_good hg, not_dotdot_of_good hg, g1, hsep s hm, g2⟩

example : safeJoin "/srv/t".toList "a//b.txt".toList = some "/srv/t/a/b.txt".toList := by decide
example : safeJoin "/srv/t".toList "/etc/passwd".toList = some "/srv/t/etc/passwd".toList := by decide
example : comps "/srv/t/a/b.txt".toList = ["srv".toList, "t".toList, "a".toList, "b.txt".toList] := by decide

/-- any `.`, `..`, hidden or backslash segment anywhere in the name makes `safe_join` answer `None` -/
theorem escape_rejected (base name s : Str) (hs : s ∈ splitOn '/' name)
    (hbad : s = ['.'] ∨ s = dotdot ∨ s.head? = some '.' ∨ '\\' ∈ s) : safeJoin base name = none := by
  apply safeJoinLoop_none_of_bad base _ s hs
  rcases hbad with h | h | h | h
  · subst h; exact badSeg_of_head rfl
  · subst h; exact badSeg_of_head rfl
  · exact badSeg_of_head h
  · exact badSeg_of_mem h

example : safeJoin "/srv/t".toList "a/../../etc/passwd".toList = none := by decide
example : safeJoin "/srv/t".toList "a/..".toList = none := by decide
example : safeJoin "/srv/t".toList "..\\x".toList = none := by decide
example : safeJoin "/srv/t".toList "./a".toList = none := by decide

/-- nothing else is rejected: the filter is exactly "some segment is hidden or has a backslash" -/
theorem safe_join_some_iff (base name : Str) :
    (safeJoin base name).isSome = true ↔ ∀ s ∈ splitOn '/' name, badSeg s = false := by
  constructor
  · intro h
    obtain ⟨p, hp⟩ := Option.isSome_iff_exists.1 h
    exact (safeJoinLoop_some base p _ (fun s hs => sep_not_mem_of_mem_splitOn '/' name s hs) hp).1
  · exact safeJoinLoop_isSome_of_good base _

example : (safeJoin "b".toList "a./%2e%2e/a..b".toList).isSome = true := by decide

/-- without a `..` (or `.`/empty) component after the base, lexical normalisation keeps the
    normalised base as a prefix — whatever the base itself looks like (relative, with `..`, with a
    trailing slash) and however many empty segments or trailing slashes the name has -/
theorem normalize_stays_below (base name p : Str) (h : safeJoin base name = some p) :
    normalize (isAbs p) (comps p) = normalize (isAbs base) (comps base) ++ nameSegs name := by
  obtain ⟨h1, h2, h3, _⟩ := safe_join_segments base name p h
  rw [h1, h3, normalize_append]
  exact normalizeFrom_plain _ _ _ (fun s hs => ⟨(h2 s hs).1, (h2 s hs).2.1, (h2 s hs).2.2.1⟩)

example : normalize false (comps "../t/".toList) = ["..".toList, "t".toList] := by decide
example : normalize true (comps "/srv/t/a/../../../etc".toList) = ["etc".toList] := by decide  -- what `..` would do
example : normalize true (comps "/srv/t//a/b/".toList) = ["srv".toList, "t".toList, "a".toList, "b".toList] := by decide

/-- on any directory tree without symbolic links: if the joined path resolves at all, the base
    resolves too and the result is the base's directory or lies beneath it -/
theorem walk_stays_below (base name p : Str) (h : safeJoin base name = some p)
    (fs : FS) (start e : fs.Node) (hw : walk fs start (comps p) = some e) :
    ∃ b, walk fs start (comps base) = some b ∧ Below fs b e := by
  obtain ⟨h1, h2, _, _⟩ := safe_join_segments base name p h
  rw [h1, walk_append] at hw
  cases hb : walk fs start (comps base) with
  | none => simp [hb] at hw
  | some b =>
    refine ⟨b, rfl, ?_⟩
    simp only [hb, Option.bind_some] at hw
    exact walk_plain_below fs b e _ (fun s hs => ⟨(h2 s hs).1, (h2 s hs).2.1, (h2 s hs).2.2.1⟩) hw

/-- the free tree: a node is the list of names from the root -/
@[reducible] def freeFS : FS := { Node := List Str, child := fun d n => some (d ++ [n]), parent := List.dropLast }

example : walk freeFS [] (comps "/srv/t/a/b".toList) = some ["srv".toList, "t".toList, "a".toList, "b".toList] := by decide
example : walk freeFS [] (comps "/srv/t/../../x".toList) = some ["x".toList] := by decide  -- `..` does leave

theorem safe_join_confined : C17_safe_join_full := by
  intro base name
  refine ⟨fun s hs hbad => escape_rejected base name s hs hbad, fun p h => ?_⟩
  obtain ⟨h1, h2, h3, h4⟩ := safe_join_segments base name p h
  refine ⟨h3, h4, h1, h2, ?_, fun fs start e hw => walk_stays_below base name p h fs start e hw⟩
  rw [normalize_stays_below base name p h]
  exact List.prefix_append _ _

example : Confined "/srv/t".toList "a//b.txt".toList "/srv/t/a/b.txt".toList :=
  (safe_join_confined _ _).2 _ (by decide)
example : safeJoin "../t/".toList "x/..".toList = none :=
  (safe_join_confined _ _).1 dotdot (by decide) (by simp)

/-! ### the loader over time: the base used at load time is the configured base -/

/-- `path_loader(dir)` keeps the configured spelling whatever the file system looks like when it
    is called (directory missing, created later, working directory elsewhere): the state of the
    disk at construction has no influence on the loader -/
theorem loader_base_is_configured (fs0 : Snapshot) (dir : Str) :
    (pathLoader fs0 dir).base = dir ∧ ∀ fs1 : Snapshot, pathLoader fs1 dir = pathLoader fs0 dir :=
  ⟨rfl, fun _ => rfl⟩

/-- a disk on which nothing can be read (say: the base does not exist yet) -/
def emptyDisk : Snapshot := fun _ => .notFound
/-- a disk with exactly one readable file -/
def oneFile (path content : Str) : Snapshot := fun p => if p = path then .content content else .notFound

example : pathLoader emptyDisk "site/t".toList = pathLoader (oneFile "x".toList []) "site/t".toList := rfl

/-- every path a request hands to the file system is confined to the configured base -/
theorem loader_reads_confined (fs0 : Snapshot) (dir name p : Str)
    (h : p ∈ (pathLoader fs0 dir).reads name) : Confined dir name p := by
  unfold Loader.reads pathLoader at h
  cases hj : safeJoin dir name with
  | none => simp [hj] at h
  | some q =>
    simp only [hj, List.mem_singleton] at h
    subst h
    exact (safe_join_confined dir name).2 _ hj

example : (pathLoader emptyDisk "/srv/t".toList).reads "a/b".toList = ["/srv/t/a/b".toList] := by decide
example : (pathLoader emptyDisk "/srv/t".toList).reads "../b".toList = [] := by decide

/-- whatever the file system is at load time and was at construction time: returned content is
    what the load-time file system holds at a path confined to the configured base -/
theorem loader_found_confined (fs0 fs : Snapshot) (dir name s : Str)
    (h : (pathLoader fs0 dir).load fs name = .found s) :
    ∃ p, safeJoin dir name = some p ∧ fs p = .content s ∧ Confined dir name p := by
  obtain ⟨p, hp, hf⟩ := load_found h
  exact ⟨p, hp, hf, (safe_join_confined dir name).2 p hp⟩

example : (pathLoader emptyDisk "b".toList).load (oneFile "b/x".toList "hi".toList) "x".toList
    = .found "hi".toList := by decide
example : (pathLoader emptyDisk "b".toList).load (oneFile "x".toList "canary".toList) "x".toList
    = .missing := by decide   -- a working-directory relative namesake is not served

/-- while nothing readable has the base as literal prefix (the base does not exist, or is empty),
    the only answers are "missing" and "unreadable" -/
theorem loader_absent_base_missing (fs0 fs : Snapshot) (dir name : Str)
    (habs : ∀ p s, dir <+: p → fs p ≠ .content s) (s : Str) :
    (pathLoader fs0 dir).load fs name ≠ .found s := by
  intro h
  obtain ⟨p, hp, hf, hc⟩ := loader_found_confined fs0 fs dir name s h
  exact habs p s hc.2.1 hf

example : ∀ p s, "b".toList <+: p → oneFile "x".toList "canary".toList p ≠ .content s := by
  intro p s hp h
  simp only [oneFile] at h
  split at h
  · rename_i e; subst e; revert hp; decide
  · cases h

/-- the environment's template store in front of the loader, over an arbitrary history of file
    systems (directories created, removed, recreated, the working directory changed between
    construction and loads): every source ever answered for a name, and everything the store
    holds afterwards (`Environment::templates`), is what some snapshot of the history held at the
    path `safe_join(configured base, name)`, which is confined to the configured base -/
theorem loader_history_confined (fs0 : Snapshot) (dir : Str) (h : List (Snapshot × Str)) :
    (∀ n s, (n, LoadResult.found s) ∈ (Env.mk (pathLoader fs0 dir) []).run h →
      ∃ x ∈ h, x.2 = n ∧ ∃ p, safeJoin dir n = some p ∧ x.1 p = .content s ∧ Confined dir n p) ∧
    (∀ n s, (n, s) ∈ ((Env.mk (pathLoader fs0 dir) []).after h).templates →
      ∃ x ∈ h, x.2 = n ∧ ∃ p, safeJoin dir n = some p ∧ x.1 p = .content s ∧ Confined dir n p) := by
  obtain ⟨h1, h2, _⟩ := run_justified dir h (Env.mk (pathLoader fs0 dir) []) [] rfl
    (fun n s hm => by simp at hm)
  simp only [List.nil_append] at h1 h2
  constructor
  · intro n s hm
    obtain ⟨x, hx, e, p, hp, hf⟩ := h1 n s hm
    exact ⟨x, hx, e, p, hp, hf, (safe_join_confined dir n).2 p hp⟩
  · intro n s hm
    obtain ⟨x, hx, e, p, hp, hf⟩ := h2 n s hm
    exact ⟨x, hx, e, p, hp, hf, (safe_join_confined dir n).2 p hp⟩

/-- `clear_templates` forgets what was stored but not where the loader looks: after any history
    and a clear, every further answer comes from the snapshots AFTER the clear, at a path confined
    to the configured base -/
theorem loader_history_confined_after_clear (fs0 : Snapshot) (dir : Str) (h1 h2 : List (Snapshot × Str)) :
    ∀ n s, (n, LoadResult.found s) ∈ (((Env.mk (pathLoader fs0 dir) []).after h1).clear).run h2 →
      ∃ x ∈ h2, x.2 = n ∧ ∃ p, safeJoin dir n = some p ∧ x.1 p = .content s ∧ Confined dir n p := by
  obtain ⟨_, _, hb⟩ := run_justified dir h1 (Env.mk (pathLoader fs0 dir) []) [] rfl
    (fun n s hm => by simp at hm)
  obtain ⟨g1, _, _⟩ := run_justified dir h2 (((Env.mk (pathLoader fs0 dir) []).after h1).clear) []
    (by simpa [Env.clear] using hb) (fun n s hm => by simp [Env.clear] at hm)
  intro n s hm
  obtain ⟨x, hx, e, p, hp, hf⟩ := g1 n s hm
  exact ⟨x, by simpa using hx, e, p, hp, hf, (safe_join_confined dir n).2 p hp⟩

example : (((Env.mk (pathLoader emptyDisk "b".toList) []).after
      [(oneFile "b/x".toList "inside".toList, "x".toList)]).clear).run [(emptyDisk, "x".toList)]
    = [("x".toList, .missing)] := by decide

/-- base missing at construction and at the first request, created before the second, removed
    before the third (answered from the store) -/
example : (Env.mk (pathLoader emptyDisk "b".toList) []).run
      [(oneFile "x".toList "canary".toList, "x".toList),
       (oneFile "b/x".toList "inside".toList, "x".toList),
       (emptyDisk, "x".toList)]
    = [("x".toList, .missing), ("x".toList, .found "inside".toList), ("x".toList, .found "inside".toList)] := by
  decide

/-! ### ties to the source (tables regenerated by `lib/tables/c17.py`) -/

/-- spellings of "an owned copy of the path that was passed in" -/
def verbatimCopies : List String :=
  ["dir.as_ref().to_path_buf()", "dir.as_ref().to_owned()", "PathBuf::from(dir.as_ref())",
   "dir.as_ref().into()"]

/-- `path_loader` in the source has the shape `pathLoader`/`Loader.load` model:
    * it captures the directory it is given verbatim;
    * it joins with `safe_join(&dir, name)` and binds the result to an immutable variable;
    * exactly that variable (or a reference to it) is what the single `fs::read_to_string` gets,
      and the variable is mentioned nowhere else (no reassignment, shadowing, `.push(`, `.join(`);
    * no other call whose name belongs to a file-system vocabulary occurs, however it is spelled
      (`exists`, `is_file`, `metadata`, `canonicalize`, `File::open`, …);
    * the base is mentioned only in its binding and in the `safe_join` call, the name only as the
      closure parameter and in the `safe_join` call (so no second path is built from either). -/
theorem loader_model_matches_source :
    MJ.Gen.c17PathLoaderBase ∈ verbatimCopies ∧
    MJ.Gen.c17PathLoaderFsCalls = ["read_to_string"] ∧
    MJ.Gen.c17PathLoaderJoins = ["&dir,name"] ∧
    MJ.Gen.c17PathLoaderFsVocab = ["read_to_string"] ∧
    (MJ.Gen.c17PathLoaderJoinBinding.toList.all fun c => c.isAlphanum || c == '_') = true ∧
    (MJ.Gen.c17PathLoaderReadArgs = [MJ.Gen.c17PathLoaderJoinBinding] ∨
      MJ.Gen.c17PathLoaderReadArgs = ["&" ++ MJ.Gen.c17PathLoaderJoinBinding]) ∧
    MJ.Gen.c17PathLoaderPathUses = 2 ∧ MJ.Gen.c17PathLoaderDirUses = 3 ∧
    MJ.Gen.c17PathLoaderNameUses = 2 := by decide

/-- the rules the model's `badSeg`/`safeJoin` are built from, as found in the source now -/
theorem safe_join_rules_from_source :
    MJ.Gen.c17SafeJoinSep = '/' ∧ '.' ∈ MJ.Gen.c17RejectPrefix ∧ '\\' ∈ MJ.Gen.c17RejectContains :=
  ⟨sep_eq, rules_cover.1, rules_cover.2⟩

/-- the functions of the engine that fetch a template by name, and the harness form driving each -/
def drivenSites : List (String × String × String) :=
  [("environment.rs", "templates", "templates.iter"),        -- form `templates`
   ("environment.rs", "get_template", "templates.get"),      -- form `get`
   ("vm/mod.rs", "perform_include", "get_template"),         -- forms include, import, from, inclist, macro, nested
   ("vm/mod.rs", "load_blocks", "join_template_path"),       -- forms extends, joincb
   ("vm/mod.rs", "load_blocks", "get_template"),             -- form extends
   ("vm/state.rs", "get_template", "get_template"),          -- form fn (State::get_template from a function)
   ("vm/state.rs", "get_template", "join_template_path")]    -- form joincb

/-- every place in the engine's source that fetches a template by name is driven by the harness -/
theorem entry_sites_covered : ∀ s ∈ MJ.Gen.c17LoaderEntrySites, s ∈ drivenSites := by decide

example : MJ.Gen.c17LoaderEntrySites ≠ [] := by decide

/-- names computed inside a template (`include`, `import`, `from`, `extends`) reach the loader
    unchanged when no join callback is installed -/
theorem get_template_passes_name (name parent : Str) : joinTemplatePath none name parent = name := rfl

example : joinTemplatePath (some fun n par => par ++ n) "x".toList "d/".toList = "d/x".toList := by decide

/-! ### the platform as a parameter: the components pushed are exactly the segments checked -/

/-- every separator character of the platform is either the character the name is split on or a
    character the filter rejects (rules regenerated from the source) -/
def SepsCovered (pl : Plat) : Prop :=
  ∀ c, pl.isSep c = true → c = MJ.Gen.c17SafeJoinSep ∨ c ∈ MJ.Gen.c17RejectContains

theorem unix_seps_covered : SepsCovered unix := by
  intro c h
  have : c = '/' := by simpa [isSep_unix] using h
  subst this; decide

theorem windows_seps_covered : SepsCovered windows := by
  intro c h
  have : c = '\\' ∨ c = '/' := by simpa [Plat.isSep, windows] using h
  rcases this with rfl | rfl <;> decide

/-- on a platform whose separators are covered, a piece of the split that passes the filter
    contains no separator at all -/
theorem noSep_of_good (pl : Plat) (hcov : SepsCovered pl) (name s : Str)
    (hs : s ∈ splitOn MJ.Gen.c17SafeJoinSep name) (hg : badSeg s = false) : NoSep pl s := by
  intro c hc
  cases hsep : pl.isSep c with
  | false => rfl
  | true =>
    exfalso
    rcases hcov c hsep with rfl | hm
    · exact sep_not_mem_of_mem_splitOn _ name s hs hc
    · have : badSeg s = true := by
        simp only [badSeg, Bool.or_eq_true, List.any_eq_true]
        exact Or.inl (Or.inr ⟨c, hm, by simpa using hc⟩)
      rw [this] at hg; exact absurd hg (by decide)

/-- a name in the strict sense on the platform `pl`: not empty, not `.`, not `..`, not hidden, free
    of every separator of the platform, no drive prefix -/
def PlainNameP (pl : Plat) (s : Str) : Prop :=
  s ≠ [] ∧ s ≠ ['.'] ∧ s ≠ dotdot ∧ s.head? ≠ some '.' ∧ NoSep pl s ∧ driveLen pl s = 0

/-- **What is pushed is what was checked**, on every platform.  Whenever `safe_join` answers a path:
    * the filter looked at every piece of `name.split('/')`, in order, and passed each
      (`tr.checked`);
    * the arguments handed to `PathBuf::push` are exactly those pieces (`tr.pushed = tr.checked`);
    * the components of the result — the result split on EVERY separator of the platform, so a
      separator hidden inside a pushed argument would show up as extra components — are the
      base's components followed by the non-empty checked pieces, one component each;
    * each of them is a plain name on the platform; the drive prefix, the root and the literal
      text of the base are kept (no push replaced the base).
    Hypotheses: the platform's separators are the split character or rejected by the filter
    (`SepsCovered`, proved for Unix and Windows from the regenerated rules), and no piece has a
    drive prefix (vacuous on Unix; on Windows this is NOT established by the filter, see
    `windows_drive_segment_replaces_base`). -/
theorem checked_segments_are_pushed_components (pl : Plat) (hwf : pl.WF) (hcov : SepsCovered pl)
    (base name p : Str) (tr : Trace) (h : safeJoinTr pl base name = some (p, tr))
    (hdrive : ∀ s ∈ splitOn '/' name, driveLen pl s = 0) :
    tr.checked = splitOn '/' name ∧ tr.pushed = tr.checked ∧
    compsP pl p = compsP pl base ++ nameSegs name ∧
    (∀ s ∈ nameSegs name, PlainNameP pl s) ∧
    driveLen pl p = driveLen pl base ∧ hasRoot pl p = hasRoot pl base ∧ base <+: p := by
  unfold safeJoinTr at h
  have hplain : ∀ s ∈ splitOn MJ.Gen.c17SafeJoinSep name, badSeg s = false → PlainArg pl s ∧ s ≠ ['.'] :=
    fun s hs hg => ⟨⟨noSep_of_good pl hcov name s hs hg, hdrive s (by rw [← sep_eq]; exact hs)⟩, not_dot_of_good hg⟩
  obtain ⟨h1, h2, h3, h4, h5, h6, h7⟩ := joinLoopG_same pl hwf badSeg base _ _ hplain p tr h
  simp only [List.nil_append] at h2 h3
  rw [sep_eq] at h1 h2 h3 h4 hplain
  refine ⟨h2, by rw [h3, h2], h4, ?_, h5, h6, h7⟩
  intro s hs
  simp only [nameSegs, List.mem_filter, bne_iff_ne, ne_eq] at hs
  obtain ⟨hm, hne⟩ := hs
  have hg := h1 s hm
  exact ⟨hne, not_dot_of_good hg, not_dotdot_of_good hg, (badSeg_false_imp s hg).1,
    (hplain s hm hg).1.1, (hplain s hm hg).1.2⟩

/-- a base with a drive and a root, a name with an empty and a dotted piece -/
example : safeJoinTr windows "C:\\srv\\t".toList "a//b.txt".toList
    = some ("C:\\srv\\t\\a\\b.txt".toList,
        ⟨["a".toList, [], "b.txt".toList], ["a".toList, [], "b.txt".toList]⟩) := by decide
example : compsP windows "C:\\srv\\t\\a\\b.txt".toList = ["srv".toList, "t".toList, "a".toList, "b.txt".toList] := by decide
/-- separators inside a pushed argument create several components on the platform … -/
example : compsP windows (pushP windows "t".toList "x\\..\\..\\y".toList)
    = ["t".toList, "x".toList, dotdot, dotdot, "y".toList] := by decide
/-- … and none on a platform where the character is not a separator -/
example : compsP unix (pushP unix "t".toList "x\\..\\..\\y".toList) = ["t".toList, "x\\..\\..\\y".toList] := by decide
/-- a bare drive gets no separator; a rooted argument keeps only the drive; an argument with a
    drive replaces everything -/
example : pushP windows "C:".toList "x".toList = "C:x".toList := by decide
example : pushP windows "C:\\a".toList "\\w".toList = "C:\\w".toList := by decide
example : pushP windows "C:\\a".toList "D:w".toList = "D:w".toList := by decide

/-- the seeded change C17-5 as an instance of the generic loop (filter without the backslash
    rule, the `\`-pieces of a checked segment pushed one by one): on Windows — and on Unix, where
    `push` of `..` simply appends it — the components are NOT the checked segments -/
example : (joinLoopG unix (fun s => s.head? == some '.') (splitOn '\\') "t".toList ⟨[], []⟩
      (splitOn '/' "a\\..\\..\\x".toList)).map (fun r => (compsP unix r.1, r.2.checked))
    = some (["t".toList, "a".toList, dotdot, dotdot, "x".toList], ["a\\..\\..\\x".toList]) := by decide

/-- Unix: no hypothesis is left -/
theorem unix_checked_are_pushed (base name p : Str) (tr : Trace)
    (h : safeJoinTr unix base name = some (p, tr)) :
    tr.checked = splitOn '/' name ∧ tr.pushed = tr.checked ∧
    compsP unix p = compsP unix base ++ nameSegs name ∧ (∀ s ∈ nameSegs name, PlainNameP unix s) ∧
    driveLen unix p = driveLen unix base ∧ hasRoot unix p = hasRoot unix base ∧ base <+: p :=
  checked_segments_are_pushed_components unix unix_wf unix_seps_covered base name p tr h
    (fun s _ => driveLen_nodrives unix rfl s)

example : safeJoinTr unix "/srv/t".toList "a//b.txt".toList
    = some ("/srv/t/a/b.txt".toList, ⟨["a".toList, [], "b.txt".toList], ["a".toList, [], "b.txt".toList]⟩) := by decide

/-- the Unix instance of the generic model IS the model that is compared with the real code byte
    for byte (`safeJoin`, `push`, `comps`) -/
theorem unix_instance_is_checked_model (base name p seg : Str) :
    safeJoinP unix base name = safeJoin base name ∧ pushP unix p seg = push p seg ∧
    compsP unix p = comps p :=
  ⟨by simp only [safeJoinP, safeJoinTr, safeJoin]; exact joinLoopG_unix _ _ _, pushP_unix p seg, compsP_unix p⟩

example : safeJoinP unix "/srv/t".toList "a//b.txt".toList = some "/srv/t/a/b.txt".toList := by decide

/-- Windows: what is pushed is what was checked as long as no piece of the name starts with a
    drive (`X:`) -/
theorem windows_checked_are_pushed (base name p : Str) (tr : Trace)
    (h : safeJoinTr windows base name = some (p, tr))
    (hdrive : ∀ s ∈ splitOn '/' name, startsWithDrive s = false) :
    tr.checked = splitOn '/' name ∧ tr.pushed = tr.checked ∧
    compsP windows p = compsP windows base ++ nameSegs name ∧ (∀ s ∈ nameSegs name, PlainNameP windows s) ∧
    driveLen windows p = driveLen windows base ∧ hasRoot windows p = hasRoot windows base ∧ base <+: p :=
  checked_segments_are_pushed_components windows windows_wf windows_seps_covered base name p tr h
    (fun s hs => by simp [driveLen, hdrive s hs])

example : ∀ s ∈ splitOn '/' "a//b.txt".toList, startsWithDrive s = false := by decide

/-- confinement of a joined path on the platform `pl` -/
def ConfinedP (pl : Plat) (base name p : Str) : Prop :=
  driveLen pl p = driveLen pl base ∧ hasRoot pl p = hasRoot pl base ∧ base <+: p ∧
  compsP pl p = compsP pl base ++ nameSegs name ∧ (∀ s ∈ nameSegs name, PlainNameP pl s) ∧
  normalize (hasRoot pl p) (compsP pl p) = normalize (hasRoot pl base) (compsP pl base) ++ nameSegs name ∧
  ∀ (fs : FS) (start e : fs.Node), walk fs start (compsP pl p) = some e →
    ∃ b, walk fs start (compsP pl base) = some b ∧ Below fs b e

/-- the full statement on a platform: whatever `safe_join` answers is confined -/
def C17_full_on (pl : Plat) : Prop := ∀ base name p, safeJoinP pl base name = some p → ConfinedP pl base name p

/-- … with the excluded region as a decidable hypothesis -/
def C17_partial_on (pl : Plat) : Prop :=
  ∀ base name p, (∀ s ∈ splitOn '/' name, driveLen pl s = 0) → safeJoinP pl base name = some p → ConfinedP pl base name p

theorem confined_on (pl : Plat) (hwf : pl.WF) (hcov : SepsCovered pl) : C17_partial_on pl := by
  intro base name p hdrive h
  unfold safeJoinP at h
  cases ht : safeJoinTr pl base name with
  | none => simp [ht] at h
  | some r =>
    obtain ⟨q, tr⟩ := r
    simp only [ht, Option.map_some, Option.some.injEq] at h
    subst h
    obtain ⟨_, _, h3, h4, h5, h6, h7⟩ :=
      checked_segments_are_pushed_components pl hwf hcov base name q tr ht hdrive
    have hpl : ∀ s ∈ nameSegs name, plain s := fun s hs => ⟨(h4 s hs).1, (h4 s hs).2.1, (h4 s hs).2.2.1⟩
    refine ⟨h5, h6, h7, h3, h4, ?_, ?_⟩
    · rw [h3, h6, normalize_append]
      exact normalizeFrom_plain _ _ _ hpl
    · intro fs start e hw
      rw [h3, walk_append] at hw
      cases hb : walk fs start (compsP pl base) with
      | none => simp [hb] at hw
      | some b =>
        refine ⟨b, rfl, ?_⟩
        simp only [hb, Option.bind_some] at hw
        exact walk_plain_below fs b e _ hpl hw

/-- Unix: the full statement -/
theorem safe_join_confined_unix : C17_full_on unix :=
  fun base name p h => confined_on unix unix_wf unix_seps_covered base name p
    (fun s _ => driveLen_nodrives unix rfl s) h

example : ConfinedP unix "../t/".toList "x//y.html".toList "../t/x/y.html".toList :=
  safe_join_confined_unix _ _ _ (by decide)

/-- Windows: confined as long as no piece of the name starts with a drive -/
theorem safe_join_confined_windows_partial : C17_partial_on windows :=
  confined_on windows windows_wf windows_seps_covered

example : ConfinedP windows "C:\\srv\\t".toList "a//b.txt".toList "C:\\srv\\t\\a\\b.txt".toList :=
  safe_join_confined_windows_partial _ _ _ (by decide) (by decide)

/-- **Windows: the filter lets a drive prefix through, and `push` of an argument with a prefix
    replaces the base.**  `safe_join("templates", "C:secret.txt")` is `C:secret.txt` (the file
    `secret.txt` in the current directory of drive `C:`), `safe_join("C:\\srv\\t", "D:x/y")` is
    `D:x\\y`: the base is gone.  (Model of std's Windows `_push`/`parse_drive`; cannot be run
    against the real code on this platform.) -/
theorem windows_drive_segment_replaces_base :
    safeJoinP windows "templates".toList "C:secret.txt".toList = some "C:secret.txt".toList ∧
    compsP windows "C:secret.txt".toList = ["secret.txt".toList] ∧
    safeJoinP windows "C:\\srv\\t".toList "D:x/y".toList = some "D:x\\y".toList ∧
    (safeJoinTr windows "templates".toList "C:secret.txt".toList).map (·.2.pushed) = some ["C:secret.txt".toList] := by
  decide

/-- hence the full statement is false on Windows for the code as it is -/
theorem C17_windows_counterexample : ¬ C17_full_on windows := by
  intro h
  have := (h "templates".toList "C:secret.txt".toList "C:secret.txt".toList (by decide)).2.2.1
  revert this
  decide

/-! ### fallbacks done through `safe_join` stay confined -/

/-- any loader that tries candidate NAMES (the name, the name with a suffix, …) and sends each
    through `safe_join` returns only content found at a path confined to the base — the shape a
    `.j2`/index/alias fallback must have (the seeded changes C17-2 and C17-4 built their candidate
    PATHS from the joined path's ancestors / from the unfiltered name instead) -/
theorem candidate_loader_found_confined (l : LoaderG) (fs : Snapshot) (name s : Str)
    (h : l.load fs name = .found s) :
    ∃ t ∈ l.cands, ∃ p, safeJoin l.base (t name) = some p ∧ fs p = .content s ∧ Confined l.base (t name) p := by
  obtain ⟨t, ht, p, hp, hf⟩ := loadCands_found h
  exact ⟨t, ht, p, hp, hf, (safe_join_confined l.base (t name)).2 p hp⟩

example : (LoaderG.mk "b".toList [id, fun n => n ++ ".j2".toList]).load
      (oneFile "b/x.j2".toList "inside".toList) "x".toList = .found "inside".toList := by decide

/-- every path such a loader may hand to the file system is confined -/
theorem candidate_loader_reads_confined (l : LoaderG) (name p : Str) (h : p ∈ l.reads name) :
    ∃ t ∈ l.cands, Confined l.base (t name) p := by
  simp only [LoaderG.reads, List.mem_filterMap] at h
  obtain ⟨t, ht, hp⟩ := h
  exact ⟨t, ht, (safe_join_confined l.base (t name)).2 p hp⟩

example : (LoaderG.mk "b".toList [id, fun n => n ++ ".j2".toList]).reads "a/x".toList
    = ["b/a/x".toList, "b/a/x.j2".toList] := by decide
example : (LoaderG.mk "b".toList [id, fun n => n ++ ".j2".toList]).reads "../x".toList = [] := by decide

/-- `path_loader` is the instance with the single candidate "the name itself" -/
theorem path_loader_is_single_candidate (fs0 fs : Snapshot) (dir name : Str) :
    (LoaderG.mk dir [id]).load fs name = (pathLoader fs0 dir).load fs name ∧
    (LoaderG.mk dir [id]).reads name = (pathLoader fs0 dir).reads name := by
  constructor
  · simp only [LoaderG.load, loadCands, id, Loader.load, pathLoader]
    cases safeJoin dir name with
    | none => rfl
    | some p => cases fs p <;> rfl
  · simp only [LoaderG.reads, Loader.reads, pathLoader, List.filterMap_cons, List.filterMap_nil, id]
    cases safeJoin dir name <;> rfl

/-- a `.j2` fallback done right: the canary next to the base is not served, the file beneath is -/
example : (LoaderG.mk "b".toList [id, fun n => n ++ ".j2".toList]).load
      (oneFile "b/x.j2".toList "inside".toList) "x".toList = .found "inside".toList := by decide
example : (LoaderG.mk "b".toList [id, fun n => n ++ ".j2".toList]).load
      (oneFile "/etc/x.j2".toList "canary".toList) "/etc/x".toList = .missing := by decide

/-! ### the shape of `safe_join`'s loop (table regenerated by `lib/tables/c17.py`) -/

/-- spellings of "an owned copy of the base" -/
def loopInits : List (List String) :=
  [["letmutrv=base.to_path_buf()"], ["letmutrv=PathBuf::from(base)"], ["letmutrv=base.to_owned()"],
   ["letmutrv=base.into()"]]

/-- spellings of "push the loop variable" -/
def loopPushes (var : String) : List (List String) :=
  [["rv.push(" ++ var ++ ")"], ["rv=rv.join(" ++ var ++ ")"], ["rv.push(Path::new(" ++ var ++ "))"]]

/-- `safe_join` in the source has the shape `joinLoopG … badSeg useSame` models: `rv` starts as a
    copy of the base; ONE split of the template name (on the extracted separator) is iterated; the
    filter's atoms all look at the loop variable; after the filter the loop body is ONE statement
    that pushes the loop variable itself — the same variable the filter looked at, mentioned once;
    the name and the base are mentioned nowhere else; the result is `Some(rv)`.  (The rules
    extractor already insists on one `split`, one `if`, one `return None`.) -/
theorem safe_join_loop_shape :
    MJ.Gen.c17LoopInit ∈ loopInits ∧
    MJ.Gen.c17LoopIter = "template.split('" ++ String.singleton MJ.Gen.c17SafeJoinSep ++ "')" ∧
    MJ.Gen.c17LoopFilterSubjects = [MJ.Gen.c17LoopVar] ∧
    MJ.Gen.c17LoopAfterFilter ∈ loopPushes MJ.Gen.c17LoopVar ∧
    MJ.Gen.c17LoopVarUsesAfterFilter = 1 ∧
    MJ.Gen.c17LoopTail = "Some(rv)" ∧
    MJ.Gen.c17SafeJoinTemplateUses = 1 ∧ MJ.Gen.c17SafeJoinBaseUses = 1 := by decide

example : MJ.Gen.c17LoopVar ≠ "" ∧ MJ.Gen.c17LoopAfterFilter ≠ [] := by decide

/-- the functions of the engine, of minijinja-contrib and of minijinja-autoreload that mention the
    file system or build a path (tests, verification hooks and the build-time embed crate aside):
    `safe_join` and `path_loader` (modelled above) and the autoreloader's `watch_path` /
    `unwatch_path`, which hand a path given by the HOST to the change notifier and never read a
    file or see a template name.  A new fallback, canonicalisation or loader shows up here. -/
def modelledPathProducers : List (String × String) :=
  [("minijinja/loader.rs", "safe_join"), ("minijinja/loader.rs", "path_loader"),
   ("minijinja-autoreload/lib.rs", "watch_path"), ("minijinja-autoreload/lib.rs", "unwatch_path")]

theorem path_producers_as_modelled :
    (∀ s ∈ MJ.Gen.c17PathProducers, s ∈ modelledPathProducers) ∧
    ("minijinja/loader.rs", "safe_join") ∈ MJ.Gen.c17PathProducers ∧
    ("minijinja/loader.rs", "path_loader") ∈ MJ.Gen.c17PathProducers := by decide

example : MJ.Gen.c17PathProducers.length ≥ 2 := by decide


/-- what a function that touches paths does with them -/
inductive PathRole where
  /-- computes a path from (base, template name); no file-system access -/
  | buildsPath
  /-- hands a path to the file system and returns what it read -/
  | readsFile
  /-- registers a path given by the HOST with the change notifier: it never sees a template name,
      reads no file and returns no content -/
  | watchesHostPath
  deriving DecidableEq, Repr

/-- the classification of every path-touching function, with the reason -/
def pathProducerRoles : List ((String × String) × PathRole × String) :=
  [(("minijinja/loader.rs", "safe_join"), .buildsPath,
      "modelled (safeJoin); every path the loader reads comes from here"),
   (("minijinja/loader.rs", "path_loader"), .readsFile,
      "modelled (pathLoader / Loader.load); the only reader; reads exactly safe_join's answer (loader_model_matches_source)"),
   (("minijinja-autoreload/lib.rs", "watch_path"), .watchesHostPath,
      "the host's path goes to notify's Watcher::watch and nowhere else (C17_WATCH_ARGS); called by no code of the crates; a notification only triggers a reload, which goes through the loader again"),
   (("minijinja-autoreload/lib.rs", "unwatch_path"), .watchesHostPath,
      "the host's path goes to notify's Watcher::unwatch and nowhere else (C17_WATCH_ARGS)")]

/-- every path-touching function of the three crates has a role; exactly one of them reads files
    (`path_loader`); the watchers sit in minijinja-autoreload, and their `path` parameter is
    rebound once (`path.as_ref()`), handed to the notifier's `watch` / `unwatch` and mentioned
    nowhere else (3 mentions: parameter, rebinding, argument); minijinja-contrib has no such
    function at all. -/
theorem path_producers_classified :
    (MJ.Gen.c17PathProducers.all fun s => pathProducerRoles.any fun c => c.1 == s) = true ∧
    ((pathProducerRoles.filter fun c => c.2.1 == .readsFile).map (·.1)) = [("minijinja/loader.rs", "path_loader")] ∧
    ((pathProducerRoles.filter fun c => c.2.1 == .watchesHostPath).all fun c => c.1.1 == "minijinja-autoreload/lib.rs") = true ∧
    (MJ.Gen.c17PathProducers.all fun s => !("minijinja-contrib".toList.isPrefixOf s.1.toList)) = true ∧
    MJ.Gen.c17WatchArgs = [("watch_path", "path.as_ref()", "watcher.watch(path,mode)", 3),
                           ("unwatch_path", "path.as_ref()", "watcher.unwatch(path)", 3)] := by decide

example : pathProducerRoles.length = 4 := by decide

/-! ### the engine's routes: every call of the loader passes through `safe_join` -/

/-- rows of the regenerated flow table (`C17_NAME_FLOW`): file, function, call, argument text -/
def rowEnvGet : String × String × String × String :=
  ("environment.rs", "get_template", "self.templates.get", "name")
def rowCallback : String × String × String × String :=
  ("environment.rs", "join_template_path", "cb", "name,parent")
def rowStoreCallsLoader : String × String × String × String :=
  ("loader.rs", "get", "loader", "&name where name=name.into()")
def rowIncludeCallsState : String × String × String × String :=
  ("vm/mod.rs", "perform_include", "state.get_template", "name where name=ok!(choice.as_str()")
def rowExtendsJoins : String × String × String × String :=
  ("vm/mod.rs", "load_blocks", "state.env().join_template_path", "name,state.name()")
def rowExtendsGets : String × String × String × String :=
  ("vm/mod.rs", "load_blocks", "state.env().get_template",
   "&joined where joined=state.env().join_template_path(name,state.name())")
def rowStateGets : String × String × String × String :=
  ("vm/state.rs", "get_template", "self.env().get_template", "&self.env().join_template_path(name,self.name())")
def rowStateJoins : String × String × String × String :=
  ("vm/state.rs", "get_template", "self.env().join_template_path", "name,self.name()")

/-- the calls a name passes on its way from an entry to the store, in the source's terms -/
def flowRows : Entry → List (String × String × String × String)
  | .envGetTemplate => [rowEnvGet]
  | .stateGetTemplate => [rowStateJoins, rowStateGets, rowEnvGet]
  | .includeStmt => [rowIncludeCallsState, rowStateJoins, rowStateGets, rowEnvGet]
  | .importStmt => [rowIncludeCallsState, rowStateJoins, rowStateGets, rowEnvGet]
  | .fromImportStmt => [rowIncludeCallsState, rowStateJoins, rowStateGets, rowEnvGet]
  | .extendsStmt => [rowExtendsJoins, rowExtendsGets, rowEnvGet]

def allEntries : List Entry :=
  [.envGetTemplate, .stateGetTemplate, .includeStmt, .importStmt, .fromImportStmt, .extendsStmt]

/-- statement → instruction → fetching function, as `Entry` has it -/
def stmtRoute : Entry → List (String × String × String)
  | .includeStmt => [("codegen", "Stmt::Include", "Include"), ("vm", "Instruction::Include", "perform_include")]
  | .importStmt => [("codegen", "Stmt::Import", "Include"), ("vm", "Instruction::Include", "perform_include")]
  | .fromImportStmt => [("codegen", "Stmt::FromImport", "Include"), ("vm", "Instruction::Include", "perform_include")]
  | .extendsStmt => [("codegen", "Stmt::Extends", "LoadBlocks"), ("vm", "Instruction::LoadBlocks", "load_blocks")]
  | _ => []

/-- **The routes of the model are the routes of the source** (tables `C17_NAME_FLOW`,
    `C17_STMT_ROUTES`, regenerated on every run):
    * every call in the engine by which a template name travels towards the loader — with its
      receiver and its ARGUMENT TEXT — is a row of some `Entry`'s route, the one call of the loader
      closure (`LoaderStore::get`, with the name the store was asked for) or the one call of the
      path-join callback; and every such row exists in the source;
    * on every route the last call is `Environment::get_template(name)` → `templates.get(name)`;
    * a route contains a `join_template_path` call exactly when the model says the name is joined
      (`Entry.joins`), and the joined result — nothing else — is what is fetched;
    * include / import / from-import compile to `Include` → `perform_include`, extends to
      `LoadBlocks` → `load_blocks`, and these two functions are called nowhere else. -/
theorem name_flow_as_modelled :
    (MJ.Gen.c17NameFlow.all fun r => r == rowStoreCallsLoader || r == rowCallback ||
      allEntries.any fun e => (flowRows e).contains r) = true ∧
    (allEntries.all fun e => (flowRows e).all fun r => MJ.Gen.c17NameFlow.contains r) = true ∧
    MJ.Gen.c17NameFlow.contains rowStoreCallsLoader = true ∧ MJ.Gen.c17NameFlow.contains rowCallback = true ∧
    (MJ.Gen.c17NameFlow.filter fun r => r.2.2.1 == "loader").length = 1 ∧
    (allEntries.all fun e => (flowRows e).getLast? == some rowEnvGet) = true ∧
    (allEntries.all fun e => e.joins == ((flowRows e).any fun r => r == rowStateJoins || r == rowExtendsJoins)) = true ∧
    (allEntries.all fun e => (stmtRoute e).all fun r => MJ.Gen.c17StmtRoutes.contains r) = true ∧
    (MJ.Gen.c17StmtRoutes.all fun r => allEntries.any fun e => (stmtRoute e).contains r) = true ∧
    MJ.Gen.c17FetchFnCalls = 2 := by decide

/-- `allEntries` lists every constructor of `Entry` -/
theorem allEntries_complete (e : Entry) : e ∈ allEntries := by cases e <;> decide

example : MJ.Gen.c17NameFlow.length ≥ 8 ∧ MJ.Gen.c17StmtRoutes.length ≥ 6 := by decide

/-- `LoaderStore::get` in the source has the shape `Env.get` models: the name is looked up among the
    registered templates, then in the memo map under the SAME name (`name.into()`); on a miss the
    loader closure is called with that name, and what it returned (`loader_result`) — nothing
    else — is compiled and stored under that name.  (Table `C17_STORE_GET`: every call in `get`
    whose arguments mention the name or the loader's result.) -/
theorem store_get_as_modelled :
    MJ.Gen.c17StoreGetCalls =
      [("self.borrowed_templates.get", "name"), (".get_or_try_insert", "&name.clone()"), ("loader", "&name"),
       ("Error::new_not_found", "&name"), ("self.make_owned_template", "name,ok!(loader_result)")] ∧
    MJ.Gen.c17StoreGetNameBindings = ["name.into()"] := by decide

example : MJ.Gen.c17StoreGetCalls.length = 5 := by decide

/-- **Every call of the loader passes through `safe_join`.**  Whatever the entry point
    (`Environment::get_template`, `State::get_template`, include, import, from-import, extends, a
    list of include choices), whatever the path-join callback of the host answers (ANY function of
    the two names — `g.cb` is arbitrary), whatever the store already holds and whatever the file
    system looks like: every path handed to the file system while the request is served is
    `safe_join(configured base, n)` for a name `n` the store was asked for by that request, and
    is confined to the configured base. -/
theorem every_loader_call_passes_through_safe_join (g : Engine) (fs : Snapshot) (r : Req) (p : Str)
    (hp : p ∈ g.fsReads fs r) :
    ∃ n ∈ g.storeNames r, n ∈ g.loaderCalls fs r ∧ safeJoin g.env.loader.base n = some p ∧
      Confined g.env.loader.base n p := by
  simp only [Engine.fsReads, List.mem_flatMap] at hp
  obtain ⟨n, hn, hr⟩ := hp
  unfold Loader.reads at hr
  cases hj : safeJoin g.env.loader.base n with
  | none => simp [hj] at hr
  | some q =>
    simp only [hj, List.mem_singleton] at hr
    subst hr
    exact ⟨n, loaderCalls_sub_storeNames g fs r n hn, hn, hj, (safe_join_confined _ n).2 _ hj⟩

/-- a callback that answers a climbing name, an include list whose first choice is missing -/
example : (Engine.new "b".toList (some fun _ _ => "../../etc/passwd".toList)).fsReads emptyDisk
    (.one .includeStmt "x".toList "p".toList) = [] := by decide
example : (Engine.new "b".toList none).fsReads emptyDisk (.choices ["x".toList, "../y".toList, "z".toList] "p".toList)
    = ["b/x".toList, "b/z".toList] := by decide
example : (Engine.new "b".toList (some docJoin)).fsReads emptyDisk (.one .extendsStmt "../l.html".toList "a/c/p.html".toList)
    = ["b/a/l.html".toList] := by decide
example : (Engine.new "b".toList (some docJoin)).fsReads emptyDisk (.one .envGetTemplate "../l.html".toList "a/c/p.html".toList)
    = [] := by decide

/-- **Over any history of requests and file systems**, through any entry point and with any
    callback: every source the engine ever answers is what some snapshot of the history held at
    `safe_join(configured base, n)`, `n` one of the names that request asked the store for —
    a path confined to the configured base. -/
theorem engine_history_confined (dir : Str) (cb : Option JoinCb) (h : List (Snapshot × Req)) (s : Str)
    (hs : LoadResult.found s ∈ (Engine.new dir cb).run h) :
    ∃ x ∈ h, ∃ n ∈ (Engine.new dir cb).storeNames x.2, ∃ y ∈ h, ∃ p,
      safeJoin dir n = some p ∧ y.1 p = .content s ∧ Confined dir n p := by
  obtain ⟨h1, _⟩ := run_sourced dir (h.map (·.1)) h (Engine.new dir cb)
    (fun x hx => List.mem_map.2 ⟨x, hx, rfl⟩) rfl (fun n s hm => by simp [Engine.new] at hm)
  obtain ⟨x, hx, n, hn, fs, hfs, p, hp, hf⟩ := h1 s hs
  obtain ⟨y, hy, rfl⟩ := List.mem_map.1 hfs
  exact ⟨x, hx, n, hn, y, hy, p, hp, hf, (safe_join_confined dir n).2 p hp⟩

/-- … and everything `Environment::templates()` lists after any such history is a source some
    snapshot of the history held at `safe_join(configured base, its name)` -/
theorem engine_templates_confined (dir : Str) (cb : Option JoinCb) (h : List (Snapshot × Req)) (n s : Str)
    (hm : (n, s) ∈ ((Engine.new dir cb).after h).env.templates) :
    ∃ y ∈ h, ∃ p, safeJoin dir n = some p ∧ y.1 p = .content s ∧ Confined dir n p := by
  obtain ⟨_, h2⟩ := run_sourced dir (h.map (·.1)) h (Engine.new dir cb)
    (fun x hx => List.mem_map.2 ⟨x, hx, rfl⟩) rfl (fun n s hm => by simp [Engine.new] at hm)
  obtain ⟨fs, hfs, p, hp, hf⟩ := h2.store n s hm
  obtain ⟨y, hy, rfl⟩ := List.mem_map.1 hfs
  exact ⟨y, hy, p, hp, hf, (safe_join_confined dir n).2 p hp⟩

example : ((Engine.new "b".toList none).after
      [(oneFile "b/x".toList "inside".toList, .one .importStmt "x".toList "p".toList),
       (emptyDisk, .one .envGetTemplate "y".toList [])]).env.templates = [("x".toList, "inside".toList)] := by decide

/-- the second request is answered from the store although the file is gone; the callback's
    climbing answer finds nothing -/
example : (Engine.new "b".toList none).run
      [(oneFile "b/x".toList "inside".toList, .one .importStmt "x".toList "p".toList),
       (oneFile "x".toList "canary".toList, .choices ["y".toList, "x".toList] "p".toList)]
    = [.found "inside".toList, .found "inside".toList] := by decide
example : (Engine.new "b".toList (some fun n _ => "../".toList ++ n)).run
      [(oneFile "b/../x".toList "canary".toList, .one .includeStmt "x".toList "p".toList)]
    = [.missing] := by decide

/-! ### the property's own statement -/

/-- the world at one moment: a directory tree without symbolic links (the property sets them
    aside), the root, the working directory, and what reading each node gives -/
structure World where
  fs : FS
  root : fs.Node
  cwd : fs.Node
  file : fs.Node → ReadResult

/-- where the resolution of a path string starts -/
def World.start (w : World) (p : Str) : w.fs.Node := if isAbs p then w.root else w.cwd

/-- `fs::read_to_string(p)` in that world: the path is resolved component by component -/
def World.snapshot (w : World) : Snapshot := fun p =>
  match walk w.fs (w.start p) (comps p) with
  | none => .notFound
  | some e => w.file e

/-- `s` is the content of a file that lies in the directory the configured base designates in
    that world, or beneath it -/
def World.BeneathBase (w : World) (dir s : Str) : Prop :=
  ∃ b e, walk w.fs (w.start dir) (comps dir) = some b ∧ Below w.fs b e ∧ w.file e = .content s

/-- **C17, as the property states it.**  For every configured base, every path-join callback,
    every history of requests — by the host (`Environment::get_template`, `State::get_template`)
    or computed inside a template (include, a list of include choices, import, from-import,
    extends), with ANY template name — while the world (directory tree, working directory, file
    contents) changes arbitrarily between the requests: whatever source the engine answers is
    the content of a file located in or beneath the directory the configured base designated in
    one of the worlds of the history.  Every other answer is "missing" or "unreadable"
    (`LoadResult` has no fourth case). -/
def C17_full : Prop :=
  ∀ (dir : Str) (cb : Option JoinCb) (h : List (World × Req)) (s : Str),
    LoadResult.found s ∈ (Engine.new dir cb).run (h.map fun x => (x.1.snapshot, x.2)) →
    ∃ x ∈ h, x.1.BeneathBase dir s

theorem world_read_confined (w : World) (dir n p s : Str) (hc : Confined dir n p)
    (hr : w.snapshot p = .content s) : w.BeneathBase dir s := by
  unfold World.snapshot at hr
  cases hw : walk w.fs (w.start p) (comps p) with
  | none => simp [hw] at hr
  | some e =>
    simp only [hw] at hr
    have hstart : w.start p = w.start dir := by simp only [World.start, hc.1]
    rw [hstart] at hw
    obtain ⟨b, hb, hbel⟩ := hc.2.2.2.2.2 w.fs (w.start dir) e hw
    exact ⟨b, e, hb, hbel, hr⟩

theorem C17_model : C17_full := by
  intro dir cb h s hs
  obtain ⟨_, _, n, _, y, hy, p, _, hf, hc⟩ := engine_history_confined dir cb _ s hs
  obtain ⟨x, hx, rfl⟩ := List.mem_map.1 hy
  exact ⟨x, hx, world_read_confined x.1 dir n p s hc hf⟩

/-- a world over the free tree with one file -/
def oneFileWorld (cwd at_ : List Str) (content : Str) : World :=
  { fs := freeFS, root := [], cwd := cwd, file := fun e => if e = at_ then .content content else .notFound }

example : (Engine.new "b".toList none).run
      [((oneFileWorld ["w".toList] ["w".toList, "b".toList, "x".toList] "inside".toList).snapshot,
        .one .includeStmt "x".toList "p".toList)] = [.found "inside".toList] := by decide
example : (oneFileWorld ["w".toList] ["w".toList, "b".toList, "x".toList] "inside".toList).BeneathBase
    "b".toList "inside".toList := by
  obtain ⟨x, hx, hb⟩ := C17_model "b".toList none
    [(oneFileWorld ["w".toList] ["w".toList, "b".toList, "x".toList] "inside".toList, .one .includeStmt "x".toList "p".toList)]
    "inside".toList (by decide)
  simp only [List.mem_singleton] at hx
  subst hx
  exact hb

/-! ### from the model to the code: the gap, by name -/

/-- the real engine's template fetching as a black box: some state, how it is set up from a
    base directory and a callback, and what a request answers -/
structure Impl where
  St : Type
  init : Str → Option JoinCb → St
  serve : St → Snapshot → Req → LoadResult × St

def Impl.run (I : Impl) (st : I.St) : List (Snapshot × Req) → List LoadResult
  | [] => []
  | (fs, r) :: rest => (I.serve st fs r).1 :: I.run (I.serve st fs r).2 rest

/-- GAP 1 — **the code answers as the model does**: there is a reading of the code's state as a
    model `Engine` (configured base, store, callback) under which set-up and every request agree.
    NOT proved about the Rust code.  Tied by regenerated tables: the segment rules
    (`safe_join_rules_from_source`), the loop's shape (`safe_join_loop_shape`), `path_loader`'s
    shape (`loader_model_matches_source`), the routes (`name_flow_as_modelled`,
    `entry_sites_covered`), no other file-system code (`path_producers_as_modelled`).  Validated
    by the correspondence streams (`sj`, `ld`, `lc`, `tl`, `rt`, `tr`). -/
def AnswersAsModel (I : Impl) : Prop :=
  ∃ abs : I.St → Engine, (∀ dir cb, abs (I.init dir cb) = Engine.new dir cb) ∧
    ∀ st fs r, (I.serve st fs r).1 = ((abs st).serve fs r).1 ∧
      abs (I.serve st fs r).2 = ((abs st).serve fs r).2

/-- GAP 2 — **the operating system resolves a path component by component on a tree**: the
    file-system answers of the history are those of worlds without symbolic links
    (`World.snapshot`; Unix flavour: `comps`, `isAbs` — the transcription of std's
    `Path::components` validated byte for byte by the `comps`/`push` streams).  Validated on a
    real tree by the canary oracle and at system-call level (`tr` stream). -/
def OsWalksTree (h : List (Snapshot × Req)) (ws : List (World × Req)) : Prop :=
  h = ws.map fun x => (x.1.snapshot, x.2)

theorem impl_run_eq (I : Impl) (abs : I.St → Engine)
    (hstep : ∀ st fs r, (I.serve st fs r).1 = ((abs st).serve fs r).1 ∧
      abs (I.serve st fs r).2 = ((abs st).serve fs r).2)
    (h : List (Snapshot × Req)) (st : I.St) : I.run st h = (abs st).run h := by
  induction h generalizing st with
  | nil => rfl
  | cons x rest ih =>
    obtain ⟨fs, r⟩ := x
    simp only [Impl.run, Engine.run]
    rw [(hstep st fs r).1, ih, (hstep st fs r).2]

/-- **C17_main**: for ANY implementation that answers as the model does (gap 1), on any history
    whose file-system answers are those of link-free worlds (gap 2), every source it answers is
    the content of a file in or beneath the directory its configured base designated in one of
    those worlds.  The two hypotheses are exactly what is not machine-checked about the code. -/
theorem C17_main (I : Impl) (gap1 : AnswersAsModel I)
    (dir : Str) (cb : Option JoinCb) (h : List (Snapshot × Req)) (ws : List (World × Req))
    (gap2 : OsWalksTree h ws) (s : Str) (hs : LoadResult.found s ∈ I.run (I.init dir cb) h) :
    ∃ x ∈ ws, x.1.BeneathBase dir s := by
  obtain ⟨abs, hinit, hstep⟩ := gap1
  rw [impl_run_eq I abs hstep, hinit, gap2] at hs
  exact C17_model dir cb ws s hs

/-- the model itself is an implementation that answers as the model does -/
def modelImpl : Impl := ⟨Engine, Engine.new, Engine.serve⟩
example : AnswersAsModel modelImpl := ⟨id, fun _ _ => rfl, fun _ _ _ => ⟨rfl, rfl⟩⟩
/-- … and one that serves the unfiltered name does not (the hypothesis is not vacuous) -/
example : ¬ AnswersAsModel ⟨Unit, fun _ _ => (), fun _ fs r =>
    (match r with | .one _ n _ => (match fs n with | .content s => .found s | _ => .missing) | _ => .missing, ())⟩ := by
  intro ⟨abs, hinit, hstep⟩
  have h := (hstep () (oneFile "../x".toList "canary".toList) (.one .envGetTemplate "../x".toList [])).1
  have hi := hinit "b".toList none
  simp only at hi
  rw [hi] at h
  revert h
  decide

end MJ.C17
