import MJ.Proofs.SliceFwd
import MJ.Proofs.PySliceSpec
import MJ.Proofs.SubGlue
/-!
# C09 — subscripts and slices follow Python's rules for every bound and step

Property theorems only (helper lemmas live in `MJ/Proofs/Slice*.lean`).

* `Slice.slice` is the model of `ops::slice` (including every checked arithmetic operation, so a
  Rust panic is the distinguished result `Chk.panic`);
* `PySlice.indices` is the transcription of CPython's `PySlice_AdjustIndices`;
* `pick xs is` selects the elements of `xs` at the positions `is`, in that order.
-/
namespace MJ.C09
open MJ Chk Slice

/-- Full-strength statement: for every element type, every list shorter than 2^63 (Rust's
    `isize::MAX` bound on any allocation) and all `start/stop/step` that fit `i64` (anything else
    is rejected by the `i64::try_from` conversion before slicing), the model of the Rust slice
    code returns exactly Python's selection, a zero step is the only error, and it never panics. -/
def C09_full : Prop :=
  ∀ (α : Type) (xs : List α) (start stop step : Option Int),
    OptInI64 start → OptInI64 stop → OptInI64 step → xs.length < 9223372036854775808 →
    slice xs start stop step =
      if step = some 0 then .ok .zeroStep
      else .ok (.ok (pick xs (PySlice.indices xs.length start stop (step.getD 1))))

theorem slice_eq_python : C09_full := by
  intro α xs start stop step hs he hp hl
  unfold slice
  by_cases h0 : step = some 0
  · subst h0; simp
  · rw [if_neg h0]
    have hne : step.getD 1 ≠ 0 := by
      cases step with
      | none => simp
      | some x => simpa using h0
    have hr : InI64 (step.getD 1) := by
      cases step with
      | none => simp [InI64]
      | some x => simpa [OptInI64] using hp
    generalize step.getD 1 = st at hne hr
    simp only [InI64] at hr
    simp only [hne, if_false]
    by_cases hpos : st > 0
    · simp only [hpos, if_true]
      obtain ⟨k, rfl⟩ : ∃ k : Nat, st = (k : Int) := ⟨st.toNat, by omega⟩
      have hk : 0 < k := by omega
      rw [offsetLen_ok start stop xs.length hs he hl]
      simp only []
      rw [asUsize_of_nonneg _ (by omega) (by omega), Int.toNat_natCast, (slice_fwd xs start stop k hs he hk hl).1]
    · simp only [hpos, if_false]
      obtain ⟨k, hk⟩ : ∃ k : Nat, st = -(k : Int) := ⟨st.natAbs, by omega⟩
      subst hk
      have hk : 0 < k := by omega
      obtain ⟨h1, h2⟩ := rangeStepBackwards_eq start stop k xs.length hs he hk hl
      rw [Int.natAbs_neg, Int.natAbs_natCast, h1]
      simp only []
      rw [mapM_index_ok xs _ h2]

/-- every position Python selects exists, so `pick` drops nothing: the result has exactly
    Python's length and its `j`-th element is the element at Python's `j`-th position. -/
theorem indices_in_bounds (len : Nat) (start stop : Option Int) (step : Int)
    (hs : OptInI64 start) (he : OptInI64 stop) (hp : InI64 step) (h0 : step ≠ 0)
    (hl : len < 9223372036854775808) :
    ∀ i ∈ PySlice.indices len start stop step, i < len := by
  simp only [InI64] at hp
  by_cases hpos : step > 0
  · obtain ⟨k, rfl⟩ : ∃ k : Nat, step = (k : Int) := ⟨step.toNat, by omega⟩
    have := (slice_fwd (List.replicate len ()) start stop k hs he (by omega) (by simpa using hl)).2
    simpa using this
  · obtain ⟨k, rfl⟩ : ∃ k : Nat, step = -(k : Int) := ⟨step.natAbs, by omega⟩
    exact (rangeStepBackwards_eq start stop k len hs he (by omega) hl).2

theorem slice_getElem? {α : Type} (xs : List α) (start stop : Option Int) (step : Int)
    (hs : OptInI64 start) (he : OptInI64 stop) (hp : InI64 step) (h0 : step ≠ 0)
    (hl : xs.length < 9223372036854775808) (j : Nat) :
    (pick xs (PySlice.indices xs.length start stop step))[j]? =
      ((PySlice.indices xs.length start stop step)[j]?).bind (xs[·]?) :=
  pick_getElem? xs _ (indices_in_bounds xs.length start stop step hs he hp h0 hl) j

/-- a zero step is an error and nothing else about a slice can fail (no error, no panic) -/
theorem slice_only_error_is_zero_step {α : Type} (xs : List α) (start stop step : Option Int)
    (hs : OptInI64 start) (he : OptInI64 stop) (hp : OptInI64 step)
    (hl : xs.length < 9223372036854775808) :
    (slice xs start stop step = .ok .zeroStep ↔ step = some 0) ∧ slice xs start stop step ≠ .panic := by
  rw [slice_eq_python α xs start stop step hs he hp hl]
  by_cases h : step = some 0 <;> simp [h]

/-- forward slices of iterables of unknown length (no bound relative to the end): the code uses
    `usize::MAX` as length and relies on `skip/take` stopping at the real end — same result. -/
theorem sliceUnsized_eq_slice {α : Type} (xs : List α) (start stop step : Option Int)
    (hs : OptInI64 start) (he : OptInI64 stop) (hp : OptInI64 step)
    (hl : xs.length < 9223372036854775808) :
    sliceUnsized xs start stop step = slice xs start stop step := by
  unfold sliceUnsized
  split
  next hc =>
    obtain ⟨hpos, hneg⟩ := hc
    have hne : step.getD 1 ≠ 0 := by omega
    unfold slice
    simp only [hne, hpos, if_true, if_false]
    rw [offsetLen_ok start stop xs.length hs he hl]
    simp only [Bool.or_eq_false_iff] at hneg
    have hstart : ∃ a : Nat, start.getD 0 = (a : Int) ∧ (a : Int) < 9223372036854775808 ∧
        preClamp xs.length start 0 = a := by
      cases start with
      | none => exact ⟨0, by simp [preClamp]⟩
      | some s =>
        simp only [OptInI64, InI64] at hs
        have : ¬ s < 0 := by
          intro h; have := hneg.1; simp [isNeg, h] at this
        exact ⟨s.toNat, by simp only [Option.getD_some]; omega, by omega, by simp only [preClamp, this, if_false]; omega⟩
    obtain ⟨a, ha1, ha2, ha3⟩ := hstart
    have hna : ¬ ((a : Int) < 0) := by omega
    cases stop with
    | none =>
      unfold offsetLen
      have e1 : asUsize (a : Int) = a := by rw [asUsize_of_nonneg _ (by omega) (by omega)]; simp
      simp only [ha1, or_true, if_true, hna, if_false, pure_eq, ok_bind, e1, ha3]
      simp only [preClamp, Int.toNat_natCast]
      congr 3
      rw [List.take_of_length_le (by simp; omega), List.take_of_length_le (by simp)]
    | some x =>
      simp only [OptInI64, InI64] at he
      have hx : ¬ x < 0 := by
        intro h; have := hneg.2; simp [isNeg, h] at this
      unfold offsetLen
      have e1 : asUsize (a : Int) = a := by rw [asUsize_of_nonneg _ (by omega) (by omega)]; simp
      have e2 : asUsize x = x.toNat := asUsize_of_nonneg _ (by omega) (by omega)
      simp only [ha1, hx, hna, decide_false, Bool.false_eq_true, or_false, if_false, pure_eq, e1, e2, ha3]
      simp only [preClamp, hx, if_false, Int.toNat_natCast]
  next => rfl

/-- subscripts: `v[i]` selects Python's element, out of range is undefined (never an error) -/
theorem index_eq_python {α : Type} (xs : List α) (i : Int) :
    index? xs i = (PySlice.index xs.length i).bind (xs[·]?) := by
  unfold index? PySlice.index
  by_cases h : i < 0
  · simp only [h, if_true]
    by_cases h2 : i.natAbs ≤ xs.length
    · simp only [h2, if_true]
      by_cases h3 : i + (xs.length : Int) < xs.length
      · rw [if_pos ⟨by omega, h3⟩]
        simp only [Option.bind_some]
        congr 1; omega
      · omega
    · simp only [h2, if_false]
      rw [if_neg (by omega)]
      rfl
  · simp only [h, if_false]
    by_cases h3 : i < xs.length
    · rw [if_pos ⟨by omega, h3⟩]; rfl
    · rw [if_neg (by omega)]
      simp only [Option.bind_none]
      apply List.getElem?_eq_none
      omega

/-! ## The specification itself is Python's declarative rule (sanity of the transcription) -/

/-- positive step `k`: exactly the positions `lo ≤ i < hi`, `i ≡ lo (mod k)`, in increasing order -/
theorem spec_pos (len : Nat) (start stop : Option Int) (k : Nat) (hk : 0 < k) :
    (∀ i : Nat, i ∈ PySlice.indices len start stop (k : Int) ↔
      PySlice.clampPos len start 0 ≤ (i : Int) ∧ (i : Int) < PySlice.clampPos len stop len ∧
      ((i : Int) - PySlice.clampPos len start 0) % (k : Int) = 0) ∧
    (PySlice.indices len start stop (k : Int)).Pairwise (· < ·) :=
  ⟨PySlice.mem_indices_pos len start stop k hk, PySlice.indices_pos_sorted len start stop k hk⟩

/-- negative step `-k`: exactly the positions `stop' < i ≤ start'`, `i ≡ start' (mod k)` -/
theorem spec_neg (len : Nat) (start stop : Option Int) (k : Nat) (hk : 0 < k) (i : Nat) :
    i ∈ PySlice.indices len start stop (-(k : Int)) ↔
      PySlice.clampNeg len stop (-1) < (i : Int) ∧ (i : Int) ≤ PySlice.clampNeg len start ((len : Int) - 1) ∧
      (PySlice.clampNeg len start ((len : Int) - 1) - (i : Int)) % (k : Int) = 0 :=
  PySlice.mem_indices_neg len start stop k hk i

/-! # Values: the glue around the arithmetic (`MJ.Sub`, model of `ops::slice`, `get_item_opt`, VM arms)

Bounds and subscripts arrive as template *values*; containers come in many representations.
`pyView` maps a value to the Python sequence it stands for (`str`, `bytes`, `tuple`, list),
`pyBound`/`pyInt` say which values Python accepts as slice parts / indexes (integers of every
representation and size, booleans, `none` for an omitted part). -/
section Values
open MJ.Sub
set_option linter.unusedSimpArgs false


theorem sliceUnsizedG_eq {α : Type} (xs : List α) (A B : Option Int) (st : Int)
    (hA : OptInI64 A) (hB : OptInI64 B) (hst : InI64 st) (h0 : st ≠ 0) (hl : xs.length < 9223372036854775808) :
    ∃ sized, sliceUnsizedG xs A B st = .ok (.ok (.iter sized (pick xs (PySlice.indices xs.length A B st)))) := by
  have hne : (some st : Option Int) ≠ some 0 := by simpa using h0
  have hS := slice_eq_python α xs A B (some st) hA hB hst hl
  rw [if_neg hne] at hS
  have hU := sliceUnsized_eq_slice xs A B (some st) hA hB hst hl
  rw [hS] at hU
  unfold sliceUnsizedG
  by_cases hc : st > 0 ∧ (isNeg A || isNeg B) = false
  · rw [if_pos hc]
    unfold sliceUnsized at hU
    rw [if_pos (by simpa using hc)] at hU
    rw [unsizedLen_eq]
    cases ho : offsetLen A B 18446744073709551615 with
    | panic => rw [ho] at hU; cases hU
    | ok p =>
      obtain ⟨off, n⟩ := p
      rw [ho] at hU
      simp only [Option.getD_some] at hU
      injection hU with hU
      injection hU with hU
      exact ⟨decide (n = 0), by simp only []; rw [hU]⟩
  · rw [if_neg hc, hS]
    exact ⟨true, rfl⟩

theorem slice_list_ok {α : Type} (xs : List α) (A B : Option Int) (st : Int)
    (hA : OptInI64 A) (hB : OptInI64 B) (hst : InI64 st) (h0 : st ≠ 0) (hl : xs.length < 9223372036854775808) :
    slice xs A B (some st) = .ok (.ok (pick xs (PySlice.indices xs.length A B st))) := by
  have hne : (some st : Option Int) ≠ some 0 := by simpa using h0
  have hS := slice_eq_python α xs A B (some st) hA hB hst hl
  rw [if_neg hne] at hS
  exact hS

/-- `ops::slice` once the three parts are converted: a zero step is the error, everything else
    is Python's selection on the converted bounds, of the same type -/
theorem sliceV_of_bounds {α : Type} (v a b c : Val α) (s : PySeq α) (A B C : Option Int)
    (hv : pyView v = some s) (ha : optBound a = .ok A) (hb : optBound b = .ok B) (hc : optBound c = .ok C)
    (hl : s.len < 9223372036854775808) :
    if C.getD 1 = 0 then sliceV v a b c = .ok (.error zeroStepErr)
    else ∃ r, sliceV v a b c = .ok (.ok r) ∧ pyView r = some (s.slice A B (C.getD 1)) := by
  have hA := optBound_range a A ha
  have hB := optBound_range b B hb
  have hst := getD_range C (optBound_range c C hc)
  unfold sliceV
  simp only [ha, hb, hc]
  by_cases h0 : C.getD 1 = 0
  · simp only [h0, if_true]
  · simp only [h0, if_false]
    generalize C.getD 1 = st at h0 hst
    cases v with
    | str r bs =>
      simp only [pyView, Option.some.injEq] at hv; subst hv
      simp only [sliceClass_str, PySeq.len] at hl ⊢
      rw [slice_list_ok _ A B st hA hB hst h0 hl]
      simp only [wrapRes, String.reduceEq, if_false, if_true]
      refine ⟨_, rfl, ?_⟩
      simp only [pyView, chars_encode, PySeq.slice, PySeq.pick, PySeq.len]
    | bytes bs =>
      simp only [pyView, Option.some.injEq] at hv; subst hv
      simp only [sliceClass_bytes, PySeq.len] at hl ⊢
      rw [slice_list_ok _ A B st hA hB hst h0 hl]
      simp only [wrapRes, String.reduceEq, if_false, if_true]
      refine ⟨_, rfl, ?_⟩
      simp only [pyView, PySeq.slice, PySeq.pick, PySeq.len]
    | tuple xs =>
      simp only [pyView, Option.some.injEq] at hv; subst hv
      simp only [sliceClass_tuple, PySeq.len] at hl ⊢
      rw [slice_list_ok _ A B st hA hB hst h0 hl]
      simp only [wrapRes, String.reduceEq, if_false, if_true]
      refine ⟨_, rfl, ?_⟩
      simp only [pyView, PySeq.slice, PySeq.pick, PySeq.len]
    | seq xs =>
      simp only [pyView, Option.some.injEq] at hv; subst hv
      simp only [sliceClass_seq, PySeq.len] at hl ⊢
      rw [slice_list_ok _ A B st hA hB hst h0 hl]
      simp only [wrapRes, String.reduceEq, if_false, if_true]
      refine ⟨_, rfl, ?_⟩
      simp only [pyView, PySeq.slice, PySeq.pick, PySeq.len]
    | iter sized xs =>
      simp only [pyView, Option.some.injEq] at hv; subst hv
      simp only [sliceClass_iter, PySeq.len] at hl ⊢
      cases sized with
      | true =>
        simp only [String.reduceEq, if_false]
        rw [slice_list_ok _ A B st hA hB hst h0 hl]
        simp only [wrapRes, String.reduceEq, if_false, if_true]
        refine ⟨_, rfl, ?_⟩
        simp only [pyView, PySeq.slice, PySeq.pick, PySeq.len]
      | false =>
        obtain ⟨sz, h⟩ := sliceUnsizedG_eq xs A B st hA hB hst h0 hl
        simp only [String.reduceEq, if_false, if_true, h]
        refine ⟨_, rfl, ?_⟩
        simp only [pyView, PySeq.slice, PySeq.pick, PySeq.len]
    | once xs =>
      simp only [pyView, Option.some.injEq] at hv; subst hv
      simp only [sliceClass_once, PySeq.len] at hl ⊢
      obtain ⟨sz, h⟩ := sliceUnsizedG_eq xs A B st hA hB hst h0 hl
      simp only [String.reduceEq, if_false, if_true, h]
      refine ⟨_, rfl, ?_⟩
      simp only [pyView, PySeq.slice, PySeq.pick, PySeq.len]
    | _ => simp [pyView] at hv

/-! ### the full statement for values -/

/-- Full-strength statement at the level of template values: for every value Python has a
    sequence type for (strings in all three representations, bytes, tuples, sequences, sized and
    unsized iterables, one-shot iterators) and all slice parts that are omitted or Python integers —
    of *any* representation (`bool`, `i64`, `u64`, `i128`, `u128`) and *any* size — `ops::slice`
    returns Python's selection, of the same type; a zero step is the only error; no panic. -/
def C09_values_full : Prop :=
  ∀ (α : Type) (v a b c : Val α) (s : PySeq α) (A B C : Option Int),
    pyView v = some s → pyBound a = some A → pyBound b = some B → pyBound c = some C →
    a.WF → b.WF → c.WF → s.len < 9223372036854775808 →
    if C = some 0 then sliceV v a b c = .ok (.error zeroStepErr)
    else ∃ r, sliceV v a b c = .ok (.ok r) ∧ pyView r = some (s.slice A B (C.getD 1))

theorem sliceV_eq_python : C09_values_full := by
  intro α v a b c s A B C hv ha hb hc wa wb wc hl
  have h := sliceV_of_bounds v a b c s _ _ _ hv (optBound_pyBound a A ha wa) (optBound_pyBound b B hb wb)
    (optBound_pyBound c C hc wc) hl
  have hstep : (C.map clampI64).getD 1 = clampI64 (C.getD 1) := by
    cases C with
    | none => simp [clampI64, i64Min, i64Max]
    | some x => rfl
  rw [hstep] at h
  by_cases h0 : C = some 0
  · subst h0
    simpa [clampI64, i64Min, i64Max] using h
  · have hne : C.getD 1 ≠ 0 := by
      cases C with
      | none => simp
      | some x => simpa using h0
    rw [if_neg h0]
    rw [if_neg (by rw [clampI64_zero_iff]; exact hne)] at h
    obtain ⟨r, h1, h2⟩ := h
    refine ⟨r, h1, ?_⟩
    rw [h2]
    simp only [PySeq.slice]
    rw [indices_clamp s.len A B (C.getD 1) hl hne]

/-- integral floats are accepted where Python wants integers (engine rule): they act as the integer -/
theorem sliceBound_float {α : Type} (bits : Nat) :
    sliceBound (Val.num (.f64 bits) : Val α) =
      match f64ToI64 bits with
      | some x => .ok x
      | Option.none => .error (convErr (Val.num (.f64 bits) : Val α)) := by
  have harm : MJ.Gen.c09IntTryFromArms.contains "F64" = true := by decide
  have hrow : clampRow (Val.num (.f64 bits) : Val α) MJ.Gen.c09SliceBoundClamp = Option.none := rfl
  unfold sliceBound
  rw [hrow]
  simp only [valI64, tryInt, Val.repr, harm, if_true, Val.payload]
  cases h : f64ToI64 bits with
  | none => rfl
  | some x =>
    have hr : i64Min ≤ x ∧ x ≤ i64Max := f64ToI64_range bits x h
    simp only [hr, and_self, if_true]

/-- everything that is neither `none` nor a number/boolean is a conversion error -/
theorem sliceBound_not_number {α : Type} (v : Val α) (h : MJ.Gen.c09IntTryFromArms.contains v.repr = false) :
    sliceBound v = .error (convErr v) := by
  have hrow : clampRow v MJ.Gen.c09SliceBoundClamp = Option.none := by
    simp only [clampRow, MJ.Gen.c09SliceBoundClamp]
    have h1 : ¬ "U64" = v.repr := by intro e; rw [← e] at h; revert h; decide
    have h2 : ¬ "U128" = v.repr := by intro e; rw [← e] at h; revert h; decide
    have h3 : ¬ "I128" = v.repr := by intro e; rw [← e] at h; revert h; decide
    simp only [h1, h2, h3, if_false]
  unfold sliceBound
  rw [hrow]
  simp only [valI64, tryInt, h]
  rfl

/-- `ops::slice` is total: it reports `sliceErr?` if that is an error and succeeds otherwise;
    in no case does it panic — whatever the four values are -/
theorem sliceV_total {α : Type} (v a b c : Val α)
    (hl : ∀ s, pyView v = some s → s.len < 9223372036854775808) :
    match sliceErr? v a b c with
    | some e => sliceV v a b c = .ok (.error e)
    | Option.none => ∃ r, sliceV v a b c = .ok (.ok r) := by
  unfold sliceErr?
  cases ha : optBound a with
  | error e => simp only [sliceV, ha]
  | ok A =>
  cases hb : optBound b with
  | error e => simp only [sliceV, ha, hb]
  | ok B =>
  cases hc : optBound c with
  | error e => simp only [sliceV, ha, hb, hc]
  | ok C =>
  simp only []
  by_cases h0 : C.getD 1 = 0
  · simp only [h0, if_true, sliceV, ha, hb, hc]
  · simp only [h0, if_false]
    cases hv : pyView v with
    | some s =>
      have hcls : sliceClass v ≠ "error" := by
        cases v <;> simp [pyView] at hv <;>
          simp [sliceClass_str, sliceClass_bytes, sliceClass_tuple, sliceClass_seq, sliceClass_iter, sliceClass_once]
      rw [if_neg hcls]
      have h := sliceV_of_bounds v a b c s A B C hv ha hb hc (hl s hv)
      rw [if_neg h0] at h
      obtain ⟨r, h1, _⟩ := h
      exact ⟨r, h1⟩
    | none =>
      cases v with
      | undef => simp [sliceClass_undef, sliceV, ha, hb, hc, h0]
      | none => simp [sliceClass_none, sliceV, ha, hb, hc, h0]
      | bool x => simp [sliceClass_bool, sliceV, ha, hb, hc, h0]
      | num n => simp [sliceClass_num, sliceV, ha, hb, hc, h0]
      | map kvs => simp [sliceClass_map, sliceV, ha, hb, hc, h0]
      | plain => simp [sliceClass_plain, sliceV, ha, hb, hc, h0]
      | invalid => simp [sliceClass_invalid, sliceV, ha, hb, hc, h0]
      | _ => simp [pyView] at hv

theorem sliceV_no_panic {α : Type} (v a b c : Val α)
    (hl : ∀ s, pyView v = some s → s.len < 9223372036854775808) : sliceV v a b c ≠ .panic := by
  have h := sliceV_total v a b c hl
  cases he : sliceErr? v a b c with
  | some e => rw [he] at h; simp only [] at h; rw [h]; intro x; cases x
  | none => rw [he] at h; obtain ⟨r, h⟩ := h; rw [h]; intro x; cases x


/-! ## Subscripts of values -/

theorem item_lookup {α β : Type} (key : Val α) (i : Int) (xs : List β) (f : β → Item α) (hk : valI64 key = some i) :
    (match indexOf key (some xs.length) with
     | some idx => (xs[idx]?).map f
     | Option.none => Option.none) = (PySlice.index xs.length i).bind (fun j => (xs[j]?).map f) := by
  have h := indexOf_bind key i xs hk
  rw [index_eq_python] at h
  have h2 : (PySlice.index xs.length i).bind (fun j => (xs[j]?).map f) =
      ((PySlice.index xs.length i).bind (xs[·]?)).map f := by
    cases PySlice.index xs.length i <;> rfl
  rw [h2, ← h]
  cases indexOf key (some xs.length) <;> rfl

/-- a key that `as_i64` accepts (integers and booleans in the `i64` range, integral floats):
    `v[key]` is Python's `v[i]`; out of range is undefined (never an error, never a panic).
    A one-shot iterator answers an index relative to its end with undefined (engine rule: it had
    to be drained to be counted; Python's generators cannot be subscripted at all). -/
theorem getItemOpt_of_i64 {α : Type} (v key : Val α) (s : PySeq α) (i : Int)
    (hv : pyView v = some s) (hk : valI64 key = some i) :
    getItemOpt v key = if isOnce v && decide (i < 0) then Option.none else s.index i := by
  cases v with
  | str r bs =>
    simp only [pyView, Option.some.injEq] at hv; subst hv
    have hfn : MJ.Gen.c09GetItemLenFn.lookup (Val.str r bs : Val α).repr = some "chars" := by
      cases r <;> simp only [Val.repr] <;> first | exact lenFn_string | exact lenFn_smallstr
    simp only [getItemOpt, hfn, lenBy_chars, isOnce, Bool.false_and, Bool.false_eq_true, if_false]
    exact item_lookup key i (chars bs) Item.chr hk
  | bytes bs =>
    simp only [pyView, Option.some.injEq] at hv; subst hv
    simp only [getItemOpt, Val.repr, lenFn_bytes, lenBy_bytes, isOnce, Bool.false_and, Bool.false_eq_true, if_false]
    exact item_lookup key i bs Item.byte hk
  | tuple xs =>
    simp only [pyView, Option.some.injEq] at hv; subst hv
    simp only [getItemOpt, obj_seq, if_true, isOnce, Bool.false_and, Bool.false_eq_true, if_false]
    show _ = (PySlice.index xs.length i).bind (fun j => (xs[j]?).map Item.elem)
    rw [← item_lookup key i xs Item.elem hk]
    cases hi : indexOf key (some xs.length) with
    | none => simp only [vecGet, indexOf_neg_of_none key i _ hk hi]; rfl
    | some idx => rfl
  | seq xs =>
    simp only [pyView, Option.some.injEq] at hv; subst hv
    simp only [getItemOpt, obj_seq, if_true, isOnce, Bool.false_and, Bool.false_eq_true, if_false]
    show _ = (PySlice.index xs.length i).bind (fun j => (xs[j]?).map Item.elem)
    rw [← item_lookup key i xs Item.elem hk]
    cases hi : indexOf key (some xs.length) with
    | none => simp only [vecGet, indexOf_neg_of_none key i _ hk hi]; rfl
    | some idx => rfl
  | iter sized xs =>
    simp only [pyView, Option.some.injEq] at hv; subst hv
    simp only [getItemOpt, obj_iter, if_true, isOnce, Bool.false_and, Bool.false_eq_true, if_false]
    exact item_lookup key i xs Item.elem hk
  | once xs =>
    simp only [pyView, Option.some.injEq] at hv; subst hv
    simp only [getItemOpt, obj_iter, if_true, hk, isOnce, Bool.true_and, decide_eq_true_eq]
    by_cases hneg : i < 0
    · simp only [hneg, if_true]
    · simp only [hneg, if_false, PySeq.index, PySeq.len, PySlice.index]
      by_cases hlt : i < xs.length
      · rw [if_pos ⟨by omega, hlt⟩]; simp [PySeq.itemAt]
      · rw [if_neg (by omega)]
        have : xs[i.toNat]? = Option.none := List.getElem?_eq_none (by omega)
        simp [this]
  | _ => simp [pyView] at hv

/-- a key `as_i64` rejects (integers beyond `i64`, fractional or non-finite floats, strings,
    undefined, none, …) selects nothing from a sequence: the result is undefined — for the big
    integers that is Python's IndexError, for the rest the engine's rule (Python: TypeError) -/
theorem getItemOpt_not_i64 {α : Type} (v key : Val α) (s : PySeq α)
    (hv : pyView v = some s) (hk : valI64 key = Option.none) (hl : s.len < 9223372036854775808) :
    getItemOpt v key = Option.none := by
  cases v with
  | str r bs =>
    cases hfn : MJ.Gen.c09GetItemLenFn.lookup (Val.str r bs : Val α).repr <;>
      simp only [getItemOpt, hfn, indexOf_none key _ hk]
  | bytes bs =>
    cases hfn : MJ.Gen.c09GetItemLenFn.lookup (Val.bytes bs : Val α).repr <;>
      simp only [getItemOpt, hfn, indexOf_none key _ hk]
  | tuple xs =>
    simp only [pyView, Option.some.injEq] at hv; subst hv
    simp only [getItemOpt, obj_seq, if_true, indexOf_none key _ hk, vecGet]
    cases hu : valUsize key with
    | none => rfl
    | some n =>
      have := tryInt_usize_none_of_i64 key n hk hu
      simp only [PySeq.len] at hl
      simp only []
      rw [List.getElem?_eq_none (by omega)]; rfl
  | seq xs =>
    simp only [pyView, Option.some.injEq] at hv; subst hv
    simp only [getItemOpt, obj_seq, if_true, indexOf_none key _ hk, vecGet]
    cases hu : valUsize key with
    | none => rfl
    | some n =>
      have := tryInt_usize_none_of_i64 key n hk hu
      simp only [PySeq.len] at hl
      simp only []
      rw [List.getElem?_eq_none (by omega)]; rfl
  | iter sized xs => simp only [getItemOpt, obj_iter, if_true, indexOf_none key _ hk]
  | once xs => simp only [getItemOpt, obj_iter, if_true, hk]
  | _ => simp [pyView] at hv

/-- Python integers of every representation and size as subscripts: Python's `s[i]`, IndexError =
    undefined; nothing else can happen -/
theorem getItemOpt_eq_python {α : Type} (v key : Val α) (s : PySeq α) (i : Int)
    (hv : pyView v = some s) (hk : pyInt key = some i) (hl : s.len < 9223372036854775808)
    (ho : isOnce v = true → 0 ≤ i) :
    getItemOpt v key = s.index i := by
  have hv64 : valI64 key = if i64Min ≤ i ∧ i ≤ i64Max then some i else Option.none := tryInt_of_pyInt _ _ key i hk
  by_cases hr : i64Min ≤ i ∧ i ≤ i64Max
  · rw [if_pos hr] at hv64
    rw [getItemOpt_of_i64 v key s i hv hv64]
    by_cases h1 : isOnce v = true
    · have := ho h1
      simp [h1, show ¬ i < 0 by omega]
    · simp [h1]
  · rw [if_neg hr] at hv64
    rw [getItemOpt_not_i64 v key s hv hv64 hl]
    simp only [PySeq.index, PySlice.index]
    rw [if_neg (by unfold i64Min i64Max at hr; split <;> omega)]
    rfl

/-- maps (which Python's sequence rules do not cover): the key is looked up as it is — no
    normalisation of negative integers, no positional access -/
theorem getItemOpt_map {α : Type} (kvs : List (MKey × α)) (key : Val α) :
    getItemOpt (.map kvs) key = (mapGet kvs key).map Item.elem := by
  simp only [getItemOpt, obj_map, if_true]

/-- values without items -/
theorem getItemOpt_scalar {α : Type} (v key : Val α)
    (h : v = .undef ∨ v = .none ∨ (∃ b, v = .bool b) ∨ (∃ n, v = .num n) ∨ v = .plain ∨ v = .invalid) :
    getItemOpt v key = Option.none := by
  rcases h with rfl | rfl | ⟨b, rfl⟩ | ⟨n, rfl⟩ | rfl | rfl <;> rfl

/-! ## The VM arms and the undefined modes -/

/-- `GetItem`/`GetAttr`: a found item is the result; a missing one is undefined, except that
    subscripting an *undefined* value is an error in every mode but `Chainable` -/
theorem vmGetItem_eq {α : Type} (m : Mode) (v key : Val α) :
    vmGetItem m v key =
      match getItemOpt v key with
      | some it => .ok it
      | Option.none => if v.isUndef && m != .chainable then .error undefinedErr else .ok .undef := by
  unfold vmGetItem
  cases getItemOpt v key with
  | some it => rfl
  | none => cases m <;> cases v.isUndef <;> rfl

theorem vmGetAttr_eq {α : Type} (m : Mode) (v : Val α) (name : List UInt8) :
    vmGetAttr m v name =
      match getValueByStr v name with
      | some it => .ok it
      | Option.none => if v.isUndef && m != .chainable then .error undefinedErr else .ok .undef := by
  unfold vmGetAttr
  cases getValueByStr v name with
  | some it => rfl
  | none => cases m <;> cases v.isUndef <;> rfl

/-- `Slice`: only `Strict` refuses to slice an undefined value; otherwise `ops::slice` decides
    (undefined and none slice to the empty list once the parts convert and the step is not zero) -/
theorem vmSlice_eq {α : Type} (m : Mode) (v a b c : Val α) :
    vmSlice m v a b c =
      if v.isUndef && m == .strict then .ok (.error undefinedErr) else sliceV v a b c := by
  unfold vmSlice
  cases m <;> cases v.isUndef <;> rfl

theorem sliceV_undefined {α : Type} (v a b c : Val α) (hv : v = .undef ∨ v = .none)
    (h : sliceErr? v a b c = Option.none) : sliceV v a b c = .ok (.ok (.seq [])) := by
  unfold sliceErr? at h
  unfold sliceV
  cases ha : optBound a with
  | error e => rw [ha] at h; cases h
  | ok A =>
  cases hb : optBound b with
  | error e => rw [ha, hb] at h; cases h
  | ok B =>
  cases hc : optBound c with
  | error e => rw [ha, hb, hc] at h; cases h
  | ok C =>
  rw [ha, hb, hc] at h
  simp only [] at h ⊢
  by_cases h0 : C.getD 1 = 0
  · rw [if_pos h0] at h; cases h
  · rw [if_neg h0]
    rcases hv with rfl | rfl
    · simp [sliceClass_undef]
    · simp [sliceClass_none]

/-- attribute syntax never indexes: a numeric string is not a position (`Value::get_attr("0")` on
    a list is undefined), on maps it is the string key -/
theorem getValueByStr_seq {α : Type} (xs : List α) (name : List UInt8) :
    getValueByStr (Val.seq xs) name = Option.none ∧ getValueByStr (Val.tuple xs) name = Option.none := by
  have : valUsize (Val.str .normal name : Val α) = Option.none := rfl
  simp [getValueByStr, vecGet, this]

/-- `Value::get_item` / `get_item_by_index` (no undefined mode involved) -/
theorem getItem_eq {α : Type} (v key : Val α) :
    getItem v key = if v.isUndef then .error undefinedErr else .ok ((getItemOpt v key).getD .undef) := by
  cases v <;> rfl

theorem getItemByIndex_eq_python {α : Type} (v : Val α) (s : PySeq α) (n : Nat)
    (hv : pyView v = some s) (hl : s.len < 9223372036854775808) :
    getItemByIndex v n = .ok ((s.itemAt n).getD .undef) := by
  have hu : v.isUndef = false := by cases v <;> simp [pyView] at hv <;> rfl
  unfold getItemByIndex
  rw [getItem_eq, hu]
  simp only [Bool.false_eq_true, if_false]
  rw [getItemOpt_eq_python v _ s (n : Int) hv rfl hl (by intro; omega)]
  simp only [PySeq.index, PySlice.index]
  have hn : ¬ ((n : Int) < 0) := by omega
  simp only [hn, if_false]
  by_cases h : (n : Int) < s.len
  · rw [if_pos ⟨by omega, h⟩]; simp
  · rw [if_neg (by omega)]
    have : s.itemAt n = Option.none := by
      cases s <;> simp only [PySeq.itemAt, PySeq.len] at h ⊢ <;>
        rw [List.getElem?_eq_none (by omega)] <;> rfl
    rw [this]; rfl

/-! ## Metamorphic relations at the specification level -/

/-- `xs[::-1]` is `xs|reverse` -/
theorem slice_rev {α : Type} (xs : List α) (hl : xs.length < 9223372036854775808) :
    slice xs none none (some (-1)) = .ok (.ok xs.reverse) := by
  rw [slice_eq_python α xs none none (some (-1)) trivial trivial (by simp [OptInI64, InI64]) hl]
  simp only [show ¬ ((some (-1) : Option Int) = some 0) by simp, if_false, Option.getD_some]
  congr 2
  rw [indices_rev]
  apply List.ext_getElem?
  intro j
  rw [pick_getElem? xs _ (by
    intro i hi
    simp only [List.mem_map, List.mem_range] at hi
    obtain ⟨k, hk, rfl⟩ := hi
    omega)]
  by_cases hj : j < xs.length
  · rw [List.getElem?_map, List.getElem?_range hj]
    simp only [Option.map_some, Option.bind_some]
    rw [List.getElem?_reverse hj]
  · rw [List.getElem?_eq_none (by simpa using hj), List.getElem?_eq_none (by simpa using hj)]
    rfl

/-- `xs[0]` is `xs|first`, `xs[-1]` is `xs|last` -/
theorem index_first_last {α : Type} (xs : List α) : index? xs 0 = xs.head? ∧ index? xs (-1) = xs.getLast? := by
  constructor
  · cases xs <;> simp [index?]
  · unfold index?
    simp only [show ((-1 : Int) < 0) by omega, if_true, show (-1 : Int).natAbs = 1 by rfl]
    cases h : xs with
    | nil => simp
    | cons a t => rw [← h, if_pos (by rw [h]; simp), List.getLast?_eq_getElem?]

/-- `xs[a:b:c]|length`: as many items as Python selects positions -/
theorem slice_length {α : Type} (xs : List α) (start stop : Option Int) (step : Int)
    (hs : OptInI64 start) (he : OptInI64 stop) (hp : InI64 step) (h0 : step ≠ 0)
    (hl : xs.length < 9223372036854775808) :
    (pick xs (PySlice.indices xs.length start stop step)).length = (PySlice.adjust xs.length start stop step).2 := by
  have hb := indices_in_bounds xs.length start stop step hs he hp h0 hl
  have : (pick xs (PySlice.indices xs.length start stop step)).length = (PySlice.indices xs.length start stop step).length := by
    generalize PySlice.indices xs.length start stop step = is at hb
    induction is with
    | nil => rfl
    | cons i t ih =>
      have hi : i < xs.length := hb i (by simp)
      simp only [pick, List.filterMap_cons, List.getElem?_eq_getElem hi, List.length_cons]
      congr 1
      exact ih (fun k hk => hb k (by simp [hk]))
  rw [this]
  simp [PySlice.indices]



/-! ### the sequence `|chain` builds (`MergeSeq`) -/

/-- a chained sequence answers every subscript like the plain list of its concatenated operands
    (empty operands at the head, in the middle or at the tail included) — hence like Python's
    `list(chain(...))[i]` by `getItemOpt_eq_python` -/
theorem mergeGetItem_eq_concat {α : Type} (xss : List (List α)) (key : Val α) :
    (mergeGetItem xss key).map Item.elem = getItemOpt (Val.seq xss.flatten) key := by
  have hlen : (xss.map List.length).sum = xss.flatten.length := by rw [List.length_flatten]
  simp only [mergeGetItem, getItemOpt, obj_seq, if_true, hlen, vecGet]
  cases indexOf key (some xss.flatten.length) with
  | some idx => simp only [mergeGet_eq_concat_index]
  | none =>
    cases valUsize key with
    | some n => simp only [mergeGet_eq_concat_index]
    | none => rfl

example : mergeGetItem [[], [10, 20]] (Val.num (.i64 0) : Val Nat) = some 10 ∧
    mergeGetItem [[], [10, 20], []] (Val.num (.i64 (-2)) : Val Nat) = some 10 ∧
    mergeGetItem [[], [10, 20]] (Val.num (.i64 2) : Val Nat) = Option.none := by decide

/-! ### strings are UTF-8 bytes; the engine's cursor-based code works on characters -/

/-- every scalar value takes 1–4 bytes; the `Chars` cursor over the bytes of a string holding `cs`
    visits exactly the character boundaries (offset of the `i`-th step = byte length of the first `i`
    characters; the bytes before and after it are encodings of `cs.take i` / `cs.drop i`) and
    decodes exactly `cs` — so `chars().count()`, `nth`, `skip`/`take`/`step_by` of the string arms
    operate on scalar values, not bytes -/
theorem str_chars_on_boundaries (cs : List Char) :
    chars (encode cs) = cs ∧
    (∀ c ∈ cs, 1 ≤ (String.utf8EncodeChar c).length ∧ (String.utf8EncodeChar c).length ≤ 4) ∧
    cs.length ≤ (encode cs).length ∧
    ∀ i, i < cs.length →
      (charIndices (encode cs))[i]? = (cs[i]?).map (fun c => ((encode (cs.take i)).length, c)) ∧
      (encode cs).take (encode (cs.take i)).length = encode (cs.take i) ∧
      (encode cs).drop (encode (cs.take i)).length = encode (cs.drop i) :=
  ⟨chars_encode cs, fun c _ => width_bounds c, byteLen_ge_charLen cs, fun i h => cursor_on_boundaries cs i h⟩

/-- the Python view of a string value is its character list, whatever the representation -/
theorem str_view {α : Type} (r : StrRepr) (cs : List Char) : pyView (Val.str r (encode cs) : Val α) = some (.str cs) := by
  simp only [pyView, chars_encode]

/-- bytes and characters differ: `"héllo"` has 5 characters in 6 bytes, and `s[-1]` is `'o'`
    (counting from the character length; the byte length would select nothing) -/
example : (encode ['h', 'é', 'l', 'l', 'o']).length = 6 ∧
    (PySeq.str ['h', 'é', 'l', 'l', 'o'] : PySeq Nat).index (-1) = some (.chr 'o') := by decide

/-! ### Non-vacuity of the value-level theorems -/

/-- a safe string with multi-byte characters, an `i64` start, a `u128::MAX` stop and the step `true` -/
example : ∃ r, sliceV (Val.str .safe (encode ['h', 'é', 'l', 'l', 'o']) : Val Nat) (.num (.i64 1))
      (.num (.u128 340282366920938463463374607431768211455)) (.bool true) = .ok (.ok r) ∧
    pyView r = some (.str ['é', 'l', 'l', 'o']) := by
  have h := sliceV_eq_python Nat (Val.str .safe (encode ['h', 'é', 'l', 'l', 'o'])) (.num (.i64 1))
    (.num (.u128 340282366920938463463374607431768211455)) (.bool true) (.str ['h', 'é', 'l', 'l', 'o'])
    (some 1) (some 340282366920938463463374607431768211455) (some 1)
    (by simp only [pyView, chars_encode]) rfl rfl rfl (by show i64Min ≤ 1 ∧ 1 ≤ i64Max; decide) trivial trivial (by decide)
  rw [if_neg (by decide)] at h
  obtain ⟨r, h1, h2⟩ := h
  exact ⟨r, h1, by rw [h2]; decide⟩
example : sliceErr? (Val.seq [1, 2, 3]) (Val.str .small [0x31]) (Val.none) (Val.none) =
    some (convErr (Val.str .small [0x31] : Val Nat)) := by rfl   -- xs["1":]
example : sliceErr? (Val.map [(MKey.int 1, 7)]) (Val.none : Val Nat) Val.none Val.none = some (unsliceableErr (Val.map [(MKey.int 1, 7)])) := by rfl
example : getItemOpt (Val.map [(MKey.int (-1), 7), (MKey.int 1, 8)]) (Val.num (.i64 (-1)) : Val Nat) = some (.elem 7) := by decide
example : getItemOpt (Val.seq [10, 11, 12]) (Val.num (.i128 (-1)) : Val Nat) = some (.elem 12) := by decide
example : getItemOpt (Val.once [10, 11, 12]) (Val.num (.i64 (-1)) : Val Nat) = Option.none := by decide
example : (vmGetItem .chainable Val.undef (Val.num (.i64 0)) : Except Err (Item Nat)) = .ok .undef := by rfl
example : (vmGetItem .semiStrict Val.undef (Val.num (.i64 0)) : Except Err (Item Nat)) = .error undefinedErr := by rfl
end Values

/-! ## Non-vacuity: the hypotheses are met by ordinary inputs, and the statement has content. -/
example : slice [10, 11, 12, 13, 14] (some 4) (some 0) (some (-1)) = .ok (.ok [14, 13, 12, 11]) := by decide
example : slice [10, 11, 12, 13, 14] none none (some (-2)) = .ok (.ok [14, 12, 10]) := by decide
example : slice ([] : List Nat) none none (some (-9223372036854775808)) = .ok (.ok []) := by decide
example : slice [1, 2, 3] (some (-2)) none (some 0) = .ok .zeroStep := by decide
example : PySlice.indices 5 (some 4) (some 0) (-1) = [4, 3, 2, 1] := by decide

end MJ.C09
