import MJ.Proofs.SliceFwd
import MJ.Proofs.PySliceSpec
import MJ.Proofs.SubGlue
import MJ.Proofs.SubKinds
import MJ.Model.SubObj
/-!
# C09 — subscripts and slices follow Python's rules for every bound and step

Property theorems only (helper lemmas live in `MJ/Proofs/Slice*.lean`).

* `Slice.slice` is the model of `ops::slice` (including every checked arithmetic operation, so a
  Rust panic is the distinguished result `Chk.panic`);
* `PySlice.indices` is the transcription of CPython's `PySlice_AdjustIndices`;
* `pick xs is` selects the elements of `xs` at the positions `is`, in that order.
-/
namespace MJ.C09
open MJ Chk Slice

/-- Full-strength statement: for every element type, every list shorter than 2^63 (Rust's
    `isize::MAX` bound on any allocation) and all `start/stop/step` that fit `i64` (anything else
    is rejected by the `i64::try_from` conversion before slicing), the model of the Rust slice
    code returns exactly Python's selection, a zero step is the only error, and it never panics. -/
def C09_full : Prop :=
  ∀ (α : Type) (xs : List α) (start stop step : Option Int),
    OptInI64 start → OptInI64 stop → OptInI64 step → xs.length < 9223372036854775808 →
    slice xs start stop step =
      if step = some 0 then .ok .zeroStep
      else .ok (.ok (pick xs (PySlice.indices xs.length start stop (step.getD 1))))

theorem slice_eq_python : C09_full := by
  intro α xs start stop step hs he hp hl
  unfold slice
  by_cases h0 : step = some 0
  · subst h0; simp
  · rw [if_neg h0]
    have hne : step.getD 1 ≠ 0 := by
      cases step with
      | none => simp
      | some x => simpa using h0
    have hr : InI64 (step.getD 1) := by
      cases step with
      | none => simp [InI64]
      | some x => simpa [OptInI64] using hp
    generalize step.getD 1 = st at hne hr
    simp only [InI64] at hr
    simp only [hne, if_false]
    by_cases hpos : st > 0
    · simp only [hpos, if_true]
      obtain ⟨k, rfl⟩ : ∃ k : Nat, st = (k : Int) := ⟨st.toNat, by omega⟩
      have hk : 0 < k := by omega
      rw [offsetLen_ok start stop xs.length hs he hl]
      simp only []
      rw [asUsize_of_nonneg _ (by omega) (by omega), Int.toNat_natCast, (slice_fwd xs start stop k hs he hk hl).1]
    · simp only [hpos, if_false]
      obtain ⟨k, hk⟩ : ∃ k : Nat, st = -(k : Int) := ⟨st.natAbs, by omega⟩
      subst hk
      have hk : 0 < k := by omega
      obtain ⟨h1, h2⟩ := rangeStepBackwards_eq start stop k xs.length hs he hk hl
      rw [Int.natAbs_neg, Int.natAbs_natCast, h1]
      simp only []
      rw [mapM_index_ok xs _ h2]

/-- every position Python selects exists, so `pick` drops nothing: the result has exactly
    Python's length and its `j`-th element is the element at Python's `j`-th position. -/
theorem indices_in_bounds (len : Nat) (start stop : Option Int) (step : Int)
    (hs : OptInI64 start) (he : OptInI64 stop) (hp : InI64 step) (h0 : step ≠ 0)
    (hl : len < 9223372036854775808) :
    ∀ i ∈ PySlice.indices len start stop step, i < len := by
  simp only [InI64] at hp
  by_cases hpos : step > 0
  · obtain ⟨k, rfl⟩ : ∃ k : Nat, step = (k : Int) := ⟨step.toNat, by omega⟩
    have := (slice_fwd (List.replicate len ()) start stop k hs he (by omega) (by simpa using hl)).2
    simpa using this
  · obtain ⟨k, rfl⟩ : ∃ k : Nat, step = -(k : Int) := ⟨step.natAbs, by omega⟩
    exact (rangeStepBackwards_eq start stop k len hs he (by omega) hl).2

theorem slice_getElem? {α : Type} (xs : List α) (start stop : Option Int) (step : Int)
    (hs : OptInI64 start) (he : OptInI64 stop) (hp : InI64 step) (h0 : step ≠ 0)
    (hl : xs.length < 9223372036854775808) (j : Nat) :
    (pick xs (PySlice.indices xs.length start stop step))[j]? =
      ((PySlice.indices xs.length start stop step)[j]?).bind (xs[·]?) :=
  pick_getElem? xs _ (indices_in_bounds xs.length start stop step hs he hp h0 hl) j

/-- a zero step is an error and nothing else about a slice can fail (no error, no panic) -/
theorem slice_only_error_is_zero_step {α : Type} (xs : List α) (start stop step : Option Int)
    (hs : OptInI64 start) (he : OptInI64 stop) (hp : OptInI64 step)
    (hl : xs.length < 9223372036854775808) :
    (slice xs start stop step = .ok .zeroStep ↔ step = some 0) ∧ slice xs start stop step ≠ .panic := by
  rw [slice_eq_python α xs start stop step hs he hp hl]
  by_cases h : step = some 0 <;> simp [h]

/-- forward slices of iterables of unknown length (no bound relative to the end): the code uses
    `usize::MAX` as length and relies on `skip/take` stopping at the real end — same result. -/
theorem sliceUnsized_eq_slice {α : Type} (xs : List α) (start stop step : Option Int)
    (hs : OptInI64 start) (he : OptInI64 stop) (hp : OptInI64 step)
    (hl : xs.length < 9223372036854775808) :
    sliceUnsized xs start stop step = slice xs start stop step := by
  unfold sliceUnsized
  split
  next hc =>
    obtain ⟨hpos, hneg⟩ := hc
    have hne : step.getD 1 ≠ 0 := by omega
    unfold slice
    simp only [hne, hpos, if_true, if_false]
    rw [offsetLen_ok start stop xs.length hs he hl]
    simp only [Bool.or_eq_false_iff] at hneg
    have hstart : ∃ a : Nat, start.getD 0 = (a : Int) ∧ (a : Int) < 9223372036854775808 ∧
        preClamp xs.length start 0 = a := by
      cases start with
      | none => exact ⟨0, by simp [preClamp]⟩
      | some s =>
        simp only [OptInI64, InI64] at hs
        have : ¬ s < 0 := by
          intro h; have := hneg.1; simp [isNeg, h] at this
        exact ⟨s.toNat, by simp only [Option.getD_some]; omega, by omega, by simp only [preClamp, this, if_false]; omega⟩
    obtain ⟨a, ha1, ha2, ha3⟩ := hstart
    have hna : ¬ ((a : Int) < 0) := by omega
    cases stop with
    | none =>
      unfold offsetLen
      have e1 : asUsize (a : Int) = a := by rw [asUsize_of_nonneg _ (by omega) (by omega)]; simp
      simp only [ha1, or_true, if_true, hna, if_false, pure_eq, ok_bind, e1, ha3]
      simp only [preClamp, Int.toNat_natCast]
      congr 3
      rw [List.take_of_length_le (by simp; omega), List.take_of_length_le (by simp)]
    | some x =>
      simp only [OptInI64, InI64] at he
      have hx : ¬ x < 0 := by
        intro h; have := hneg.2; simp [isNeg, h] at this
      unfold offsetLen
      have e1 : asUsize (a : Int) = a := by rw [asUsize_of_nonneg _ (by omega) (by omega)]; simp
      have e2 : asUsize x = x.toNat := asUsize_of_nonneg _ (by omega) (by omega)
      simp only [ha1, hx, hna, decide_false, Bool.false_eq_true, or_false, if_false, pure_eq, e1, e2, ha3]
      simp only [preClamp, hx, if_false, Int.toNat_natCast]
  next => rfl

/-- subscripts: `v[i]` selects Python's element, out of range is undefined (never an error) -/
theorem index_eq_python {α : Type} (xs : List α) (i : Int) :
    index? xs i = (PySlice.index xs.length i).bind (xs[·]?) := by
  unfold index? PySlice.index
  by_cases h : i < 0
  · simp only [h, if_true]
    by_cases h2 : i.natAbs ≤ xs.length
    · simp only [h2, if_true]
      by_cases h3 : i + (xs.length : Int) < xs.length
      · rw [if_pos ⟨by omega, h3⟩]
        simp only [Option.bind_some]
        congr 1; omega
      · omega
    · simp only [h2, if_false]
      rw [if_neg (by omega)]
      rfl
  · simp only [h, if_false]
    by_cases h3 : i < xs.length
    · rw [if_pos ⟨by omega, h3⟩]; rfl
    · rw [if_neg (by omega)]
      simp only [Option.bind_none]
      apply List.getElem?_eq_none
      omega

/-! ## The specification itself is Python's declarative rule (sanity of the transcription) -/

/-- positive step `k`: exactly the positions `lo ≤ i < hi`, `i ≡ lo (mod k)`, in increasing order -/
theorem spec_pos (len : Nat) (start stop : Option Int) (k : Nat) (hk : 0 < k) :
    (∀ i : Nat, i ∈ PySlice.indices len start stop (k : Int) ↔
      PySlice.clampPos len start 0 ≤ (i : Int) ∧ (i : Int) < PySlice.clampPos len stop len ∧
      ((i : Int) - PySlice.clampPos len start 0) % (k : Int) = 0) ∧
    (PySlice.indices len start stop (k : Int)).Pairwise (· < ·) :=
  ⟨PySlice.mem_indices_pos len start stop k hk, PySlice.indices_pos_sorted len start stop k hk⟩

/-- negative step `-k`: exactly the positions `stop' < i ≤ start'`, `i ≡ start' (mod k)` -/
theorem spec_neg (len : Nat) (start stop : Option Int) (k : Nat) (hk : 0 < k) (i : Nat) :
    i ∈ PySlice.indices len start stop (-(k : Int)) ↔
      PySlice.clampNeg len stop (-1) < (i : Int) ∧ (i : Int) ≤ PySlice.clampNeg len start ((len : Int) - 1) ∧
      (PySlice.clampNeg len start ((len : Int) - 1) - (i : Int)) % (k : Int) = 0 :=
  PySlice.mem_indices_neg len start stop k hk i

/-! # Values: the glue around the arithmetic (`MJ.Sub`, model of `ops::slice`, `get_item_opt`, VM arms)

Bounds and subscripts arrive as template *values*; containers come in many representations.
`pyView` maps a value to the Python sequence it stands for (`str`, `bytes`, `tuple`, list),
`pyBound`/`pyInt` say which values Python accepts as slice parts / indexes (integers of every
representation and size, booleans, `none` for an omitted part). -/
section Values
open MJ.Sub
set_option linter.unusedSimpArgs false


theorem sliceUnsizedG_eq {α : Type} (xs : List α) (A B : Option Int) (st : Int)
    (hA : OptInI64 A) (hB : OptInI64 B) (hst : InI64 st) (h0 : st ≠ 0) (hl : xs.length < 9223372036854775808) :
    ∃ sized, sliceUnsizedG xs A B st = .ok (.ok (.iter sized (pick xs (PySlice.indices xs.length A B st)))) := by
  have hne : (some st : Option Int) ≠ some 0 := by simpa using h0
  have hS := slice_eq_python α xs A B (some st) hA hB hst hl
  rw [if_neg hne] at hS
  have hU := sliceUnsized_eq_slice xs A B (some st) hA hB hst hl
  rw [hS] at hU
  unfold sliceUnsizedG
  by_cases hc : st > 0 ∧ (isNeg A || isNeg B) = false
  · rw [if_pos hc]
    unfold sliceUnsized at hU
    rw [if_pos (by simpa using hc)] at hU
    rw [unsizedLen_eq]
    cases ho : offsetLen A B 18446744073709551615 with
    | panic => rw [ho] at hU; cases hU
    | ok p =>
      obtain ⟨off, n⟩ := p
      rw [ho] at hU
      simp only [Option.getD_some] at hU
      injection hU with hU
      injection hU with hU
      exact ⟨decide (n = 0), by simp only []; rw [hU]⟩
  · rw [if_neg hc, hS]
    exact ⟨true, rfl⟩

theorem slice_list_ok {α : Type} (xs : List α) (A B : Option Int) (st : Int)
    (hA : OptInI64 A) (hB : OptInI64 B) (hst : InI64 st) (h0 : st ≠ 0) (hl : xs.length < 9223372036854775808) :
    slice xs A B (some st) = .ok (.ok (pick xs (PySlice.indices xs.length A B st))) := by
  have hne : (some st : Option Int) ≠ some 0 := by simpa using h0
  have hS := slice_eq_python α xs A B (some st) hA hB hst hl
  rw [if_neg hne] at hS
  exact hS

/-- `ops::slice` once the three parts are converted: a zero step is the error, everything else
    is Python's selection on the converted bounds, of the same type -/
theorem sliceV_of_bounds {α : Type} (v a b c : Val α) (s : PySeq α) (A B C : Option Int)
    (hv : pyView v = some s) (ha : optBound a = .ok A) (hb : optBound b = .ok B) (hc : optBound c = .ok C)
    (hl : s.len < 9223372036854775808) :
    if C.getD 1 = 0 then sliceV v a b c = .ok (.error zeroStepErr)
    else ∃ r, sliceV v a b c = .ok (.ok r) ∧ pyView r = some (s.slice A B (C.getD 1)) := by
  have hA := optBound_range a A ha
  have hB := optBound_range b B hb
  have hst := getD_range C (optBound_range c C hc)
  unfold sliceV
  simp only [ha, hb, hc]
  by_cases h0 : C.getD 1 = 0
  · simp only [h0, if_true]
  · simp only [h0, if_false]
    generalize C.getD 1 = st at h0 hst
    cases v with
    | str r bs =>
      simp only [pyView, Option.some.injEq] at hv; subst hv
      simp only [sliceClass_str, PySeq.len] at hl ⊢
      rw [slice_list_ok _ A B st hA hB hst h0 hl]
      simp only [wrapRes, String.reduceEq, if_false, if_true]
      refine ⟨_, rfl, ?_⟩
      simp only [pyView, chars_encode, PySeq.slice, PySeq.pick, PySeq.len]
    | bytes bs =>
      simp only [pyView, Option.some.injEq] at hv; subst hv
      simp only [sliceClass_bytes, PySeq.len] at hl ⊢
      rw [slice_list_ok _ A B st hA hB hst h0 hl]
      simp only [wrapRes, String.reduceEq, if_false, if_true]
      refine ⟨_, rfl, ?_⟩
      simp only [pyView, PySeq.slice, PySeq.pick, PySeq.len]
    | tuple xs =>
      simp only [pyView, Option.some.injEq] at hv; subst hv
      simp only [sliceClass_tuple, PySeq.len] at hl ⊢
      rw [slice_list_ok _ A B st hA hB hst h0 hl]
      simp only [wrapRes, String.reduceEq, if_false, if_true]
      refine ⟨_, rfl, ?_⟩
      simp only [pyView, PySeq.slice, PySeq.pick, PySeq.len]
    | seq xs =>
      simp only [pyView, Option.some.injEq] at hv; subst hv
      simp only [sliceClass_seq, PySeq.len] at hl ⊢
      rw [slice_list_ok _ A B st hA hB hst h0 hl]
      simp only [wrapRes, String.reduceEq, if_false, if_true]
      refine ⟨_, rfl, ?_⟩
      simp only [pyView, PySeq.slice, PySeq.pick, PySeq.len]
    | iter sized xs =>
      simp only [pyView, Option.some.injEq] at hv; subst hv
      simp only [sliceClass_iter, PySeq.len] at hl ⊢
      cases sized with
      | true =>
        simp only [String.reduceEq, if_false]
        rw [slice_list_ok _ A B st hA hB hst h0 hl]
        simp only [wrapRes, String.reduceEq, if_false, if_true]
        refine ⟨_, rfl, ?_⟩
        simp only [pyView, PySeq.slice, PySeq.pick, PySeq.len]
      | false =>
        obtain ⟨sz, h⟩ := sliceUnsizedG_eq xs A B st hA hB hst h0 hl
        simp only [String.reduceEq, if_false, if_true, h]
        refine ⟨_, rfl, ?_⟩
        simp only [pyView, PySeq.slice, PySeq.pick, PySeq.len]
    | once xs =>
      simp only [pyView, Option.some.injEq] at hv; subst hv
      simp only [sliceClass_once, PySeq.len] at hl ⊢
      obtain ⟨sz, h⟩ := sliceUnsizedG_eq xs A B st hA hB hst h0 hl
      simp only [String.reduceEq, if_false, if_true, h]
      refine ⟨_, rfl, ?_⟩
      simp only [pyView, PySeq.slice, PySeq.pick, PySeq.len]
    | _ => simp [pyView] at hv

/-! ### the full statement for values -/

/-- Full-strength statement at the level of template values: for every value Python has a
    sequence type for (strings in all three representations, bytes, tuples, sequences, sized and
    unsized iterables, one-shot iterators) and all slice parts that are omitted or Python integers —
    of *any* representation (`bool`, `i64`, `u64`, `i128`, `u128`) and *any* size — `ops::slice`
    returns Python's selection, of the same type; a zero step is the only error; no panic. -/
def C09_values_full : Prop :=
  ∀ (α : Type) (v a b c : Val α) (s : PySeq α) (A B C : Option Int),
    pyView v = some s → pyBound a = some A → pyBound b = some B → pyBound c = some C →
    a.WF → b.WF → c.WF → s.len < 9223372036854775808 →
    if C = some 0 then sliceV v a b c = .ok (.error zeroStepErr)
    else ∃ r, sliceV v a b c = .ok (.ok r) ∧ pyView r = some (s.slice A B (C.getD 1))

theorem sliceV_eq_python : C09_values_full := by
  intro α v a b c s A B C hv ha hb hc wa wb wc hl
  have h := sliceV_of_bounds v a b c s _ _ _ hv (optBound_pyBound a A ha wa) (optBound_pyBound b B hb wb)
    (optBound_pyBound c C hc wc) hl
  have hstep : (C.map clampI64).getD 1 = clampI64 (C.getD 1) := by
    cases C with
    | none => simp [clampI64, i64Min, i64Max]
    | some x => rfl
  rw [hstep] at h
  by_cases h0 : C = some 0
  · subst h0
    simpa [clampI64, i64Min, i64Max] using h
  · have hne : C.getD 1 ≠ 0 := by
      cases C with
      | none => simp
      | some x => simpa using h0
    rw [if_neg h0]
    rw [if_neg (by rw [clampI64_zero_iff]; exact hne)] at h
    obtain ⟨r, h1, h2⟩ := h
    refine ⟨r, h1, ?_⟩
    rw [h2]
    simp only [PySeq.slice]
    rw [indices_clamp s.len A B (C.getD 1) hl hne]

/-- integral floats are accepted where Python wants integers (engine rule): they act as the integer -/
theorem sliceBound_float {α : Type} (bits : Nat) :
    sliceBound (Val.num (.f64 bits) : Val α) =
      match f64ToI64 bits with
      | some x => .ok x
      | Option.none => .error (convErr (Val.num (.f64 bits) : Val α)) := by
  have harm : MJ.Gen.c09IntTryFromArms.contains "F64" = true := by decide
  have hrow : clampRow (Val.num (.f64 bits) : Val α) MJ.Gen.c09SliceBoundClamp = Option.none := rfl
  unfold sliceBound
  rw [hrow]
  simp only [valI64, tryInt, Val.repr, harm, if_true, Val.payload]
  cases h : f64ToI64 bits with
  | none => rfl
  | some x =>
    have hr : i64Min ≤ x ∧ x ≤ i64Max := f64ToI64_range bits x h
    simp only [hr, and_self, if_true]

/-- everything that is neither `none` nor a number/boolean is a conversion error -/
theorem sliceBound_not_number {α : Type} (v : Val α) (h : MJ.Gen.c09IntTryFromArms.contains v.repr = false) :
    sliceBound v = .error (convErr v) := by
  have hrow : clampRow v MJ.Gen.c09SliceBoundClamp = Option.none := by
    simp only [clampRow, MJ.Gen.c09SliceBoundClamp]
    have h1 : ¬ "U64" = v.repr := by intro e; rw [← e] at h; revert h; decide
    have h2 : ¬ "U128" = v.repr := by intro e; rw [← e] at h; revert h; decide
    have h3 : ¬ "I128" = v.repr := by intro e; rw [← e] at h; revert h; decide
    simp only [h1, h2, h3, if_false]
  unfold sliceBound
  rw [hrow]
  simp only [valI64, tryInt, h]
  rfl

/-- `ops::slice` is total: it reports `sliceErr?` if that is an error and succeeds otherwise;
    in no case does it panic — whatever the four values are -/
theorem sliceV_total {α : Type} (v a b c : Val α)
    (hl : ∀ s, pyView v = some s → s.len < 9223372036854775808) :
    match sliceErr? v a b c with
    | some e => sliceV v a b c = .ok (.error e)
    | Option.none => ∃ r, sliceV v a b c = .ok (.ok r) := by
  unfold sliceErr?
  cases ha : optBound a with
  | error e => simp only [sliceV, ha]
  | ok A =>
  cases hb : optBound b with
  | error e => simp only [sliceV, ha, hb]
  | ok B =>
  cases hc : optBound c with
  | error e => simp only [sliceV, ha, hb, hc]
  | ok C =>
  simp only []
  by_cases h0 : C.getD 1 = 0
  · simp only [h0, if_true, sliceV, ha, hb, hc]
  · simp only [h0, if_false]
    cases hv : pyView v with
    | some s =>
      have hcls : sliceClass v ≠ "error" := by
        cases v <;> simp [pyView] at hv <;>
          simp [sliceClass_str, sliceClass_bytes, sliceClass_tuple, sliceClass_seq, sliceClass_iter, sliceClass_once]
      rw [if_neg hcls]
      have h := sliceV_of_bounds v a b c s A B C hv ha hb hc (hl s hv)
      rw [if_neg h0] at h
      obtain ⟨r, h1, _⟩ := h
      exact ⟨r, h1⟩
    | none =>
      cases v with
      | undef => simp [sliceClass_undef, sliceV, ha, hb, hc, h0]
      | none => simp [sliceClass_none, sliceV, ha, hb, hc, h0]
      | bool x => simp [sliceClass_bool, sliceV, ha, hb, hc, h0]
      | num n => simp [sliceClass_num, sliceV, ha, hb, hc, h0]
      | map kvs => simp [sliceClass_map, sliceV, ha, hb, hc, h0]
      | plain => simp [sliceClass_plain, sliceV, ha, hb, hc, h0]
      | invalid => simp [sliceClass_invalid, sliceV, ha, hb, hc, h0]
      | _ => simp [pyView] at hv

theorem sliceV_no_panic {α : Type} (v a b c : Val α)
    (hl : ∀ s, pyView v = some s → s.len < 9223372036854775808) : sliceV v a b c ≠ .panic := by
  have h := sliceV_total v a b c hl
  cases he : sliceErr? v a b c with
  | some e => rw [he] at h; simp only [] at h; rw [h]; intro x; cases x
  | none => rw [he] at h; obtain ⟨r, h⟩ := h; rw [h]; intro x; cases x


/-! ## Subscripts of values -/

theorem item_lookup {α β : Type} (key : Val α) (i : Int) (xs : List β) (f : β → Item α) (hk : valI64 key = some i) :
    (match indexOf key (some xs.length) with
     | some idx => (xs[idx]?).map f
     | Option.none => Option.none) = (PySlice.index xs.length i).bind (fun j => (xs[j]?).map f) := by
  have h := indexOf_bind key i xs hk
  rw [index_eq_python] at h
  have h2 : (PySlice.index xs.length i).bind (fun j => (xs[j]?).map f) =
      ((PySlice.index xs.length i).bind (xs[·]?)).map f := by
    cases PySlice.index xs.length i <;> rfl
  rw [h2, ← h]
  cases indexOf key (some xs.length) <;> rfl

/-- a key that `as_i64` accepts (integers and booleans in the `i64` range, integral floats):
    `v[key]` is Python's `v[i]`; out of range is undefined (never an error, never a panic).
    A one-shot iterator answers an index relative to its end with undefined (engine rule: it had
    to be drained to be counted; Python's generators cannot be subscripted at all). -/
theorem getItemOpt_of_i64 {α : Type} (v key : Val α) (s : PySeq α) (i : Int)
    (hv : pyView v = some s) (hk : valI64 key = some i) :
    getItemOpt v key = if isOnce v && decide (i < 0) then Option.none else s.index i := by
  cases v with
  | str r bs =>
    simp only [pyView, Option.some.injEq] at hv; subst hv
    have hfn : MJ.Gen.c09GetItemLenFn.lookup (Val.str r bs : Val α).repr = some "chars" := by
      cases r <;> simp only [Val.repr] <;> first | exact lenFn_string | exact lenFn_smallstr
    simp only [getItemOpt, hfn, lenBy_chars, isOnce, Bool.false_and, Bool.false_eq_true, if_false]
    exact item_lookup key i (chars bs) Item.chr hk
  | bytes bs =>
    simp only [pyView, Option.some.injEq] at hv; subst hv
    simp only [getItemOpt, Val.repr, lenFn_bytes, lenBy_bytes, isOnce, Bool.false_and, Bool.false_eq_true, if_false]
    exact item_lookup key i bs Item.byte hk
  | tuple xs =>
    simp only [pyView, Option.some.injEq] at hv; subst hv
    simp only [getItemOpt, obj_seq, if_true, isOnce, Bool.false_and, Bool.false_eq_true, if_false]
    show _ = (PySlice.index xs.length i).bind (fun j => (xs[j]?).map Item.elem)
    rw [← item_lookup key i xs Item.elem hk]
    cases hi : indexOf key (some xs.length) with
    | none => simp only [vecGet, indexOf_neg_of_none key i _ hk hi]; rfl
    | some idx => rfl
  | seq xs =>
    simp only [pyView, Option.some.injEq] at hv; subst hv
    simp only [getItemOpt, obj_seq, if_true, isOnce, Bool.false_and, Bool.false_eq_true, if_false]
    show _ = (PySlice.index xs.length i).bind (fun j => (xs[j]?).map Item.elem)
    rw [← item_lookup key i xs Item.elem hk]
    cases hi : indexOf key (some xs.length) with
    | none => simp only [vecGet, indexOf_neg_of_none key i _ hk hi]; rfl
    | some idx => rfl
  | iter sized xs =>
    simp only [pyView, Option.some.injEq] at hv; subst hv
    simp only [getItemOpt, obj_iter, if_true, isOnce, Bool.false_and, Bool.false_eq_true, if_false]
    exact item_lookup key i xs Item.elem hk
  | once xs =>
    simp only [pyView, Option.some.injEq] at hv; subst hv
    simp only [getItemOpt, obj_iter, if_true, hk, isOnce, Bool.true_and, decide_eq_true_eq]
    by_cases hneg : i < 0
    · simp only [hneg, if_true]
    · simp only [hneg, if_false, PySeq.index, PySeq.len, PySlice.index]
      by_cases hlt : i < xs.length
      · rw [if_pos ⟨by omega, hlt⟩]; simp [PySeq.itemAt]
      · rw [if_neg (by omega)]
        have : xs[i.toNat]? = Option.none := List.getElem?_eq_none (by omega)
        simp [this]
  | _ => simp [pyView] at hv

/-- a key `as_i64` rejects (integers beyond `i64`, fractional or non-finite floats, strings,
    undefined, none, …) selects nothing from a sequence: the result is undefined — for the big
    integers that is Python's IndexError, for the rest the engine's rule (Python: TypeError) -/
theorem getItemOpt_not_i64 {α : Type} (v key : Val α) (s : PySeq α)
    (hv : pyView v = some s) (hk : valI64 key = Option.none) (hl : s.len < 9223372036854775808) :
    getItemOpt v key = Option.none := by
  cases v with
  | str r bs =>
    cases hfn : MJ.Gen.c09GetItemLenFn.lookup (Val.str r bs : Val α).repr <;>
      simp only [getItemOpt, hfn, indexOf_none key _ hk]
  | bytes bs =>
    cases hfn : MJ.Gen.c09GetItemLenFn.lookup (Val.bytes bs : Val α).repr <;>
      simp only [getItemOpt, hfn, indexOf_none key _ hk]
  | tuple xs =>
    simp only [pyView, Option.some.injEq] at hv; subst hv
    simp only [getItemOpt, obj_seq, if_true, indexOf_none key _ hk, vecGet]
    cases hu : valUsize key with
    | none => rfl
    | some n =>
      have := tryInt_usize_none_of_i64 key n hk hu
      simp only [PySeq.len] at hl
      simp only []
      rw [List.getElem?_eq_none (by omega)]; rfl
  | seq xs =>
    simp only [pyView, Option.some.injEq] at hv; subst hv
    simp only [getItemOpt, obj_seq, if_true, indexOf_none key _ hk, vecGet]
    cases hu : valUsize key with
    | none => rfl
    | some n =>
      have := tryInt_usize_none_of_i64 key n hk hu
      simp only [PySeq.len] at hl
      simp only []
      rw [List.getElem?_eq_none (by omega)]; rfl
  | iter sized xs => simp only [getItemOpt, obj_iter, if_true, indexOf_none key _ hk]
  | once xs => simp only [getItemOpt, obj_iter, if_true, hk]
  | _ => simp [pyView] at hv

/-- Python integers of every representation and size as subscripts: Python's `s[i]`, IndexError =
    undefined; nothing else can happen -/
theorem getItemOpt_eq_python {α : Type} (v key : Val α) (s : PySeq α) (i : Int)
    (hv : pyView v = some s) (hk : pyInt key = some i) (hl : s.len < 9223372036854775808)
    (ho : isOnce v = true → 0 ≤ i) :
    getItemOpt v key = s.index i := by
  have hv64 : valI64 key = if i64Min ≤ i ∧ i ≤ i64Max then some i else Option.none := tryInt_of_pyInt _ _ key i hk
  by_cases hr : i64Min ≤ i ∧ i ≤ i64Max
  · rw [if_pos hr] at hv64
    rw [getItemOpt_of_i64 v key s i hv hv64]
    by_cases h1 : isOnce v = true
    · have := ho h1
      simp [h1, show ¬ i < 0 by omega]
    · simp [h1]
  · rw [if_neg hr] at hv64
    rw [getItemOpt_not_i64 v key s hv hv64 hl]
    simp only [PySeq.index, PySlice.index]
    rw [if_neg (by unfold i64Min i64Max at hr; split <;> omega)]
    rfl

/-- maps (which Python's sequence rules do not cover): the key is looked up as it is — no
    normalisation of negative integers, no positional access -/
theorem getItemOpt_map {α : Type} (kvs : List (MKey × α)) (key : Val α) :
    getItemOpt (.map kvs) key = (mapGet kvs key).map Item.elem := by
  simp only [getItemOpt, obj_map, if_true]

/-- values without items -/
theorem getItemOpt_scalar {α : Type} (v key : Val α)
    (h : v = .undef ∨ v = .none ∨ (∃ b, v = .bool b) ∨ (∃ n, v = .num n) ∨ v = .plain ∨ v = .invalid) :
    getItemOpt v key = Option.none := by
  rcases h with rfl | rfl | ⟨b, rfl⟩ | ⟨n, rfl⟩ | rfl | rfl <;> rfl

/-! ## The VM arms and the undefined modes -/

/-- `GetItem`/`GetAttr`: a found item is the result; a missing one is undefined, except that
    subscripting an *undefined* value is an error in every mode but `Chainable` -/
theorem vmGetItem_eq {α : Type} (m : Mode) (v key : Val α) :
    vmGetItem m v key =
      match getItemOpt v key with
      | some it => .ok it
      | Option.none => if v.isUndef && m != .chainable then .error undefinedErr else .ok .undef := by
  unfold vmGetItem
  cases getItemOpt v key with
  | some it => rfl
  | none => cases m <;> cases v.isUndef <;> rfl

theorem vmGetAttr_eq {α : Type} (m : Mode) (v : Val α) (name : List UInt8) :
    vmGetAttr m v name =
      match getValueByStr v name with
      | some it => .ok it
      | Option.none => if v.isUndef && m != .chainable then .error undefinedErr else .ok .undef := by
  unfold vmGetAttr
  cases getValueByStr v name with
  | some it => rfl
  | none => cases m <;> cases v.isUndef <;> rfl

/-- `Slice`: only `Strict` refuses to slice an undefined value; otherwise `ops::slice` decides
    (undefined and none slice to the empty list once the parts convert and the step is not zero) -/
theorem vmSlice_eq {α : Type} (m : Mode) (v a b c : Val α) :
    vmSlice m v a b c =
      if v.isUndef && m == .strict then .ok (.error undefinedErr) else sliceV v a b c := by
  unfold vmSlice
  cases m <;> cases v.isUndef <;> rfl

theorem sliceV_undefined {α : Type} (v a b c : Val α) (hv : v = .undef ∨ v = .none)
    (h : sliceErr? v a b c = Option.none) : sliceV v a b c = .ok (.ok (.seq [])) := by
  unfold sliceErr? at h
  unfold sliceV
  cases ha : optBound a with
  | error e => rw [ha] at h; cases h
  | ok A =>
  cases hb : optBound b with
  | error e => rw [ha, hb] at h; cases h
  | ok B =>
  cases hc : optBound c with
  | error e => rw [ha, hb, hc] at h; cases h
  | ok C =>
  rw [ha, hb, hc] at h
  simp only [] at h ⊢
  by_cases h0 : C.getD 1 = 0
  · rw [if_pos h0] at h; cases h
  · rw [if_neg h0]
    rcases hv with rfl | rfl
    · simp [sliceClass_undef]
    · simp [sliceClass_none]

/-- attribute syntax never indexes: a numeric string is not a position (`Value::get_attr("0")` on
    a list is undefined), on maps it is the string key -/
theorem getValueByStr_seq {α : Type} (xs : List α) (name : List UInt8) :
    getValueByStr (Val.seq xs) name = Option.none ∧ getValueByStr (Val.tuple xs) name = Option.none := by
  have : valUsize (Val.str .normal name : Val α) = Option.none := rfl
  simp [getValueByStr, vecGet, this]

/-- `Value::get_item` / `get_item_by_index` (no undefined mode involved) -/
theorem getItem_eq {α : Type} (v key : Val α) :
    getItem v key = if v.isUndef then .error undefinedErr else .ok ((getItemOpt v key).getD .undef) := by
  cases v <;> rfl

theorem getItemByIndex_eq_python {α : Type} (v : Val α) (s : PySeq α) (n : Nat)
    (hv : pyView v = some s) (hl : s.len < 9223372036854775808) :
    getItemByIndex v n = .ok ((s.itemAt n).getD .undef) := by
  have hu : v.isUndef = false := by cases v <;> simp [pyView] at hv <;> rfl
  unfold getItemByIndex
  rw [getItem_eq, hu]
  simp only [Bool.false_eq_true, if_false]
  rw [getItemOpt_eq_python v _ s (n : Int) hv rfl hl (by intro; omega)]
  simp only [PySeq.index, PySlice.index]
  have hn : ¬ ((n : Int) < 0) := by omega
  simp only [hn, if_false]
  by_cases h : (n : Int) < s.len
  · rw [if_pos ⟨by omega, h⟩]; simp
  · rw [if_neg (by omega)]
    have : s.itemAt n = Option.none := by
      cases s <;> simp only [PySeq.itemAt, PySeq.len] at h ⊢ <;>
        rw [List.getElem?_eq_none (by omega)] <;> rfl
    rw [this]; rfl

/-! ## Metamorphic relations at the specification level -/

/-- `xs[::-1]` is `xs|reverse` -/
theorem slice_rev {α : Type} (xs : List α) (hl : xs.length < 9223372036854775808) :
    slice xs none none (some (-1)) = .ok (.ok xs.reverse) := by
  rw [slice_eq_python α xs none none (some (-1)) trivial trivial (by simp [OptInI64, InI64]) hl]
  simp only [show ¬ ((some (-1) : Option Int) = some 0) by simp, if_false, Option.getD_some]
  congr 2
  rw [indices_rev]
  apply List.ext_getElem?
  intro j
  rw [pick_getElem? xs _ (by
    intro i hi
    simp only [List.mem_map, List.mem_range] at hi
    obtain ⟨k, hk, rfl⟩ := hi
    omega)]
  by_cases hj : j < xs.length
  · rw [List.getElem?_map, List.getElem?_range hj]
    simp only [Option.map_some, Option.bind_some]
    rw [List.getElem?_reverse hj]
  · rw [List.getElem?_eq_none (by simpa using hj), List.getElem?_eq_none (by simpa using hj)]
    rfl

/-- `xs[0]` is `xs|first`, `xs[-1]` is `xs|last` -/
theorem index_first_last {α : Type} (xs : List α) : index? xs 0 = xs.head? ∧ index? xs (-1) = xs.getLast? := by
  constructor
  · cases xs <;> simp [index?]
  · unfold index?
    simp only [show ((-1 : Int) < 0) by omega, if_true, show (-1 : Int).natAbs = 1 by rfl]
    cases h : xs with
    | nil => simp
    | cons a t => rw [← h, if_pos (by rw [h]; simp), List.getLast?_eq_getElem?]

/-- `xs[a:b:c]|length`: as many items as Python selects positions -/
theorem slice_length {α : Type} (xs : List α) (start stop : Option Int) (step : Int)
    (hs : OptInI64 start) (he : OptInI64 stop) (hp : InI64 step) (h0 : step ≠ 0)
    (hl : xs.length < 9223372036854775808) :
    (pick xs (PySlice.indices xs.length start stop step)).length = (PySlice.adjust xs.length start stop step).2 := by
  have hb := indices_in_bounds xs.length start stop step hs he hp h0 hl
  have : (pick xs (PySlice.indices xs.length start stop step)).length = (PySlice.indices xs.length start stop step).length := by
    generalize PySlice.indices xs.length start stop step = is at hb
    induction is with
    | nil => rfl
    | cons i t ih =>
      have hi : i < xs.length := hb i (by simp)
      simp only [pick, List.filterMap_cons, List.getElem?_eq_getElem hi, List.length_cons]
      congr 1
      exact ih (fun k hk => hb k (by simp [hk]))
  rw [this]
  simp [PySlice.indices]



/-! ### the sequence `|chain` builds (`MergeSeq`) -/

/-- a chained sequence answers every subscript like the plain list of its concatenated operands
    (empty operands at the head, in the middle or at the tail included) — hence like Python's
    `list(chain(...))[i]` by `getItemOpt_eq_python` -/
theorem mergeGetItem_eq_concat {α : Type} (xss : List (List α)) (key : Val α) :
    (mergeGetItem xss key).map Item.elem = getItemOpt (Val.seq xss.flatten) key := by
  have hlen : (xss.map List.length).sum = xss.flatten.length := by rw [List.length_flatten]
  simp only [mergeGetItem, getItemOpt, obj_seq, if_true, hlen, vecGet]
  cases indexOf key (some xss.flatten.length) with
  | some idx => simp only [mergeGet_eq_concat_index]
  | none =>
    cases valUsize key with
    | some n => simp only [mergeGet_eq_concat_index]
    | none => rfl

example : mergeGetItem [[], [10, 20]] (Val.num (.i64 0) : Val Nat) = some 10 ∧
    mergeGetItem [[], [10, 20], []] (Val.num (.i64 (-2)) : Val Nat) = some 10 ∧
    mergeGetItem [[], [10, 20]] (Val.num (.i64 2) : Val Nat) = Option.none := by decide

/-! ### strings are UTF-8 bytes; the engine's cursor-based code works on characters -/

/-- every scalar value takes 1–4 bytes; the `Chars` cursor over the bytes of a string holding `cs`
    visits exactly the character boundaries (offset of the `i`-th step = byte length of the first `i`
    characters; the bytes before and after it are encodings of `cs.take i` / `cs.drop i`) and
    decodes exactly `cs` — so `chars().count()`, `nth`, `skip`/`take`/`step_by` of the string arms
    operate on scalar values, not bytes -/
theorem str_chars_on_boundaries (cs : List Char) :
    chars (encode cs) = cs ∧
    (∀ c ∈ cs, 1 ≤ (String.utf8EncodeChar c).length ∧ (String.utf8EncodeChar c).length ≤ 4) ∧
    cs.length ≤ (encode cs).length ∧
    ∀ i, i < cs.length →
      (charIndices (encode cs))[i]? = (cs[i]?).map (fun c => ((encode (cs.take i)).length, c)) ∧
      (encode cs).take (encode (cs.take i)).length = encode (cs.take i) ∧
      (encode cs).drop (encode (cs.take i)).length = encode (cs.drop i) :=
  ⟨chars_encode cs, fun c _ => width_bounds c, byteLen_ge_charLen cs, fun i h => cursor_on_boundaries cs i h⟩

/-- the Python view of a string value is its character list, whatever the representation -/
theorem str_view {α : Type} (r : StrRepr) (cs : List Char) : pyView (Val.str r (encode cs) : Val α) = some (.str cs) := by
  simp only [pyView, chars_encode]

/-- bytes and characters differ: `"héllo"` has 5 characters in 6 bytes, and `s[-1]` is `'o'`
    (counting from the character length; the byte length would select nothing) -/
example : (encode ['h', 'é', 'l', 'l', 'o']).length = 6 ∧
    (PySeq.str ['h', 'é', 'l', 'l', 'o'] : PySeq Nat).index (-1) = some (.chr 'o') := by decide

/-! ### Non-vacuity of the value-level theorems -/

/-- a safe string with multi-byte characters, an `i64` start, a `u128::MAX` stop and the step `true` -/
example : ∃ r, sliceV (Val.str .safe (encode ['h', 'é', 'l', 'l', 'o']) : Val Nat) (.num (.i64 1))
      (.num (.u128 340282366920938463463374607431768211455)) (.bool true) = .ok (.ok r) ∧
    pyView r = some (.str ['é', 'l', 'l', 'o']) := by
  have h := sliceV_eq_python Nat (Val.str .safe (encode ['h', 'é', 'l', 'l', 'o'])) (.num (.i64 1))
    (.num (.u128 340282366920938463463374607431768211455)) (.bool true) (.str ['h', 'é', 'l', 'l', 'o'])
    (some 1) (some 340282366920938463463374607431768211455) (some 1)
    (by simp only [pyView, chars_encode]) rfl rfl rfl (by show i64Min ≤ 1 ∧ 1 ≤ i64Max; decide) trivial trivial (by decide)
  rw [if_neg (by decide)] at h
  obtain ⟨r, h1, h2⟩ := h
  exact ⟨r, h1, by rw [h2]; decide⟩
example : sliceErr? (Val.seq [1, 2, 3]) (Val.str .small [0x31]) (Val.none) (Val.none) =
    some (convErr (Val.str .small [0x31] : Val Nat)) := by rfl   -- xs["1":]
example : sliceErr? (Val.map [(MKey.int 1, 7)]) (Val.none : Val Nat) Val.none Val.none = some (unsliceableErr (Val.map [(MKey.int 1, 7)])) := by rfl
example : getItemOpt (Val.map [(MKey.int (-1), 7), (MKey.int 1, 8)]) (Val.num (.i64 (-1)) : Val Nat) = some (.elem 7) := by decide
example : getItemOpt (Val.seq [10, 11, 12]) (Val.num (.i128 (-1)) : Val Nat) = some (.elem 12) := by decide
example : getItemOpt (Val.once [10, 11, 12]) (Val.num (.i64 (-1)) : Val Nat) = Option.none := by decide
example : (vmGetItem .chainable Val.undef (Val.num (.i64 0)) : Except Err (Item Nat)) = .ok .undef := by rfl
example : (vmGetItem .semiStrict Val.undef (Val.num (.i64 0)) : Except Err (Item Nat)) = .error undefinedErr := by rfl
end Values

/-! ## Non-vacuity: the hypotheses are met by ordinary inputs, and the statement has content. -/
example : slice [10, 11, 12, 13, 14] (some 4) (some 0) (some (-1)) = .ok (.ok [14, 13, 12, 11]) := by decide
example : slice [10, 11, 12, 13, 14] none none (some (-2)) = .ok (.ok [14, 12, 10]) := by decide
example : slice ([] : List Nat) none none (some (-9223372036854775808)) = .ok (.ok []) := by decide
example : slice [1, 2, 3] (some (-2)) none (some 0) = .ok .zeroStep := by decide
example : PySlice.indices 5 (some 4) (some 0) (-1) = [4, 3, 2, 1] := by decide

end MJ.C09

namespace MJ.C09
open MJ Chk Slice
section Round5
open MJ.Sub
set_option linter.unusedSimpArgs false

/-! # Conversion sites: representation is not an input (deepening round 5)

`MJ.Gen.c09ConversionSites` (regenerated from `/repo`) lists every place where a template value
becomes a subscript, a slice bound / step, a position or a count, with the function that converts it.
`convBy` is the model of those functions. -/

/-- every row of the regenerated table names a conversion the model knows, every target type has
    a range -/
theorem conversion_sites_known : MJ.Gen.c09ConversionSites.all knownSite = true := by decide

/-- `TryFrom<Value>` exists for exactly the integer types the model has ranges for, and every one
    of them holds 0 and 1 (what booleans convert to) -/
theorem int_types_hold_bools : MJ.Gen.c09IntTypes.all (fun t =>
    match intTypeRange t with
    | some (lo, hi) => decide (lo ≤ 0 ∧ 1 ≤ hi)
    | Option.none => false) = true := by decide

/-- **representation independence**: at every site of the table, two numbers that hold the same
    integer convert alike — whatever their representation: `I64`, `U64`, `I128`, `U128` or an
    integral `F64`.  (The result is `convSpec`, a function of the integer alone.) -/
theorem bound_conversion_repr_independent {α : Type} (p : String × String × String) (_hp : p ∈ MJ.Gen.c09ConversionSites)
    (n m : N) (x : Int) (hv : HoldsInt (Val.num n : Val α) x) (hw : HoldsInt (Val.num m : Val α) x) :
    convBy p.2.1 p.2.2 (Val.num n : Val α) = convBy p.2.1 p.2.2 (Val.num m : Val α) ∧
    convBy p.2.1 p.2.2 (Val.num n : Val α) = convSpec p.2.1 p.2.2 x "number" := by
  rw [convBy_of_holds _ _ _ x hv, convBy_of_holds _ _ _ x hw, kind_num, kind_num]
  exact ⟨rfl, rfl⟩

/-- the five representations of 3 (and of -1 where there is one) at a slice bound, a subscript and a
    typed argument -/
example : convBy "slice_bound" "i64" (Val.num (.u128 3) : Val Nat) = some (.int 3) ∧
    convBy "slice_bound" "i64" (Val.num (.i128 (-1)) : Val Nat) = some (.int (-1)) ∧
    convBy "as_i64+isize" "isize" (Val.num (.u64 3) : Val Nat) = some (.int 3) ∧
    convBy "try_from" "isize" (Val.num (.i128 3) : Val Nat) = some (.int 3) ∧
    convBy "as_usize" "usize" (Val.bool true : Val Nat) = some (.int 1) := by decide
example : HoldsInt (Val.num (.i128 3) : Val Nat) 3 ∧ HoldsInt (Val.num (.u64 3) : Val Nat) 3 :=
  ⟨⟨by decide, rfl, trivial⟩, ⟨by decide, rfl, trivial⟩⟩
example : ("ops::slice.stop", "slice_bound", "i64") ∈ MJ.Gen.c09ConversionSites ∧
    ("get_item_opt::index", "as_i64+isize", "isize") ∈ MJ.Gen.c09ConversionSites ∧
    ("functions.rs:range.upper", "try_from", "isize") ∈ MJ.Gen.c09ConversionSites := by decide

theorem sites_bool_in_range : MJ.Gen.c09ConversionSites.all (fun p =>
    convSpec p.2.1 p.2.2 0 "bool" == convSpec p.2.1 p.2.2 0 "number" &&
    convSpec p.2.1 p.2.2 1 "bool" == convSpec p.2.1 p.2.2 1 "number") = true := by decide

/-- booleans convert like the integers 0 and 1 at every site of the table -/
theorem bound_conversion_bool {α : Type} (p : String × String × String) (hp : p ∈ MJ.Gen.c09ConversionSites) (b : Bool) :
    convBy p.2.1 p.2.2 (Val.bool b : Val α) = convBy p.2.1 p.2.2 (Val.num (.i64 (if b then 1 else 0)) : Val α) := by
  have hx : i64Min ≤ (if b then (1 : Int) else 0) ∧ (if b then (1 : Int) else 0) ≤ i64Max := by cases b <;> decide
  rw [convBy_of_holds _ _ _ _ (holds_bool b), convBy_of_holds _ _ _ _ (holds_i64 _ hx), kind_num]
  have hk : (Val.bool b : Val α).kindDisplay = "bool" := by simp only [Val.kindDisplay, Val.repr]; decide
  rw [hk]
  have h := List.all_eq_true.mp sites_bool_in_range p hp
  simp only [Bool.and_eq_true, beq_iff_eq] at h
  cases b
  · exact h.1
  · exact h.2

example : convBy "slice_bound" "i64" (Val.bool true : Val Nat) = convBy "slice_bound" "i64" (Val.num (.i64 1) : Val Nat) :=
  bound_conversion_bool ("ops::slice.start", "slice_bound", "i64") (by decide) true

/-- everything that holds no integer — undefined, none (where a part is not optional), strings,
    bytes, containers, and floats that are fractional, not finite or `≥ 2^63` — is rejected the same
    way by every site, whatever it is: the conversion error of that site, or "no index" -/
theorem bound_conversion_rejects {α : Type} (fn target : String) (v : Val α)
    (h : MJ.Gen.c09IntTryFromArms.contains v.repr = false ∨ v.payload = Option.none) :
    convBy fn target v = convReject fn target v := by
  unfold convBy convReject
  by_cases h1 : fn = "slice_bound"
  · simp only [h1, if_true, sliceBound, clampRow_none_of_no_int v h, valI64, tryInt_none _ _ v h]
  · simp only [h1, if_false]
    by_cases h2 : fn = "as_i64+isize"
    · simp only [h2, if_true, valI64, tryInt_none _ _ v h]
    · simp only [h2, if_false]
      by_cases h3 : fn = "as_usize"
      · simp only [h3, if_true, valUsize, tryInt_none _ _ v h, Option.map_none]
      · simp only [h3, if_false]
        by_cases h4 : fn = "try_from"
        · simp only [h4, if_true]
          cases intTypeRange target with
          | none => rfl
          | some p => simp only [tryInt_none _ _ v h]
        · simp only [h4, if_false]

example : convBy "slice_bound" "i64" (Val.undef : Val Nat) = some (.error (convErr (Val.undef : Val Nat))) ∧
    convBy "as_i64+isize" "isize" (Val.str .small [0x31] : Val Nat) = some .absent := by
  exact ⟨bound_conversion_rejects _ _ _ (Or.inl (by decide)), bound_conversion_rejects _ _ _ (Or.inl (by decide))⟩

/-! # Strings at the level of bytes, negative steps included -/

theorem indices_any_bounds (len : Nat) (A B : Option Int) (c : Int) (hl : len < 9223372036854775808) (hc : c ≠ 0) :
    ∀ i ∈ PySlice.indices len A B c, i < len := by
  rw [← indices_clamp len A B c hl hc]
  have hcl : ∀ x : Int, InI64 (clampI64 x) := by
    intro x; unfold InI64 clampI64 i64Min i64Max; split
    · omega
    · split <;> omega
  have hopt : ∀ o : Option Int, OptInI64 (o.map clampI64) := by
    intro o; cases o with
    | none => trivial
    | some x => exact hcl x
  exact indices_in_bounds len _ _ _ (hopt A) (hopt B) (hcl c) (by rw [Ne, clampI64_zero_iff]; exact hc) hl

example : ∀ i ∈ PySlice.indices 5 (some 100000000000000000000) none (-3), i < 5 :=
  indices_any_bounds 5 _ _ _ (by decide) (by decide)

/-- Slicing the string that holds the scalar values `cs` (any of them: combining marks, 4-byte
    characters, …) with any step, negative ones included, builds exactly the concatenation of the
    *whole* byte ranges of the characters Python selects, in Python's order; every such range starts
    and ends on a character boundary of the source and is the UTF-8 encoding of that character; the
    result is well-formed UTF-8 again and holds Python's `s[a:b:c]`. -/
theorem str_slice_bytes {α : Type} (r : StrRepr) (cs : List Char) (a b c : Val α) (A B C : Option Int)
    (ha : pyBound a = some A) (hb : pyBound b = some B) (hc : pyBound c = some C)
    (wa : a.WF) (wb : b.WF) (wc : c.WF) (hl : cs.length < 9223372036854775808) (h0 : C ≠ some 0) :
    let idxs := PySlice.indices cs.length A B (C.getD 1)
    sliceV (Val.str r (encode cs) : Val α) a b c = .ok (.ok (.str .normal (strSliceBytes (encode cs) idxs))) ∧
    (∀ i ∈ idxs, i < cs.length ∧ charBytesAt (encode cs) i = String.utf8EncodeChar cs[i]! ∧
        (encode cs).take (encode (cs.take i)).length = encode (cs.take i) ∧
        (encode cs).drop (encode (cs.take i)).length = encode (cs.drop i)) ∧
    chars (strSliceBytes (encode cs) idxs) = pick cs idxs ∧
    encode (chars (strSliceBytes (encode cs) idxs)) = strSliceBytes (encode cs) idxs := by
  intro idxs
  have hst : C.getD 1 ≠ 0 := by
    cases C with
    | none => simp
    | some x => simpa using h0
  have hbnd : ∀ i ∈ idxs, i < cs.length := indices_any_bounds cs.length A B (C.getD 1) hl hst
  have henc : encode (pick cs idxs) = strSliceBytes (encode cs) idxs := encode_pick cs idxs hbnd
  refine ⟨?_, ?_, ?_, ?_⟩
  · have hA := optBound_pyBound a A ha wa
    have hB := optBound_pyBound b B hb wb
    have hC := optBound_pyBound c C hc wc
    have hstep : (C.map clampI64).getD 1 = clampI64 (C.getD 1) := by
      cases C with
      | none => simp [clampI64, i64Min, i64Max]
      | some x => rfl
    have hne : clampI64 (C.getD 1) ≠ 0 := by rw [Ne, clampI64_zero_iff]; exact hst
    have hrA := optBound_range a _ hA
    have hrB := optBound_range b _ hB
    have hrC := getD_range _ (optBound_range c _ hC)
    rw [hstep] at hrC
    unfold sliceV
    simp only [hA, hB, hC, hstep, hne, if_false, sliceClass_str, String.reduceEq, if_true]
    rw [chars_encode, slice_list_ok cs _ _ _ hrA hrB hrC hne hl]
    simp only [wrapRes]
    rw [indices_clamp cs.length A B (C.getD 1) hl hst, henc]
  · intro i hi
    have hlt := hbnd i hi
    obtain ⟨_, h2, h3⟩ := cursor_on_boundaries cs i hlt
    refine ⟨hlt, ?_, h2, h3⟩
    rw [charBytesAt_encode cs i hlt]
    simp [hlt]
  · rw [← henc, chars_encode]
  · rw [← henc, chars_encode]

/-- `e` + combining acute accent, a 4-byte character, `x` — every second character backwards:
    `x` and the combining mark (Python splits the grapheme as well), 3 bytes -/
example : ∃ out, sliceV (Val.str .small (encode ['e', '́', '𝄞', 'x']) : Val Nat) .none .none (.num (.i64 (-2))) =
      .ok (.ok (.str .normal out)) ∧ chars out = ['x', '́'] ∧ out.length = 3 := by
  have h := str_slice_bytes (α := Nat) .small ['e', '́', '𝄞', 'x'] .none .none (.num (.i64 (-2))) none none (some (-2))
    rfl rfl rfl trivial trivial (by show i64Min ≤ -2 ∧ -2 ≤ i64Max; decide) (by decide) (by decide)
  exact ⟨_, h.1, by rw [h.2.2.1]; decide, by decide⟩

/-! # Every sliceable object kind

`MJ.Gen.c09ObjectImpls` lists every `impl Object` of the engine with its `ObjectRepr` and enumerator.
`Seq` and `Iterable` objects are what `ops::slice` and `get_item_opt` treat as sequences: the model
has them as `Val.seq` / `Val.tuple` / `Val.iter sized` / `Val.once`, and `sliceV_eq_python`,
`getItemOpt_eq_python` speak about all of them.  `Map` and `Plain` objects are not sliced
(`sliceV_total`: the `cannot be sliced` error) and subscripted by key (`getItemOpt_map`). -/

/-- the representations and enumerator variants are the ones the model distinguishes -/
theorem object_reprs_known :
    MJ.Gen.c09ObjectReprs = ["Plain", "Map", "Seq", "Iterable"] ∧
    MJ.Gen.c09EnumeratorVariants = ["NonEnumerable", "Empty", "Str", "Iter", "KeyValueIter", "RevIter", "RevKeyValueIter", "Seq", "Values"] ∧
    MJ.Gen.c09SliceObjectReprs = ["Seq", "Iterable"] ∧
    MJ.Gen.c09ObjectImpls.all (fun p => ["Plain", "Map", "Seq", "Iterable", "dynamic"].contains p.2.1) = true := by decide

/-- maps (and namespaces, the loop object, …: everything of `ObjectRepr::Map` / `Plain`) cannot be
    sliced: with convertible parts and a non-zero step the result is the `cannot be sliced` error -/
theorem slice_of_map_is_error {α : Type} (kvs : List (MKey × α)) (a b c : Val α) (A B C : Option Int)
    (ha : optBound a = .ok A) (hb : optBound b = .ok B) (hc : optBound c = .ok C) (h0 : C.getD 1 ≠ 0) :
    sliceV (Val.map kvs) a b c = .ok (.error (unsliceableErr (Val.map kvs))) ∧
    sliceV (Val.plain : Val α) a b c = .ok (.error (unsliceableErr (Val.plain : Val α))) := by
  simp [sliceV, ha, hb, hc, h0, sliceClass_map, sliceClass_plain]

example : sliceV (Val.map [(MKey.int 0, 7)]) (Val.none : Val Nat) Val.none Val.none =
    .ok (.error (unsliceableErr (Val.map [(MKey.int 0, 7)]))) :=
  (slice_of_map_is_error _ _ _ _ none none none rfl rfl rfl (by decide)).1

/-! ## Repetitions (`seq * n`, `struct Repeated`) -/

/-- `seq * n` for a plain sized operand: Python's `xs * n`, and the announced length is the real one -/
theorem repeat_plain {α : Type} (xs : List α) (n : Nat) (r : Rep α) (h : repeatIterable (.plain xs) n = .ok r) :
    r.items = (List.replicate n xs).flatten ∧ r.Honest := by
  unfold repeatIterable at h
  by_cases hle : (Operand.plain xs).enumLen * n ≤ MJ.Gen.c09RepeatedMax
  · simp only [hle, if_true] at h
    cases h
    simp only [Rep.items, Rep.Honest, Operand.enumLen]
    by_cases h0 : xs.length = 0
    · have : xs = [] := List.eq_nil_of_length_eq_zero h0
      subst this
      simp [repIter_nil]
    · simp only [h0, if_false, repIter_eq]
      simp [Nat.mul_comm]
  · simp only [hle, if_false] at h; cases h

/-- a repetition of a repetition: Python's `(xs * a) * b`, again with an honest length — the
    innermost operand is repeated `a * b` times, repetitions do not nest -/
theorem repeat_rep {α : Type} (inner : Rep α) (hh : inner.Honest) (n : Nat) (r : Rep α)
    (h : repeatIterable (.rep inner) n = .ok r) :
    r.items = (List.replicate n inner.items).flatten ∧ r.Honest ∧ r.xs = inner.xs := by
  obtain ⟨ht, hl⟩ := hh
  unfold repeatIterable at h
  by_cases hle : (Operand.rep inner).enumLen * n ≤ MJ.Gen.c09RepeatedMax
  · simp only [hle, if_true] at h
    cases h
    simp only [Rep.items, Rep.Honest, Operand.enumLen]
    rw [← repIter_eq]
    by_cases h0 : inner.total = 0
    · have hi : repIter inner.n inner.xs = [] := by
        apply List.eq_nil_of_length_eq_zero; simp only [Rep.items] at ht; omega
      simp [h0, hi, repIter_nil, repIter_zero, hl]
    · simp only [h0, if_false]
      by_cases hn : n = 0
      · subst hn; simp [repIter_zero, hl]
      · have : inner.total * n ≠ 0 := Nat.mul_ne_zero h0 hn
        simp only [this, if_false]
        rw [repIter_mul]
        refine ⟨rfl, ⟨?_, hl⟩, trivial⟩
        rw [repIter_length]
        simp only [Rep.items] at ht
        rw [← ht, Nat.mul_comm]
  · simp only [hle, if_false] at h; cases h

/-- the only failure of a repetition: more items than the limit -/
theorem repeat_error_iff {α : Type} (o : Operand α) (n : Nat) :
    (∃ e, repeatIterable o n = .error e) ↔ MJ.Gen.c09RepeatedMax < o.enumLen * n := by
  unfold repeatIterable
  by_cases h : o.enumLen * n ≤ MJ.Gen.c09RepeatedMax
  · simp only [h, if_true]
    constructor
    · rintro ⟨e, he⟩; cases o <;> cases he
    · intro h2; omega
  · simp only [h, if_false]
    exact ⟨fun _ => by omega, fun _ => ⟨_, rfl⟩⟩

/-- slices and subscripts of a repetition are Python's `(xs * n)[a:b:c]` / `(xs * n)[i]` -/
theorem repeated_eq_python {α : Type} (xs : List α) (n : Nat) (r : Rep α) (h : repeatIterable (.plain xs) n = .ok r)
    (a b c key : Val α) (A B C : Option Int) (i : Int)
    (ha : pyBound a = some A) (hb : pyBound b = some B) (hc : pyBound c = some C) (wa : a.WF) (wb : b.WF) (wc : c.WF)
    (hk : pyInt key = some i) :
    (if C = some 0 then sliceV r.val a b c = .ok (.error zeroStepErr)
     else ∃ q, sliceV r.val a b c = .ok (.ok q) ∧
       pyView q = some ((PySeq.list (List.replicate n xs).flatten).slice A B (C.getD 1))) ∧
    getItemOpt r.val key = (PySeq.list (List.replicate n xs).flatten).index i := by
  obtain ⟨hi, hh⟩ := repeat_plain xs n r h
  have hlen : r.items.length < 9223372036854775808 := by
    have hle : xs.length * n ≤ MJ.Gen.c09RepeatedMax := by
      unfold repeatIterable at h
      by_cases hle : (Operand.plain xs).enumLen * n ≤ MJ.Gen.c09RepeatedMax
      · exact hle
      · simp only [hle, if_false] at h; cases h
    rw [hi, ← repIter_eq, repIter_length]
    have : MJ.Gen.c09RepeatedMax = 100000000 := rfl
    rw [Nat.mul_comm]; omega
  have hv : pyView r.val = some (.list (List.replicate n xs).flatten) := by simp only [Rep.val, pyView, hi]
  refine ⟨sliceV_eq_python α r.val a b c _ A B C hv ha hb hc wa wb wc (by simpa [PySeq.len, ← hi] using hlen), ?_⟩
  exact getItemOpt_eq_python r.val key _ i hv hk (by simpa [PySeq.len, ← hi] using hlen) (by intro h; cases h)

example : ∃ r, repeatIterable (.plain [10, 20, 30]) 2 = .ok r ∧ r.items = [10, 20, 30, 10, 20, 30] ∧
    ∃ r2, repeatIterable (.rep r) 3 = .ok r2 ∧ r2.n = 6 ∧ r2.total = 18 ∧ r2.xs = [10, 20, 30] ∧
    getItemOpt r2.val (Val.num (.i64 (-1)) : Val Nat) = some (.elem 30) := by
  refine ⟨_, rfl, by decide, _, rfl, rfl, rfl, rfl, by decide⟩

/-! ## Chains nested deeper than `MergeSeq::MAX_DEPTH` are flattened in order -/

/-- the shape of `push_flattened_value` / `with_repr` the model transcribes (regenerated) -/
theorem merge_flatten_shape : MJ.Gen.c09MergeFlatten = ["pop-last", "merge:extend-operands-reversed", "other:push"] := by decide

/-- flattening a nested chain keeps the items and their order, and leaves no nested chain behind
    (so every subscript and slice of the flattened chain is that of the nested one) -/
theorem pushFlattened_items {α : Type} (t : MTree α) (values : List (MTree α)) :
    itemsList (pushFlattened t values) = itemsList values ++ t.items ∧
    (∀ u ∈ pushFlattened t values, u ∈ values ∨ ∃ xs, u = .leaf xs) := by
  have h := flattenLoop_items t.size [t] values (by simp [sizeList])
  simpa [pushFlattened, itemsList] using h

theorem flattenAll_items {α : Type} (vs : List (MTree α)) :
    itemsList (flattenAll vs) = itemsList vs ∧ ∀ u ∈ flattenAll vs, ∃ xs, u = .leaf xs := by
  have key : ∀ (vs acc : List (MTree α)), (∀ u ∈ acc, ∃ xs, u = MTree.leaf xs) →
      itemsList (vs.foldl (fun acc v => pushFlattened v acc) acc) = itemsList acc ++ itemsList vs ∧
      ∀ u ∈ vs.foldl (fun acc v => pushFlattened v acc) acc, ∃ xs, u = MTree.leaf xs := by
    intro vs
    induction vs with
    | nil => intro acc hacc; exact ⟨by simp [itemsList], hacc⟩
    | cons v rest ih =>
      intro acc hacc
      obtain ⟨h1, h2⟩ := pushFlattened_items v acc
      have hacc' : ∀ u ∈ pushFlattened v acc, ∃ xs, u = MTree.leaf xs := by
        intro u hu
        rcases h2 u hu with h | h
        · exact hacc u h
        · exact h
      obtain ⟨h3, h4⟩ := ih (pushFlattened v acc) hacc'
      refine ⟨?_, h4⟩
      simp only [List.foldl_cons]
      rw [h3, h1]
      simp [itemsList, List.append_assoc]
  have := key vs [] (by simp)
  simpa [flattenAll, itemsList] using this

example : (flattenAll ([.node [.node [.leaf [1], .leaf [2]], .leaf [3]], .leaf [], .node [.node [.leaf [4]]]] : List (MTree Nat))).map MTree.items
    = [[1], [2], [3], [], [4]] := by decide

/-! ## Reversed views (`Value::reverse`) -/

/-- the arms of `Value::reverse` (regenerated): every enumerator variant reverses — except that
    `RevIter` is handed on as it is (`forward`; known finding `reverse:RevIter`, pinned by the
    existing test suite).  `reverseView` is the model of the reversing arms; for a `RevIter` object the
    correspondence uses the identity view while that row says `forward`. -/
theorem reverse_arms_known :
    MJ.Gen.c09ReverseArms.map (·.1) = ["NonEnumerable", "Empty", "Seq", "Iter", "KeyValueIter", "RevIter", "RevKeyValueIter", "Str", "Values"] ∧
    (MJ.Gen.c09ReverseArms.filter (fun p => p.1 != "RevIter")).all (fun p => p.2 != "forward") = true := by decide

/-- `v|reverse` (through a reversing arm): Python's `reversed(v)` — a string from a string, bytes from
    bytes, a lazy list otherwise -/
theorem reverse_view_python {α : Type} (v : Val α) (s : PySeq α) (hv : pyView v = some s) :
    ∃ r, reverseView v = some r ∧ pyView r = some s.reversed := by
  cases v with
  | str r bs =>
    simp only [pyView, Option.some.injEq] at hv; subst hv
    exact ⟨_, rfl, by simp only [pyView, chars_encode, PySeq.reversed]⟩
  | bytes bs => simp only [pyView, Option.some.injEq] at hv; subst hv; exact ⟨_, rfl, rfl⟩
  | tuple xs => simp only [pyView, Option.some.injEq] at hv; subst hv; exact ⟨_, rfl, rfl⟩
  | seq xs => simp only [pyView, Option.some.injEq] at hv; subst hv; exact ⟨_, rfl, rfl⟩
  | iter sized xs => simp only [pyView, Option.some.injEq] at hv; subst hv; exact ⟨_, rfl, rfl⟩
  | once xs => simp only [pyView, Option.some.injEq] at hv; subst hv; exact ⟨_, rfl, rfl⟩
  | _ => simp [pyView] at hv

/-- the reversed view holds what `v[::-1]` holds, item by item (a tuple sliced backwards is a
    tuple, its reversed view a lazy list: the items are the same) -/
theorem reverse_view_eq_back_slice {α : Type} (s : PySeq α) :
    (s.slice none none (-1)).items = s.reversed.items := by
  cases s with
  | str cs =>
    simp only [PySeq.slice, PySeq.pick, PySeq.len, PySeq.items, PySeq.reversed]
    rw [pick_indices_rev cs]
  | bytes bs =>
    simp only [PySeq.slice, PySeq.pick, PySeq.len, PySeq.items, PySeq.reversed]
    rw [pick_indices_rev bs]
  | tuple xs =>
    simp only [PySeq.slice, PySeq.pick, PySeq.len, PySeq.items, PySeq.reversed]
    rw [pick_indices_rev xs]
  | list xs =>
    simp only [PySeq.slice, PySeq.pick, PySeq.len, PySeq.items, PySeq.reversed]
    rw [pick_indices_rev xs]

example : ∃ r, reverseView (Val.tuple [1, 2, 3] : Val Nat) = some r ∧ pyView r = some (.list [3, 2, 1]) ∧
    getItemOpt r (Val.num (.i64 (-1))) = some (.elem 1) := ⟨_, rfl, rfl, by decide⟩

/-! ## One-shot iterators used more than once -/

/-- the first subscript of a fresh one-shot iterator is `get_item_opt`'s answer -/
theorem once_getItem_agrees {α : Type} (xs : List α) (key : Val α) :
    (onceGetItem xs key).1.map Item.elem = getItemOpt (Val.once xs) key := by
  simp only [onceGetItem, getItemOpt, obj_iter, if_true]
  cases valI64 key with
  | none => rfl
  | some i => by_cases h : i < 0 <;> simp [h]

/-- a non-negative subscript pulls exactly `k + 1` items; one relative to the end drains the iterator -/
theorem once_getItem_leaves {α : Type} (xs : List α) (key : Val α) (i : Int) (hk : valI64 key = some i) :
    (onceGetItem xs key).2 = if i < 0 then [] else xs.drop (i.toNat + 1) := by
  simp only [onceGetItem, hk]
  by_cases h : i < 0 <;> simp [h]

example : onceGetItem [10, 11, 12, 13] (Val.num (.i64 1) : Val Nat) = (some 11, [12, 13]) ∧
    onceGetItem [10, 11, 12, 13] (Val.num (.i64 (-1)) : Val Nat) = (Option.none, []) := by decide

/-- one enumeration of a slice of a one-shot iterator yields Python's selection of what was left;
    what it yields together with what it leaves was there before, in that order (positive steps
    without a bound relative to the end) — nothing is yielded twice, nothing is invented; every
    other slice collects the iterator and leaves nothing -/
theorem once_slice_enum {α : Type} (rem : List α) (A B : Option Int) (st : Int)
    (hA : OptInI64 A) (hB : OptInI64 B) (hst : InI64 st) (h0 : st ≠ 0) (hl : rem.length < 9223372036854775808) :
    ∃ left, onceSliceEnum rem A B st = .ok (pick rem (PySlice.indices rem.length A B st), left) ∧
      (st > 0 ∧ (isNeg A || isNeg B) = false → (pick rem (PySlice.indices rem.length A B st) ++ left).Sublist rem) ∧
      (¬ (st > 0 ∧ (isNeg A || isNeg B) = false) → left = []) := by
  have hS := slice_list_ok rem A B st hA hB hst h0 hl
  unfold onceSliceEnum
  by_cases hc : st > 0 ∧ (isNeg A || isNeg B) = false
  · rw [if_pos hc]
    have hU := sliceUnsized_eq_slice rem A B (some st) hA hB hst hl
    rw [hS] at hU
    unfold sliceUnsized at hU
    rw [if_pos (by simpa using hc)] at hU
    rw [unsizedLen_eq]
    cases ho : offsetLen A B 18446744073709551615 with
    | panic => rw [ho] at hU; cases hU
    | ok p =>
      obtain ⟨off, n⟩ := p
      rw [ho] at hU
      simp only [Option.getD_some] at hU
      injection hU with hU
      injection hU with hU
      refine ⟨_, by simp only []; rw [hU], ?_, fun h => absurd hc h⟩
      intro _
      rw [← hU]
      by_cases hn : n = 0
      · subst hn; simp [stepBy]
      · simp only [hn, if_false]
        have h1 : (stepBy (asUsize st) (List.take n (List.drop off rem))).Sublist (List.take n (List.drop off rem)) := stepBy_sublist _ _
        have h2 : (List.take n (List.drop off rem) ++ List.drop (off + n) rem).Sublist rem := by
          have : List.drop (off + n) rem = List.drop n (List.drop off rem) := by rw [List.drop_drop, Nat.add_comm]
          rw [this, List.take_append_drop]
          exact List.drop_sublist _ _
        exact (List.Sublist.append_right h1 _).trans h2
  · rw [if_neg hc, hS]
    exact ⟨[], rfl, fun h => absurd h hc, fun _ => rfl⟩

/-- an open-ended slice of a one-shot iterator drains it: a second enumeration finds nothing -/
theorem once_open_slice_second_enum_empty {α : Type} (rem : List α) (A : Option Int) (st : Int)
    (hA : OptInI64 A) (hst : InI64 st) (h0 : st ≠ 0) (hl : rem.length < 9223372036854775808)
    (ys left : List α) (h : onceSliceEnum rem A none st = .ok (ys, left)) :
    left = [] ∧ ∃ left2, onceSliceEnum left A none st = .ok ([], left2) := by
  have hleft : left = [] := by
    unfold onceSliceEnum at h
    by_cases hc : st > 0 ∧ (isNeg A || isNeg none) = false
    · rw [if_pos hc, unsizedLen_eq] at h
      have hAn : ¬ (A.getD 0 < 0) := by
        have := hc.2
        cases A with
        | none => simp
        | some a => simp only [isNeg, Bool.or_false, decide_eq_false_iff_not] at this; simpa using this
      have hAr : 0 ≤ A.getD 0 ∧ A.getD 0 < 9223372036854775808 := by
        cases A with
        | none => simp
        | some a => simp only [OptInI64, InI64] at hA; simp only [Option.getD_some] at hAn ⊢; omega
      have ho : offsetLen A none 18446744073709551615 = .ok ((A.getD 0).toNat, 18446744073709551615 - (A.getD 0).toNat) := by
        unfold offsetLen
        have e1 : asUsize (A.getD 0) = (A.getD 0).toNat := asUsize_of_nonneg _ (by omega) (by omega)
        simp only [or_true, if_true, hAn, if_false, pure_eq, ok_bind, e1]
      rw [ho] at h
      simp only [] at h
      injection h with h
      have hn : ¬ (18446744073709551615 - (A.getD 0).toNat = 0) := by omega
      simp only [hn, if_false, Prod.mk.injEq] at h
      rw [← h.2]
      apply List.drop_eq_nil_of_le
      omega
    · rw [if_neg hc, slice_list_ok rem A none st hA trivial hst h0 hl] at h
      injection h with h
      simp only [Prod.mk.injEq] at h
      exact h.2.symm
  refine ⟨hleft, ?_⟩
  subst hleft
  obtain ⟨l2, h2, _, _⟩ := once_slice_enum ([] : List α) A none st hA trivial hst h0 (by simp)
  refine ⟨l2, ?_⟩
  rw [h2]
  simp [pick]

example : (∃ left, onceSliceEnum [0, 1, 2, 3, 4, 5] (some 1) (some 4) 2 = .ok ([1, 3], left) ∧ ([1, 3] ++ left).Sublist [0, 1, 2, 3, 4, 5]) ∧
    onceSliceEnum [0, 1, 2, 3] none none (-1) = .ok ([3, 2, 1, 0], []) := by
  refine ⟨?_, by decide⟩
  obtain ⟨l, h, hs, _⟩ := once_slice_enum [0, 1, 2, 3, 4, 5] (some 1) (some 4) 2 (by simp [OptInI64, InI64])
    (by simp [OptInI64, InI64]) (by simp [InI64]) (by decide) (by decide)
  have e : pick [0, 1, 2, 3, 4, 5] (PySlice.indices 6 (some 1) (some 4) 2) = [1, 3] := by decide
  simp only [List.length_cons, List.length_nil] at h hs
  rw [e] at h hs
  exact ⟨l, h, hs ⟨by decide, by decide⟩⟩

end Round5
/-! ## Objects by `Enumerator` variant (session 4)

`MJ.Sub.Obj` (MJ/Model/SubObj.lean) is an object as `ops::slice` / `get_item_opt` see it:
`repr()`, `enumerate()` (variant, what it yields, size hints), `get_value` by position.  The arms of
`try_iter` / `query_len`, the length the `Seq` arm of `get_item_opt` offers to `index` and the data
flow of the lazy object arm of `ops::slice` are regenerated tables (`C09_ENUMERATOR_ARMS`). -/
section Objects
open MJ.Sub
set_option linter.unusedSimpArgs false
variable {α : Type}

/-- the object holds the items `xs`: what `enumerate()` returns (any variant but `NonEnumerable`)
    yields them, a length it announces (exact size hints, `Seq(l)`) is their number, and
    `get_value` answers by position (a `Seq` object must; an `Iterable` may) -/
structure Holds (o : Obj α) (xs : List α) : Prop where
  variant : o.variant ∈ MJ.Gen.c09EnumeratorVariants ∧ o.variant ≠ "NonEnumerable"
  seq : o.variant = "Seq" → o.seqLen = xs.length ∧ o.gv = xs
  empty : o.variant = "Empty" → xs = []
  other : o.variant ≠ "Seq" → o.variant ≠ "Empty" → o.yields = xs
  hint : ∀ a, o.hint = (a, some a) → a = xs.length
  gvSeq : o.isSeq = true → o.gv = xs
  gvIter : o.isSeq = false → o.gv = [] ∨ o.gv = xs

theorem holds_tryIter (o : Obj α) (xs : List α) (h : Holds o xs) : o.tryIter = some xs := by
  obtain ⟨hm, hne⟩ := h.variant
  simp only [MJ.Gen.c09EnumeratorVariants, List.mem_cons, List.not_mem_nil, or_false] at hm
  unfold Obj.tryIter
  rcases hm with hv | hv | hv | hv | hv | hv | hv | hv | hv
  · exact absurd hv hne
  · have := h.empty hv; subst this; rw [hv]; rfl
  · have := h.other (by rw [hv]; decide) (by rw [hv]; decide); rw [hv, this]; rfl
  · have := h.other (by rw [hv]; decide) (by rw [hv]; decide); rw [hv, this]; rfl
  · have := h.other (by rw [hv]; decide) (by rw [hv]; decide); rw [hv, this]; rfl
  · have := h.other (by rw [hv]; decide) (by rw [hv]; decide); rw [hv, this]; rfl
  · have := h.other (by rw [hv]; decide) (by rw [hv]; decide); rw [hv, this]; rfl
  · obtain ⟨h1, h2⟩ := h.seq hv
    rw [hv, h1, h2]
    show some (xs.take xs.length) = some xs
    rw [List.take_length]
  · have := h.other (by rw [hv]; decide) (by rw [hv]; decide); rw [hv, this]; rfl

theorem holds_queryLen (o : Obj α) (xs : List α) (h : Holds o xs) :
    o.queryLen = Option.none ∨ o.queryLen = some xs.length := by
  obtain ⟨hm, hne⟩ := h.variant
  simp only [MJ.Gen.c09EnumeratorVariants, List.mem_cons, List.not_mem_nil, or_false] at hm
  have hint : (match o.hint with
      | (a, some b) => if a = b then some a else Option.none
      | (_, Option.none) => Option.none) = Option.none ∨
      (match o.hint with
      | (a, some b) => if a = b then some a else Option.none
      | (_, Option.none) => Option.none) = some xs.length := by
    rcases hh : o.hint with ⟨a, b⟩
    cases b with
    | none => left; rfl
    | some b =>
      by_cases hab : a = b
      · subst hab; right; simp only [if_true]; rw [h.hint a hh]
      · left; simp only [hab, if_false]
  unfold Obj.queryLen
  rcases hm with hv | hv | hv | hv | hv | hv | hv | hv | hv
  · exact absurd hv hne
  · have := h.empty hv; subst this; rw [hv]; right; rfl
  · have := h.other (by rw [hv]; decide) (by rw [hv]; decide); rw [hv, this]; right; rfl
  · rw [hv]; exact hint
  · rw [hv]; exact hint
  · rw [hv]; exact hint
  · rw [hv]; exact hint
  · obtain ⟨h1, _⟩ := h.seq hv; rw [hv, h1]; right; rfl
  · have := h.other (by rw [hv]; decide) (by rw [hv]; decide); rw [hv, this]; right; rfl

/-- **every enumerator variant, both representations, honest or absent size hints**: one enumeration
    of the lazy result of `ops::slice` on an object that holds `xs` yields Python's `xs[A:B:st]` -/
theorem objSlice_eq_python (o : Obj α) (xs : List α) (h : Holds o xs) (A B : Option Int) (st : Int)
    (hA : OptInI64 A) (hB : OptInI64 B) (hst : InI64 st) (h0 : st ≠ 0) (hl : xs.length < 9223372036854775808) :
    objSliceItems o A B st = .ok (pick xs (PySlice.indices xs.length A B st)) := by
  have hS := slice_list_ok xs A B st hA hB hst h0 hl
  unfold objSliceItems
  rw [holds_tryIter o xs h]
  simp only []
  by_cases hpos : st > 0
  · rw [if_pos hpos]
    rcases holds_queryLen o xs h with hq | hq
    · rw [hq]; simp only []
      by_cases hfe : (isNeg A || isNeg B) = true
      · rw [if_pos hfe, hS]; rfl
      · rw [if_neg hfe]
        obtain ⟨sized, hU⟩ := sliceUnsizedG_eq xs A B st hA hB hst h0 hl
        unfold sliceUnsizedG at hU
        rw [if_pos ⟨hpos, by simpa using hfe⟩] at hU
        cases ho : offsetLen A B MJ.Gen.c09UnsizedLen with
        | panic => rw [ho] at hU; cases hU
        | ok p =>
          obtain ⟨off, n⟩ := p
          rw [ho] at hU
          simp only [] at hU ⊢
          injection hU with hU
          injection hU with hU
          injection hU with _ hU
          rw [hU]
    · rw [hq]; simp only []
      unfold slice at hS
      simp only [Option.getD_some, h0, if_false, hpos, if_true] at hS
      cases ho : offsetLen A B xs.length with
      | panic => rw [ho] at hS; cases hS
      | ok p =>
        obtain ⟨off, n⟩ := p
        rw [ho] at hS
        simp only [] at hS ⊢
        injection hS with hS
        injection hS with hS
        rw [hS]
  · rw [if_neg hpos, hS]; rfl

/-- `ops::slice` on such an object with the parts given as values: conversion errors in
    start / stop / step order, the zero step error, else Python's selection; never a panic -/
theorem objSliceV_of_bounds (o : Obj α) (xs : List α) (h : Holds o xs) (a b c : Val α) (A B C : Option Int)
    (ha : optBound a = .ok A) (hb : optBound b = .ok B) (hc : optBound c = .ok C) (hl : xs.length < 9223372036854775808) :
    objSliceV o a b c = if C.getD 1 = 0 then .ok (.error zeroStepErr)
      else .ok (.ok (pick xs (PySlice.indices xs.length A B (C.getD 1)))) := by
  have hA := optBound_range a A ha
  have hB := optBound_range b B hb
  have hst := getD_range C (optBound_range c C hc)
  unfold objSliceV
  simp only [ha, hb, hc]
  by_cases h0 : C.getD 1 = 0
  · simp only [h0, if_true]
  · simp only [h0, if_false]
    rw [objSlice_eq_python o xs h A B _ hA hB hst h0 hl]

theorem valUsize_of_nonneg (key : Val α) (i : Int) (hk : valI64 key = some i) (hi : 0 ≤ i) :
    valUsize key = some i.toNat := by
  unfold valI64 tryInt at hk
  unfold valUsize tryInt
  split at hk
  next harm =>
    rw [if_pos harm]
    cases hp : key.payload with
    | none => rw [hp] at hk; cases hk
    | some x =>
      rw [hp] at hk; simp only [] at hk ⊢
      split at hk
      next hr =>
        injection hk with hk; subst hk
        rw [if_pos (by unfold i64Min i64Max usizeMax at *; omega)]
        rfl
      next => cases hk
  next => cases hk

theorem holds_lenOrCount (o : Obj α) (xs : List α) (h : Holds o xs) : o.lenOrCount = some xs.length := by
  unfold Obj.lenOrCount
  rcases holds_queryLen o xs h with hq | hq
  · rw [hq, holds_tryIter o xs h]; rfl
  · rw [hq]

/-- subscripts of such an object: `o[key]` is Python's `xs[i]` for every key `as_i64` accepts — also
    relative to the end when the object announces no length (its items are counted then) — and
    undefined out of range -/
theorem objGetItem_eq_python (o : Obj α) (xs : List α) (h : Holds o xs) (key : Val α) (i : Int)
    (hk : valI64 key = some i) : objGetItem o key = index? xs i := by
  unfold objGetItem
  cases hs : o.isSeq with
  | true =>
    have hgv := h.gvSeq hs
    have hlen : o.seqIndexLen = some xs.length := by
      unfold Obj.seqIndexLen
      rw [if_pos (by decide)]
      exact holds_lenOrCount o xs h
    simp only [if_true, obj_seq, hlen, hgv]
    rw [← indexOf_bind key i xs hk]
    cases hi : indexOf key (some xs.length) with
    | none => simp only [Obj.getValue, indexOf_neg_of_none key i _ hk hi]
    | some idx => rfl
  | false =>
    simp only [Bool.false_eq_true, if_false, obj_iter, if_true, holds_lenOrCount o xs h, holds_tryIter o xs h]
    have hidx := indexOf_bind key i xs hk
    rcases h.gvIter hs with hgv | hgv
    · have : o.getValue key = Option.none := by
        unfold Obj.getValue
        cases valUsize key with
        | none => rfl
        | some n => rw [hgv]; first | done | rfl | simp
      rw [this]; simp only []
      rw [← hidx]
      cases indexOf key (some xs.length) <;> rfl
    · by_cases hi : 0 ≤ i
      · have hu := valUsize_of_nonneg key i hk hi
        have hix : index? xs i = xs[i.toNat]? := by
          unfold index?; rw [if_neg (by omega)]
        unfold Obj.getValue
        rw [hu, hgv]; simp only []
        cases hx : xs[i.toNat]? with
        | some x => simp only [hix, hx]
        | none =>
          simp only []
          rw [← hidx]
          cases indexOf key (some xs.length) <;> rfl
      · have hn : indexOf key (some 0) = Option.none := by
          unfold indexOf; rw [hk]
          simp only [show i < 0 by omega, if_true]
          rw [if_neg (by omega)]
        have hu := indexOf_neg_of_none key i 0 hk hn
        unfold Obj.getValue
        rw [hu]; simp only []
        rw [← hidx]
        cases indexOf key (some xs.length) <;> rfl

/-- a key `as_i64` rejects selects nothing by position: `get_value(key)` decides (positions beyond
    `i64` are beyond every sequence) -/
theorem objGetItem_not_i64 (o : Obj α) (xs : List α) (h : Holds o xs) (key : Val α)
    (hk : valI64 key = Option.none) (hl : xs.length < 9223372036854775808) : objGetItem o key = Option.none := by
  have hgv : o.getValue key = Option.none := by
    unfold Obj.getValue
    cases hu : valUsize key with
    | none => rfl
    | some n =>
      have hn := tryInt_usize_none_of_i64 key n hk hu
      simp only []
      apply List.getElem?_eq_none
      cases hs : o.isSeq with
      | true => rw [h.gvSeq hs]; omega
      | false =>
        rcases h.gvIter hs with hg | hg
        · rw [hg]; exact Nat.zero_le _
        · rw [hg]; omega
  unfold objGetItem
  cases hs : o.isSeq with
  | true => simp only [if_true, obj_seq, indexOf_none key _ hk, hgv]
  | false => simp only [Bool.false_eq_true, if_false, obj_iter, if_true, hgv, indexOf_none key _ hk]

theorem lookup_mem {β γ : Type} [BEq β] [LawfulBEq β] (l : List (β × γ)) (k : β) (v : γ) (h : l.lookup k = some v) : (k, v) ∈ l := by
  induction l with
  | nil => cases h
  | cons p l ih =>
    obtain ⟨k', v'⟩ := p
    simp only [List.lookup] at h
    split at h
    next heq =>
      have : k = k' := by simpa using heq
      subst this; injection h with h; subst h; exact List.mem_cons_self
    next => exact List.mem_cons_of_mem _ (ih h)

theorem hintOf_exact (kind : String) (n a : Nat) (h : hintOf kind n = (a, some a)) : a = n := by
  unfold hintOf at h
  split at h
  · simp only [Prod.mk.injEq, Option.some.injEq] at h; omega
  · split at h
    · simp only [Prod.mk.injEq, Option.some.injEq] at h; omega
    · split at h
      · simp only [Prod.mk.injEq, reduceCtorEq, and_false] at h
      · simp only [Prod.mk.injEq, reduceCtorEq, and_false] at h

/-- every way the harness builds an enumerable object names an `Enumerator` variant of the regenerated
    list; `Empty` and `Seq` are built by `empty` and `seq` only -/
theorem harnessHows_ok : harnessHows.all (fun p => p.1 == "none" ||
    (MJ.Gen.c09EnumeratorVariants.contains p.2.1 && p.2.1 != "NonEnumerable" &&
     ((p.2.1 == "Empty") == (p.1 == "empty")) && ((p.2.1 == "Seq") == (p.1 == "seq")))) = true := by decide

/-- the objects of the correspondence stream `eo` hold their items: all fifteen enumerable flavours
    (every `Enumerator` variant, exact / loose / absent size hints) under both representations -/
theorem harnessObj_holds (isSeq : Bool) (how : String) (xs : List α) (o : Obj α)
    (ho : harnessObj isSeq how xs = some o) (hne : how ≠ "none") (hemp : how = "empty" → xs = []) : Holds o xs := by
  unfold harnessObj at ho
  cases hlk : harnessHows.lookup how with
  | none => rw [hlk] at ho; cases ho
  | some p =>
    obtain ⟨variant, hk⟩ := p
    rw [hlk] at ho
    simp only [Option.some.injEq] at ho
    subst ho
    have hm := lookup_mem _ _ _ hlk
    have hall := List.all_eq_true.mp harnessHows_ok _ hm
    simp only [Bool.or_eq_true, Bool.and_eq_true, beq_iff_eq, bne_iff_ne, ne_eq, List.contains_iff_mem] at hall
    rcases hall with hall | ⟨⟨⟨hmem, hnn⟩, hE⟩, hS⟩
    · exact absurd hall hne
    · have hE' : variant = "Empty" → how = "empty" := by
        intro hv; subst hv; simpa using hE
      have hS' : variant = "Seq" → how = "seq" := by
        intro hv; subst hv; simpa using hS
      refine ⟨⟨hmem, hnn⟩, ?_, ?_, ?_, ?_, ?_, ?_⟩
      · intro hv; refine ⟨rfl, ?_⟩
        simp only [hS' hv, decide_true, Bool.or_true, if_true]
      · intro hv; exact hemp (hE' hv)
      · intro _ _; rfl
      · intro a ha; exact hintOf_exact hk xs.length a ha
      · intro h; simp only at h; simp only [h, Bool.true_or, if_true]
      · intro _
        by_cases h : (isSeq || decide (how = "seq")) = true
        · right; simp only [h, if_true]
        · left; simp only [h]; rfl

/-- the regenerated enumerator tables are the ones the object model interprets: every `Enumerator`
    variant has its `try_iter` and `query_len` arm, an `ObjectRepr::Seq` object that announces no
    length is counted on demand by `get_item_opt` (fix dad5284), and the lazy object arm of
    `ops::slice` has the data flow `objSliceItems` transcribes -/
theorem enumerator_arms_known :
    MJ.Gen.c09EnumeratorVariants.all (fun v =>
      (MJ.Gen.c09TryIterArms.lookup v).isSome && (MJ.Gen.c09QueryLenArms.lookup v).isSome) = true ∧
    MJ.Gen.c09TryIterArms.length = MJ.Gen.c09EnumeratorVariants.length ∧
    MJ.Gen.c09QueryLenArms.length = MJ.Gen.c09EnumeratorVariants.length ∧
    MJ.Gen.c09GetItemSeqLen = "len-or-count-on-demand" ∧
    MJ.Gen.c09SliceObjectFlow = ["tuple:items", "tuple:forward-len", "tuple:backward-len", "forward:known-len", "forward:from-end",
      "forward:collect-if", "forward:lazy", "backward:collect", "not-iterable:empty"] := by decide

/-- Full-strength statement for objects: every object of representation `Seq` or `Iterable` that
    holds the items `xs` — whatever `Enumerator` variant it enumerates through, whether or not it
    announces its length — sliced with parts that are omitted or Python integers of any
    representation and size: a zero step is the error, everything else is Python's `xs[A:B:C]`;
    no panic. -/
def C09_objects_full : Prop :=
  ∀ (α : Type) (o : Obj α) (xs : List α) (a b c : Val α) (A B C : Option Int),
    Holds o xs → pyBound a = some A → pyBound b = some B → pyBound c = some C →
    a.WF → b.WF → c.WF → xs.length < 9223372036854775808 →
    objSliceV o a b c = if C = some 0 then .ok (.error zeroStepErr)
      else .ok (.ok (pick xs (PySlice.indices xs.length A B (C.getD 1))))

theorem objSliceV_eq_python : C09_objects_full := by
  intro α o xs a b c A B C h ha hb hc wa wb wc hl
  have h1 := objSliceV_of_bounds o xs h a b c _ _ _ (optBound_pyBound a A ha wa) (optBound_pyBound b B hb wb)
    (optBound_pyBound c C hc wc) hl
  have hstep : (C.map clampI64).getD 1 = clampI64 (C.getD 1) := by
    cases C with
    | none => simp [clampI64, i64Min, i64Max]
    | some x => rfl
  rw [hstep] at h1
  by_cases h0 : C = some 0
  · subst h0
    simpa [clampI64, i64Min, i64Max] using h1
  · have hne : C.getD 1 ≠ 0 := by
      cases C with
      | none => simp
      | some x => simpa using h0
    rw [if_neg h0]
    rw [if_neg (by rw [clampI64_zero_iff]; exact hne)] at h1
    rw [h1, indices_clamp xs.length A B (C.getD 1) hl hne]

/-- subscripts of such an object with Python integers of every representation and size:
    Python's `xs[i]`, IndexError = undefined -/
theorem objGetItem_pyInt (o : Obj α) (xs : List α) (h : Holds o xs) (key : Val α) (i : Int)
    (hk : pyInt key = some i) (hl : xs.length < 9223372036854775808) :
    objGetItem o key = (PySlice.index xs.length i).bind (xs[·]?) := by
  have hv64 : valI64 key = if i64Min ≤ i ∧ i ≤ i64Max then some i else Option.none := tryInt_of_pyInt _ _ key i hk
  by_cases hr : i64Min ≤ i ∧ i ≤ i64Max
  · rw [if_pos hr] at hv64
    rw [objGetItem_eq_python o xs h key i hv64, index_eq_python]
  · rw [if_neg hr] at hv64
    rw [objGetItem_not_i64 o xs h key hv64 hl]
    simp only [PySlice.index]
    rw [if_neg (by unfold i64Min i64Max at hr; split <;> omega)]
    rfl

/-! ## The main theorem: what is proved, and what it rests on -/

/-- the engine as the property observes it, on the model's value types: `ops::slice` and
    `Value::get_item_opt` on values and on objects -/
structure Engine (α : Type) where
  sliceOp : Val α → Val α → Val α → Val α → Chk (Except Err (Val α))
  getItemOp : Val α → Val α → Option (Item α)
  objSliceOp : Obj α → Val α → Val α → Val α → Chk (Except Err (List α))
  objGetItemOp : Obj α → Val α → Option α

/-- the gap between the proofs and the code, as named hypotheses: the model functions ARE the
    engine's.  Each is validated by correspondence streams of `./check C09` (engine and compiled
    model on the same cases) and tied by regenerated tables; none is proved in Lean. -/
structure Engine.Corresponds (e : Engine α) : Prop where
  /-- streams slice (the quantifier's box, exhaustive) / chain / gs / long / huge / pb / meta -/
  corr_slice : ∀ v a b c, e.sliceOp v a b c = sliceV v a b c
  /-- streams index (box, exhaustive) / chain / gi / long / mr -/
  corr_getItem : ∀ v k, e.getItemOp v k = getItemOpt v k
  /-- stream eo (16 object flavours x 2 representations x a complete small box) -/
  corr_objSlice : ∀ o a b c, e.objSliceOp o a b c = objSliceV o a b c
  /-- stream eo -/
  corr_objGetItem : ∀ o k, e.objGetItemOp o k = objGetItem o k

/-- the property as stated, for an engine: slices and subscripts of strings, bytes, tuples,
    sequences, lazy iterables and objects select what Python selects, of Python's type, for every
    length below 2^63 and all parts that are omitted or integers; a zero step is the only error -/
def C09_statement (e : Engine α) : Prop :=
  (∀ (v a b c : Val α) (s : PySeq α) (A B C : Option Int),
    pyView v = some s → pyBound a = some A → pyBound b = some B → pyBound c = some C →
    a.WF → b.WF → c.WF → s.len < 9223372036854775808 →
    if C = some 0 then e.sliceOp v a b c = .ok (.error zeroStepErr)
    else ∃ r, e.sliceOp v a b c = .ok (.ok r) ∧ pyView r = some (s.slice A B (C.getD 1))) ∧
  (∀ (v key : Val α) (s : PySeq α) (i : Int), pyView v = some s → pyInt key = some i → s.len < 9223372036854775808 →
    (isOnce v = true → 0 ≤ i) → e.getItemOp v key = s.index i) ∧
  (∀ (o : Obj α) (xs : List α) (a b c : Val α) (A B C : Option Int),
    Holds o xs → pyBound a = some A → pyBound b = some B → pyBound c = some C →
    a.WF → b.WF → c.WF → xs.length < 9223372036854775808 →
    e.objSliceOp o a b c = if C = some 0 then .ok (.error zeroStepErr)
      else .ok (.ok (pick xs (PySlice.indices xs.length A B (C.getD 1))))) ∧
  (∀ (o : Obj α) (xs : List α) (key : Val α) (i : Int), Holds o xs → pyInt key = some i → xs.length < 9223372036854775808 →
    e.objGetItemOp o key = (PySlice.index xs.length i).bind (xs[·]?))

/-- **C09**: an engine that corresponds to the model satisfies the property -/
theorem C09_main (e : Engine α) (h : e.Corresponds) : C09_statement e := by
  refine ⟨?_, ?_, ?_, ?_⟩
  · intro v a b c s A B C hv ha hb hc wa wb wc hl
    rw [h.corr_slice]
    exact sliceV_eq_python α v a b c s A B C hv ha hb hc wa wb wc hl
  · intro v key s i hv hk hl ho
    rw [h.corr_getItem]
    exact getItemOpt_eq_python v key s i hv hk hl ho
  · intro o xs a b c A B C ho ha hb hc wa wb wc hl
    rw [h.corr_objSlice]
    exact objSliceV_eq_python α o xs a b c A B C ho ha hb hc wa wb wc hl
  · intro o xs key i ho hk hl
    rw [h.corr_objGetItem]
    exact objGetItem_pyInt o xs ho key i hk hl

/-- the hypotheses of `C09_main` are satisfiable: the model itself is such an engine -/
example : (⟨sliceV, getItemOpt, objSliceV, objGetItem⟩ : Engine Nat).Corresponds :=
  ⟨fun _ _ _ _ => rfl, fun _ _ => rfl, fun _ _ _ _ => rfl, fun _ _ => rfl⟩

/-- non-vacuity: a `Seq` object that enumerates through an iterator without size hints, holding
    `[10, 11, 12, 13]`: `o[-1]`, `o[1:-1]`, `o[::-2]` -/
example : ∃ o, harnessObj true "iternone" [10, 11, 12, 13] = some o ∧ Holds o [10, 11, 12, 13] ∧ o.queryLen = Option.none ∧
    objGetItem o (Val.num (.i64 (-1)) : Val Nat) = some 13 ∧
    objSliceItems o (some 1) (some (-1)) 1 = .ok [11, 12] ∧
    objSliceItems o Option.none Option.none (-2) = .ok [13, 11] := by
  have hh := harnessObj_holds true "iternone" [10, 11, 12, 13] _ rfl (by decide) (by decide)
  refine ⟨_, rfl, hh, by decide, by decide, ?_, ?_⟩
  · rw [objSlice_eq_python _ _ hh _ _ _ (by simp [OptInI64, InI64]) (by simp [OptInI64, InI64]) (by simp [InI64]) (by decide) (by decide)]; decide
  · rw [objSlice_eq_python _ _ hh _ _ _ (by simp [OptInI64, InI64]) (by simp [OptInI64, InI64]) (by simp [InI64]) (by decide) (by decide)]; decide

end Objects

/-! ## The value classes `seq` / `iter` are objects of the enumerator model

`Val.seq` and `Val.iter` (the classes the streams of the earlier rounds run on) are the special cases
`vecObj` / `iterObj` of `MJ.Sub.Obj`: both models give the same subscripts and the same slices. -/
section Coherence
open MJ.Sub
variable {α : Type}

/-- the engine's own sequence objects (`Vec`, `VecDeque`, arrays, `GroupTuple`: `ObjectRepr::Seq`,
    `Enumerator::Seq(len)`, `get_value` by position) as objects of the enumerator model -/
def vecObj (xs : List α) : Obj α := ⟨true, "Seq", [], xs.length, (0, Option.none), xs⟩

/-- iterables built by `Value::make_iterable` / `make_object_iterable` and the lazy results of slices
    (`ObjectRepr::Iterable`, `mapped_enumerator` = `Enumerator::Iter`, no `get_value`); `sized`: the
    size hints are exact -/
def iterObj (sized : Bool) (xs : List α) : Obj α :=
  ⟨false, "Iter", xs, 0, if sized then (xs.length, some xs.length) else (0, Option.none), []⟩

theorem vecObj_holds (xs : List α) : Holds (vecObj xs) xs := by
  refine ⟨⟨by show "Seq" ∈ _; decide, by show "Seq" ≠ _; decide⟩, fun _ => ⟨rfl, rfl⟩, fun h => ?_, fun h => absurd rfl h,
   fun a h => by simp [vecObj] at h, fun _ => rfl, fun h => by simp [vecObj] at h⟩
  exact absurd (show "Seq" = "Empty" from h) (by decide)

theorem iterObj_holds (sized : Bool) (xs : List α) : Holds (iterObj sized xs) xs := by
  refine ⟨⟨by show "Iter" ∈ _; decide, by show "Iter" ≠ _; decide⟩, fun h => ?_, fun h => ?_, fun _ _ => rfl, ?_,
    fun h => by simp [iterObj] at h, fun _ => Or.inl rfl⟩
  · exact absurd (show "Iter" = "Seq" from h) (by decide)
  · exact absurd (show "Iter" = "Empty" from h) (by decide)
  · intro a h
    cases sized with
    | true => simp only [iterObj, if_true, Prod.mk.injEq] at h; exact h.1.symm
    | false => simp [iterObj] at h

/-- the value classes `seq` and `iter` of `MJ.Sub.Val` are these objects: `get_item_opt` agrees -/
theorem getItemOpt_seq_is_obj (xs : List α) (key : Val α) (hl : xs.length < 9223372036854775808) :
    getItemOpt (.seq xs) key = (objGetItem (vecObj xs) key).map Item.elem := by
  cases hk : valI64 key with
  | none =>
    rw [getItemOpt_not_i64 (.seq xs) key (.list xs) rfl hk hl, objGetItem_not_i64 _ xs (vecObj_holds xs) key hk hl]; rfl
  | some i =>
    rw [getItemOpt_of_i64 (.seq xs) key (.list xs) i rfl hk, objGetItem_eq_python _ xs (vecObj_holds xs) key i hk, index_eq_python]
    simp only [isOnce, Bool.false_and, Bool.false_eq_true, if_false, PySeq.index, PySeq.len]
    cases PySlice.index xs.length i <;> rfl

theorem getItemOpt_iter_is_obj (sized : Bool) (xs : List α) (key : Val α) (hl : xs.length < 9223372036854775808) :
    getItemOpt (.iter sized xs) key = (objGetItem (iterObj sized xs) key).map Item.elem := by
  cases hk : valI64 key with
  | none =>
    rw [getItemOpt_not_i64 (.iter sized xs) key (.list xs) rfl hk hl, objGetItem_not_i64 _ xs (iterObj_holds sized xs) key hk hl]; rfl
  | some i =>
    rw [getItemOpt_of_i64 (.iter sized xs) key (.list xs) i rfl hk, objGetItem_eq_python _ xs (iterObj_holds sized xs) key i hk, index_eq_python]
    simp only [isOnce, Bool.false_and, Bool.false_eq_true, if_false, PySeq.index, PySeq.len]
    cases PySlice.index xs.length i <;> rfl

/-- … and so does `ops::slice`: the items of the lazy result are the object model's -/
theorem sliceV_seq_is_obj (xs : List α) (a b c : Val α) (A B C : Option Int)
    (ha : optBound a = .ok A) (hb : optBound b = .ok B) (hc : optBound c = .ok C) (hl : xs.length < 9223372036854775808) :
    (∃ e, sliceV (.seq xs) a b c = .ok (.error e) ∧ objSliceV (vecObj xs) a b c = .ok (.error e)) ∨
    (∃ sized ys, sliceV (.seq xs) a b c = .ok (.ok (.iter sized ys)) ∧ objSliceV (vecObj xs) a b c = .ok (.ok ys)) := by
  have h2 := objSliceV_of_bounds (vecObj xs) xs (vecObj_holds xs) a b c A B C ha hb hc hl
  by_cases h0 : C.getD 1 = 0
  · rw [if_pos h0] at h2
    refine Or.inl ⟨_, ?_, h2⟩
    unfold sliceV
    simp only [ha, hb, hc, h0, if_true]
  · rw [if_neg h0] at h2
    refine Or.inr ⟨true, _, ?_, h2⟩
    have hA := optBound_range a A ha
    have hB := optBound_range b B hb
    have hst := getD_range C (optBound_range c C hc)
    unfold sliceV
    simp only [ha, hb, hc, h0, if_false, sliceClass_seq, String.reduceEq]
    rw [slice_list_ok _ A B _ hA hB hst h0 hl]
    rfl

example : objGetItem (vecObj [10, 11, 12]) (Val.num (.i64 (-1)) : Val Nat) = some 12 ∧
    getItemOpt (Val.seq [10, 11, 12]) (Val.num (.i64 (-1)) : Val Nat) = some (.elem 12) ∧
    (iterObj false [10, 11, 12]).queryLen = Option.none ∧
    objGetItem (iterObj false [10, 11, 12]) (Val.num (.i64 (-3)) : Val Nat) = some 10 := by decide

end Coherence

end MJ.C09
