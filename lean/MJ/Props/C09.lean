import MJ.Proofs.SliceFwd
import MJ.Proofs.PySliceSpec
/-!
# C09 — subscripts and slices follow Python's rules for every bound and step

Property theorems only (helper lemmas live in `MJ/Proofs/Slice*.lean`).

* `Slice.slice` is the model of `ops::slice` (including every checked arithmetic operation, so a
  Rust panic is the distinguished result `Chk.panic`);
* `PySlice.indices` is the transcription of CPython's `PySlice_AdjustIndices`;
* `pick xs is` selects the elements of `xs` at the positions `is`, in that order.
-/
namespace MJ.C09
open MJ Chk Slice

/-- Full-strength statement: for every element type, every list shorter than 2^63 (Rust's
    `isize::MAX` bound on any allocation) and all `start/stop/step` that fit `i64` (anything else
    is rejected by the `i64::try_from` conversion before slicing), the model of the Rust slice
    code returns exactly Python's selection, a zero step is the only error, and it never panics. -/
def C09_full : Prop :=
  ∀ (α : Type) (xs : List α) (start stop step : Option Int),
    OptInI64 start → OptInI64 stop → OptInI64 step → xs.length < 9223372036854775808 →
    slice xs start stop step =
      if step = some 0 then .ok .zeroStep
      else .ok (.ok (pick xs (PySlice.indices xs.length start stop (step.getD 1))))

theorem slice_eq_python : C09_full := by
  intro α xs start stop step hs he hp hl
  unfold slice
  by_cases h0 : step = some 0
  · subst h0; simp
  · rw [if_neg h0]
    have hne : step.getD 1 ≠ 0 := by
      cases step with
      | none => simp
      | some x => simpa using h0
    have hr : InI64 (step.getD 1) := by
      cases step with
      | none => simp [InI64]
      | some x => simpa [OptInI64] using hp
    generalize step.getD 1 = st at hne hr
    simp only [InI64] at hr
    simp only [hne, if_false]
    by_cases hpos : st > 0
    · simp only [hpos, if_true]
      obtain ⟨k, rfl⟩ : ∃ k : Nat, st = (k : Int) := ⟨st.toNat, by omega⟩
      have hk : 0 < k := by omega
      rw [offsetLen_ok start stop xs.length hs he hl]
      simp only []
      rw [asUsize_of_nonneg _ (by omega) (by omega), Int.toNat_natCast, (slice_fwd xs start stop k hs he hk hl).1]
    · simp only [hpos, if_false]
      obtain ⟨k, hk⟩ : ∃ k : Nat, st = -(k : Int) := ⟨st.natAbs, by omega⟩
      subst hk
      have hk : 0 < k := by omega
      obtain ⟨h1, h2⟩ := rangeStepBackwards_eq start stop k xs.length hs he hk hl
      rw [Int.natAbs_neg, Int.natAbs_natCast, h1]
      simp only []
      rw [mapM_index_ok xs _ h2]

/-- every position Python selects exists, so `pick` drops nothing: the result has exactly
    Python's length and its `j`-th element is the element at Python's `j`-th position. -/
theorem indices_in_bounds (len : Nat) (start stop : Option Int) (step : Int)
    (hs : OptInI64 start) (he : OptInI64 stop) (hp : InI64 step) (h0 : step ≠ 0)
    (hl : len < 9223372036854775808) :
    ∀ i ∈ PySlice.indices len start stop step, i < len := by
  simp only [InI64] at hp
  by_cases hpos : step > 0
  · obtain ⟨k, rfl⟩ : ∃ k : Nat, step = (k : Int) := ⟨step.toNat, by omega⟩
    have := (slice_fwd (List.replicate len ()) start stop k hs he (by omega) (by simpa using hl)).2
    simpa using this
  · obtain ⟨k, rfl⟩ : ∃ k : Nat, step = -(k : Int) := ⟨step.natAbs, by omega⟩
    exact (rangeStepBackwards_eq start stop k len hs he (by omega) hl).2

theorem slice_getElem? {α : Type} (xs : List α) (start stop : Option Int) (step : Int)
    (hs : OptInI64 start) (he : OptInI64 stop) (hp : InI64 step) (h0 : step ≠ 0)
    (hl : xs.length < 9223372036854775808) (j : Nat) :
    (pick xs (PySlice.indices xs.length start stop step))[j]? =
      ((PySlice.indices xs.length start stop step)[j]?).bind (xs[·]?) :=
  pick_getElem? xs _ (indices_in_bounds xs.length start stop step hs he hp h0 hl) j

/-- a zero step is an error and nothing else about a slice can fail (no error, no panic) -/
theorem slice_only_error_is_zero_step {α : Type} (xs : List α) (start stop step : Option Int)
    (hs : OptInI64 start) (he : OptInI64 stop) (hp : OptInI64 step)
    (hl : xs.length < 9223372036854775808) :
    (slice xs start stop step = .ok .zeroStep ↔ step = some 0) ∧ slice xs start stop step ≠ .panic := by
  rw [slice_eq_python α xs start stop step hs he hp hl]
  by_cases h : step = some 0 <;> simp [h]

/-- forward slices of iterables of unknown length (no bound relative to the end): the code uses
    `usize::MAX` as length and relies on `skip/take` stopping at the real end — same result. -/
theorem sliceUnsized_eq_slice {α : Type} (xs : List α) (start stop step : Option Int)
    (hs : OptInI64 start) (he : OptInI64 stop) (hp : OptInI64 step)
    (hl : xs.length < 9223372036854775808) :
    sliceUnsized xs start stop step = slice xs start stop step := by
  unfold sliceUnsized
  split
  next hc =>
    obtain ⟨hpos, hneg⟩ := hc
    have hne : step.getD 1 ≠ 0 := by omega
    unfold slice
    simp only [hne, hpos, if_true, if_false]
    rw [offsetLen_ok start stop xs.length hs he hl]
    simp only [Bool.or_eq_false_iff] at hneg
    have hstart : ∃ a : Nat, start.getD 0 = (a : Int) ∧ (a : Int) < 9223372036854775808 ∧
        preClamp xs.length start 0 = a := by
      cases start with
      | none => exact ⟨0, by simp [preClamp]⟩
      | some s =>
        simp only [OptInI64, InI64] at hs
        have : ¬ s < 0 := by
          intro h; have := hneg.1; simp [isNeg, h] at this
        exact ⟨s.toNat, by simp only [Option.getD_some]; omega, by omega, by simp only [preClamp, this, if_false]; omega⟩
    obtain ⟨a, ha1, ha2, ha3⟩ := hstart
    have hna : ¬ ((a : Int) < 0) := by omega
    cases stop with
    | none =>
      unfold offsetLen
      have e1 : asUsize (a : Int) = a := by rw [asUsize_of_nonneg _ (by omega) (by omega)]; simp
      simp only [ha1, or_true, if_true, hna, if_false, pure_eq, ok_bind, e1, ha3]
      simp only [preClamp, Int.toNat_natCast]
      congr 3
      rw [List.take_of_length_le (by simp; omega), List.take_of_length_le (by simp)]
    | some x =>
      simp only [OptInI64, InI64] at he
      have hx : ¬ x < 0 := by
        intro h; have := hneg.2; simp [isNeg, h] at this
      unfold offsetLen
      have e1 : asUsize (a : Int) = a := by rw [asUsize_of_nonneg _ (by omega) (by omega)]; simp
      have e2 : asUsize x = x.toNat := asUsize_of_nonneg _ (by omega) (by omega)
      simp only [ha1, hx, hna, decide_false, Bool.false_eq_true, or_false, if_false, pure_eq, e1, e2, ha3]
      simp only [preClamp, hx, if_false, Int.toNat_natCast]
  next => rfl

/-- subscripts: `v[i]` selects Python's element, out of range is undefined (never an error) -/
theorem index_eq_python {α : Type} (xs : List α) (i : Int) :
    index? xs i = (PySlice.index xs.length i).bind (xs[·]?) := by
  unfold index? PySlice.index
  by_cases h : i < 0
  · simp only [h, if_true]
    by_cases h2 : i.natAbs ≤ xs.length
    · simp only [h2, if_true]
      by_cases h3 : i + (xs.length : Int) < xs.length
      · rw [if_pos ⟨by omega, h3⟩]
        simp only [Option.bind_some]
        congr 1; omega
      · omega
    · simp only [h2, if_false]
      rw [if_neg (by omega)]
      rfl
  · simp only [h, if_false]
    by_cases h3 : i < xs.length
    · rw [if_pos ⟨by omega, h3⟩]; rfl
    · rw [if_neg (by omega)]
      simp only [Option.bind_none]
      apply List.getElem?_eq_none
      omega

/-! ## The specification itself is Python's declarative rule (sanity of the transcription) -/

/-- positive step `k`: exactly the positions `lo ≤ i < hi`, `i ≡ lo (mod k)`, in increasing order -/
theorem spec_pos (len : Nat) (start stop : Option Int) (k : Nat) (hk : 0 < k) :
    (∀ i : Nat, i ∈ PySlice.indices len start stop (k : Int) ↔
      PySlice.clampPos len start 0 ≤ (i : Int) ∧ (i : Int) < PySlice.clampPos len stop len ∧
      ((i : Int) - PySlice.clampPos len start 0) % (k : Int) = 0) ∧
    (PySlice.indices len start stop (k : Int)).Pairwise (· < ·) :=
  ⟨PySlice.mem_indices_pos len start stop k hk, PySlice.indices_pos_sorted len start stop k hk⟩

/-- negative step `-k`: exactly the positions `stop' < i ≤ start'`, `i ≡ start' (mod k)` -/
theorem spec_neg (len : Nat) (start stop : Option Int) (k : Nat) (hk : 0 < k) (i : Nat) :
    i ∈ PySlice.indices len start stop (-(k : Int)) ↔
      PySlice.clampNeg len stop (-1) < (i : Int) ∧ (i : Int) ≤ PySlice.clampNeg len start ((len : Int) - 1) ∧
      (PySlice.clampNeg len start ((len : Int) - 1) - (i : Int)) % (k : Int) = 0 :=
  PySlice.mem_indices_neg len start stop k hk i

/-! ## Non-vacuity: the hypotheses are met by ordinary inputs, and the statement has content. -/
example : slice [10, 11, 12, 13, 14] (some 4) (some 0) (some (-1)) = .ok (.ok [14, 13, 12, 11]) := by decide
example : slice [10, 11, 12, 13, 14] none none (some (-2)) = .ok (.ok [14, 12, 10]) := by decide
example : slice ([] : List Nat) none none (some (-9223372036854775808)) = .ok (.ok []) := by decide
example : slice [1, 2, 3] (some (-2)) none (some 0) = .ok .zeroStep := by decide
example : PySlice.indices 5 (some 4) (some 0) (-1) = [4, 3, 2, 1] := by decide

end MJ.C09
