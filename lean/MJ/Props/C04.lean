import MJ.Proofs.Fold
import MJ.Proofs.FoldTables
import MJ.Proofs.FoldPrimsLawful
import MJ.Proofs.FoldStmt
import MJ.Proofs.FoldCode
/-!
# C04 — compile-time evaluation is transparent: literals behave like variables

Property theorems only (helper lemmas live in `MJ/Proofs/Fold.lean`, the model in
`MJ/Model/Fold.lean`).

* `asConst` is the transcription of the constant folder (`Expr::as_const`, `eval_binop`,
  `eval_compare`), `evalRt` the value computed by the *unfolded* run-time code of an expression
  (short-circuit jumps, `CompareAndPreserve` chains, `op_binop!` undefined assertions …), `evalC`
  the value computed by what `compile_expr` really emits (fold first at every level, the `Neg`
  shortcut, static keyword arguments), `compileTop`/`exec` the whole-expression view.
* All theorems hold for **every** implementation `P : Prims` of the value operations that the
  folder and the VM share in the Rust code, provided `P.Lawful`: no operation returns `undefined`,
  `is_true(Bool(b)) = b`, `contains` returns a boolean.
* `Expr.WF`: what lexer and parser guarantee — no constant is `undefined`, a `Compare` node has
  at least one operator.
* The operator tables of the model (`evalBinop`, `evalCompare`, `binInstr`, `finalCompare`,
  `compareAndPreserve`, the jump chosen for `and`/`or`) are proved equal to the tables regenerated from
  the source on every run: `MJ.Fold.Tables.*_from_source` in `MJ/Proofs/FoldTables.lean`.
* `Hoist P ρ e e'`: `e'` is `e` with any subset of its literal sub-expressions (anything the folder
  evaluates) replaced by variables that `ρ` binds to the same values.
-/
namespace MJ.C04
open MJ.Fold

/-- Full-strength statement.  For all shared primitives, undefined-behaviour modes, contexts and
    well-formed expressions: (1) hoisting any subset of literals into variables bound to the same
    values changes neither the value nor the error of the compiled code; (2) code generation itself
    cannot fail, and whenever evaluation fails the failing operation is in run-time code (it was not
    folded), so the error surfaces only when that code is executed. -/
def C04_full : Prop :=
  ∀ (P : Prims), P.Lawful → ∀ (m : Mode) (ρ : Env) (e : Expr), e.WF →
    (∀ e', Hoist P ρ e e' → exec P m ρ (compileTop P e') = exec P m ρ (compileTop P e)) ∧
    (∀ err, exec P m ρ (compileTop P e) = .error err → compileTop P e = .runtime e) ∧
    (∀ err, evalRt P m ρ e = .error err → exec P m ρ (compileTop P e) = .error err)

/-! A small concrete instance of the primitives for the satisfiability examples. -/

/-- the callee of the small instance: receiver and argument values in the order the callee gets them -/
def P0callX (recv : List V) (pieces : List ArgV) : Except Err V :=
  .ok (.list (recv ++ pieces.map fun p => match p with
    | .pos v | .posSplat v | .kw _ v | .kwSplat v => v))

@[simp] def P0add (a b : V) : Except Err V :=
  match a, b with
  | .int x, .int y => .ok (.int (x + y))
  | _, _ => .error .invalidOperation

@[simp] def P0fdiv (a b : V) : Except Err V :=
  match a, b with
  | .int x, .int y => if y = 0 then .error .invalidOperation else .ok (.int (x / y))
  | _, _ => .error .invalidOperation

@[simp] def P0neg (a : V) : Except Err V :=
  match a with
  | .int x => .ok (.int (-x))
  | _ => .error .invalidOperation

def P0 : Prims where
  add := P0add
  sub _ _ := .error .invalidOperation
  mul _ _ := .error .invalidOperation
  div _ _ := .error .invalidOperation
  fdiv := P0fdiv
  rem _ _ := .error .invalidOperation
  pow _ _ := .error .invalidOperation
  neg := P0neg
  concat _ _ := .str ""
  eq a b := match a, b with
    | .int x, .int y => x == y
    | _, _ => false
  cmp a b := match a, b with
    | .int x, .int y => compare x y
    | _, _ => .eq
  contains _ _ := .ok (.bool false)
  isTrue a := match a with
    | .bool b => b
    | .int x => x != 0
    | _ => false
  mkMap ps := .map ps
  getAttr _ _ := none
  getItem c i := match c, i with
    | .list xs, .int n => if 0 ≤ n then xs[n.toNat]? else none
    | _, _ => none
  slice _ _ _ _ := .error .invalidOperation
  callKw _ _ ps ks := .ok (.list (ps ++ ks.map (·.2)))
  filter _ _ _ _ := .error (.named "UnknownFilter")
  test _ _ _ _ := .error (.named "UnknownTest")
  callX _ _ _ recv pieces := P0callX recv pieces
  foldsVariant _ := true
  codegenSpecial _ := true

theorem P0_lawful : P0.Lawful where
  add := by
    intro a b v h
    have h' : P0add a b = .ok v := h
    unfold P0add at h'
    split at h'
    · cases h'; simp
    · cases h'
  sub := by intro a b v h; simp [P0] at h
  mul := by intro a b v h; simp [P0] at h
  div := by intro a b v h; simp [P0] at h
  fdiv := by
    intro a b v h
    have h' : P0fdiv a b = .ok v := h
    unfold P0fdiv at h'
    split at h'
    · split at h'
      · cases h'
      · cases h'; simp
    · cases h'
  rem := by intro a b v h; simp [P0] at h
  pow := by intro a b v h; simp [P0] at h
  neg := by
    intro a v h
    have h' : P0neg a = .ok v := h
    unfold P0neg at h'
    split at h'
    · cases h'; simp
    · cases h'
  concat := by intro a b; simp [P0]
  contains := by
    intro a b v h
    have h' : Except.ok (V.bool false) = (Except.ok v : Except Err V) := h
    cases h'; simp
  mkMap := by intro ps; simp [P0]
  isTrue_bool := by intro b; simp [P0]
  contains_bool := by
    intro a b v h
    have h' : Except.ok (V.bool false) = (Except.ok v : Except Err V) := h
    cases h'; exact ⟨false, rfl⟩

def ρ0 : Env := fun x => if x = "v0" then some (.int 0) else if x = "v1" then some (.int 1) else none

/-- `0 and 1` -/
def e_and : Expr := .bin .and (.const (.int 0)) (.const (.int 1))
/-- `1 < 2 < 3 // 0` (the last operand fails when evaluated) -/
def e_chain : Expr := .cmp (.const (.int 1))
  (.cons .lt (.const (.int 2)) (.cons .lt (.bin .fdiv (.const (.int 3)) (.const (.int 0))) .nil))
/-- `1 // 0` -/
def e_div0 : Expr := .bin .fdiv (.const (.int 1)) (.const (.int 0))

/-! ## the folder never changes a value and never turns a failure into a success -/

theorem asConst_sound (P : Prims) (hP : P.Lawful) (e : Expr) (hw : e.WF) (v : V)
    (h : asConst P e = some v) : ∀ (m : Mode) (ρ : Env), evalRt P m ρ e = .ok v :=
  fun m ρ => asConst_sound' m ρ hP e v hw h

example : e_and.WF ∧ asConst P0 e_and = some (.int 0) := by
  refine ⟨by simp [e_and, Expr.WF], ?_⟩
  simp [e_and, asConst, evalBinop, P0, gate]

/-- contrapositive: a run-time failure is never folded into a value -/
theorem fold_never_masks_error (P : Prims) (hP : P.Lawful) (e : Expr) (hw : e.WF) (m : Mode) (ρ : Env)
    (err : Err) (h : evalRt P m ρ e = .error err) : asConst P e = none := by
  cases hc : asConst P e with
  | none => rfl
  | some v => rw [asConst_sound P hP e hw v hc m ρ] at h; cases h

example : e_div0.WF ∧ evalRt P0 .lenient ρ0 e_div0 = .error .invalidOperation := by
  refine ⟨by simp [e_div0, Expr.WF], ?_⟩
  simp [e_div0, evalRt, binInstr, P0]

/-- the code `compile_expr` emits (folding at every level, `Neg` shortcut, static keyword
    arguments) computes exactly what the unfolded run-time code computes -/
theorem fold_transparent (P : Prims) (hP : P.Lawful) (m : Mode) (ρ : Env) (e : Expr) (hw : e.WF) :
    evalC P m ρ e = evalRt P m ρ e :=
  evalC_eq_evalRt' m ρ hP e hw

theorem exec_compileTop (P : Prims) (hP : P.Lawful) (m : Mode) (ρ : Env) (e : Expr) (hw : e.WF) :
    exec P m ρ (compileTop P e) = evalRt P m ρ e := by
  unfold compileTop
  split
  · next v hv => simp [exec, asConst_sound P hP e hw v (gate_some hv) m ρ]
  · simp [exec, fold_transparent P hP m ρ e hw]

example : e_chain.WF ∧ exec P0 .strict ρ0 (compileTop P0 e_chain) = .error .invalidOperation := by
  refine ⟨by simp [e_chain, Expr.WF, Chain.WF], ?_⟩
  rw [exec_compileTop P0 P0_lawful _ _ _ (by simp [e_chain, Expr.WF, Chain.WF])]
  have h12 : compare (1 : Int) 2 = .lt := by decide
  simp [e_chain, evalRt, evalRtChain, compareAndPreserve, assertDefined, ltV, binInstr, P0, h12]

/-! ## a failing constant expression is reported when executed, never when loaded -/

/-- when the folder gives up, the emitted code is the run-time code of the expression -/
theorem asConst_none_is_runtime (P : Prims) (m : Mode) (ρ : Env) (e : Expr) (h : asConst P e = none) :
    compileTop P e = .runtime e ∧ exec P m ρ (compileTop P e) = evalC P m ρ e := by
  have : foldFirst P e = none := by unfold foldFirst gate; split <;> simp [h]
  simp [compileTop, this, exec]

example : asConst P0 e_div0 = none := by
  simp [e_div0, asConst, evalBinop, P0, Except.toOpt, gate]

/-- `compileTop` is a total function (loading has no error channel in the folder); if evaluating
    the expression fails, nothing was folded at the top, the emitted code is run-time code, and
    executing it reports that same error -/
theorem load_never_fails_on_const_error (P : Prims) (hP : P.Lawful) (m : Mode) (ρ : Env) (e : Expr)
    (hw : e.WF) (err : Err) (h : evalRt P m ρ e = .error err) :
    compileTop P e = .runtime e ∧ exec P m ρ (compileTop P e) = .error err := by
  have hn := fold_never_masks_error P hP e hw m ρ err h
  refine ⟨(asConst_none_is_runtime P m ρ e hn).1, ?_⟩
  rw [exec_compileTop P hP m ρ e hw, h]

example : compileTop P0 e_div0 = .runtime e_div0 ∧
    exec P0 .lenient ρ0 (compileTop P0 e_div0) = .error .invalidOperation :=
  load_never_fails_on_const_error P0 P0_lawful .lenient ρ0 e_div0 (by simp [e_div0, Expr.WF]) _
    (by simp [e_div0, evalRt, binInstr, P0])

/-! ## literals behave like variables -/

/-- replacing any subset of the literal sub-expressions by variables bound to the same values
    changes neither value nor error of the unfolded run-time semantics -/
theorem hoist_transparent_rt (P : Prims) (hP : P.Lawful) (m : Mode) (ρ : Env) (e e' : Expr)
    (hw : e.WF) (h : Hoist P ρ e e') : evalRt P m ρ e' = evalRt P m ρ e :=
  hoist_rt' m ρ hP e e' hw h

/-- … nor of the code that is really emitted (where hoisting turns folded constants into run-time
    code all the way up to the root) -/
theorem hoist_transparent (P : Prims) (hP : P.Lawful) (m : Mode) (ρ : Env) (e e' : Expr)
    (hw : e.WF) (h : Hoist P ρ e e') : evalC P m ρ e' = evalC P m ρ e := by
  rw [fold_transparent P hP m ρ e' (hoist_WF' ρ e e' hw h), fold_transparent P hP m ρ e hw]
  exact hoist_transparent_rt P hP m ρ e e' hw h

/-- `0 and 1` with the left literal hoisted: `v0 and 1` -/
example : Hoist P0 ρ0 e_and (.bin .and (.var "v0") (.const (.int 1))) := by
  simp only [e_and, Hoist]
  refine Or.inl ⟨_, _, rfl, Or.inr ⟨"v0", .int 0, rfl, by simp [asConst], by simp [ρ0]⟩, Or.inl rfl⟩

/-- the whole literal expression `0 and 1` hoisted -/
example : Hoist P0 ρ0 e_and (.var "v0") := by
  simp only [e_and, Hoist]
  exact Or.inr ⟨"v0", .int 0, rfl, by simp [asConst, evalBinop, P0, gate], by simp [ρ0]⟩

/-- `[7, 8][0]`: item access is never folded, its operands are; hoisting the index keeps the value -/
example : Hoist P0 ρ0 (.getItem (.list (.cons (.const (.int 7)) (.cons (.const (.int 8)) .nil))) (.const (.int 0)))
      (.getItem (.list (.cons (.const (.int 7)) (.cons (.const (.int 8)) .nil))) (.var "v0")) ∧
    evalC P0 .strict ρ0 (.getItem (.list (.cons (.const (.int 7)) (.cons (.const (.int 8)) .nil))) (.var "v0")) = .ok (.int 7) := by
  refine ⟨?_, ?_⟩
  · simp only [Hoist, HoistList]
    exact ⟨_, _, rfl, Or.inl ⟨_, rfl, _, _, rfl, Or.inl rfl, _, _, rfl, Or.inl rfl, rfl⟩,
      Or.inr ⟨"v0", .int 0, rfl, by simp [asConst], by simp [ρ0]⟩⟩
  · simp [evalC, folded, foldFirst, gate, asConst, constValues, lookup, ρ0, getItemInstr, P0]

/-- `7 if 0` (no `else`): the silent undefined -/
example : evalC P0 .strict ρ0 (.ifExpr (.const (.int 0)) (.const (.int 7)) .none) = .ok .silent := by
  simp [evalC, evalCOpt, isTrueM, P0]

/-! ## static keyword arguments -/

/-- a call, filter or test whose keyword arguments are all constants (collected into one
    `LoadConst(Kwargs)` at compile time) behaves like the dynamic path that evaluates them one by
    one (`BuildKwargs`): the static keyword map is what run-time evaluation of the keyword arguments
    yields, and the emitted code equals the unfolded run-time semantics (which only has the dynamic
    path) -/
theorem static_kwargs_eq_dynamic (P : Prims) (hP : P.Lawful) (m : Mode) (ρ : Env) (kws : Kws) (hw : kws.WF)
    (ks : List (String × V)) (hk : constKws kws = some ks) :
    evalCKws P m ρ kws = .ok ks ∧ evalRtKws P m ρ kws = .ok ks ∧
    (∀ name pos, pos.WF → evalC P m ρ (.call name pos kws) = evalRt P m ρ (.call name pos kws)) ∧
    (∀ name e pos, e.WF → pos.WF → evalC P m ρ (.filter name e pos kws) = evalRt P m ρ (.filter name e pos kws)) ∧
    (∀ name e pos, e.WF → pos.WF → evalC P m ρ (.test name e pos kws) = evalRt P m ρ (.test name e pos kws)) := by
  have h1 : evalRtKws P m ρ kws = .ok ks := constKws_sound P m ρ kws ks hk
  refine ⟨by rw [evalCKws_eq' m ρ hP kws hw, h1], h1, ?_, ?_, ?_⟩
  · intro name pos hp
    exact fold_transparent P hP m ρ _ (by simp only [Expr.WF]; exact ⟨hp, hw⟩)
  · intro name e pos he hp
    exact fold_transparent P hP m ρ _ (by simp only [Expr.WF]; exact ⟨he, hp, hw⟩)
  · intro name e pos he hp
    exact fold_transparent P hP m ρ _ (by simp only [Expr.WF]; exact ⟨he, hp, hw⟩)

/-- the static path really is taken: with constant keyword arguments the emitted code does not
    evaluate them -/
theorem static_kwargs_path (P : Prims) (m : Mode) (ρ : Env) (name : String) (pos : Exprs) (kws : Kws)
    (hs : P.codegenSpecial "static-kwargs" = true)
    (ks : List (String × V)) (hk : constKws kws = some ks) :
    evalC P m ρ (.call name pos kws) =
      (match evalCList P m ρ pos with
       | .error e => .error e
       | .ok ps => P.callKw m name ps ks) := by
  rw [evalC]; simp only [hk, hs, gate]
  cases evalCList P m ρ pos <;> rfl

example : P0.codegenSpecial "static-kwargs" = true := rfl

example : constKws (.cons "a" (.const (.int 1)) (.cons "b" (.const (.str "x")) .nil))
    = some [("a", .int 1), ("b", .str "x")] := by
  simp [constKws]

/-! ## every call form: function, method, object, filter, test - with `*args` and `**kwargs`

`compile_call_args` serves all of them.  The general form `.callx kind recv name args` carries the
receiver (method call), callee (object call) or subject (filter, test) and any mix of positional,
`*splat`, keyword and `**splat` arguments; its run-time meaning is the two loops of
`compile_call_args` (positional and `*` values first, keyword and `**` values second) handed to the
shared `callX` (`MergeKwargs`, `UnpackLists`, the callee). -/

/-- static keyword arguments equal the dynamic path for EVERY call form: when all keyword values are
    constants and there is no `**splat` (a `*splat` may be present) the keyword pieces collected at
    compile time are what run-time evaluation of the second loop yields, and the emitted code equals
    the unfolded run-time semantics - for a function, a method, an object, a filter and a test call
    alike, and for the call of a `{% call %}` block on any of them (which adds the caller) -/
theorem static_kwargs_eq_dynamic_all_forms (P : Prims) (hP : P.Lawful) (m : Mode) (ρ : Env) (args : Args)
    (hw : args.WF) (ks : List (String × V)) (hk : constKwArgs args = some ks) :
    evalCArgsKw P m ρ args = .ok (kwPieces ks) ∧ evalRtArgsKw P m ρ args = .ok (kwPieces ks) ∧
    (∀ kind recv name, recv.WF →
      evalC P m ρ (.callx kind recv name args) = evalRt P m ρ (.callx kind recv name args)) ∧
    (∀ kind recv name caller, recv.WF → P.codegenSpecial "static-kwargs-off-for-caller" = true →
      evalCallBlockXC P m ρ kind recv name args caller = evalCallBlockXRt P m ρ kind recv name args caller) := by
  have h1 : evalRtArgsKw P m ρ args = .ok (kwPieces ks) := constKwArgs_sound P m ρ args ks hk
  refine ⟨by rw [evalCArgsKw_eq' m ρ hP args hw, h1], h1, ?_, ?_⟩
  · intro kind recv name hr
    exact fold_transparent P hP m ρ _ (by simp only [Expr.WF]; exact ⟨hr, hw⟩)
  · intro kind recv name caller hr hs
    exact evalCallBlockX_eq m ρ hP hs kind recv name args caller hr hw

/-- … and without any hypothesis on the arguments (computed keyword values, `**splat`s): the emitted
    code of every call form is its run-time semantics, and hoisting literals anywhere in receiver and
    arguments - inside a splatted list or map too, or the whole splatted container - changes nothing -/
theorem call_forms_transparent (P : Prims) (hP : P.Lawful) (m : Mode) (ρ : Env) (kind : CallKind)
    (recv : Exprs) (name : String) (args : Args) (hr : recv.WF) (ha : args.WF) :
    evalC P m ρ (.callx kind recv name args) = evalRt P m ρ (.callx kind recv name args) ∧
    ∀ recv' args', HoistList P ρ recv recv' → HoistArgs P ρ args args' →
      evalC P m ρ (.callx kind recv' name args') = evalC P m ρ (.callx kind recv name args) := by
  have hw : (Expr.callx kind recv name args).WF := by simp only [Expr.WF]; exact ⟨hr, ha⟩
  refine ⟨fold_transparent P hP m ρ _ hw, ?_⟩
  intro recv' args' h1 h2
  exact hoist_transparent P hP m ρ _ _ hw (by rw [Hoist]; exact ⟨recv', args', rfl, h1, h2⟩)

/-- the static path really is taken in the general form, also next to a `*splat` -/
theorem static_kwargs_path_all_forms (P : Prims) (m : Mode) (ρ : Env) (kind : CallKind) (recv : Exprs)
    (name : String) (args : Args) (hs : P.codegenSpecial "static-kwargs" = true)
    (ks : List (String × V)) (hk : constKwArgs args = some ks) :
    evalC P m ρ (.callx kind recv name args) =
      (match evalCList P m ρ recv with
       | .error e => .error e
       | .ok rv => match evalCArgsPos P m ρ args with
         | .error e => .error e
         | .ok ps => P.callX m kind name rv (ps ++ kwPieces ks)) := by
  rw [evalC]; simp only [hk, hs, gate]
  cases evalCList P m ρ recv with
  | error e => rfl
  | ok rv => cases evalCArgsPos P m ρ args <;> rfl

/-- `**splat` switches the static path off, `*splat` does not (`static_kwargs = false` only in the
    `KwargSplat` arm and for a non-constant keyword value) -/
theorem splats_and_the_static_path (e : Expr) (rest : Args) :
    constKwArgs (.kwSplat e rest) = none ∧ constKwArgs (.posSplat e rest) = constKwArgs rest ∧
    constKwArgs (.pos e rest) = constKwArgs rest := by
  simp [constKwArgs]

/-- `ob.m(*[1, 2], ka=3)`: a method call with a `*splat` and a static keyword argument -/
example : constKwArgs (.posSplat (.list (.cons (.const (.int 1)) (.cons (.const (.int 2)) .nil)))
      (.kw "ka" (.const (.int 3)) .nil)) = some [("ka", .int 3)] ∧
    evalC P0 .strict ρ0 (.callx .method (.cons (.var "v0") .nil) "m"
      (.posSplat (.list (.cons (.const (.int 1)) (.cons (.const (.int 2)) .nil))) (.kw "ka" (.const (.int 3)) .nil)))
      = .ok (.list [.int 0, .list [.int 1, .int 2], .int 3]) := by
  refine ⟨by simp [constKwArgs], ?_⟩
  simp [evalC, evalCList, evalCArgsPos, constKwArgs, kwPieces, gate, folded, foldFirst, asConst, constValues, lookup, ρ0, P0, P0callX]

/-- the call of a `{% call %}` block on any callee with any arguments keeps its caller, and literal
    and variable arguments behave alike -/
theorem call_block_all_forms_keep_caller (P : Prims) (hP : P.Lawful)
    (hs : P.codegenSpecial "static-kwargs-off-for-caller" = true) (m : Mode) (ρ : Env) (kind : CallKind)
    (recv recv' : Exprs) (name : String) (args args' : Args) (caller : V) (hr : recv.WF) (ha : args.WF)
    (h1 : HoistList P ρ recv recv') (h2 : HoistArgs P ρ args args') :
    evalCallBlockXC P m ρ kind recv name args caller = evalCallBlockXRt P m ρ kind recv name args caller ∧
    evalCallBlockXC P m ρ kind recv' name args' caller = evalCallBlockXC P m ρ kind recv name args caller := by
  have e1 := evalCallBlockX_eq m ρ hP hs kind recv name args caller hr ha
  refine ⟨e1, ?_⟩
  rw [evalCallBlockX_eq m ρ hP hs kind recv' name args' caller (hoistList_WF' ρ recv recv' hr h1)
    (hoistArgs_WF' ρ args args' ha h2), e1]
  exact evalCallBlockX_hoist m ρ hP kind recv recv' name args args' caller hr ha h1 h2

/-- `{% call ob.m(ka=1) %}`: the keyword pieces are `ka` and the caller -/
example : evalCallBlockXC P0 .lenient ρ0 .method (.cons (.var "v1") .nil) "m" (.kw "ka" (.const (.int 5)) .nil) (.other 7)
    = .ok (.list [.int 1, .int 5, .other 7]) := by
  simp [evalCallBlockXC, evalCList, evalCArgsPos, evalCArgsKw, evalC, gate, lookup, ρ0, P0, P0callX]

/-! ## `a in <literal container>`: one relation for every container length and item kind

The seeded change C04-5 compiled the right operand of `in` into a lookup map (searched through `Ord`)
when it was a literal list of eight or more plain literals and the left operand was not constant,
while the folder and lists supplied through variables are scanned with `==`.  In the code as it is,
the right operand of `in` is compiled like any other operand: a literal container is ONE `LoadConst` of
the very list the folder builds, followed by `In`. -/

/-- the emitted code, for every number of items and every kind of item: the code of the left operand,
    `LoadConst(list)`, `In` -/
theorem in_literal_container_code (P : Prims) (hL : P.foldsVariant "List" = true)
    (hF : P.codegenSpecial "fold-first" = true) (l : Expr) (items : Exprs) (vs : List V)
    (hc : constValues items = some vs) (hl : asConst P l = none) :
    constsC P (.bin .in_ l (.list items)) = constsC P l ++ [.list vs] ∧
    ∀ (m : Mode) (ρ : Env), evalC P m ρ (.bin .in_ l (.list items)) =
      (match evalC P m ρ l with
       | .error e => .error e
       | .ok a => inInstr P m a (.list vs)) := by
  have h1 : foldFirst P (.bin .in_ l (.list items)) = none := by
    simp [foldFirst, asConst, hl, gate]
  have h2 : foldFirst P (.list items) = some (.list vs) := by
    simp [foldFirst, asConst, hc, gate, hL, hF]
  refine ⟨?_, ?_⟩
  · simp [constsC, foldedK, h1, h2]
  · intro m ρ
    rw [evalC] <;> try (intro h; cases h)
    simp only [folded, h1]
    cases evalC P m ρ l with
    | error e => rfl
    | ok a => simp [evalC, folded, h2, binInstr]

/-- … and the same for a tuple literal -/
theorem in_literal_tuple_code (P : Prims) (hL : P.foldsVariant "Tuple" = true)
    (hF : P.codegenSpecial "fold-first" = true) (l : Expr) (items : Exprs) (vs : List V)
    (hc : constValues items = some vs) (hl : asConst P l = none) :
    constsC P (.bin .in_ l (.tuple items)) = constsC P l ++ [.tuple vs] ∧
    ∀ (m : Mode) (ρ : Env), evalC P m ρ (.bin .in_ l (.tuple items)) =
      (match evalC P m ρ l with
       | .error e => .error e
       | .ok a => inInstr P m a (.tuple vs)) := by
  have h1 : foldFirst P (.bin .in_ l (.tuple items)) = none := by
    simp [foldFirst, asConst, hl, gate]
  have h2 : foldFirst P (.tuple items) = some (.tuple vs) := by
    simp [foldFirst, asConst, hc, gate, hL, hF]
  refine ⟨?_, ?_⟩
  · simp [constsC, foldedK, h1, h2]
  · intro m ρ
    rw [evalC] <;> try (intro h; cases h)
    simp only [folded, h1]
    cases evalC P m ρ l with
    | error e => rfl
    | ok a => simp [evalC, folded, h2, binInstr]

/-- All four hoisting variants of `a in [c₁, …, cₙ]` - everything literal (folded at compile time),
    the left operand a variable, the container a variable, both variables - ask the SAME question
    `contains([c₁, …, cₙ], a)` of the shared `ops::contains`, whatever n and whatever the kinds of `a`
    and of the items: no variant goes through another comparison relation. -/
theorem in_literal_container_same_relation (P : Prims) (hB : P.foldsVariant "BinOp" = true)
    (hL : P.foldsVariant "List" = true) (hF : P.codegenSpecial "fold-first" = true)
    (m : Mode) (ρ : Env) (a : V) (ha : a ≠ .undef) (items : Exprs) (vs : List V)
    (hc : constValues items = some vs) (x xs : String) (hx : ρ x = some a) (hxs : ρ xs = some (.list vs)) :
    asConst P (.bin .in_ (.const a) (.list items)) = Except.toOpt (P.contains (.list vs) a) ∧
    evalC P m ρ (.bin .in_ (.var x) (.list items)) = P.contains (.list vs) a ∧
    evalC P m ρ (.bin .in_ (.const a) (.var xs)) = P.contains (.list vs) a ∧
    evalC P m ρ (.bin .in_ (.var x) (.var xs)) = P.contains (.list vs) a := by
  have hin : inInstr P m a (.list vs) = P.contains (.list vs) a := by
    cases a <;> first | exact absurd rfl ha | simp [inInstr, assertDefined]
  refine ⟨?_, ?_, ?_, ?_⟩
  · simp [asConst, hc, gate, hB, hL, evalBinop]
  · have := (in_literal_container_code P hL hF (.var x) items vs hc (by simp [asConst])).2 m ρ
    rw [this]
    simp [evalC, lookup, hx, hin]
  · rw [evalC] <;> try (intro h; cases h)
    simp [folded, foldFirst, asConst, gate, evalC, lookup, hxs, binInstr, hin]
  · rw [evalC] <;> try (intro h; cases h)
    simp [folded, foldFirst, asConst, gate, evalC, lookup, hx, hxs, binInstr, hin]

/-- nine items, a boolean asked for among numbers (the shape of the seeded change's failing input) -/
example : constValues (.cons (.const (.int 0)) (.cons (.const (.int 1)) (.cons (.const (.int 2)) (.cons (.const (.int 3))
      (.cons (.const (.int 5)) (.cons (.const (.int 8)) (.cons (.const (.int 13)) (.cons (.const (.int 21))
      (.cons (.const (.int 34)) .nil)))))))))
    = some [.int 0, .int 1, .int 2, .int 3, .int 5, .int 8, .int 13, .int 21, .int 34] := by
  simp [constValues]

example : asConst P0 (.var "v0") = none ∧ P0.foldsVariant "List" = true ∧ P0.codegenSpecial "fold-first" = true ∧
    (V.bool true) ≠ .undef := by
  simp [asConst, P0]

/-- `not in` on a literal container: a one-link comparison chain ends in `In; Not` on the same list -/
theorem not_in_literal_container_code (P : Prims) (hL : P.foldsVariant "List" = true)
    (hF : P.codegenSpecial "fold-first" = true) (l : Expr) (items : Exprs) (vs : List V)
    (hc : constValues items = some vs) (hl : asConst P l = none) (m : Mode) (ρ : Env) :
    evalC P m ρ (.cmp l (.cons .notIn (.list items) .nil)) =
      (match evalC P m ρ l with
       | .error e => .error e
       | .ok a => match inInstr P m a (.list vs) with
         | .error e => .error e
         | .ok v => notInstr P m v) := by
  have h1 : foldFirst P (.cmp l (.cons .notIn (.list items) .nil)) = none := by
    simp [foldFirst, asConst, hl, gate]
  have h2 : foldFirst P (.list items) = some (.list vs) := by
    simp [foldFirst, asConst, hc, gate, hL, hF]
  rw [evalC] <;> try (intro h; cases h)
  simp only [folded, h1]
  cases evalC P m ρ l with
  | error e => rfl
  | ok a =>
    simp [evalCChain, evalC, folded, h2, finalCompare]
    cases inInstr P m a (.list vs) <;> rfl

/-! ## the full statement -/

theorem C04_holds : C04_full := by
  intro P hP m ρ e hw
  refine ⟨?_, ?_, ?_⟩
  · intro e' h
    rw [exec_compileTop P hP m ρ e' (hoist_WF' ρ e e' hw h), exec_compileTop P hP m ρ e hw]
    exact hoist_transparent_rt P hP m ρ e e' hw h
  · intro err h
    rw [exec_compileTop P hP m ρ e hw] at h
    exact (load_never_fails_on_const_error P hP m ρ e hw err h).1
  · intro err h
    exact (load_never_fails_on_const_error P hP m ρ e hw err h).2

/-! ## static keyword arguments and the caller of a `{% call %}` block -/

/-- The call of a call block (`{% call m(title="Hello") %}…{% endcall %}`) passes the user's keyword
    arguments followed by the generated `caller` macro, also when every keyword value is a literal:
    under the guard found in the source (`static_kwargs = caller.is_none()`) the emitted code equals
    the run-time semantics, so literal and variable keyword values behave alike. -/
theorem call_block_static_kwargs_keep_caller (P : Prims) (hP : P.Lawful)
    (hs : P.codegenSpecial "static-kwargs-off-for-caller" = true) (m : Mode) (ρ : Env)
    (name : String) (pos : Exprs) (kws : Kws) (caller : V) (hp : pos.WF) (hk : kws.WF) :
    evalCallBlockC P m ρ name pos kws caller = evalCallBlockRt P m ρ name pos kws caller :=
  evalCallBlock_eq m ρ hP hs name pos kws caller hp hk

/-- … and hoisting literals of its arguments into variables changes nothing -/
theorem call_block_hoist_transparent (P : Prims) (hP : P.Lawful)
    (hs : P.codegenSpecial "static-kwargs-off-for-caller" = true) (m : Mode) (ρ : Env)
    (name : String) (pos pos' : Exprs) (kws kws' : Kws) (caller : V) (hp : pos.WF) (hk : kws.WF)
    (h1 : HoistList P ρ pos pos') (h2 : HoistKws P ρ kws kws') :
    evalCallBlockC P m ρ name pos' kws' caller = evalCallBlockC P m ρ name pos kws caller := by
  rw [evalCallBlock_eq m ρ hP hs name pos' kws' caller (hoistList_WF' ρ pos pos' hp h1) (hoistKws_WF' ρ kws kws' hk h2),
    evalCallBlock_eq m ρ hP hs name pos kws caller hp hk]
  exact evalCallBlock_hoist m ρ hP name pos pos' kws kws' caller hp hk h1 h2

example : P0.codegenSpecial "static-kwargs-off-for-caller" = true := rfl

/-- `m(title="Hello")` of a call block: the keyword map is `[title, caller]` -/
example : evalCallBlockC P0 .lenient ρ0 "m" .nil (.cons "title" (.const (.str "Hello")) .nil) (.other 7)
    = .ok (.list [.str "Hello", .other 7]) := by
  simp [evalCallBlockC, evalCList, evalCKws, evalC, gate, P0]

/-- without that guard (the seeded change C04-4: `static_kwargs = true`) the static path drops the
    caller exactly when all keyword values are literals: the emitted code differs from the run-time
    semantics, and from the same call with the literal hoisted -/
theorem call_block_without_guard_drops_caller :
    ∃ (P : Prims), P.Lawful ∧ P.codegenSpecial "static-kwargs-off-for-caller" = false ∧
      ∃ m ρ name kws caller, kws.WF ∧
        evalCallBlockC P m ρ name .nil kws caller ≠ evalCallBlockRt P m ρ name .nil kws caller := by
  refine ⟨{ P0 with codegenSpecial := fun s => s != "static-kwargs-off-for-caller" }, ?_, by decide, .lenient, ρ0, "m",
    .cons "title" (.const (.str "Hello")) .nil, .other 7, by simp [Kws.WF, Expr.WF], ?_⟩
  · exact { P0_lawful with }
  · simp [evalCallBlockC, evalCallBlockRt, evalCList, evalRtList, evalRtKws, evalRt, constKws, gate, P0]

/-! ## statements: literals in statement heads

A statement is compiled by compiling its head expressions through `compile_expr` and ALL of its
statement lists, unconditionally (`stmt_traversal_from_source`): the block table - the compile-time
effect of a template - and the set of macro declarations are functions of the tree's shape, and what
a statement does at run time is a function of the values its compiled heads take. -/

/-- Statement-level transparency: hoisting any subset of the literal sub-expressions of any heads of
    a template (conditions of `if`, the iterable of `for`, the value of `set`/`with`, macro
    defaults, filter arguments, include/extends/import targets, the arguments of `call`/`do`) into
    variables changes neither the block table the code generator registers, nor the macro
    declarations, nor the value (or error) of any compiled head in any environment of the scopes'
    family `R` - in particular a condition that folds to a constant registers the blocks of BOTH
    branches, exactly as a variable condition does. -/
theorem stmt_hoist_transparent (P : Prims) (hP : P.Lawful) (R : Env → Prop) (s s' : Stmt) (hw : s.WF)
    (h : HoistS P R s s') :
    registeredBlocks s' = registeredBlocks s ∧ declaredMacros s' = declaredMacros s ∧
    ∀ (m : Mode) (ρ : Env), R ρ → headVals P m ρ s' = headVals P m ρ s :=
  ⟨hoistS_blocks s s' h, hoistS_macros s s' h, fun m ρ hρ => hoistS_headVals m ρ hP hρ s s' hw h⟩

/-- `{% if false %}{% block b %}…{% endblock %}{% endif %}` and the same with the condition hoisted -/
def s_if_lit : Stmt := .mk "IfCond" "" (.cons (.const (.bool false)) .nil)
  (.cons (.cons (.mk "Block" "b" .nil (.cons .nil .nil)) .nil) (.cons .nil .nil))
def s_if_var : Stmt := .mk "IfCond" "" (.cons (.var "c") .nil)
  (.cons (.cons (.mk "Block" "b" .nil (.cons .nil .nil)) .nil) (.cons .nil .nil))
/-- the scopes bind `c` to the literal's value -/
def Rc : Env → Prop := fun ρ => ρ "c" = some (.bool false)

theorem s_if_hoist (P : Prims) : HoistS P Rc s_if_lit s_if_var := by
  simp only [s_if_lit, s_if_var, HoistS, HoistBodies, HoistStmts, HoistList]
  refine ⟨_, _, rfl, ?_, _, _, rfl, ⟨_, _, rfl, ⟨_, _, rfl, ?_, _, _, rfl, rfl, rfl⟩, rfl⟩, _, _, rfl, rfl, rfl⟩
  · intro ρ hρ
    exact ⟨_, _, rfl, by rw [Hoist]; exact Or.inr ⟨"c", .bool false, rfl, by simp [asConst], hρ⟩, rfl⟩
  · intro ρ _; rfl

example : s_if_lit.WF ∧ registeredBlocks s_if_lit = ["b"] ∧ registeredBlocks s_if_var = ["b"] := by
  refine ⟨by simp [s_if_lit, Stmt.WF, Bodies.WF, Stmts.WF, Exprs.WF, Expr.WF], by decide, by decide⟩

/-- Constant-condition elimination (the seeded change C04-3: only the taken branch of an `if` whose
    condition folds is compiled) is NOT transparent: the block of the untaken branch is registered
    when the condition is a variable and missing when it is the literal - so the theorem above is a
    statement about the traversal the source has, not about any traversal. -/
theorem const_if_elimination_breaks_block_table :
    ∃ (P : Prims) (R : Env → Prop) (s s' : Stmt), P.Lawful ∧ s.WF ∧ HoistS P R s s' ∧
      registeredBlocksElim P s' ≠ registeredBlocksElim P s ∧ registeredBlocks s' = registeredBlocks s := by
  refine ⟨P0, Rc, s_if_lit, s_if_var, P0_lawful, ?_, s_if_hoist P0, ?_, by decide⟩
  · simp [s_if_lit, Stmt.WF, Bodies.WF, Stmts.WF, Exprs.WF, Expr.WF]
  · simp [s_if_lit, s_if_var, registeredBlocksElim, blocksOfStmtsElim, blocksOfBodiesElim, asConst, P0]

/-! ## the concrete, source-tied instance

`Conc.prims` is the transcription of `value/ops.rs` & co. that the driver runs against the real
engine on every harness case (i128 range checks, string concat/repeat, exact binary64, `==`/`Ord`,
`in`, map construction with duplicate keys, truthiness, item access, slices, the modelled filters
and tests), with the folder's dispatch tables read from the regenerated `MJ.Gen` tables. -/

/-- it satisfies the laws the theorems assume -/
theorem concrete_prims_lawful : Conc.prims.Lawful := Conc.prims_lawful

/-- its folder dispatches over the arms of `Expr::as_const` and the special cases of
    `compile_expr`/`compile_call_args` as regenerated from the source -/
theorem concrete_tables_are_source :
    (∀ v, Conc.prims.foldsVariant v = MJ.Gen.asConstArms.contains v) ∧
    (∀ s, Conc.prims.codegenSpecial s = MJ.Gen.codegenSpecials.contains s) :=
  ⟨fun _ => rfl, fun _ => rfl⟩

/-- the guard is in the source (regenerated: `let mut static_kwargs = caller.is_none();`), so the
    call-block theorem applies to the source-tied instance; the seeded change C04-4 makes this
    `decide` fail -/
theorem concrete_call_block_keeps_caller (m : Mode) (ρ : Env) (name : String) (pos : Exprs) (kws : Kws)
    (caller : V) (hp : pos.WF) (hk : kws.WF) :
    evalCallBlockC Conc.prims m ρ name pos kws caller = evalCallBlockRt Conc.prims m ρ name pos kws caller :=
  call_block_static_kwargs_keep_caller Conc.prims concrete_prims_lawful (by decide) m ρ name pos kws caller hp hk

/-- `in` on a literal container for the source-tied instance: the arms `List`/`BinOp` of `as_const` and
    the fold-first scheme are in the regenerated tables, so every hoisting variant of
    `a in [c₁, …, cₙ]` evaluates `Conc.contains [c₁, …, cₙ] a` (the transcription of `ops::contains`:
    a scan with `==`) for every n and every kind of `a` and of the items -/
theorem concrete_in_literal_container (m : Mode) (ρ : Env) (a : V) (ha : a ≠ .undef) (items : Exprs) (vs : List V)
    (hc : constValues items = some vs) (x xs : String) (hx : ρ x = some a) (hxs : ρ xs = some (.list vs)) :
    asConst Conc.prims (.bin .in_ (.const a) (.list items)) = Except.toOpt (Conc.prims.contains (.list vs) a) ∧
    evalC Conc.prims m ρ (.bin .in_ (.var x) (.list items)) = Conc.prims.contains (.list vs) a ∧
    evalC Conc.prims m ρ (.bin .in_ (.const a) (.var xs)) = Conc.prims.contains (.list vs) a ∧
    evalC Conc.prims m ρ (.bin .in_ (.var x) (.var xs)) = Conc.prims.contains (.list vs) a :=
  in_literal_container_same_relation Conc.prims (by decide) (by decide) (by decide) m ρ a ha items vs hc x xs hx hxs

/-- the call-block theorem in its general form for the source-tied instance -/
theorem concrete_call_block_all_forms (m : Mode) (ρ : Env) (kind : CallKind) (recv : Exprs) (name : String)
    (args : Args) (caller : V) (hr : recv.WF) (ha : args.WF) :
    evalCallBlockXC Conc.prims m ρ kind recv name args caller = evalCallBlockXRt Conc.prims m ρ kind recv name args caller :=
  evalCallBlockX_eq m ρ concrete_prims_lawful (by decide) kind recv name args caller hr ha

/-- the full statement for the concrete model: no hypothesis about the value operations is left -/
theorem C04_concrete (m : Mode) (ρ : Env) (e : Expr) (hw : e.WF) :
    (∀ e', Hoist Conc.prims ρ e e' →
      exec Conc.prims m ρ (compileTop Conc.prims e') = exec Conc.prims m ρ (compileTop Conc.prims e)) ∧
    (∀ err, exec Conc.prims m ρ (compileTop Conc.prims e) = .error err → compileTop Conc.prims e = .runtime e) ∧
    (∀ err, evalRt Conc.prims m ρ e = .error err → exec Conc.prims m ρ (compileTop Conc.prims e) = .error err) :=
  C04_holds Conc.prims concrete_prims_lawful m ρ e hw

example : (Expr.bin .and (.const (.int 0)) (.const (.int 1))).WF := by simp [Expr.WF]

/-- duplicate keys: in the concrete model the LAST pair of a map literal determines the value of
    its key - on the folder's side (`Map::as_const`) and on the VM's side (`BuildMap`) alike, since
    both go through the same `mkMap` in source order (the seeded change C04-1 broke exactly this in
    the VM) -/
theorem concrete_map_last_wins (ps : List (V × V)) (k v : V) :
    ∃ m, Conc.prims.mkMap (ps ++ [(k, v)]) = .map m ∧ Conc.mapGet k m = some v :=
  Conc.mkMap_last_wins ps k v

example : ∃ m, Conc.prims.mkMap ([(.str "a", .int 1), (.str "b", .int 5)] ++ [(.str "a", .int 2)]) = .map m ∧
    Conc.mapGet (.str "a") m = some (.int 2) :=
  concrete_map_last_wins _ _ _

/-- … and the last keyword argument of a name wins (`f(a=1, a=2)`) -/
theorem concrete_kwargs_last_wins (k : String) (v : V) (m : List (String × V)) :
    (Conc.kwInsert k v m).lookup k = some v :=
  Conc.kwInsert_self k v m

example : (Conc.kwInsert "a" (.int 2) [("a", .int 1)]).lookup "a" = some (.int 2) :=
  concrete_kwargs_last_wins _ _ _

/-! ## the instruction stream of `compile_expr` (`MJ/Model/FoldCode.lean`)

`codeC e` is the list of instructions the code generator emits for `e` (compared with the real stream of
every dumped hoisting variant on every run: instruction names, operands, relative jump targets, argument
counts); `run` executes it on a value stack with the VM's handlers.  For the whole call-free expression
language (`Expr.Core`: constants, variables, lists, tuples, maps, `not`, `-`, every binary operator incl.
the jumps of `and`/`or`, comparison chains with `CompareAndPreserve` and their cleanup code, attribute
and item access, slices, conditional expressions) running the code pushes exactly the value of the
unfolded run-time semantics and fails exactly when it fails - whatever literals were folded.  A code
generator rewrite of a NON-constant expression (a peephole) therefore either changes the stream (the
correspondence breaks) or has to be added to `codeC`, where this theorem has to be proved again. -/

theorem compile_transparent (P : Prims) (hP : P.Lawful) (m : Mode) (ρ : Env) (e : Expr) (hw : e.WF) (hc : e.Core)
    (rest : List Instr) (st : List V) :
    run P m ρ (codeC P e ++ rest) 0 st =
      match evalRt P m ρ e with
      | .ok v => run P m ρ rest 0 (v :: st)
      | .error err => .error err := by
  rw [← evalC_eq_evalRt' m ρ hP e hw]
  exact run_codeC P m ρ hP.isTrue_bool e hc rest st

/-- the whole expression on an empty stack: one value, or the error of the run-time semantics -/
theorem compile_transparent_top (P : Prims) (hP : P.Lawful) (m : Mode) (ρ : Env) (e : Expr) (hw : e.WF) (hc : e.Core) :
    run P m ρ (codeC P e) 0 [] =
      match evalRt P m ρ e with
      | .ok v => .ok [v]
      | .error err => .error err := by
  have := compile_transparent P hP m ρ e hw hc [] []
  simp only [List.append_nil] at this
  rw [this]
  cases evalRt P m ρ e <;> simp [run]

/-- `not (v0 >= 0)` with `v0 = 0`: a chain inside, jumps, a conditional - a non-trivial member of `Expr.Core` -/
def e_core : Expr :=
  .ifExpr (.not (.bin .ge (.var "v0") (.const (.int 0))))
    (.const (.int 7))
    (.some (.bin .and (.cmp (.var "v0") (.cons .le (.var "v1") (.cons .lt (.const (.int 2)) .nil))) (.var "v1")))

example : e_core.WF ∧ e_core.Core ∧ (codeC P0 e_core).length = 18 ∧
    run P0 .strict ρ0 (codeC P0 e_core) 0 [] = .ok [.int 1] := by
  refine ⟨by simp [e_core, Expr.WF, OptExpr.WF, Chain.WF], by simp [e_core, Expr.Core, OptExpr.Core, Chain.Core], by rfl, by rfl⟩

/-- The seeded peephole (`not (a >= b)` compiled to `a; b; Lte`) is NOT transparent in this model: at equal
    operands the rewritten stream computes `true`, the run-time semantics (and the folder) `false`. -/
theorem negated_ge_peephole_is_not_transparent :
    ∃ (P : Prims), P.Lawful ∧ ∃ (m : Mode) (ρ : Env) (a b : Expr),
      (Expr.not (.bin .ge a b)).WF ∧ (Expr.not (.bin .ge a b)).Core ∧
      run P m ρ (codeC P a ++ codeC P b ++ [.bin .le]) 0 [] ≠
        (match evalRt P m ρ (.not (.bin .ge a b)) with
         | .ok v => .ok [v]
         | .error err => .error err) := by
  refine ⟨P0, P0_lawful, .lenient, ρ0, .var "v0", .const (.int 0), by simp [Expr.WF], by simp [Expr.Core], ?_⟩
  have h1 : run P0 .lenient ρ0 (codeC P0 (.var "v0") ++ codeC P0 (.const (.int 0)) ++ [.bin .le]) 0 [] = .ok [.bool true] := by rfl
  have h2 : evalRt P0 .lenient ρ0 (.not (.bin .ge (.var "v0") (.const (.int 0)))) = .ok (.bool false) := by rfl
  rw [h1, h2]
  simp

/-! ## the defect that was fixed (`fix:` commit 25af7fa)

Before the fix `eval_binop` folded `a and b` to `false` whenever an operand was falsy
(`evalBinopOld`), while the jump code returns the deciding operand: the folder was unsound. -/

theorem old_and_fold_unsound :
    ∃ (P : Prims), P.Lawful ∧ ∃ a b v, a ≠ .undef ∧ b ≠ .undef ∧
      evalBinopOld P .and a b = some v ∧
      ∀ (m : Mode) (ρ : Env), evalRt P m ρ (.bin .and (.const a) (.const b)) ≠ .ok v := by
  refine ⟨P0, P0_lawful, .int 0, .int 1, .bool false, by simp, by simp, by simp [evalBinopOld, P0], ?_⟩
  intro m ρ
  cases m <;> simp [evalRt, isTrueM, P0]

end MJ.C04
